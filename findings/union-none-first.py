"""Default engine: Union[None, X] took the Optional shortcut with base_types[0] (NoneType) as the member, so every
non-None value was returned unconverted: Union[None, time] loaded '04:31:00Z' as a str and junk was accepted as it was;
Optional[X] / Union[X, None] were fine.  Contradicts C01: "fromdict(asdict(x)) == x", C04 (documented coercions) and
C05: "returns an instance every field of which ... is a value of its annotated type".  Repaired by c09ee51."""
import os, sys; sys.path.insert(0, os.environ.get('VERIF_REPO', '/repo'))
from dataclasses import dataclass
from datetime import time, timezone
from typing import Union


def main():
    from dataclass_wizard import asdict, fromdict

    @dataclass
    class A:
        t: Union[None, time]
        n: Union[None, int] = None

    x = A(time(4, 31, tzinfo=timezone.utc), 7)
    seen = []
    y = fromdict(A, asdict(x))
    if y != x:
        seen.append(f'round trip of {x!r} gave {y!r}')
    z = fromdict(A, {'t': None, 'n': '12'})
    if z.n != 12:
        seen.append(f"Union[None, int] loaded '12' as {z.n!r}")
    try:
        z = fromdict(A, {'t': None, 'n': {'junk': []}})
        seen.append(f'Union[None, int] accepted {z.n!r}')
    except Exception:                            # any rejection is fine here
        pass
    return [s.replace('main.<locals>.', '') for s in seen]


try:
    seen = main()
except Exception as e:                                      # the script itself is broken
    print(f'script error: {type(e).__name__}: {e}'); sys.exit(2)
if seen:
    print('default engine, Union[None, X] returns non-None values unconverted: ' + '; '.join(seen)); sys.exit(1)
print('not manifested')
