"""Load: a plain dataclass used as a field type by both a default-engine dataclass and an EnvWizard class is loaded with the
coercions of whichever class reached it first - its field parsers are cached per class (FIELD_NAME_TO_LOAD_PARSER), not per
(class, loader).  EnvWizard first: the JSON dataclass afterwards accepts a numeric string as epoch timestamp and splits
'80, 443' like an environment value (more than the documented default-engine coercions).  JSON dataclass first: the EnvWizard
class no longer applies its own coercions to the members.  Contradicts C04: "loading applies the documented coercions, and only
those ... at every nesting depth and to EnvWizard values".  Same root cause as `shared-nested-config-leak` (C06 / C07)."""
import os, sys; sys.path.insert(0, os.environ.get('VERIF_REPO', '/repo'))
from dataclasses import dataclass
from datetime import datetime
from typing import List


def main():
    from dataclass_wizard import EnvWizard, fromdict

    @dataclass
    class Slot:
        opens: datetime
        ports: List[int]

    @dataclass
    class Alone:                                    # reference: the same members, loaded by the default engine only
        opens: datetime
        ports: List[int]

    doc = {'opens': '1700000000', 'ports': '80, 443'}
    try:
        fromdict(Alone, dict(doc))
        raise AssertionError('the default engine accepts the environment-style members on its own')
    except AssertionError:
        raise
    except Exception:
        pass

    class Settings(EnvWizard):
        slot: Slot

    Settings(slot=dict(doc))                        # step 1: the EnvWizard class loads Slot with its coercions

    @dataclass
    class Booking:
        slot: Slot

    try:
        y = fromdict(Booking, {'slot': dict(doc)})  # step 2: the default engine reaches the same Slot
    except Exception:
        return []
    return [repr(y.slot)]


try:
    seen = main()
except Exception as e:                                      # the script itself is broken
    print(f'script error: {type(e).__name__}: {e}'); sys.exit(2)
if seen:
    print('after an EnvWizard class loaded the nested dataclass, the default engine applies EnvWizard coercions to its members '
          "(numeric string as timestamp, '80, 443' split): " + '; '.join(seen).replace('main.<locals>.', '')); sys.exit(1)
print('not manifested')
