"""Default engine: a fixed-length tuple annotation with Optional / None-accepting members (tuple[int, Optional[str]])
accepts a shorter list and returns a shorter tuple ((1,)): TupleParser.required_count counts only the non-optional
members and zip() truncates.  Contradicts C05: a returned field is "a value of its annotated type (exact container
type, element types ...)" - a 1-tuple is not a tuple[int, Optional[str]]."""
import os, sys; sys.path.insert(0, os.environ.get('VERIF_REPO', '/repo'))
from dataclasses import dataclass
from typing import Optional


def main():
    from dataclass_wizard import fromdict

    @dataclass
    class A:
        t: tuple[int, Optional[str]]
        ts: list[tuple[Optional[int], str, Optional[float]]]

    seen = []
    for doc in ({'t': [1], 'ts': []}, {'t': [1, 'a'], 'ts': [[None, 'b']]}):
        try:
            r = fromdict(A, doc)
        except Exception:                        # any rejection is fine here
            continue
        if len(r.t) != 2 or any(len(t) != 3 for t in r.ts):
            seen.append(f'{doc!r} loaded as {r!r}')
    return seen


try:
    seen = main()
except Exception as e:                                      # the script itself is broken
    print(f'script error: {type(e).__name__}: {e}'); sys.exit(2)
if seen:
    print('fixed-length tuple with Optional members loaded from a shorter list: ' + '; '.join(seen).replace('main.<locals>.', ''))
    sys.exit(1)
print('not manifested')
