"""Default engine, debug mode: a MissingFields / UnknownKeysError raised for a dataclass inside a Dict[str, Inner] value was
turned into a ParseError by the try_with_load wrapper of the dict hook (repaired by 596285b).  Exit 1 when it manifests."""
import sys, os; sys.path.insert(0, os.environ.get('VERIF_REPO', '/repo'))
from dataclasses import dataclass
from typing import Dict, List
from dataclass_wizard import JSONWizard
from dataclass_wizard.errors import MissingFields, ParseError, UnknownJSONKey
import logging; logging.disable(logging.CRITICAL)
bad = 0
for dbg in (False, True):
    @dataclass
    class Inner:
        a: int
        b: int = 0
    @dataclass
    class Outer(JSONWizard):
        class _(JSONWizard.Meta):
            debug_enabled = dbg
            raise_on_unknown_json_key = True
        by: Dict[str, Inner]
        xs: List[Inner]
    for doc in ({'by': {'k': {'b': 1}}, 'xs': []}, {'by': {}, 'xs': [{'b': 1}]}, {'by': {'k': {'a': 1, 'zz': 2}}, 'xs': []}):
        try:
            Outer.from_dict(doc); print(dbg, 'accepted')
        except Exception as e:
            print(dbg, doc, type(e).__name__)
            if dbg and type(e).__name__ == 'ParseError': bad += 1
sys.exit(1 if bad else 0)
