"""Both engines: a nested class that sets tag_key in its OWN Meta and holds a Union of tagged dataclasses does not get its
own setting when it is reached through a main class: the Union code is generated from the main class's config
(extras['config']), so nested below a main class that sets nothing it rejects its own tag key 'type' and accepts
'__tag__'; loaded on its own it finds the tag under 'type'.  Contradicts C12: "each nested dataclass reached through it
behaves under the merge of its own Meta and the root's: every setting the nested class sets itself wins"."""
import os, sys; sys.path.insert(0, os.environ.get('VERIF_REPO', '/repo'))
from dataclasses import dataclass
from typing import Union


def classes(**engine):
    from dataclass_wizard import LoadMeta

    @dataclass
    class X:
        a: int

    @dataclass
    class Y:
        b: int

    LoadMeta(tag='x').bind_to(X)
    LoadMeta(tag='y').bind_to(Y)

    @dataclass
    class Holder:
        u: Union[X, Y]

    LoadMeta(tag_key='type', **engine).bind_to(Holder)     # the nested class's OWN setting

    @dataclass
    class Root:
        h: Holder

    LoadMeta(**engine).bind_to(Root)                       # the main class sets no tag_key (recursive by default)
    return X, Holder, Root


def main():
    from dataclass_wizard import fromdict
    seen = []
    for name, engine in (('default', {}), ('v1', {'v1': True})):
        X, Holder, Root = classes(**engine)
        if fromdict(Holder, {'u': {'type': 'x', 'a': 1}}) != Holder(X(1)):
            raise AssertionError(f'{name}: Holder on its own must find the tag under its own tag key')
        X, Holder, Root = classes(**engine)                # fresh classes: nested use is the first use
        for key, ok in (('type', True), ('__tag__', False)):
            doc = {'h': {'u': {key: 'x', 'a': 1}}}
            try:
                loaded = fromdict(Root, doc) == Root(Holder(X(1)))
            except Exception as e:
                loaded = False
            if loaded != ok:
                seen.append(f"{name}: tag under {key!r} {'loads' if loaded else 'is rejected'}")
    return seen


try:
    seen = main()
except Exception as e:                                      # the script itself is broken
    print(f'script error: {type(e).__name__}: {e}'); sys.exit(2)
if seen:
    print("Holder (own Meta tag_key='type', u: Union[X, Y]) nested below a main class without tag_key: " + '; '.join(seen))
    sys.exit(1)
print('not manifested')
