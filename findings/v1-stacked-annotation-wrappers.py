"""v1 engine: get_string_for_annotation stripped Annotated / Required / NotRequired once and resolved a `type` alias once,
so an alias of an alias, an alias of Annotated[<generic>, ..] and Required[Annotated[<generic>, ..]] in a TypedDict made
loader generation fail (TypeError issubclass() arg 1 must be a class / ParseError 'not currently supported').
Contradicts C02: "Building the loader for any such class succeeds: no supported annotation makes loader generation
itself fail."  Repaired by 41103de."""
import os, sys; sys.path.insert(0, os.environ.get('VERIF_REPO', '/repo'))
from dataclasses import dataclass
from typing import Annotated, Required, TypedDict


def main():
    from dataclass_wizard import JSONWizard
    type UserId = int
    type OwnerId = UserId                                   # alias of an alias
    type Tags = Annotated[list[str], 'labels']              # alias of Annotated[<generic>]

    class TD(TypedDict, total=False):
        k: Required[Annotated[frozenset[int], 'note']]      # qualifier around Annotated[<generic>]

    seen = []
    for name, tp, doc, want in (('alias-of-alias', OwnerId, 1, 1), ('list[alias-of-alias]', list[OwnerId], [1], [1]),
                                ('alias-of-Annotated-generic', Tags, ['a'], ['a']),
                                ('Required[Annotated[generic]]', TD, {'k': [1]}, {'k': frozenset({1})})):
        @dataclass
        class C(JSONWizard):
            class _(JSONWizard.Meta):
                v1 = True
            f: tp
        try:
            got = C.from_dict({'f': doc}).f
            if got != want:
                seen.append(f'{name}: loaded {got!r}')
        except Exception as e:
            seen.append(f'{name}: {type(e).__name__} {str(e).splitlines()[0][:70]}')
    return seen


try:
    seen = main()
except Exception as e:                                      # the script itself is broken
    print(f'script error: {type(e).__name__}: {e}'); sys.exit(2)
if seen:
    print('v1 loader generation fails for stacked annotation wrappers: ' + '; '.join(seen)); sys.exit(1)
print('not manifested')
