"""default engine: a class ALL of whose constructor fields are path fields (KeyPath / path_field) never loops over the
document - `loop_over_o = num_paths != len(dataclass_init_fields(cls))` in loaders.load_func_for_dataclass, the values
are fetched with safe_get only - and the loop is where unknown keys are noticed: under Meta.raise_on_unknown_json_key
such a class accepts a document with unknown top-level keys without a word, while the same class with one more,
ordinary field rejects it.  Contradicts C10: "with raise_on_unknown_json_key (default engine) ... every document
containing at least one such key is rejected with UnknownKeysError naming an unknown key and the class"."""
import os, sys; sys.path.insert(0, os.environ.get('VERIF_REPO', '/repo'))
from dataclasses import dataclass
from typing import Annotated


def main():
    from dataclass_wizard import JSONWizard, KeyPath, path_field
    from dataclass_wizard.errors import UnknownKeysError

    @dataclass
    class AllPaths(JSONWizard):
        class _(JSONWizard.Meta):
            raise_on_unknown_json_key = True
        x: Annotated[int, KeyPath('p.x')]
        y: int = path_field('q.y', default=0)

    @dataclass
    class OnePath(JSONWizard):
        class _(JSONWizard.Meta):
            raise_on_unknown_json_key = True
        x: int = path_field('p.x')

    @dataclass
    class Mixed(JSONWizard):                               # control: one ordinary field, the document is looped over
        class _(JSONWizard.Meta):
            raise_on_unknown_json_key = True
        x: Annotated[int, KeyPath('p.x')]
        z: int = 0

    seen = []
    doc = {'p': {'x': 1}, 'q': {'y': 2}}
    if AllPaths.from_dict(doc) != AllPaths(1, 2) or OnePath.from_dict({'p': {'x': 1}}) != OnePath(1) \
            or Mixed.from_dict({'p': {'x': 1}, 'z': 3}) != Mixed(1, 3):
        raise AssertionError('a document without unknown keys must load')
    for cls, d in ((Mixed, {'p': {'x': 1}, 'junk': 5}), (AllPaths, dict(doc, junk=5)), (AllPaths, {'p': {'x': 1}, 'Q': 0}),
                   (OnePath, {'p': {'x': 1}, 'junk': None}), (AllPaths, dict(doc, junk=5))):
        try:
            r = cls.from_dict(d)
            seen.append(f'{cls.__name__}: {d!r} loaded as {r!r}')
        except UnknownKeysError as e:
            if e.class_name != cls.__qualname__ or not set(e.unknown_keys if isinstance(e.unknown_keys, (list, set, tuple))
                                                           else [e.unknown_keys]) <= set(d) - {'p', 'q'}:
                seen.append(f'{cls.__name__}: {d!r}: UnknownKeysError names {e.unknown_keys!r} / {e.class_name!r}')
        if cls is Mixed and seen:
            raise AssertionError('the control (class with an ordinary field) must reject the key: ' + seen[0])
    return seen


try:
    seen = main()
except Exception as e:                                      # the script itself is broken
    print(f'script error: {type(e).__name__}: {e}'); sys.exit(2)
if seen:
    print('default engine, raise_on_unknown_json_key on a class whose constructor fields all have paths: '
          + '; '.join(' '.join(s.split()) for s in seen).replace('main.<locals>.', '')); sys.exit(1)
print('not manifested')
