"""wiz gen-schema: a key present in one sibling object and absent from another ([{"a": 1}, {"b": 2}]) becomes a required
field without default (a: int; b: int): from_dict raises MissingFields on every element of the very document
(PyDataclassGenerator.__or__ never marks an absent key Optional nor gives it a default).  Contradicts C19: the root class
"loads the very document it was generated from (from_dict for an object root, each object element for an array root)"."""
import os, sys; sys.path.insert(0, os.environ.get('VERIF_REPO', '/repo'))
import dataclasses
import importlib.util
import json
import tempfile

DOCS = [('[{"a": 1}, {"b": 2}]', {}),
        ('{"k": [{"a": 1}, {"a": 2, "b": "s"}]}', {})]


def outcome(text, tmp, n, **flags):
    """generate a schema for the JSON text, import it as a module, load the text with its root class; what went wrong"""
    from dataclass_wizard import JSONWizard
    from dataclass_wizard.wizard_cli.schema import PyCodeGenerator
    src = PyCodeGenerator(file_contents=text, experimental=flags.get('experimental', False),
                          force_strings=flags.get('force_strings', False)).py_code
    name = f'gs_generated_{n}'
    with open(os.path.join(tmp, name + '.py'), 'w', encoding='utf-8') as f:
        f.write(src)
    spec = importlib.util.spec_from_file_location(name, os.path.join(tmp, name + '.py'))
    mod = sys.modules[name] = importlib.util.module_from_spec(spec)
    try:
        spec.loader.exec_module(mod)
    except Exception as e:
        return f'import fails with {type(e).__name__}'
    root = [c for c in vars(mod).values() if isinstance(c, type) and issubclass(c, JSONWizard) and c is not JSONWizard][0]
    doc = json.loads(text)
    if isinstance(doc, dict) and len(dataclasses.fields(root)) < len(doc):
        return f'{root.__name__} declares {len(dataclasses.fields(root))} fields for {len(doc)} keys'
    try:
        for d in (doc if isinstance(doc, list) else [doc]):
            root.from_dict(d)
    except Exception as e:
        return f'{root.__name__}.from_dict fails with {type(e).__name__} ' + ' '.join(str(e).split())[:60]
    return None


def main():
    seen = []
    with tempfile.TemporaryDirectory() as tmp:
        for n, (text, flags) in enumerate(DOCS):
            what = outcome(text, tmp, n, **flags)
            if what:
                seen.append(f'{text}{" " + str(flags) if flags else ""}: {what}')
    return seen


try:
    seen = main()
except Exception as e:                                      # the script itself is broken
    print(f'script error: {type(e).__name__}: {e}'); sys.exit(2)
if seen:
    print('wiz gen-schema, the generated module does not load its source document: ' + '; '.join(seen)); sys.exit(1)
print('not manifested')
