"""v1 engine: Union[None, X] took the Optional shortcut with args[0] (NoneType) as the member: every non-None value was
'converted' by NoneType, so load(dump(x)) raised TypeError or returned a different value; Optional[X] / Union[X, None]
were fine.  Contradicts C02: "every conforming instance ... satisfies fromdict(asdict(x)) == x", and C05 (a returned
field is a value of its annotated type).  Repaired by 8510f23."""
import os, sys; sys.path.insert(0, os.environ.get('VERIF_REPO', '/repo'))
from dataclasses import dataclass
from datetime import date
from typing import Union


def main():
    from dataclass_wizard import JSONWizard

    @dataclass
    class A(JSONWizard):
        class _(JSONWizard.Meta):
            v1 = True
        n: Union[None, int]
        d: Union[None, date] = None
        s: Union[None, str] = None

    seen = []
    for x in (A(7), A(None, date(2020, 1, 2)), A(None, None, 'text'), A(None)):
        try:
            y = A.from_dict(x.to_dict())
            if y != x:
                seen.append(f'{x!r} -> {y!r}')
        except Exception as e:
            seen.append(f'{x!r} -> {type(e).__name__} ' + ' '.join(str(e).split())[:60])
    return [s.replace('main.<locals>.', '') for s in seen]


try:
    seen = main()
except Exception as e:                                      # the script itself is broken
    print(f'script error: {type(e).__name__}: {e}'); sys.exit(2)
if seen:
    print('v1, Union[None, X]: load(dump(x)) fails or differs: ' + '; '.join(seen)); sys.exit(1)
print('not manifested')
