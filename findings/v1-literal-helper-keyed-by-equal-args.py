"""v1 engine: the helper functions of `Literal[...]` (and `Union[...]`) positions are remembered per main class in
extras['recursion_guard'] under the args tuple itself (v1/decorators.py setup_recursive_safe_function: `cls = tp.args if
is_generic else tp.origin`), and tuples compare by ==: (1,) == (True,) == (1.0,), (0, 'a') == (False, 'a').  Two Literal
positions of one class whose members are equal but of different types therefore share the helper generated for the one
met first: with `a: Literal[1]; b: Literal[True]` field b accepts 1 (the instance then holds an int that is not a member
of Literal[True]) and rejects True.  Contradicts C05: "returns an instance every field of which ... is a value of its
annotated type (... Literal members by value and type ...)", and C02: from_dict(to_dict(x)) == x for the conforming
instance A(a=1, b=True) (the load raises ParseError)."""
import os, sys; sys.path.insert(0, os.environ.get('VERIF_REPO', '/repo'))
from dataclasses import dataclass
from typing import Literal


def main():
    from dataclass_wizard import JSONWizard

    @dataclass
    class A(JSONWizard):
        class _(JSONWizard.Meta):
            v1 = True
        a: Literal[1]
        b: Literal[True]

    @dataclass
    class B(JSONWizard):
        class _(JSONWizard.Meta):
            v1 = True
        a: list[Literal[False, 'u']]
        b: dict[str, Literal[0, 'u']]

    seen = []
    for cls, x, junk in ((A, A(1, True), ({'a': 1, 'b': 1}, {'a': True, 'b': True})),
                         (B, B([False, 'u'], {'k': 0}), ({'a': [], 'b': {'k': False}}, {'a': [0], 'b': {}}))):
        try:
            r = cls.from_dict(x.to_dict())
            if r != x or repr(r) != repr(x):
                seen.append(f'{cls.__name__}: {x.to_dict()!r} loaded as {r!r}')
        except Exception as e:
            seen.append(f'{cls.__name__}: the dump {x.to_dict()!r} of a conforming instance is rejected ({type(e).__name__})')
        for doc in junk:
            try:
                r = cls.from_dict(doc)
                seen.append(f'{cls.__name__}: {doc!r} loaded as {r!r}')
            except Exception:                    # any rejection is fine here
                pass
    return seen


try:
    seen = main()
except Exception as e:                                      # the script itself is broken
    print(f'script error: {type(e).__name__}: {e}'); sys.exit(2)
if seen:
    print('v1, two Literal positions of one class with equal members of different types share one helper: '
          + '; '.join(' '.join(s.split()) for s in seen).replace('main.<locals>.', '')); sys.exit(1)
print('not manifested')
