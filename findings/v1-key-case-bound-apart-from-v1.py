"""v1_key_case given by one binding and v1=True by another (either order) is ignored by the v1 loader: bind_to stores the key case on the
loader class selected by *that binding's own* v1 flag (get_loader(.., v1=cls.v1)), the v1 load function reads cls_loader.transform_json_field."""
import os, sys
sys.path.insert(0, os.environ.get('VERIF_REPO', '/repo'))
from dataclasses import dataclass
from dataclass_wizard import LoadMeta, DumpMeta, asdict, fromdict

bad = 0
msgs = []
for order in ('case-then-v1', 'v1-then-case', 'together'):
    @dataclass
    class A:
        my_field: int
    DumpMeta(key_transform='PASCAL').bind_to(A)
    if order == 'case-then-v1':
        LoadMeta(v1_key_case='PASCAL').bind_to(A); LoadMeta(v1=True).bind_to(A)
    elif order == 'v1-then-case':
        LoadMeta(v1=True).bind_to(A); LoadMeta(v1_key_case='PASCAL').bind_to(A)
    else:
        LoadMeta(v1=True, v1_key_case='PASCAL').bind_to(A)
    try:
        fromdict(A, asdict(A(1))) == A(1)
    except Exception as e:
        bad += 1
        msgs.append(f'{order}: {type(e).__name__}')
if bad:
    print('v1_key_case and v1=True given by different bindings: fromdict(asdict(x)) of a consistent PASCAL / PASCAL class raised ' + '; '.join(msgs))
    sys.exit(1)
print('not manifested')
