"""v1 engine: the helper functions generated for `Literal[...]` (and Union) types are remembered per main class under the
key `tp.args` (v1/decorators.py, `recursion_guard[cls] = _fn_name` with `cls = tp.args` for generic types).  Two Literal
types of one class whose member tuples are == position by position - (1,) == (True,), (0, 2) == (False, 2.0) - therefore
share the helper generated for the one met first: `b: Literal[True]` declared after `a: Literal[1]` accepts 1 (the field
then holds an int, no member of Literal[True] by value and type) and rejects True, its only member.  Contradicts C05: load
"returns an instance every field of which ... is a value of its annotated type (... Literal members by value and type
...)".  Each Literal on its own, and the default engine, are right."""
import os, sys; sys.path.insert(0, os.environ.get('VERIF_REPO', '/repo'))
from dataclasses import dataclass
from typing import Literal


def main():
    from dataclass_wizard import JSONWizard

    @dataclass
    class A(JSONWizard):
        class _(JSONWizard.Meta):
            v1 = True
        a: Literal[1]
        b: Literal[True]

    @dataclass
    class B(JSONWizard):
        class _(JSONWizard.Meta):
            v1 = True
        pair: tuple[Literal[0, 2], Literal[False, 2.0]]

    def member(v, tp):
        return any(type(v) is type(m) and v == m for m in tp.__args__)

    seen = []
    for cls, doc, get in ((A, {'a': 1, 'b': 1}, lambda r: [(r.a, Literal[1]), (r.b, Literal[True])]),
                          (B, {'pair': [0, 0]}, lambda r: list(zip(r.pair, (Literal[0, 2], Literal[False, 2.0])))),
                          (B, {'pair': [2, 2]}, lambda r: list(zip(r.pair, (Literal[0, 2], Literal[False, 2.0]))))):
        try:
            r = cls.from_dict(doc)
        except Exception:                        # any rejection is fine here
            continue
        for v, tp in get(r):
            if not member(v, tp):
                seen.append(f'{cls.__name__}.from_dict({doc!r}) holds {v!r} at a {tp} position'.replace('typing.', ''))
    return seen


try:
    seen = main()
except Exception as e:                                      # the script itself is broken
    print(f'script error: {type(e).__name__}: {e}'); sys.exit(2)
if seen:
    print('v1, two Literal types with == member tuples share one generated helper: ' + '; '.join(seen).replace('main.<locals>.', ''))
    sys.exit(1)
print('not manifested')
