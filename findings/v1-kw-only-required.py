"""v1 engine: the generated from_dict passes required fields positionally in declaration order; a required kw_only field
(x: int; y: int = field(kw_only=True); z: int = 0) is passed into the wrong parameter or rejected by the constructor:
from_dict({'x': 1, 'y': 2}) raises a bare TypeError instead of returning the instance.  Contradicts C09: "loading
succeeds exactly when no deleted key belongs to a field without a default", and C14: "never a bare TypeError"."""
import os, sys; sys.path.insert(0, os.environ.get('VERIF_REPO', '/repo'))
from dataclasses import KW_ONLY, dataclass, field


def main():
    from dataclass_wizard import JSONWizard

    @dataclass
    class A(JSONWizard):
        class _(JSONWizard.Meta):
            v1 = True
        x: int
        y: int = field(kw_only=True)
        z: int = 0

    @dataclass
    class B(JSONWizard):
        class _(JSONWizard.Meta):
            v1 = True
        x: int
        _: KW_ONLY
        y: int
        z: int = 0

    seen = []
    for cls in (A, B):
        try:
            r = cls.from_dict({'x': 1, 'y': 2})
            if r != cls(1, y=2):
                seen.append(f'{cls.__name__}: loaded {r!r}')
        except Exception as e:
            seen.append(f'{cls.__name__}: {type(e).__name__} ' + ' '.join(str(e).split())[:90])
    return seen


try:
    seen = main()
except Exception as e:                                      # the script itself is broken
    print(f'script error: {type(e).__name__}: {e}'); sys.exit(2)
if seen:
    print("v1, required kw_only field (A: field(kw_only=True), B: KW_ONLY sentinel), from_dict({'x': 1, 'y': 2}): "
          + '; '.join(seen).replace('main.<locals>.', '')); sys.exit(1)
print('not manifested')
