"""Default engine: a tag-less document that is a defaultdict with a list factory at a tagged-Union position raises TypeError
(unhashable type: 'list') instead of ParseError, and gains a '__tag__' entry (the EAFP lookup `o[self.tag_key]` asks the factory)."""
import os, sys
sys.path.insert(0, os.environ.get('VERIF_REPO', '/repo'))
from dataclasses import dataclass
from typing import Union
from collections import defaultdict
from dataclass_wizard import JSONWizard, fromdict
from dataclass_wizard.errors import ParseError

@dataclass
class A(JSONWizard):
    class _(JSONWizard.Meta):
        tag = 'a'
    x: int

@dataclass
class B(JSONWizard):
    class _(JSONWizard.Meta):
        tag = 'b'
    x: int

@dataclass
class R:
    m: Union[A, B]

inner = defaultdict(list, {'x': 1})
try:
    fromdict(R, {'m': inner})
    print('not manifested (accepted)')
except ParseError:
    if '__tag__' in inner:
        print('ParseError, but the input defaultdict now holds', dict(inner)); sys.exit(1)
    print('not manifested')
except Exception as e:
    print('tag-less defaultdict(list) at a tagged-Union position:', type(e).__name__, e, '| input now', dict(inner))
    sys.exit(1)
