"""v1 engine: Meta.v1_field_to_alias with '__load__': False (a dump-only alias; likewise '__dump__': False) lost that
marker at the first bind_to (dict.pop on the user's mapping); bound again for the class nested under a main class with a
recursive Meta, the dump-only alias replaced the documented load key (MissingFields), a load-only alias was dumped.
Contradicts C08: "On load a field receives the value stored under ... the configured or AUTO key case in v1" / "written
... nowhere when dump=False", and C06.  Repaired by 6992044."""
import os, sys; sys.path.insert(0, os.environ.get('VERIF_REPO', '/repo'))
from dataclasses import dataclass


def main():
    from dataclass_wizard import JSONWizard

    @dataclass
    class N(JSONWizard):
        class _(JSONWizard.Meta):
            v1 = True
            v1_key_case = 'CAMEL'
            v1_field_to_alias = {'my_val': 'X-Api-Token', '__load__': False}   # dump-only alias
        my_val: int

    @dataclass
    class R(JSONWizard):
        class _(JSONWizard.Meta):
            v1 = True
            v1_key_case = 'CAMEL'
        items: list[N]

    @dataclass
    class M(JSONWizard):
        class _(JSONWizard.Meta):
            v1 = True
            v1_field_to_alias = {'my_val': 'tok', '__dump__': False}           # load-only alias
        my_val: int

    @dataclass
    class S(JSONWizard):
        class _(JSONWizard.Meta):
            v1 = True
        items: list[M]

    seen = []
    if N.from_dict({'myVal': 3}).my_val != 3:
        raise AssertionError('stand-alone load by the key-case spelling')
    try:
        if R.from_dict({'items': [{'myVal': 2}]}).items[0].my_val != 2:
            seen.append('dump-only alias, nested load by the key-case spelling: wrong value')
    except Exception as e:
        seen.append(f'dump-only alias, nested load of {{"myVal": 2}}: {type(e).__name__} ' + ' '.join(str(e).split())[:120])
    alone = M(1).to_dict()
    nested = S([M(1)]).to_dict()['items'][0]
    if 'tok' in alone or 'tok' in nested:
        seen.append(f'load-only alias dumped: on its own {alone!r}, nested {nested!r}')
    return seen


try:
    seen = main()
except Exception as e:                                      # the script itself is broken
    print(f'script error: {type(e).__name__}: {e}'); sys.exit(2)
if seen:
    print("v1_field_to_alias '__load__' / '__dump__' marker lost when the Meta is bound again: " + '; '.join(seen)); sys.exit(1)
print('not manifested')
