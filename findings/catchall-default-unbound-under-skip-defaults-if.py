"""Default engine dump: the function generated for a class with a defaulted CatchAll field under Meta.skip_defaults_if compared
the field with `_default_<i>`, a name its closure did not hold (repaired by b9cb15d): every asdict() raised NameError.  Found by
the scope theorem of the generator model (C15_gendump_well_scoped did not go through; witness C15_gendump_old_rule_unbound).
Exit 1 when it manifests."""
import sys, os; sys.path.insert(0, os.environ.get('VERIF_REPO', '/repo'))
from dataclasses import dataclass, field
from dataclass_wizard import JSONWizard, CatchAll, IS, IS_TRUTHY, EQ
import logging; logging.disable(logging.CRITICAL)
bad = 0
for cond in (IS(None), IS_TRUTHY(), EQ([])):
    for factory in (False, True):
        @dataclass
        class A(JSONWizard):
            class _(JSONWizard.Meta):
                skip_defaults_if = cond
            x: int = 1
            extra: CatchAll = field(default_factory=dict) if factory else None
        for inst in (A(3), A.from_dict({'x': 2, 'zz': 5})):
            try:
                inst.to_dict()
            except NameError as e:
                print('NameError:', e); bad += 1
sys.exit(1 if bad else 0)
