"""v1 engine: inside a Union a list / set / tuple member is try-parsed before later members by iterating whatever value it
gets, so a str (or dict) value of a later str (or dict) member is loaded as the list of its characters (or keys) when the
container member is listed first: Union[list[int], str], Union[list[int], dict[str, int]].  Contradicts C02:
"every conforming instance ... satisfies fromdict(asdict(x)) == x"."""
import os, sys; sys.path.insert(0, os.environ.get('VERIF_REPO', '/repo'))
from dataclasses import dataclass
from typing import Union


def main():
    from dataclass_wizard import JSONWizard

    @dataclass
    class A(JSONWizard):
        class _(JSONWizard.Meta):
            v1 = True
        a: Union[list[int], str]
        b: Union[list[int], dict[str, int]]
        c: Union[set[str], str] = 'x'

    seen = []
    for x in (A('12', [1]), A([1], {'3': 4})):
        d = x.to_dict()
        try:
            y = A.from_dict(d)
            if y != x:
                seen.append(f'{x!r} -> {y!r}')
        except Exception as e:
            seen.append(f'{x!r} -> {type(e).__name__}')
    return seen


try:
    seen = main()
except Exception as e:                                      # the script itself is broken
    print(f'script error: {type(e).__name__}: {e}'); sys.exit(2)
if seen:
    print('v1, Union with a container member listed first, load(dump(x)) != x: ' + '; '.join(seen).replace('main.<locals>.', ''))
    sys.exit(1)
print('not manifested')
