"""EnvWizard, very first use of the environment tables in a process, made by two threads at once, each instantiating a class
with a secrets directory (or dotenv file) of its own.  `Env.load_environ` tests `environ is None` and only then stores
`environ = os.environ.copy()`: a thread held between the test and the store replaces, when it goes on, the copy into which the
other thread has meanwhile written the values of its overlay - those values are gone from the copy while `Env.var_names`
still lists their names, and every later instantiation of the other class fails with KeyError('<VARIABLE>') out of the lookup
(`environ[upper_key]`).  (Same window, one step later: the cached property `Env.var_names` computed by the held thread is
stored over the set the other thread has grown - then the later instantiation reports MissingVars.)  In every sequential
order both classes can be instantiated again without their overlay.  Contradicts C20."""
import os, sys, tempfile, threading; sys.path.insert(0, os.environ.get('VERIF_REPO', '/repo'))
from dataclass_wizard import EnvWizard
from dataclass_wizard.environ import lookups

class C1(EnvWizard):
    first_secret: str

class C2(EnvWizard):
    second_secret: str

tmp = tempfile.mkdtemp()
for d, k, v in (('s1', 'FIRST_SECRET', 'one'), ('s2', 'SECOND_SECRET', 'two')):
    os.mkdir(os.path.join(tmp, d))
    open(os.path.join(tmp, d, k), 'w').write(v)

src = open(lookups.__file__).read().splitlines()
LINE = next(i + 1 for i, l in enumerate(src) if l.strip().startswith('environ = os.environ.copy()'))
at_window, go_on = threading.Event(), threading.Event()
res = {}

def tracer(frame, event, arg):            # hold the first thread after `environ is None`, before the copy is stored
    if event == 'line' and frame.f_code.co_filename == lookups.__file__ and frame.f_lineno == LINE and not at_window.is_set():
        at_window.set(); go_on.wait(10)
    return tracer

def first():
    sys.settrace(tracer)
    try:
        res['C1'] = C1(_secrets_dir=os.path.join(tmp, 's1')).dict()
    except Exception as e:
        res['C1'] = e
    finally:
        sys.settrace(None); at_window.set()

t = threading.Thread(target=first); t.start(); at_window.wait(10)
res['C2'] = C2(_secrets_dir=os.path.join(tmp, 's2')).dict()
go_on.set(); t.join()
try:
    again = C2().dict(); err = None
except Exception as e:
    again, err = None, e
if err is not None or again != {'second_secret': 'two'} or res['C1'] != {'first_secret': 'one'} or res['C2'] != {'second_secret': 'two'}:
    print(f'two first instantiations with a secrets directory each, at once: C1 -> {res["C1"]!r}, C2 -> {res["C2"]!r}, then C2() -> '
          f'{again!r} {type(err).__name__ if err else ""}: {err}'); sys.exit(1)
print('not manifested', res, again)
