"""v1 engine, class with an AliasPath field: the FIRST dump made while another thread is inside its FIRST load (in
class_helper._process_field, between `load_dataclass_field_to_path[name] = f.path` and `dump_dataclass_field_to_path[name] = ...`)
fails with KeyError('<field>') from dumpers.dump_func_for_dataclass (`path = field_to_path[field]`).  The dumping thread's own
_setup_v1_load_config_for_cls sees the load-path table already non-empty, concludes `set_paths = False` and never fills the
dump-path table.  No sequential order of the two calls raises.  Contradicts C20."""
import os, sys, threading; sys.path.insert(0, os.environ.get('VERIF_REPO', '/repo'))
from dataclasses import dataclass
from dataclass_wizard import JSONWizard, class_helper
from dataclass_wizard.v1 import AliasPath

@dataclass
class V(JSONWizard):
    class _(JSONWizard.Meta):
        v1 = True
    a: int
    b: int = AliasPath('top.b', default=2)

src = open(class_helper.__file__).read().splitlines()
LINE = next(i + 1 for i, l in enumerate(src) if l.strip().startswith('dump_dataclass_field_to_path[name] = f.path[0]'))
at_window, go_on = threading.Event(), threading.Event()

def tracer(frame, event, arg):            # hold the loading thread just before it fills the dump-path table
    if event == 'line' and frame.f_code.co_filename == class_helper.__file__ and frame.f_lineno == LINE:
        at_window.set(); go_on.wait(10)
    return tracer

def loader():
    sys.settrace(tracer)
    try:
        V.from_dict({'a': 1, 'top': {'b': 5}})
    finally:
        sys.settrace(None); at_window.set()

t = threading.Thread(target=loader); t.start(); at_window.wait(10)
try:
    out = V(1).to_dict(); err = None
except Exception as e:
    err = e
go_on.set(); t.join()
if err is not None:
    print(f'first to_dict() during the first from_dict() of a v1 class with an AliasPath field: {type(err).__name__}: {err}'); sys.exit(1)
print('not manifested', out)
