"""asdict of a self-referential main class whose Meta says recursive_classes=True, recursive=False and auto_assign_tags=True
raises a raw RecursionError (the same class without auto_assign_tags, or with recursive unset, dumps fine)."""
import os, sys
sys.path.insert(0, os.environ.get('VERIF_REPO', '/repo'))
from dataclasses import dataclass
from typing import Optional
from dataclass_wizard import JSONWizard, asdict


@dataclass
class R(JSONWizard):
    class _(JSONWizard.Meta):
        auto_assign_tags = True
        recursive_classes = True
        recursive = False
    num: int = 0
    again: Optional['R'] = None


@dataclass
class R2(JSONWizard):
    class _(JSONWizard.Meta):
        recursive_classes = True
        recursive = False
    num: int = 0
    again: Optional['R2'] = None


ok2 = asdict(R2(1, R2(2)))
try:
    asdict(R(1, R(2)))
except RecursionError as e:
    print("asdict of a self-referential class under Meta(recursive_classes=True, recursive=False, auto_assign_tags=True) raised RecursionError; without auto_assign_tags it dumps", ok2)
    sys.exit(1)
print('not manifested')
