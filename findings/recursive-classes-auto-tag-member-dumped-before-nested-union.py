"""Default engine, Meta(recursive_classes=True, auto_assign_tags=True) on the main class, the Union of dataclasses is a field of
a NESTED class, and a member class of that Union is also the type of a field of the main class declared BEFORE the field that
leads to the nested class.  Under recursive_classes the tag pre-pass of the main class's dump function does not reach the
nested class (its loader is built lazily), so when the dump walks the fields in order the member's dump function is generated
- and cached - while the member has no tag yet; the pre-pass of the nested class assigns the tag afterwards, too late: the
member is dumped WITHOUT its tag inside the Union, and the dumped document cannot be loaded back (ParseError).  Without the
earlier field, or with the fields in the other order, or without recursive_classes, the tag is written.
Contradicts C13: "dumping an instance of member class K writes K's tag under the configured tag key" (and C01)."""
import os, sys; sys.path.insert(0, os.environ.get('VERIF_REPO', '/repo'))
from dataclasses import dataclass
from typing import Union


def model(before):
    from dataclass_wizard import JSONWizard, asdict, fromdict

    @dataclass
    class Dog:
        n: int

    @dataclass
    class Cat:
        n: int

    @dataclass
    class Holder:
        u: Union[Dog, Cat]

    if before:
        @dataclass
        class R(JSONWizard):
            class _(JSONWizard.Meta):
                auto_assign_tags = True
                recursive_classes = True
            pre: Dog
            h: Holder
        x = R(Dog(1), Holder(Dog(2)))
    else:
        @dataclass
        class R(JSONWizard):
            class _(JSONWizard.Meta):
                auto_assign_tags = True
                recursive_classes = True
            h: Holder
            post: Dog
        x = R(Holder(Dog(2)), Dog(1))
    d = asdict(x)
    try:
        back = fromdict(R, d)
        loaded = 'loads back equal' if back == x else f'loads back as {back!r}'
    except Exception as e:
        loaded = f'load raises {type(e).__name__}'
    return d['h']['u'], loaded


try:
    ctl, ctl_loaded = model(False)
    if ctl.get('__tag__') != 'Dog' or ctl_loaded != 'loads back equal':
        raise AssertionError(f'control (reference declared after the holder) dumped {ctl!r}, {ctl_loaded}')
    got, loaded = model(True)
except Exception as e:                                      # the script itself is broken
    print(f'script error: {type(e).__name__}: {e}'); sys.exit(2)
if got.get('__tag__') != 'Dog':
    print(f"R(recursive_classes, auto_assign_tags)(pre: Dog, h: Holder(u: Union[Dog, Cat])): the Union member is dumped as {got!r} "
          f"(no '__tag__': 'Dog'), {loaded}; with the reference declared after the holder it is {ctl!r}"); sys.exit(1)
print('not manifested')
