"""Dump, process-wide Meta: JSONPyWizard documents that keys are written as the field names (it pre-binds
DumpMeta(key_transform='NONE')).  With a module-level Meta that sets key_transform_with_dump, a JSONPyWizard class *that has an
inner Meta of its own* (any content, even empty) is dumped with the global transform: the inner Meta inherits
key_transform_with_dump from AbstractMeta (where the global declaration copied it) and is bound after JSONPyWizard's NONE.
A JSONPyWizard class without inner Meta keeps its field names.  Contradicts C03: "under keys produced by the configured key
transform" (the class's own configuration - NONE - loses to the process-wide default)."""
import os, sys; sys.path.insert(0, os.environ.get('VERIF_REPO', '/repo'))
import logging; logging.disable(logging.CRITICAL)
from dataclasses import dataclass


def main():
    from dataclass_wizard import JSONWizard, JSONPyWizard

    class GlobalMeta(JSONWizard.Meta):               # process-wide settings
        key_transform_with_dump = 'PASCAL'

    @dataclass
    class NoMeta(JSONPyWizard):
        my_field: int

    @dataclass
    class WithMeta(JSONPyWizard):
        class _(JSONPyWizard.Meta):
            skip_defaults = False
        my_field: int

    a = NoMeta(1).to_dict()
    if a != {'my_field': 1}:
        raise AssertionError(f'JSONPyWizard without inner Meta: {a!r}')
    b = WithMeta(1).to_dict()
    return [] if b == {'my_field': 1} else [repr(b)]


try:
    seen = main()
except Exception as e:                                      # the script itself is broken
    print(f'script error: {type(e).__name__}: {e}'); sys.exit(2)
if seen:
    print('a JSONPyWizard class with an inner Meta is dumped under the global key transform instead of its field names: '
          + '; '.join(seen)); sys.exit(1)
print('not manifested')
