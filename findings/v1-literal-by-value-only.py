"""v1 engine: a Literal position tested `v1 in frozenset(args)` (== / hash only) and returned the input: Literal[1]
accepted True and 1.0 and the field then held a bool / float.  Contradicts C05: load "returns an instance every field
of which ... is a value of its annotated type (... Literal members by value and type ...)", and C04 (only the documented
coercions).  Repaired by af98f53."""
import os, sys; sys.path.insert(0, os.environ.get('VERIF_REPO', '/repo'))
from dataclasses import dataclass
from typing import Literal


def main():
    from dataclass_wizard import JSONWizard

    @dataclass
    class A(JSONWizard):
        class _(JSONWizard.Meta):
            v1 = True
        x: Literal[1, 'a']
        ys: list[Literal[0, 2]]

    seen = []
    if A.from_dict({'x': 1, 'ys': [0, 2]}) != A(1, [0, 2]) or type(A.from_dict({'x': 1, 'ys': []}).x) is not int:
        raise AssertionError('a member by value and type must load')
    for doc in ({'x': True, 'ys': []}, {'x': 1.0, 'ys': []}, {'x': 'a', 'ys': [False]}, {'x': 'a', 'ys': [2.0]}):
        try:
            r = A.from_dict(doc)
            seen.append(f'{doc!r} loaded as {r!r}')
        except Exception:                        # any rejection is fine here
            pass
    return seen


try:
    seen = main()
except Exception as e:                                      # the script itself is broken
    print(f'script error: {type(e).__name__}: {e}'); sys.exit(2)
if seen:
    print('v1, Literal accepts a value equal to a member but of another type: ' + '; '.join(seen).replace('main.<locals>.', ''))
    sys.exit(1)
print('not manifested')
