"""Dump, process-wide Meta: with a module-level Meta that says marshal_date_time_as = TIMESTAMP, a class whose own inner Meta
says marshal_date_time_as = ISO_FORMAT is still dumped as epoch seconds.  bind_to treats ISO_FORMAT as a no-op ("the default dump
hook already serializes using this approach"), but the dumper created for the class is a subclass of the root DumpMixin, whose
dump_with_datetime / dump_with_date attributes the global binding replaced - so the class's explicit setting is ignored.
Contradicts C03: "date/time/datetime -> ISO-8601 ..., or epoch seconds under TIMESTAMP" for the class's configuration."""
import os, sys; sys.path.insert(0, os.environ.get('VERIF_REPO', '/repo'))
import logging; logging.disable(logging.CRITICAL)
from dataclasses import dataclass
from datetime import date, datetime, timezone


def main():
    from dataclass_wizard import JSONWizard

    class GlobalMeta(JSONWizard.Meta):               # not an inner class: process-wide settings
        marshal_date_time_as = 'TIMESTAMP'

    @dataclass
    class Default(JSONWizard):
        at: datetime
        day: date

    @dataclass
    class Explicit(JSONWizard):
        class _(JSONWizard.Meta):
            marshal_date_time_as = 'ISO_FORMAT'
        at: datetime
        day: date

    at, day = datetime(2020, 1, 2, 3, 4, 5, tzinfo=timezone.utc), date(2020, 1, 2)
    d = Default(at, day).to_dict()
    if not all(type(v) is int for v in d.values()):
        raise AssertionError(f'the global TIMESTAMP setting did not reach a class without a Meta: {d!r}')
    e = Explicit(at, day).to_dict()
    return [f'{k}: {v!r}' for k, v in e.items() if not isinstance(v, str)]


try:
    seen = main()
except Exception as e:                                      # the script itself is broken
    print(f'script error: {type(e).__name__}: {e}'); sys.exit(2)
if seen:
    print("a class with an explicit marshal_date_time_as='ISO_FORMAT' is dumped as epoch seconds under a global TIMESTAMP Meta "
          "(expected ISO-8601 text): " + '; '.join(seen)); sys.exit(1)
print('not manifested')
