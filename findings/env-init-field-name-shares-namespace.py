"""EnvWizard: the fields of the class are keyword parameters of the generated __init__, so they share a namespace with
the names that function uses itself (Env, get_env, MISSING, _name, ...) and with its other parameters (self, _reload,
...): a field with one of these names makes instantiation fail (TypeError / AttributeError / SyntaxError duplicate
argument) or yields the variable's name / the default instead of its value.  Contradicts C15: renaming fields "to names
the generator uses internally" yields the correspondingly renamed results; every generated function "compiles and
refers only to names it binds"."""
import os, sys; sys.path.insert(0, os.environ.get('VERIF_REPO', '/repo'))


def main():
    from dataclass_wizard import EnvWizard
    seen = []
    for name in ('plain_name', 'Env', 'get_env', 'MISSING', '_name', '_reload', 'self'):
        os.environ[name] = 'val'
        try:
            ns = {}
            exec(f"class F(EnvWizard):\n    {name}: str = 'dflt'\n", {'EnvWizard': EnvWizard}, ns)
            got = getattr(ns['F']() if name == '_reload' else ns['F'](_reload=True), name)
            if got != 'val':
                seen.append(f'{name}: {got!r}')
        except Exception as e:
            seen.append(f'{name}: {type(e).__name__}')
    if any(s.startswith('plain_name') for s in seen):
        raise AssertionError(f'control field: {seen[0]}')
    return seen


try:
    seen = main()
except Exception as e:                                      # the script itself is broken
    print(f'script error: {type(e).__name__}: {e}'); sys.exit(2)
if seen:
    print("EnvWizard class with one field `<name>: str = 'dflt'` and the variable <name>=val set, expected 'val': " + '; '.join(seen))
    sys.exit(1)
print('not manifested')
