"""Default-engine dump: an object whose class is not a dataclass (yet) is written through the default hook
(DumpMixin.default_dump_with: str(o)), and dumpers._asdict_inner remembers that choice per type
(`dump_hook = hooks[cls] = DumpMixin.default_dump_with`, "so that next time this logic isn't run again").  When the class
is made a dataclass afterwards (`dataclass(Limits)` - what the error message of the *load* side recommends for the very
same situation) every later dump in the process still writes its instances as strings, because the remembered hook is
looked up before the `_is_dataclass_instance` test.  The same dump made first in a fresh interpreter writes a nested dict.
Contradicts C06: the outcome of a dump depends on an earlier (successful) dump of the class."""
import os, sys; sys.path.insert(0, os.environ.get('VERIF_REPO', '/repo'))
import logging; logging.disable(logging.CRITICAL)
from dataclasses import dataclass


def main():
    from dataclass_wizard import JSONWizard, asdict

    class Limits:
        cpu: int = 1

    @dataclass
    class Settings(JSONWizard):
        name: str
        limits: Limits = None

    class Other:
        cpu: int = 1

    @dataclass
    class Fresh(JSONWizard):
        name: str
        limits: Other = None

    first = Settings('web', Limits()).to_dict()          # Limits is not a dataclass yet: written as a string
    if not isinstance(first['limits'], str):
        print('not manifested (an object of a class that is not a dataclass is not written as a string any more)')
        return 0
    dataclass(Limits)
    dataclass(Other)
    later = asdict(Settings('web', Limits(cpu=2)))
    fresh = asdict(Fresh('web', Other(cpu=2)))              # same shape, no earlier dump
    if fresh['limits'] != {'cpu': 2}:
        print(f'script error: unexpected dump of a nested dataclass: {fresh!r}')
        return 2
    if later['limits'] != {'cpu': 2}:
        print(f'after an earlier dump made before dataclass(Limits): {later!r}; without that dump: {fresh!r}')
        return 1
    print('not manifested')
    return 0


if __name__ == '__main__':
    try:
        rc = main()
    except Exception as e:                                      # the script itself is broken
        print(f'script error: {type(e).__name__}: {e}'); rc = 2
    sys.exit(rc)
