"""META_INITIALIZER is keyed by the class __qualname__ string: after a class X declared an inner Meta, a class defined
later with the same __qualname__ (another module / namespace, or a redefinition) and WITHOUT a Meta of its own gets the
first class's Meta bound to it.  Contradicts C07: "every other class, including a class that merely has the same name
... loads and dumps exactly as it would if the first class had never been defined or used"."""
import os, sys; sys.path.insert(0, os.environ.get('VERIF_REPO', '/repo'))
from dataclasses import dataclass


def main():
    from dataclass_wizard import JSONWizard
    ns1, ns2 = {'JSONWizard': JSONWizard, 'dataclass': dataclass}, {'JSONWizard': JSONWizard, 'dataclass': dataclass}
    exec("@dataclass\nclass Item(JSONWizard):\n    class _(JSONWizard.Meta):\n        raise_on_unknown_json_key = True\n"
         "        key_transform_with_dump = 'PASCAL'\n    my_id: int\n", ns1)
    exec("@dataclass\nclass Item(JSONWizard):\n    my_id: int\n", ns2)        # another namespace, no Meta of its own
    Item = ns2['Item']
    seen = []
    d = Item(1).to_dict()
    if d != {'myId': 1}:
        seen.append(f'Item(1).to_dict() == {d!r} (expected the default camelCase key)')
    try:
        Item.from_dict({'my_id': 1, 'zzz': 2})
    except Exception as e:
        seen.append(f'an unknown key is rejected with {type(e).__name__} (expected: dropped)')
    return seen


try:
    seen = main()
except Exception as e:                                      # the script itself is broken
    print(f'script error: {type(e).__name__}: {e}'); sys.exit(2)
if seen:
    print("a class Item without a Meta, defined after another namespace's Item with an inner Meta, got that Meta: " + '; '.join(seen))
    sys.exit(1)
print('not manifested')
