"""Both engines: a JSONWizard dataclass `Sub(Base)` that declares an inner Meta of its own gets the settings of `Base`'s inner
Meta bound over it afterwards (class_helper.call_meta_initializer_if_needed runs the class's own initializer first and the
immediate base class's second), so `Sub`'s own `tag` (and any other setting both declare) is replaced by `Base`'s.  C13: dumping
an instance of member class K writes K's tag — `Sub()` is written with `Base`'s tag and a `Base()` document is then loaded as
`Sub` (the later member wins the shared tag)."""
import os, sys
sys.path.insert(0, os.environ.get('VERIF_REPO', '/repo'))
from dataclasses import dataclass
from typing import Union
from dataclass_wizard import JSONWizard, asdict, fromdict


@dataclass
class Base(JSONWizard):
    class _(JSONWizard.Meta):
        tag = 'base'
    x: int = 1


@dataclass
class Sub(Base):
    class _(JSONWizard.Meta):
        tag = 'sub'
    y: int = 2


@dataclass
class Holder(JSONWizard):
    u: Union[Base, Sub]


d = asdict(Holder(u=Sub()))
back = None
try:
    back = fromdict(Holder, asdict(Holder(u=Base())))
except Exception as e:                                   # noqa
    back = e
if d['u'].get('__tag__') != 'sub' or type(getattr(back, 'u', None)) is not Base:
    print(f"Sub() dumped with tag {d['u'].get('__tag__')!r} (declared 'sub'); a dumped Base() loads back as {back!r}")
    sys.exit(1)
print('not manifested')
