"""Dump (both engines): with skip_defaults in force, a CatchAll field that has a default (extra: CatchAll = None /
field(default_factory=dict)) is tested AS A WHOLE against Meta.skip_defaults_if, like a defaulted regular field: the generated
cls_asdict sets `_skip_<i> = _skip_<i> or <condition on o.extra>`.  When the condition holds for the captured MAPPING - IS_TRUTHY(),
NE(..), IS_NOT(..): every non-empty dict - the whole catch-all branch is skipped and to_dict(from_dict(d)) contains none of the
unknown pairs.  Contradicts C10: "... are written back at top level by to_dict, so that to_dict(from_dict(d)) contains them
unchanged".  (Conditions that do not hold for the mapping - EQ(..), IS(..), IS_FALSY() - and asdict(x, skip_defaults=False) write
the pairs back; a CatchAll field without a default is never tested.)"""
import os, sys; sys.path.insert(0, os.environ.get('VERIF_REPO', '/repo'))
from dataclasses import dataclass
from typing import Optional


def main():
    from dataclass_wizard import JSONWizard, CatchAll, IS_TRUTHY, NE

    @dataclass
    class Truthy(JSONWizard):
        class _(JSONWizard.Meta):
            skip_defaults_if = IS_TRUTHY()
        name: str
        nick: Optional[str] = None
        extra: CatchAll = None

    @dataclass
    class NotZeroV1(JSONWizard):
        class _(JSONWizard.Meta):
            v1 = True
            skip_defaults_if = NE(0)
        name: str
        count: int = 0
        extra: CatchAll = None

    seen = []
    doc = {'name': 'a', 'color': 'red', 'n': 0}
    for cls in (Truthy, NotZeroV1):
        o = cls.from_dict(dict(doc))
        if o.extra != {'color': 'red', 'n': 0}:
            continue                      # (capture itself is not the subject here)
        out = o.to_dict()
        lost = [k for k in ('color', 'n') if k not in out]
        if lost:
            seen.append(f'{cls.__name__}: to_dict(from_dict({doc!r})) = {out!r} lacks the unknown keys {lost!r}')
    return seen


try:
    seen = main()
except Exception as e:                                      # the script itself is broken
    print(f'script error: {type(e).__name__}: {e}'); sys.exit(2)
if seen:
    print('defaulted CatchAll field under Meta.skip_defaults_if that holds for the mapping (IS_TRUTHY / NE(0)): '
          + '; '.join(seen).replace('main.<locals>.', '')); sys.exit(1)
print('not manifested')
