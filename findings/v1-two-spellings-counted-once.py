"""v1 engine: unknown keys are detected by comparing len(o) with the number of fields found; when one field is present
under two spellings (v1_key_case='AUTO' or Alias('a', 'b'): {'my_field': 1, 'myField': 2}) the field counts once and the
second spelling is treated as an unknown key although it is a known one: UnknownKeysError(set()) under RAISE, a CatchAll
field with a default gets {} instead of its default.  Contradicts C10: "documents without unknown keys load normally"
/ "(or its default is kept when there are none)"."""
import os, sys; sys.path.insert(0, os.environ.get('VERIF_REPO', '/repo'))
from dataclasses import dataclass


def main():
    from dataclass_wizard import JSONWizard, CatchAll
    from dataclass_wizard.v1 import Alias

    @dataclass
    class Auto(JSONWizard):
        class _(JSONWizard.Meta):
            v1 = True
            v1_key_case = 'AUTO'
            v1_on_unknown_key = 'RAISE'
        my_field: int

    @dataclass
    class Aliased(JSONWizard):
        class _(JSONWizard.Meta):
            v1 = True
        f: int = Alias('a', 'b')
        rest: CatchAll = None

    seen = []
    for cls, doc in ((Auto, {'my_field': 1, 'myField': 2}), (Aliased, {'a': 1, 'b': 2})):
        try:
            r = cls.from_dict(doc)
            if getattr(r, 'rest', None) is not None:
                seen.append(f'{doc!r} loaded as {r!r}')
        except Exception as e:
            seen.append(f"{doc!r} -> {type(e).__name__} unknown_keys={getattr(e, 'unknown_keys', None)!r}")
    return seen


try:
    seen = main()
except Exception as e:                                      # the script itself is broken
    print(f'script error: {type(e).__name__}: {e}'); sys.exit(2)
if seen:
    print("v1, one field present under two known spellings (AUTO key case + RAISE; Alias('a', 'b') + CatchAll = None): "
          + '; '.join(seen).replace('main.<locals>.', '')); sys.exit(1)
print('not manifested')
