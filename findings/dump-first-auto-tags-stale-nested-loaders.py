"""Default engine: a main class with auto_assign_tags whose first use is a dump builds its load parsers (to assign Union
tags) without caching its own, but caches those of the nested classes; load settings bound afterwards (LoadMeta
raise_on_unknown_json_key / key_transform_with_load) do not reach a class TWO levels below the main class.  Contradicts
C12: "every other mergeable setting (... unknown-key policy ...) comes from the root ... The cascade reaches nested classes
at any depth", and C06 (the outcome depends on the earlier dump)."""
import os, sys; sys.path.insert(0, os.environ.get('VERIF_REPO', '/repo'))
from dataclasses import dataclass


def history(dump_first):
    from dataclass_wizard import DumpMeta, LoadMeta, asdict, fromdict
    from dataclass_wizard.errors import UnknownKeysError

    @dataclass
    class Leaf:
        a: int

    @dataclass
    class Mid:
        leaf: Leaf

    @dataclass
    class Root:
        mid: Mid

    DumpMeta(auto_assign_tags=True).bind_to(Root)
    if dump_first:
        asdict(Root(Mid(Leaf(1))))                              # first use of Root is a dump
    LoadMeta(raise_on_unknown_json_key=True).bind_to(Root)      # load settings bound before the first load
    accepted = []
    for where, doc in (('Mid', {'mid': {'leaf': {'a': 1}, 'zzz': 0}}), ('Leaf', {'mid': {'leaf': {'a': 1, 'zzz': 0}}})):
        try:
            fromdict(Root, doc)
            accepted.append(where)
        except UnknownKeysError:
            pass
    return accepted


def main():
    if history(False):
        raise AssertionError('without the dump the unknown key must be rejected at both levels')
    return [f"unknown key 'zzz' in {w} accepted" for w in history(True)]


try:
    seen = main()
except Exception as e:                                      # the script itself is broken
    print(f'script error: {type(e).__name__}: {e}'); sys.exit(2)
if seen:
    print('Root(auto_assign_tags) -> Mid -> Leaf, dump, then LoadMeta(raise_on_unknown_json_key=True), then load: '
          + '; '.join(seen) + ' (rejected without the earlier dump)'); sys.exit(1)
print('not manifested')
