"""v1 engine: a class with a tag under a key-counting policy (v1_on_unknown_key RAISE / WARN, or with a CatchAll field)
tested `<tag_key> in o` inside the try block before the first `field = ...`; a document that is not a dict (None, 5,
[..]) raised a bare UnboundLocalError from the generated function.  Contradicts C14: "every failing from_dict ... raises
an error derived from the library's JSONWizardError ... never a bare ... UnboundLocalError".  Repaired by bebdd99."""
import os, sys; sys.path.insert(0, os.environ.get('VERIF_REPO', '/repo'))
from dataclasses import dataclass
from typing import Optional


def main():
    from dataclass_wizard import JSONWizard, CatchAll
    from dataclass_wizard.errors import JSONWizardError

    @dataclass
    class Raising(JSONWizard):
        class _(JSONWizard.Meta):
            v1 = True
            tag = 'r'
            v1_on_unknown_key = 'RAISE'
        a: int

    @dataclass
    class Catching(JSONWizard):
        class _(JSONWizard.Meta):
            v1 = True
            tag = 'c'
        a: int
        rest: CatchAll = None

    @dataclass
    class Holder(JSONWizard):
        class _(JSONWizard.Meta):
            v1 = True
        inner: Optional[Raising] = None
        other: Optional[Catching] = None

    seen = []
    for name, cls, doc in (('RAISE', Raising, 5), ('RAISE', Raising, [1]), ('CatchAll', Catching, 5),
                           ('nested RAISE', Holder, {'inner': 5}), ('nested CatchAll', Holder, {'other': [1]})):
        try:
            r = cls.from_dict(doc)
            seen.append(f'{name} {doc!r}: loaded {r!r}')
        except JSONWizardError:
            pass
        except Exception as e:
            seen.append(f'{name} {doc!r}: bare {type(e).__name__}')
    return seen


try:
    seen = main()
except Exception as e:                                      # the script itself is broken
    print(f'script error: {type(e).__name__}: {e}'); sys.exit(2)
if seen:
    print('v1, tagged class with key counting given a non-dict document: ' + '; '.join(seen).replace('main.<locals>.', ''))
    sys.exit(1)
print('not manifested')
