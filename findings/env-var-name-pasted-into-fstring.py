"""EnvWizard: the variable name given with env_field('NAME') was pasted into an f-string literal of the generated `__init__`
(`_var_name=f"{_env_prefix}NAME" if _env_prefix else 'NAME'`, dataclass_wizard/environ/wizard.py, _create_methods).  A name with a double
quote, a brace, a backslash or a newline made the class definition a SyntaxError, or - under an env prefix - was evaluated as an
expression (`{x}` -> NameError, `{_name}` -> the field's own name).  POSIX allows every character but `=` and NUL in a variable name.
Exit 1 when it manifests."""
import os
import sys
sys.path.insert(0, os.environ.get('VERIF_REPO', '/repo'))
NAMES = ['A"B', '{x}', '{_name}', 'A{B', 'A}B', 'A\\B', 'A\\nB', 'A\nB', "A'B"]
for nm in NAMES:
    os.environ[nm] = '5'
    os.environ['P_' + nm] = '7'
from dataclass_wizard import EnvWizard, env_field

bad = []
for nm in NAMES:
    try:
        class A(EnvWizard):
            w: int = env_field(nm)
        got = (A(_reload=True).w, A(_env_prefix='P_').w)
        if got != (5, 7):
            bad.append(f'{nm!r}: read {got!r}, expected (5, 7)')
    except Exception as e:      # SyntaxError, NameError, MissingVars (another variable was looked up)
        bad.append(f'{nm!r}: {type(e).__name__} ({str(e).strip()[:60]!r})')
if bad:
    print('EnvWizard field with env_field(<name>), without / with _env_prefix: ' + '; '.join(bad))
    sys.exit(1)
print('not manifested')
