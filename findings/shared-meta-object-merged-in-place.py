"""One LoadMeta(...) / DumpMeta(...) object bound to two unrelated classes, then another Meta bound to ONE of them: a Meta
bound to a class that already has one is merged into the stored one *in place* (`_META[cls] &= meta` in
BaseJSONWizardMeta.bind_to), and the stored one is the user's object itself when it was the class's first Meta.  So the
settings of the second bind are written into the shared object and reach the other class: here the dataclass nested in
`Other` (which takes the root's Meta) is dumped with the LISP keys that were bound to `First` only, and after a load of
`Other` the root's own keys follow.  Contradicts C07: "LoadMeta/DumpMeta bindings ... attached to one dataclass
affect only that class"."""
import os, sys; sys.path.insert(0, os.environ.get('VERIF_REPO', '/repo'))
from dataclasses import dataclass


def main():
    from dataclass_wizard import LoadMeta, DumpMeta, asdict

    def classes():
        @dataclass
        class Inner:
            my_val: int

        @dataclass
        class First:
            my_val: int

        @dataclass
        class Other:
            my_val: int
            in_ner: Inner
        return First, Other, Inner

    seen = []
    # on its own: `Other` bound to the LoadMeta object dumps camelCase keys
    First, Other, Inner = classes()
    LoadMeta(key_transform='SNAKE').bind_to(Other)
    alone = asdict(Other(1, Inner(2)))
    if alone != {'myVal': 1, 'inNer': {'myVal': 2}}:
        raise AssertionError(f'Other on its own dumps {alone!r}')
    First, Other, Inner = classes()
    shared = LoadMeta(key_transform='SNAKE')
    shared.bind_to(First)
    shared.bind_to(Other)
    DumpMeta(key_transform='LISP').bind_to(First)          # a setting for `First` only
    got = asdict(Other(1, Inner(2)))
    if got != alone:
        seen.append(f'Other dumps {got!r} after DumpMeta(key_transform="LISP") was bound to First only, {alone!r} on its own')
    return seen


try:
    seen = main()
except Exception as e:                                      # the script itself is broken
    print(f'script error: {type(e).__name__}: {e}'); sys.exit(2)
if seen:
    print('one LoadMeta object bound to First and Other: ' + '; '.join(seen))
    sys.exit(1)
print('not manifested')
