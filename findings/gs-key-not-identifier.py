"""wiz gen-schema: a JSON key that is not a valid Python identifier after the generator's snake-casing - a keyword
({"class": 1}), digit-first ({"1st": 1}), punctuated ({"a.b": 1}), empty ({"": 1}), a constant name ({"None": {}}) - is
written into the class body as is: the source does not compile (SyntaxError), or ({"lambda": null}, {"#tag": 1},
{"(z)": 1}) compiles but declares no field for the key.  Contradicts C19: "the generated source is valid Python that
imports without error, declares a field for every key of every object in the document"."""
import os, sys; sys.path.insert(0, os.environ.get('VERIF_REPO', '/repo'))
import dataclasses
import importlib.util
import json
import tempfile

DOCS = [('{"class": 1}', {}),
        ('{"1st": 1}', {}),
        ('{"a.b": 1}', {}),
        ('{"": 1}', {}),
        ('{"None": {}}', {}),
        ('{"lambda": null}', {}),
        ('{"#tag": 1}', {}),
        ('{"(z)": 1}', {})]


def outcome(text, tmp, n, **flags):
    """generate a schema for the JSON text, import it as a module, load the text with its root class; what went wrong"""
    from dataclass_wizard import JSONWizard
    from dataclass_wizard.wizard_cli.schema import PyCodeGenerator
    src = PyCodeGenerator(file_contents=text, experimental=flags.get('experimental', False),
                          force_strings=flags.get('force_strings', False)).py_code
    name = f'gs_generated_{n}'
    with open(os.path.join(tmp, name + '.py'), 'w', encoding='utf-8') as f:
        f.write(src)
    spec = importlib.util.spec_from_file_location(name, os.path.join(tmp, name + '.py'))
    mod = sys.modules[name] = importlib.util.module_from_spec(spec)
    try:
        spec.loader.exec_module(mod)
    except Exception as e:
        return f'import fails with {type(e).__name__}'
    root = [c for c in vars(mod).values() if isinstance(c, type) and issubclass(c, JSONWizard) and c is not JSONWizard][0]
    doc = json.loads(text)
    if isinstance(doc, dict) and len(dataclasses.fields(root)) < len(doc):
        return f'{root.__name__} declares {len(dataclasses.fields(root))} fields for {len(doc)} keys'
    try:
        for d in (doc if isinstance(doc, list) else [doc]):
            root.from_dict(d)
    except Exception as e:
        return f'{root.__name__}.from_dict fails with {type(e).__name__} ' + ' '.join(str(e).split())[:60]
    return None


def main():
    seen = []
    with tempfile.TemporaryDirectory() as tmp:
        for n, (text, flags) in enumerate(DOCS):
            what = outcome(text, tmp, n, **flags)
            if what:
                seen.append(f'{text}{" " + str(flags) if flags else ""}: {what}')
    return seen


try:
    seen = main()
except Exception as e:                                      # the script itself is broken
    print(f'script error: {type(e).__name__}: {e}'); sys.exit(2)
if seen:
    print('wiz gen-schema, the generated module does not import or lacks a field: ' + '; '.join(seen)); sys.exit(1)
print('not manifested')
