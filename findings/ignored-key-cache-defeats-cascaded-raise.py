"""Default engine: an unknown key seen while a class was loaded without a raise policy was cached as ignored in the
per-class key table; the function generated later for the same class under a cascading raise_on_unknown_json_key read that
entry and accepted the key.  Contradicts C10: "with raise_on_unknown_json_key ... every document containing at least one
such key is rejected with UnknownKeysError", and C06 (the outcome depends on an earlier load).  Repaired by 7fd7207."""
import os, sys; sys.path.insert(0, os.environ.get('VERIF_REPO', '/repo'))
from dataclasses import dataclass


def main():
    from dataclass_wizard import JSONWizard, fromdict
    from dataclass_wizard.errors import UnknownKeysError

    @dataclass
    class Inner:
        a: int

    @dataclass
    class Outer(JSONWizard):
        class _(JSONWizard.Meta):
            raise_on_unknown_json_key = True
        inner: Inner

    fromdict(Inner, {'a': 1, 'zzz': 2})          # stand-alone load of Inner (policy: ignore) with an unknown key
    seen = []
    for key in ('zzz', 'yyy'):                   # seen before under the ignore policy / never seen (control)
        try:
            r = fromdict(Outer, {'inner': {'a': 1, key: 2}})
            seen.append(f'stand-alone-first: {key!r} accepted ({r!r})'.replace('main.<locals>.', ''))
        except UnknownKeysError:
            pass

    @dataclass
    class Leaf:
        a: int

    @dataclass
    class Lax:                                   # a main class without the policy ...
        leaf: Leaf

    @dataclass
    class Strict(JSONWizard):                    # ... and one with it, both nesting Leaf
        class _(JSONWizard.Meta):
            raise_on_unknown_json_key = True
        leaf: Leaf

    fromdict(Lax, {'leaf': {'a': 1, 'zzz': 2}})
    try:
        r = fromdict(Strict, {'leaf': {'a': 1, 'zzz': 2}})
        seen.append(f"two-main-classes: 'zzz' accepted ({r!r})".replace('main.<locals>.', ''))
    except UnknownKeysError:
        pass
    return seen


try:
    seen = main()
except Exception as e:                                      # the script itself is broken
    print(f'script error: {type(e).__name__}: {e}'); sys.exit(2)
if seen:
    print('unknown key under a cascaded raise_on_unknown_json_key after an earlier load under the ignore policy: ' + '; '.join(seen))
    sys.exit(1)
print('not manifested')
