"""v1 engine: the helper functions generated for the TypedDicts / NamedTuples of a class are named after the type's __name__
(`_load_<Class>_typed_dict_<name>`, `_load_<Class>_named_tuple_<name>`); when two different types share a __name__ the second
gets the number of functions generated so far appended (v1/decorators.py: `_fn_name = f'{_fn_name}{len(recursion_guard)}'`),
but the name made up that way is not checked against the names already taken: with types named `TD3`, `TD`, `TD` (in field
order) the second `TD` becomes `..._TD` + `3` = the helper of `TD3`, which it overwrites - field `a: TD3` is then parsed by
the loader of the second `TD` ("Missing required key: 'z'" / MissingFields).  Contradicts C15: the same model spelled with three
distinct names (or with one name for all three) loads the document."""
import os, sys; sys.path.insert(0, os.environ.get('VERIF_REPO', '/repo'))
from dataclasses import dataclass
from typing import NamedTuple, TypedDict


def load(kind, n1, n2, n3):
    from dataclass_wizard import JSONWizard
    if kind == 'typed_dict':
        A, B, Cc = TypedDict(n1, {'x': int}), TypedDict(n2, {'y': str}), TypedDict(n3, {'z': float})
        doc = {'a': {'x': 1}, 'b': {'y': 's'}, 'c': {'z': 1.5}}
    else:
        A, B, Cc = NamedTuple(n1, [('x', int)]), NamedTuple(n2, [('y', str)]), NamedTuple(n3, [('z', float), ('w', int)])
        doc = {'a': [1], 'b': ['s'], 'c': [1.5, 2]}

    @dataclass
    class Outer(JSONWizard):
        class _(JSONWizard.Meta):
            v1 = True
        a: A
        b: B
        c: Cc
    try:
        o = Outer.from_dict(doc)
        return ['ok', repr((o.a, o.b, o.c)).replace(n1, 'T1').replace(n2, 'T2')]
    except Exception as e:      # noqa
        return ['err', type(e).__name__, str(e).replace('\n', ' ')[:160]]


def main():
    seen = []
    for kind, p in (('typed_dict', 'TD'), ('named_tuple', 'N')):
        base = load(kind, p + 'a', p + 'b', p + 'c')
        if base[0] != 'ok':
            raise RuntimeError(f'benign spelling fails: {base}')
        # the guard holds the class itself, then one entry per helper: the second `P` is number 3
        got = load(kind, p + '3', p, p)
        if got[0] != 'ok':
            seen.append(f'{kind}s named {p}3, {p}, {p}: {got[1:]}; named {p}a, {p}b, {p}c: loaded')
    return seen


try:
    seen = main()
except Exception as e:                                      # the script itself is broken
    print(f'script error: {type(e).__name__}: {e}'); sys.exit(2)
if seen:
    print('a collision suffix collides with the name of another type: ' + '; '.join(seen).replace('main.<locals>.', ''))
    sys.exit(1)
print('not manifested')
