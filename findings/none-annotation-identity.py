"""Default engine: a position annotated `None` (the value: `x: None`, `dict[str, None]`, `tuple[int, None]`) is loaded
with the identity parser, so fromdict returns whatever the document holds there (e.g. 5) instead of None or an error.
Contradicts C05: from_dict "either raises an exception or returns an instance every field of which, recursively, is a
value of its annotated type"."""
import os, sys; sys.path.insert(0, os.environ.get('VERIF_REPO', '/repo'))
from dataclasses import dataclass


def main():
    from dataclass_wizard import fromdict

    @dataclass
    class A:
        x: None
        d: dict[str, None]
        t: tuple[int, None]

    seen = []
    for doc in ({'x': 5, 'd': {}, 't': [1, None]}, {'x': None, 'd': {'k': 'v'}, 't': [1, None]},
                {'x': None, 'd': {}, 't': [1, [2]]}):
        try:
            r = fromdict(A, doc)
        except Exception:                        # any rejection is fine here
            continue
        if r.x is not None or any(v is not None for v in r.d.values()) or r.t[1] is not None:
            seen.append(f'{doc!r} loaded as {r!r}')
    return seen


try:
    seen = main()
except Exception as e:                                      # the script itself is broken
    print(f'script error: {type(e).__name__}: {e}'); sys.exit(2)
if seen:
    print('a position annotated None holds a value that is not None: ' + '; '.join(seen).replace('main.<locals>.', ''))
    sys.exit(1)
print('not manifested')
