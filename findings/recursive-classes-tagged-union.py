"""Default engine: under `recursive_classes=True` every dataclass member of a Union is wrapped in a RecursionSafeParser, which
UnionParser filed among the ordinary member parsers instead of the tag table: `valid_tags` was empty and every tagged dict was
rejected ("Object with tag was not in any of Union types"), so fromdict(asdict(x)) raised for any tagged Union (C13 / C01)."""
import os, sys
sys.path.insert(0, os.environ.get('VERIF_REPO', '/repo'))
from dataclasses import dataclass
from typing import Union
from dataclass_wizard import JSONWizard, asdict, fromdict


@dataclass
class A(JSONWizard):
    class _(JSONWizard.Meta):
        tag = 'a'
    x: int = 1


@dataclass
class B(JSONWizard):
    class _(JSONWizard.Meta):
        tag = 'b'
    y: int = 2


@dataclass
class R(JSONWizard):
    class _(JSONWizard.Meta):
        recursive_classes = True
    u: Union[A, B]


x = R(u=B(y=5))
try:
    back = fromdict(R, asdict(x))
except Exception as e:                                   # noqa
    print(f'fromdict(asdict(R(u=B(5)))) under recursive_classes raised {type(e).__name__}: {str(e).splitlines()[0][:160]}')
    sys.exit(1)
if back != x:
    print(f'load(dump(x)) = {back!r} != {x!r}')
    sys.exit(1)
print('not manifested')
