"""v1 engine, TIME field with several patterns of which one contains '-' / '+' (so the generated loader tries the patterns BEFORE
ISO-8601 for the whole list) and another one is ISO-shaped but permuted ('%H:%S:%M'): the field's own ISO dump is re-read by the
permuted pattern, so load(dump(load(s))) != load(s).  Exit 1 when it manifests."""
import sys
sys.path.insert(0, __import__('os').environ.get('VERIF_REPO', '/repo'))
from dataclasses import dataclass
from dataclass_wizard import JSONWizard
from dataclass_wizard.v1 import TimePattern


@dataclass
class C(JSONWizard):
    class _(JSONWizard.Meta):
        v1 = True
    t: TimePattern['%H:%S:%M', '%H-%M']


a = C.from_dict({'t': '05:19:14'})           # pattern first (because of '%H-%M' in the list): 05h 14m 19s
b = C.from_dict(a.to_dict())                 # dump '05:14:19' is read by '%H:%S:%M' again: 05h 19m 14s
if a != b:
    print(f"TimePattern['%H:%S:%M', '%H-%M'] (v1): load('05:19:14') = {a.t}, dumped {a.to_dict()}, reloaded {b.t}: load(dump(load(s))) != load(s)")
    sys.exit(1)
print('not manifested')
