"""EnvWizard: the first read of `Env.cleaned_to_env` (a field whose variable is not present under an exact spelling: the
cleaned tier, or a field that ends up with its default) builds `{clean(var): var for var in cls.var_names}` by iterating the
live set `Env.var_names`; an instantiation in another thread that brings names of its own (`_secrets_dir=` / `_env_file=`:
`Env.reload(env)` -> `env_vars.update(new_vars)`) grows that set meanwhile, and the first thread fails with
RuntimeError('Set changed size during iteration') - an error no sequential order of the two instantiations produces (the
kind the C20 statement names).  Contradicts C20."""
import os, sys, tempfile, threading; sys.path.insert(0, os.environ.get('VERIF_REPO', '/repo'))
from dataclass_wizard import EnvWizard
from dataclass_wizard.environ import lookups

os.environ['WARM_UP_VAR'] = 'w'

class Warm(EnvWizard):
    warm_up_var: str

class C1(EnvWizard):
    not_set_anywhere: str = 'dflt'

class C2(EnvWizard):
    second_secret: str

tmp = tempfile.mkdtemp()
os.mkdir(os.path.join(tmp, 's2'))
open(os.path.join(tmp, 's2', 'SECOND_SECRET'), 'w').write('two')
Warm()                                     # the tables exist; Env.cleaned_to_env has not been read yet
assert not lookups.Env._accessed_cleaned_to_env

at_window, go_on = threading.Event(), threading.Event()
res = {}

def tracer(frame, event, arg):            # hold the first thread inside the iteration: at its first call of clean()
    if event == 'call' and frame.f_code.co_filename == lookups.__file__ and frame.f_code.co_name == 'clean' \
            and frame.f_back.f_code.co_name != 'try_cleaned' and not at_window.is_set():
        at_window.set(); go_on.wait(10)
    return None

def first():
    sys.settrace(tracer)
    try:
        res['C1'] = C1().dict()
    except Exception as e:
        res['C1'] = e
    finally:
        sys.settrace(None); at_window.set()

t = threading.Thread(target=first); t.start(); at_window.wait(10)
res['C2'] = C2(_secrets_dir=os.path.join(tmp, 's2')).dict()
go_on.set(); t.join()
if res['C1'] != {'not_set_anywhere': 'dflt'} or res['C2'] != {'second_secret': 'two'}:
    print(f'C1() reading Env.cleaned_to_env for the first time while C2(_secrets_dir=...) adds its names: C1 -> {res["C1"]!r}, C2 -> {res["C2"]!r}')
    sys.exit(1)
print('not manifested', res)
