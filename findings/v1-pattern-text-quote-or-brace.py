"""v1 engine: the generated loader of a patterned date / time position ends with
`raise ValueError(f"Unable to parse the string '{v1}' with the provided patterns: <repr of the patterns>")` -- the patterns' repr is pasted
INTO the f-string literal of the generated line (dataclass_wizard/v1/models.py, end of PatternBase.load_to_pattern).  A pattern whose literal
text contains ' (its repr is then double-quoted and ends the literal), " or a brace makes the generated source a SyntaxError: the first
from_dict of the class fails, so a value formatted with the declared pattern does not load (nor does ISO text, and a bad string is not
rejected with the error naming the patterns).  The default engine (no code generation) loads the same declarations.  Exit 1 when it manifests."""
import sys
sys.path.insert(0, __import__('os').environ.get('VERIF_REPO', '/repo'))
from dataclasses import dataclass
from datetime import time
from dataclass_wizard import JSONWizard
from dataclass_wizard.v1 import TimePattern

bad = []
for p in ("%H o'clock", '%H "h" %M', '{%H}', '%H}%M'):
    V = time(7, 30) if '%M' in p else time(7)

    @dataclass
    class C(JSONWizard):
        class _(JSONWizard.Meta):
            v1 = True
        t: TimePattern[p]

    try:
        got = C.from_dict({'t': V.strftime(p)}).t
        if got != V:
            bad.append(f'{p!r}: loaded {got!r}')
    except SyntaxError as e:
        bad.append(f'{p!r}: SyntaxError ({e.msg})')
if bad:
    print('v1 TimePattern with a quote / brace in its literal text, from_dict of a value formatted with the pattern: ' + '; '.join(bad))
    sys.exit(1)
print('not manifested')
