"""v1 engine: unknown keys are detected by comparing len(o) with a count of the fields found; each AliasPath field adds
one, so two path fields that share a top-level key ('pos.x', 'pos.y': ONE key 'pos' in the document) are over-counted:
under v1_on_unknown_key='RAISE' the class rejects its own dump with UnknownKeysError naming no key (set()), and with a
CatchAll field whose default is None the field loads as {}.  Contradicts C10: "documents without unknown keys load
normally" / "(or its default is kept when there are none)"."""
import os, sys; sys.path.insert(0, os.environ.get('VERIF_REPO', '/repo'))
from dataclasses import dataclass


def main():
    from dataclass_wizard import JSONWizard, CatchAll, fromdict, asdict
    from dataclass_wizard.v1 import AliasPath

    @dataclass
    class Dog(JSONWizard):
        class _(JSONWizard.Meta):
            v1 = True
            v1_on_unknown_key = 'RAISE'
        n: int = AliasPath('pos.x')
        m: int = AliasPath('pos.y', default=2)
        w: int = 3

    @dataclass
    class Cat(JSONWizard):
        class _(JSONWizard.Meta):
            v1 = True
        n: int = AliasPath('pos.x')
        m: int = AliasPath('pos.y', default=2)
        rest: CatchAll = None

    seen = []
    for name, x in (('RAISE', Dog(1)), ('CatchAll = None', Cat(1))):
        d = asdict(x)                            # {'pos': {'x': 1, 'y': 2}, 'w': 3}
        try:
            y = fromdict(type(x), d)
            if y != x:
                seen.append(f'{name}: {d!r} loaded as {y!r}')
        except Exception as e:
            seen.append(f"{name}: {d!r} -> {type(e).__name__} unknown_keys={getattr(e, 'unknown_keys', None)!r}")
    return seen


try:
    seen = main()
except Exception as e:                                      # the script itself is broken
    print(f'script error: {type(e).__name__}: {e}'); sys.exit(2)
if seen:
    print("v1, two AliasPath fields below one top-level key ('pos.x', 'pos.y'), document without unknown keys: "
          + '; '.join(seen).replace('main.<locals>.', '')); sys.exit(1)
print('not manifested')
