"""A dataclass N loaded / dumped as a nested field of a main class with a recursive Meta keeps that main class's
configuration afterwards (bind_to(N, is_default=False) rebinds N's per-class dumper / loader, the per-class key caches
are filled under the main class's Meta): N used later on its own, or under a main class without settings, dumps with
the first main class's key transform / TIMESTAMP encoding; conversely a first use of N on its own fixes its keys under
a configured main class.  Contradicts C07: "the nested class used on its own, loads and dumps exactly as it would if
the first class had never been defined or used", and C06 (results do not depend on call history)."""
import os, sys; sys.path.insert(0, os.environ.get('VERIF_REPO', '/repo'))
from dataclasses import dataclass
from datetime import datetime, timezone


def classes():
    from dataclass_wizard import JSONWizard

    @dataclass
    class N:
        my_at: datetime

    @dataclass
    class Configured(JSONWizard):
        class _(JSONWizard.Meta):
            key_transform_with_dump = 'SNAKE'
            marshal_date_time_as = 'TIMESTAMP'
        n: N

    @dataclass
    class Plain(JSONWizard):
        n: N

    return N, Configured, Plain


def main():
    from dataclass_wizard import asdict
    at = datetime(2020, 1, 2, tzinfo=timezone.utc)
    fresh = {'myAt': '2020-01-02T00:00:00Z'}
    seen = []
    N, Configured, Plain = classes()
    if asdict(N(at)) != fresh:
        raise AssertionError(f'first dump of N on its own: {asdict(N(at))!r}')
    d = Configured(N(at)).to_dict()['n']                    # N was used on its own first
    if d != {'my_at': 1577923200}:
        seen.append(f'own-use-first: N below the configured main class dumps {d!r}')
    N, Configured, Plain = classes()
    Configured(N(at)).to_dict()                             # N is reached through the configured main class first
    d = asdict(N(at))
    if d != fresh:
        seen.append(f'configured-first: N on its own dumps {d!r}')
    d = Plain(N(at)).to_dict()['n']
    if d != fresh:
        seen.append(f'configured-first: N below a main class without settings dumps {d!r}')
    return seen


try:
    seen = main()
except Exception as e:                                      # the script itself is broken
    print(f'script error: {type(e).__name__}: {e}'); sys.exit(2)
if seen:
    print("N(my_at) and a main class with key_transform_with_dump='SNAKE', marshal_date_time_as='TIMESTAMP': " + '; '.join(seen))
    sys.exit(1)
print('not manifested')
