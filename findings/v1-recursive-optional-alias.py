"""v1 engine: a recursive type whose body is a two-member Optional - `type Tree = tuple[int, Tree] | None`,
`type Chain = list[Chain] | None`, `Old = Optional[list['Old']]` (the pre-3.12 spelling of the README), or an alias whose
recursion passes through an Optional member (`type Inner = list[Optional[Inner]]`) - makes the generation of the loader
raise RecursionError on the first from_dict: LoadMixin.get_string_for_annotation inlines `Optional[x]` as
`None if v is None else <x>` before it reaches load_to_union, the only place where the recursion guard
(setup_recursive_safe_function, one helper function per Union) stops a type that recurs; with a third member
(`type J = int | list[J] | None`) the same alias loads.  Contradicts C02: round trip "including ... recursive type
aliases", and "Building the loader for any such class succeeds: no supported annotation makes loader generation itself
fail"."""
import os, sys; sys.path.insert(0, os.environ.get('VERIF_REPO', '/repo'))
from dataclasses import dataclass
from typing import Optional

type Tree = tuple[int, Tree] | None
type Chain = list[Chain] | None
type NoneFirst = None | dict[str, NoneFirst]
Old = Optional[list['Old']]
type Inner = list[Optional[Inner]]
type Three = int | list[Three] | None            # control: three members, handled by load_to_union


def main():
    from dataclass_wizard import JSONWizard

    def mk(tp, name):
        @dataclass
        class A(JSONWizard):
            class _(JSONWizard.Meta):
                v1 = True
            t: tp
        A.__name__ = A.__qualname__ = name
        return A

    seen = []
    for name, tp, val, via_json in (('Three', Three, [1, [None, 2]], True),
                                    ('Tree', Tree, (1, (2, None)), True),
                                    ('Chain', Chain, [[], [[None]]], True),
                                    ('NoneFirst', NoneFirst, {'a': {'b': None}, 'c': None}, True),
                                    ('Old', Old, [[None], []], True),
                                    ('Inner', Inner, [None, [None, []]], True)):
        cls = mk(tp, name)
        x = cls(val)
        try:
            ok = cls.from_dict(x.to_dict()) == x and (not via_json or cls.from_json(x.to_json()) == x)
            if not ok:
                seen.append(f'{name}: round trip of {val!r} differs')
        except RecursionError:
            seen.append(f'{name}: RecursionError')
        except Exception as e:
            seen.append(f'{name}: {type(e).__name__}')
        if name == 'Three' and seen:
            raise AssertionError('the control (three-member recursive alias) must load: ' + seen[0])
    return seen


try:
    seen = main()
except Exception as e:                                      # the script itself is broken
    print(f'script error: {type(e).__name__}: {e}'); sys.exit(2)
if seen:
    print('v1, recursive type reached through a two-member Optional, first from_dict: ' + '; '.join(seen)); sys.exit(1)
print('not manifested')
