"""EnvWizard: for a fixed-length tuple field (pair: tuple[str, int]) the element count is checked with len(o) on the raw
environment string, before it is split: PAIR='a,5' is rejected (ParseError desired_count=2 actual_count=3), the JSON form
'["a", 5]' too; tuple[int, ...] with ',' gives (0,) where list[int] gives [0, 0].  Contradicts C04: "element-wise
conversion inside containers ... The same coercions apply ... to EnvWizard values" (C18: "with comma/equals splitting
for collections")."""
import os, sys; sys.path.insert(0, os.environ.get('VERIF_REPO', '/repo'))


def main():
    from dataclass_wizard import EnvWizard
    seen = []
    for value in ('a,5', '["a", 5]'):
        os.environ['PAIR'] = value

        class T(EnvWizard):
            pair: tuple[str, int]

        try:
            got = T(_reload=True).pair
            if got != ('a', 5):
                seen.append(f'PAIR={value!r} -> {got!r}')
        except Exception as e:
            seen.append(f'PAIR={value!r} -> {type(e).__name__} ' + ' '.join(str(e).split('error:')[-1].split())[:75])
    os.environ['NUMS'] = os.environ['NUMS2'] = ','

    class V(EnvWizard):
        nums: tuple[int, ...]
        nums2: list[int]

    v = V(_reload=True)
    if list(v.nums) != v.nums2:
        seen.append(f"','  -> tuple[int, ...] {v.nums!r} but list[int] {v.nums2!r}")
    return seen


try:
    seen = main()
except Exception as e:                                      # the script itself is broken
    print(f'script error: {type(e).__name__}: {e}'); sys.exit(2)
if seen:
    print('EnvWizard, tuple field pair: tuple[str, int] from an environment string: ' + '; '.join(seen)); sys.exit(1)
print('not manifested')
