"""Two unrelated classes whose Metas name the same `json_key_to_field` mapping object (a module-level constant) carrying the
'__all__' marker: BaseJSONWizardMeta.bind_to *pops* the marker out of the user's mapping
(`cls.json_key_to_field.pop('__all__', None)`), so only the class that is bound first dumps under the alias; the second
class - defined after the first - finds no marker and dumps the field under its transformed name.  (The analogous
'__load__' / '__dump__' markers of v1_field_to_alias are read without being removed.)  Contradicts C07: the second class
"loads and dumps exactly as it would if the first class had never been defined"."""
import os, sys; sys.path.insert(0, os.environ.get('VERIF_REPO', '/repo'))
from dataclasses import dataclass


def main():
    from dataclass_wizard import JSONWizard

    def second(keys):
        @dataclass
        class Second(JSONWizard):
            class _(JSONWizard.Meta):
                json_key_to_field = keys
            my_id: int
        return Second

    seen = []
    alone = second({'__all__': True, 'ID': 'my_id'})(1).to_dict()
    if alone != {'ID': 1}:
        raise AssertionError(f'Second on its own dumps {alone!r}')
    KEYS = {'__all__': True, 'ID': 'my_id'}

    @dataclass
    class First(JSONWizard):
        class _(JSONWizard.Meta):
            json_key_to_field = KEYS
        my_id: int

    got = second(KEYS)(1).to_dict()
    if got != alone:
        seen.append(f'Second dumps {got!r} when First was defined before it, {alone!r} on its own; the mapping is now {KEYS!r}')
    return seen


try:
    seen = main()
except Exception as e:                                      # the script itself is broken
    print(f'script error: {type(e).__name__}: {e}'); sys.exit(2)
if seen:
    print("json_key_to_field = KEYS ({'__all__': True, 'ID': 'my_id'}) in the Metas of First and Second: " + '; '.join(seen))
    sys.exit(1)
print('not manifested')
