"""All engines: an epoch number loads as the aware UTC instant for `datetime` but as the LOCAL calendar day for `date`
(as_date / as_date_v1 call date.fromtimestamp(o)); in a process whose time zone is not UTC the two fields of one document
disagree.  C04 states "epoch numbers for date/datetime (UTC)"; docs/overview.rst says "builtin fromtimestamp" (local for date),
and the TIMESTAMP dump of a date is local midnight, so load and dump are mutually consistent — the C04 oracle follows the
documentation, this script pins the difference to the statement."""
import os, sys, time
sys.path.insert(0, os.environ.get('VERIF_REPO', '/repo'))
os.environ['TZ'] = 'EST5EDT,M3.2.0,M11.1.0'
time.tzset()
from dataclasses import dataclass
from datetime import date, datetime
from dataclass_wizard import JSONWizard, fromdict


@dataclass
class A:
    at: datetime
    day: date


@dataclass
class B(JSONWizard):
    class _(JSONWizard.Meta):
        v1 = True
    day: date


a = fromdict(A, {'at': 0, 'day': 0})
b = B.from_dict({'day': 0})
if a.day != date(1970, 1, 1) or b.day != date(1970, 1, 1):
    print(f'TZ=EST5EDT: epoch 0 loads as datetime {a.at.isoformat()} but as date {a.day} (default engine) / {b.day} (v1): the local day, not the UTC day')
    sys.exit(1)
print('not manifested')
