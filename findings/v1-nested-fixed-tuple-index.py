"""v1 engine: a fixed-length tuple nested in another fixed-length tuple (tuple[int, tuple[str, int]]) generated element
access that dropped the outer index (v1[0] instead of v1[1][0]): the inner elements were read from the outer sequence,
so fromdict(asdict(x)) != x or raised.  Contradicts C02: "fromdict(asdict(x)) == x ... types nested inside any
container position", and C05.  Repaired by f3aedfc."""
import os, sys; sys.path.insert(0, os.environ.get('VERIF_REPO', '/repo'))
from dataclasses import dataclass


def main():
    from dataclass_wizard import JSONWizard

    @dataclass
    class A(JSONWizard):
        class _(JSONWizard.Meta):
            v1 = True
        p: tuple[int, tuple[str, int]]
        q: tuple[tuple[str, str], tuple[int, int]] = (('a', 'b'), (1, 2))

    x = A((5, ('s', 6)))
    try:
        y = A.from_dict(x.to_dict())
    except Exception as e:
        return [f'{x!r} -> {type(e).__name__} ' + ' '.join(str(e).split())[:80]]
    return [] if y == x else [f'{x!r} -> {y!r}']


try:
    seen = main()
except Exception as e:                                      # the script itself is broken
    print(f'script error: {type(e).__name__}: {e}'); sys.exit(2)
if seen:
    print('v1, fixed-length tuple inside a fixed-length tuple: load(dump(x)) fails or differs: '
          + '; '.join(seen).replace('main.<locals>.', '')); sys.exit(1)
print('not manifested')
