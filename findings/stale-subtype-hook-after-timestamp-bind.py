"""Default engine dump: _asdict_inner caches hooks[subtype] = hooks[base] on first sight of a date / datetime subclass
value; when the class is later reached through a main class whose recursive Meta says marshal_date_time_as = TIMESTAMP,
bind_to swaps the date / datetime hooks but the cached subclass entry keeps the ISO encoder.  Contradicts C03: "date/
time/datetime -> ISO-8601 ..., or epoch seconds under TIMESTAMP", and C06 (the dump depends on an earlier dump)."""
import os, sys; sys.path.insert(0, os.environ.get('VERIF_REPO', '/repo'))
from dataclasses import dataclass
from datetime import date, datetime, timezone
from typing import List


class MyDate(date):                              # any proper subclass of date / datetime
    pass


class MyDateTime(datetime):
    pass


def main():
    from dataclass_wizard import JSONWizard, asdict

    @dataclass
    class Inner(JSONWizard):
        day: date
        at: datetime

    @dataclass
    class Outer(JSONWizard):
        class _(JSONWizard.Meta):
            marshal_date_time_as = 'TIMESTAMP'
        items: List[Inner]

    at = MyDateTime(2020, 1, 3, tzinfo=timezone.utc)
    asdict(Inner(MyDate(2020, 1, 1), at))        # step 1: Inner on its own sees the subclasses: their ISO hooks are cached
    d = Outer([Inner(date(2020, 1, 2), datetime(2020, 1, 2, tzinfo=timezone.utc)), Inner(MyDate(2020, 1, 3), at)]).to_dict()
    plain, sub = d['items']
    if not all(type(v) in (int, float) for v in plain.values()):      # e.g. {'day': 1577923200, 'at': 1577923200}
        raise AssertionError(f'plain date / datetime under TIMESTAMP: {plain!r}')
    return [f'{k}: {type(v).__name__} {v!r}' for k, v in sub.items() if type(v) not in (int, float)]


try:
    seen = main()
except Exception as e:                                      # the script itself is broken
    print(f'script error: {type(e).__name__}: {e}'); sys.exit(2)
if seen:
    print('date / datetime subclass values dumped on their own first are written as ISO text inside a TIMESTAMP dump '
          '(expected epoch seconds): ' + '; '.join(seen)); sys.exit(1)
print('not manifested')
