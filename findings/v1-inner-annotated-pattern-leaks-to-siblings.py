"""v1 engine: `Annotated[T, Pattern(..)]` met INSIDE a field's annotation stores its pattern in the `extras` mapping shared by the whole
field (dataclass_wizard/v1/loaders.py, get_string_for_annotation: `extras['pattern'] = extra`) and nothing restores the outer pattern when
that inner position is done, so every LATER sibling position of the same field is parsed with the inner pattern instead of the one
annotating the container: in Annotated[tuple[Annotated[date, Pattern('%Y.%m.%d')], date], Pattern('%d/%m/%Y')] the second element rejects
'10/03/2024' (the error names '%Y.%m.%d') and reads '2024.03.10'.  (Across fields the pattern is dropped: repair d864b02.)  Exit 1 when it manifests."""
import sys
sys.path.insert(0, __import__('os').environ.get('VERIF_REPO', '/repo'))
from dataclasses import dataclass
from datetime import date
from typing import Annotated
from dataclass_wizard import JSONWizard
from dataclass_wizard.v1 import Pattern


@dataclass
class C(JSONWizard):
    class _(JSONWizard.Meta):
        v1 = True
    f: Annotated[tuple[Annotated[date, Pattern('%Y.%m.%d')], date], Pattern('%d/%m/%Y')]


want = (date(2024, 3, 9), date(2024, 3, 10))
try:
    got = C.from_dict({'f': ['2024.03.09', '10/03/2024']}).f
    outcome = repr(got)
except Exception as e:
    got, outcome = None, f'{type(e).__name__}: {str(getattr(e, "base_error", e))[:120]}'
try:
    leaked = C.from_dict({'f': ['2024.03.09', '2024.03.10']}).f
except Exception:
    leaked = None
if got != want or leaked is not None:
    print("Annotated[tuple[Annotated[date, Pattern('%Y.%m.%d')], date], Pattern('%d/%m/%Y')] (v1): ['2024.03.09', '10/03/2024'] -> "
          f"{outcome}; ['2024.03.09', '2024.03.10'] -> {leaked!r} (the second element is read with the inner pattern of the first)")
    sys.exit(1)
print('not manifested')
