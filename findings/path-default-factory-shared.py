"""Default engine: a path_field / KeyPath field with default_factory got ONE factory product per class as its default;
typed Any (identity parser) every instance loaded with the path absent shared that one list, so a.tags.append(..) changed
later loads.  Contradicts C09: "on success each omitted field holds its default (a fresh default_factory product per
instance)".  Repaired by fa12b2f."""
import os, sys; sys.path.insert(0, os.environ.get('VERIF_REPO', '/repo'))
from dataclasses import dataclass
from typing import Any


def main():
    from dataclass_wizard import fromdict, path_field

    @dataclass
    class A:
        tags: Any = path_field('meta.tags', default_factory=list)
        opts: Any = path_field('meta.opts', default_factory=dict)

    a, b = fromdict(A, {}), fromdict(A, {})
    a.tags.append('changed')
    a.opts['k'] = 1
    c = fromdict(A, {'meta': {}})
    seen = []
    if a.tags is b.tags or c.tags != []:
        seen.append(f'list: same object {a.tags is b.tags}, a later load starts with {c.tags!r}')
    if a.opts is b.opts or c.opts != {}:
        seen.append(f'dict: same object {a.opts is b.opts}, a later load starts with {c.opts!r}')
    return seen


try:
    seen = main()
except Exception as e:                                      # the script itself is broken
    print(f'script error: {type(e).__name__}: {e}'); sys.exit(2)
if seen:
    print('default_factory product of an Any-typed path field shared between loaded instances: ' + '; '.join(seen)); sys.exit(1)
print('not manifested')
