"""Both engines: a REQUIRED field bound to a JSON path (path_field / KeyPath, v1 AliasPath, no default) whose path - the
leaf or a prefix - is absent from the document raises a ParseError that names the path instead of MissingFields.
Contradicts C09: "on failure a MissingFields error is raised whose missing-field list is exactly the set of omitted
required fields, at whatever nesting depth the omission occurred"."""
import os, sys; sys.path.insert(0, os.environ.get('VERIF_REPO', '/repo'))
from dataclasses import dataclass


def main():
    from dataclass_wizard import JSONWizard, fromdict, path_field
    from dataclass_wizard.errors import MissingFields
    from dataclass_wizard.v1 import AliasPath

    @dataclass
    class D:
        x: int = path_field('a.b')
        y: int = 0

    @dataclass
    class V(JSONWizard):
        class _(JSONWizard.Meta):
            v1 = True
        x: int = AliasPath('a.b')
        y: int = 0

    seen = []
    for engine, cls in (('default', D), ('v1', V)):
        if fromdict(cls, {'a': {'b': 1}}).x != 1:
            raise AssertionError('the complete document must load')
        for doc in ({}, {'a': {}}):
            try:
                seen.append(f'{engine} {doc!r}: loaded {fromdict(cls, doc)!r}')
            except MissingFields as e:
                if list(e.missing_fields) != ['x']:
                    seen.append(f'{engine} {doc!r}: MissingFields {e.missing_fields!r}')
            except Exception as e:
                seen.append(f'{engine} {doc!r}: {type(e).__name__}')
    return seen


try:
    seen = main()
except Exception as e:                                      # the script itself is broken
    print(f'script error: {type(e).__name__}: {e}'); sys.exit(2)
if seen:
    print("required field x at path 'a.b' absent, expected MissingFields ['x']: " + '; '.join(seen)); sys.exit(1)
print('not manifested')
