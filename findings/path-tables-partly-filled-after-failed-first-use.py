"""Both engines: the first to_dict() / from_dict() of a class fails part-way through the class set-up (a field annotated
with a forward reference to a class that is defined further down / later in the REPL -> NameError), and the same call is
repeated once the missing class exists.  The set-up functions (class_helper.setup_dump_config_for_cls_if_needed,
_setup_v1_load_config_for_cls) register the key paths of a class only when its path table is still empty
(`set_paths = False if field_to_path else True`): the interrupted first run has already stored the path of the field
declared BEFORE the unresolvable annotation, so the repeated run finds the table non-empty and never registers the path
fields declared AFTER it.  Default engine: the later path field raises KeyError on to_dict(); v1 engine: it is not read
from its path on load (default value / MissingFields) and raises KeyError on to_dict().
Contradicts C08: a field receives the value "at the nested location named by KeyPath/path_field/AliasPath" and is dumped
at that path."""
import os, sys; sys.path.insert(0, os.environ.get('VERIF_REPO', '/repo'))
from dataclasses import dataclass


def default_engine():
    from dataclass_wizard import JSONWizard, path_field

    @dataclass
    class Order(JSONWizard):
        first_pt: int = path_field('a.b', default=0)
        line: 'OrderLine' = None                      # noqa: F821  (defined below, after the first attempt)
        later_pt: int = path_field('c.d', default=0)

    try:
        Order(1, None, 2).to_dict()
        return ['default engine: the first to_dict() did not fail']
    except NameError:
        pass

    @dataclass
    class OrderLine:
        sku: str = ''
    globals()['OrderLine'] = OrderLine
    seen = []
    try:
        d = Order(1, OrderLine('x'), 2).to_dict()
        if d.get('c') != {'d': 2}:
            seen.append(f'default engine: repeated to_dict() = {d!r}')
    except Exception as e:                           # noqa
        seen.append(f'default engine: repeated to_dict() raises {type(e).__name__}({e})')
    o = Order.from_dict({'a': {'b': 1}, 'c': {'d': 2}, 'line': {'sku': 'x'}})
    if (o.first_pt, o.later_pt) != (1, 2):
        seen.append(f'default engine: from_dict gives {o!r}')
    return seen


def v1_engine():
    from dataclass_wizard import JSONWizard
    from dataclass_wizard.v1 import AliasPath

    @dataclass
    class Basket(JSONWizard):
        class _(JSONWizard.Meta):
            v1 = True
        first_pt: int = AliasPath('a.b', default=0)
        item: 'BasketItem' = None                     # noqa: F821
        later_pt: int = AliasPath('c.d', default=0)

    try:
        Basket.from_dict({'a': {'b': 1}, 'c': {'d': 2}, 'item': {'sku': 'x'}})
        return ['v1 engine: the first from_dict() did not fail']
    except NameError:
        pass

    @dataclass
    class BasketItem:
        sku: str = ''
    globals()['BasketItem'] = BasketItem
    seen = []
    o = Basket.from_dict({'a': {'b': 1}, 'c': {'d': 2}, 'item': {'sku': 'x'}})
    if (o.first_pt, o.later_pt) != (1, 2):
        seen.append(f'v1 engine: repeated from_dict() gives {o!r}')
    try:
        d = Basket(1, BasketItem('x'), 2).to_dict()
        if d.get('c') != {'d': 2}:
            seen.append(f'v1 engine: to_dict() = {d!r}')
    except Exception as e:                           # noqa
        seen.append(f'v1 engine: to_dict() raises {type(e).__name__}({e})')
    return seen


try:
    seen = default_engine() + v1_engine()
except Exception as e:                                      # the script itself is broken
    print(f'script error: {type(e).__name__}: {e}'); sys.exit(2)
if seen:
    print('path field, field of a class defined late, path field; first use before the class exists, then repeated: ' + '; '.join(seen))
    sys.exit(1)
print('not manifested')
