"""Default engine: a class with a path_field / KeyPath field and a CatchAll field captured the top-level key of the path
('pos' of 'pos.x') in the catch-all dict although the path field had consumed it; to_dict then wrote the value twice.
Contradicts C10: "with a CatchAll field exactly the unknown key/value pairs ... are stored in that field (or its default is
kept when there are none)", and the round trip of C01 (fromdict(asdict(x)) == x).  Repaired by a3460f9."""
import os, sys; sys.path.insert(0, os.environ.get('VERIF_REPO', '/repo'))
from dataclasses import dataclass, field


def main():
    from dataclass_wizard import JSONWizard, CatchAll, fromdict, asdict, path_field

    @dataclass
    class Dog(JSONWizard):
        n: int = path_field('pos.x')
        w: int = 3
        rest: CatchAll = field(default_factory=dict)

    x = Dog(1)
    d = asdict(x)                      # {'pos': {'x': 1}, 'w': 3}
    y = fromdict(Dog, d)
    if y != x or y.rest != {}:
        return [f'fromdict(asdict(Dog(1))) with asdict = {d!r} gave {y!r}'.replace('main.<locals>.', '')]
    return []


try:
    seen = main()
except Exception as e:                                      # the script itself is broken
    print(f'script error: {type(e).__name__}: {e}'); sys.exit(2)
if seen:
    print('the top-level key of a path field was captured by CatchAll: ' + '; '.join(seen)); sys.exit(1)
print('not manifested')
