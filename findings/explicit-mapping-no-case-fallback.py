"""EnvWizard: a field with an explicit mapping (env_field('NOPE') / Meta.field_to_env_var) is looked up by exactly those
names only: when none of them is set the field goes straight to its default and never reaches the letter-case lookup of
its own name.  Contradicts C18: each field gets "the value of its explicitly mapped variable(s) ..., else the variable
found by the configured letter-case priority (... SCREAMING_SNAKE, then the field name as written ...), else its default"."""
import os, sys; sys.path.insert(0, os.environ.get('VERIF_REPO', '/repo'))


def main():
    from dataclass_wizard import EnvWizard, env_field
    os.environ.pop('NOPE', None)
    os.environ.pop('NOPE2', None)
    os.environ['A'] = 'from-A'
    os.environ['my_var'] = 'from-my_var'

    class E(EnvWizard):
        class _(EnvWizard.Meta):
            field_to_env_var = {'my_var': 'NOPE2'}
        a: str = env_field('NOPE', default='D')
        my_var: str = 'D2'
        control: str = 'D3'

    os.environ['CONTROL'] = 'from-CONTROL'
    e = E(_reload=True)
    if e.control != 'from-CONTROL':
        raise AssertionError(f'control field: {e.control!r}')
    return [f'{n} = {getattr(e, n)!r} although {v} is set' for n, v in (('a', 'A'), ('my_var', 'my_var'))
            if getattr(e, n) != 'from-' + v]


try:
    seen = main()
except Exception as e:                                      # the script itself is broken
    print(f'script error: {type(e).__name__}: {e}'); sys.exit(2)
if seen:
    print('EnvWizard field whose explicitly mapped variable is unset falls to its default, skipping the lookup by name: ' + '; '.join(seen))
    sys.exit(1)
print('not manifested')
