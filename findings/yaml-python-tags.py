"""YAMLWizard: to_yaml hands asdict(x) to yaml.dump (the full Dumper), and asdict keeps tuple, NamedTuple and OrderedDict
objects as they are; the Dumper writes them with Python-specific tags (!!python/tuple, !!python/object/new:<NamedTuple>,
!!python/object/apply:collections.OrderedDict) which from_yaml - yaml.safe_load - rejects with a ConstructorError.
Contradicts C01: from_yaml(to_yaml(x)) == x "for payloads those formats can carry" - a list of an int and a text is a
payload YAML carries (yaml.safe_dump / safe_load of the JSON form of the same document give it back)."""
import os, sys; sys.path.insert(0, os.environ.get('VERIF_REPO', '/repo'))
from collections import OrderedDict
from dataclasses import dataclass
from typing import NamedTuple, Tuple


class Pt(NamedTuple):
    a: int
    b: str


def main():
    from dataclass_wizard import YAMLWizard

    @dataclass
    class A(YAMLWizard):
        t: Tuple[int, str]

    @dataclass
    class B(YAMLWizard):
        n: Pt

    @dataclass
    class D(YAMLWizard):
        o: 'OrderedDict[str, int]'

    seen = []
    for x in (A((1, 'a')), B(Pt(1, 'b')), D(OrderedDict(k=1))):
        txt = x.to_yaml()
        try:
            y = type(x).from_yaml(txt)
        except Exception as e:
            seen.append(f'{x!r}: to_yaml wrote {txt!r}, from_yaml raised {type(e).__name__}')
            continue
        if y != x:
            seen.append(f'{x!r} came back as {y!r}')
    return seen


try:
    seen = main()
except Exception as e:                                      # the script itself is broken
    print(f'script error: {type(e).__name__}: {e}'); sys.exit(2)
if seen:
    print('YAML round trip of tuple / NamedTuple / OrderedDict fields: ' + '; '.join(seen).replace('main.<locals>.', ''))
    sys.exit(1)
print('not manifested')
