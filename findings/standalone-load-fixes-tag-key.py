"""Default engine: the Union parser of Home.pet is built and cached when Home is first loaded, with the tag key in force
then ('__tag__'); loaded later below a main class that cascades tag_key = 'kind', the members are dumped under 'kind'
but the cached parser keeps looking for '__tag__': fromdict(Owner, asdict(o)) raises ParseError.  Contradicts C01:
"fromdict(asdict(x)) == x" (nested and tagged-union dataclasses), and C06 (the outcome depends on an earlier load)."""
import os, sys; sys.path.insert(0, os.environ.get('VERIF_REPO', '/repo'))
from dataclasses import dataclass
from typing import Union


def main():
    from dataclass_wizard import JSONWizard, asdict, fromdict

    @dataclass
    class Cat(JSONWizard):
        class _(JSONWizard.Meta):
            tag = 'cat'
        lives: int

    @dataclass
    class Dog(JSONWizard):
        class _(JSONWizard.Meta):
            tag = 'dog'
        tricks: int

    @dataclass
    class Home:                                  # no Meta of its own
        pet: Union[Cat, Dog]

    @dataclass
    class Owner(JSONWizard):
        class _(JSONWizard.Meta):
            tag_key = 'kind'                     # cascades to Home / Cat / Dog
        home: Home

    h = Home(Cat(9))
    if fromdict(Home, asdict(h)) != h:           # step 1: Home round-trips on its own (tag key '__tag__')
        raise AssertionError('stand-alone round trip of Home')
    o = Owner(Home(Dog(2)))
    d = asdict(o)                                # {'home': {'pet': {'tricks': 2, 'kind': 'dog'}}}
    try:
        y = fromdict(Owner, d)
    except Exception as e:
        return [f'fromdict(Owner, {d!r}) raised {type(e).__name__} ' + ' '.join(str(e).split())[:100]]
    return [] if y == o else [f'fromdict(Owner, {d!r}) gave {y!r}']


try:
    seen = main()
except Exception as e:                                      # the script itself is broken
    print(f'script error: {type(e).__name__}: {e}'); sys.exit(2)
if seen:
    print('after a stand-alone load of the nested class its Union keeps the old tag key under a cascaded tag_key: '
          + '; '.join(seen).replace('main.<locals>.', '')); sys.exit(1)
print('not manifested')
