"""TOMLWizard: asdict leaves a member of an `(int, Enum)` mix-in as the member (an int instance); tomli_w writes ints
through str(), which for such a member is 'E.A' - so to_toml writes `e = E.A`, which is not a TOML value, and from_toml
raises TOMLDecodeError.  Contradicts C01: from_toml(to_toml(x)) == x "for payloads those formats can carry" - TOML
carries the integer 2 (the JSON round trip of the same instance works: json writes int.__repr__)."""
import os, sys; sys.path.insert(0, os.environ.get('VERIF_REPO', '/repo'))
from dataclasses import dataclass
from enum import Enum


class E(int, Enum):
    A = 2


def main():
    from dataclass_wizard import TOMLWizard

    @dataclass
    class A(TOMLWizard):
        e: E

    x = A(E.A)
    txt = x.to_toml()
    try:
        y = A.from_toml(txt)
    except Exception as e:
        return [f'{x!r}: to_toml wrote {txt!r}, from_toml raised {type(e).__name__}']
    return [] if y == x else [f'{x!r} came back as {y!r}']


try:
    seen = main()
except Exception as e:                                      # the script itself is broken
    print(f'script error: {type(e).__name__}: {e}'); sys.exit(2)
if seen:
    print('TOML round trip of an (int, Enum) member: ' + '; '.join(seen).replace('main.<locals>.', ''))
    sys.exit(1)
print('not manifested')
