"""auto_assign_tags, both engines: a Union member class that is also the type of a plain / Optional field declared BEFORE
the Union field gets its load function generated while it has no tag yet (tags are assigned when the Union is reached).
Default engine (load before any dump): the tag key of the dumped document lands in the CatchAll field of the plain
reference.  v1: the Union dispatches to that cached function, which reports the tag key as unknown under RAISE
(UnknownKeysError {'__tag__'}) or captures it in the member's CatchAll.  Contradicts C13: "the tag key is never reported
as an unknown key nor captured by CatchAll", and C10 (CatchAll holds the unknown pairs "excluding the union tag key")."""
import os, sys; sys.path.insert(0, os.environ.get('VERIF_REPO', '/repo'))
from dataclasses import dataclass, field
from typing import Optional, Union


def default_engine():
    from dataclass_wizard import JSONWizard, CatchAll, fromdict

    @dataclass
    class Dog:
        n: int
        rest: CatchAll = field(default_factory=dict)

    @dataclass
    class Cat:
        n: int

    @dataclass
    class R(JSONWizard):
        class _(JSONWizard.Meta):
            auto_assign_tags = True
        pre: Dog                                 # the member class referenced outside the Union, BEFORE the Union field
        u: Union[Dog, Cat]

    # a document as R dumps it (asdict(R(Dog(1), Dog(2)))), loaded by a process that has not dumped before
    y = fromdict(R, {'pre': {'n': 1, '__tag__': 'Dog'}, 'u': {'n': 2, '__tag__': 'Dog'}})
    return [] if y == R(Dog(1), Dog(2)) else [f'default engine, load first: {y!r}']


def v1_engine():
    from dataclass_wizard import JSONWizard, CatchAll, fromdict, asdict

    @dataclass
    class Dog:
        n: int

    @dataclass
    class Bird:
        n: int
        rest: CatchAll = None

    @dataclass
    class R(JSONWizard):
        class _(JSONWizard.Meta):
            v1 = True
            key_transform_with_dump = 'NONE'
            auto_assign_tags = True
            v1_on_unknown_key = 'RAISE'
        pre: Optional[Dog]
        pre2: Optional[Bird]
        u: Union[Dog, Bird]

    seen = []
    for x in (R(None, None, Bird(3)), R(None, None, Dog(2))):
        d = asdict(x)                            # {'pre': None, 'pre2': None, 'u': {'n': 2, '__tag__': 'Dog'}}
        try:
            y = fromdict(R, d)
            if y != x:
                seen.append(f'v1, {d!r} loaded as {y!r}')
        except Exception as e:
            seen.append(f"v1, {d['u']!r}: {type(e).__name__} {getattr(e, 'unknown_keys', '')!r}")
    return seen


try:
    seen = default_engine() + v1_engine()
except Exception as e:                                      # the script itself is broken
    print(f'script error: {type(e).__name__}: {e}'); sys.exit(2)
if seen:
    print('member class referenced by a field declared before the auto-tagged Union: '
          + '; '.join(seen).replace('default_engine.<locals>.', '').replace('v1_engine.<locals>.', '')); sys.exit(1)
print('not manifested')
