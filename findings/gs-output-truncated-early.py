"""wiz gs bad.json out.py: argparse opens (and truncates) the output file while parsing the arguments, before the input is
read, so an input with a JSON syntax error or a scalar root exits 1 and leaves a pre-existing out.py empty.
Contradicts C19: "On input that is not such a document the command exits non-zero with a diagnostic and leaves any
pre-existing output file byte-for-byte intact"."""
import os, sys; sys.path.insert(0, os.environ.get('VERIF_REPO', '/repo'))
import subprocess
import tempfile

PRECIOUS = b'# precious hand-edited content\nX = 1\n'


def main():
    seen = []
    with tempfile.TemporaryDirectory() as tmp:
        out = os.path.join(tmp, 'out.py')
        for name, content in (('syntax error', b'{"a": 1,,}'), ('scalar root', b'5')):
            inp = os.path.join(tmp, 'in.json')
            with open(inp, 'wb') as f:
                f.write(content)
            with open(out, 'wb') as f:
                f.write(PRECIOUS)
            p = subprocess.run([sys.executable, '-m', 'dataclass_wizard.wizard_cli.cli', 'gs', inp, out], cwd=tmp,
                               capture_output=True, timeout=60, env=dict(os.environ, PYTHONPATH=sys.path[0]))
            with open(out, 'rb') as f:
                after = f.read()
            if p.returncode == 0:
                raise AssertionError(f'{name}: exit status 0')
            if after != PRECIOUS:
                seen.append(f'{name} ({content.decode()}): exit {p.returncode}, out.py now holds {after[:30]!r}')
    return seen


try:
    seen = main()
except Exception as e:                                      # the script itself is broken
    print(f'script error: {type(e).__name__}: {e}'); sys.exit(2)
if seen:
    print('wiz gs <invalid input> out.py does not leave the existing out.py intact: ' + '; '.join(seen)); sys.exit(1)
print('not manifested')
