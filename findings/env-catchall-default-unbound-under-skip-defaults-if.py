"""EnvWizard: the generator of the dump function of an EnvWizard class (dataclass_wizard/environ/dumpers.py, dump_func_for_dataclass) is a
copy of the default engine's and had the defect repaired there by b9cb15d: a CatchAll field with a default is compared with
`_default_<i>`, which was put into the closure only on the path without Meta.skip_defaults_if.  With a defaulted CatchAll field and
skip_defaults_if every to_dict() raised NameError.  Exit 1 when it manifests."""
import os
import sys
sys.path.insert(0, os.environ.get('VERIF_REPO', '/repo'))
from dataclass_wizard import EnvWizard, CatchAll, IS

bad = []
try:
    class A(EnvWizard):
        class _(EnvWizard.Meta):
            skip_defaults_if = IS(None)
        x: int = 1
        extra: CatchAll = None

    for kw, want in (({'x': 2, 'extra': {'k': 1}}, {'x': 2, 'k': 1}), ({'x': 2}, {'x': 2})):
        got = A(**kw).to_dict()
        if got != want:
            bad.append(f'A(**{kw!r}).to_dict() == {got!r}, expected {want!r}')
except NameError as e:
    bad.append(f'NameError: {e}')
if bad:
    print('EnvWizard class with a defaulted CatchAll field under Meta.skip_defaults_if: ' + '; '.join(bad))
    sys.exit(1)
print('not manifested')
