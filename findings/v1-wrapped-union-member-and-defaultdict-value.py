"""v1 engine: a `type` alias / Annotated[..] directly around (a) the value type of a DefaultDict - the alias object itself
is handed to defaultdict(..) as the factory, every load fails (ParseError 'first argument must be callable or None');
(b) a dataclass member of a Union - it is not recognised as a dataclass member, tag dispatch never reaches it and the
dumped instance does not load.  Contradicts C02: "fromdict(asdict(x)) == x ... recursive type aliases, and types nested
inside any container position"."""
import os, sys; sys.path.insert(0, os.environ.get('VERIF_REPO', '/repo'))
from collections import defaultdict
from dataclasses import dataclass
from typing import Annotated, DefaultDict, Union


def main():
    from dataclass_wizard import JSONWizard
    type Ints = list[int]

    @dataclass
    class A(JSONWizard):
        class _(JSONWizard.Meta):
            v1 = True
        d: DefaultDict[str, Ints]                # Annotated[list[int], 'note'] as the value type works

    @dataclass
    class M1(JSONWizard):
        class _(JSONWizard.Meta):
            v1 = True
            tag = 'm1'
        x: int

    @dataclass
    class M2(JSONWizard):
        class _(JSONWizard.Meta):
            v1 = True
            tag = 'm2'
        y: int

    type M2Alias = M2

    @dataclass
    class B(JSONWizard):
        class _(JSONWizard.Meta):
            v1 = True
        u: Union[M1, M2Alias, None]

    @dataclass
    class B2(JSONWizard):
        class _(JSONWizard.Meta):
            v1 = True
        u: Union[M1, Annotated[M2, 'note'], None]

    seen = []
    for name, x in (('DefaultDict[str, alias]', A(defaultdict(list, k=[1]))), ('Union member through an alias', B(M2(1))),
                    ('Union member Annotated[..]', B2(M2(1)))):
        d = x.to_dict()
        try:
            y = type(x).from_dict(d)
            if y != x:
                seen.append(f'{name}: {d!r} loaded as {y!r}')
        except Exception as e:
            seen.append(f'{name}: {d!r} -> {type(e).__name__} ' + ' '.join(str(e).split())[:75])
    return seen


try:
    seen = main()
except Exception as e:                                      # the script itself is broken
    print(f'script error: {type(e).__name__}: {e}'); sys.exit(2)
if seen:
    print('v1, load(dump(x)) fails: ' + '; '.join(seen).replace('main.<locals>.', '')); sys.exit(1)
print('not manifested')
