"""v1 engine: the tag key is counted as a known key only inside the branch generated for constructor fields; a tagged
class whose fields are all init=False (or that has none) under v1_on_unknown_key='RAISE' rejects a document consisting
of just its tag ({'__tag__': 'b'}) with UnknownKeysError(set()).  Contradicts C13: "the tag key is never reported as an
unknown key", and C10: "documents without unknown keys load normally"."""
import os, sys; sys.path.insert(0, os.environ.get('VERIF_REPO', '/repo'))
from dataclasses import dataclass, field
from typing import Union


def main():
    from dataclass_wizard import JSONWizard

    @dataclass
    class A(JSONWizard):
        class _(JSONWizard.Meta):
            v1 = True
            tag = 'a'
            v1_on_unknown_key = 'RAISE'
        n: int

    @dataclass
    class B(JSONWizard):
        class _(JSONWizard.Meta):
            v1 = True
            tag = 'b'
            v1_on_unknown_key = 'RAISE'
        k: int = field(default=7, init=False)

    @dataclass
    class Empty(JSONWizard):
        class _(JSONWizard.Meta):
            v1 = True
            tag = 'e'
            v1_on_unknown_key = 'RAISE'

    @dataclass
    class R(JSONWizard):
        class _(JSONWizard.Meta):
            v1 = True
            v1_on_unknown_key = 'RAISE'
        u: Union[A, B, Empty]

    seen = []
    if R.from_dict(R(A(1)).to_dict()) != R(A(1)):
        raise AssertionError('the member with a constructor field must round-trip')
    for d, x in (({'u': {'__tag__': 'b'}}, R(B())), ({'u': {'__tag__': 'e'}}, R(Empty()))):
        try:
            if R.from_dict(d) != x:
                seen.append(f'{d!r} loaded as {R.from_dict(d)!r}')
        except Exception as e:
            seen.append(f"{d!r} -> {type(e).__name__} unknown_keys={getattr(e, 'unknown_keys', None)!r}")
    return seen


try:
    seen = main()
except Exception as e:                                      # the script itself is broken
    print(f'script error: {type(e).__name__}: {e}'); sys.exit(2)
if seen:
    print('v1, RAISE, tagged Union member without constructor fields given just its tag: '
          + '; '.join(seen).replace('main.<locals>.', '')); sys.exit(1)
print('not manifested')
