#!/usr/bin/env python3
"""Regenerates MANIFEST.json from the table below (kept in one place so it stays valid)."""
import json
from pathlib import Path

HERE = Path(__file__).resolve().parent.parent

TRUST = ("Lean kernel; axioms ⊆ {propext, Classical.choice, Quot.sound} (audited each run); translator "
         "tools/extract_tables.py; correspondence harness (samples); named StdLaws about CPython stdlib; see DESIGN.md §3")

CHECKS = {
    'C01': dict(
        text=('Lean theorems: the structural round trip fromdict(cls, json(asdict(x))) = x below any travelling config for every '
              'instance of every model over int / float / str / bool / Decimal / Path / UUID / date / time / datetime / non-negative '
              'timedelta (named StdLaws) / Enum / Literal / Optional / list / deque / set / frozenset / variadic and fixed tuples / '
              'NamedTuple / TypedDict (Required and NotRequired keys) / dict, defaultdict, OrderedDict [str, .] / Unions of tagged dataclasses and None / dataclasses, tagged or '
              'not, with any Meta whose effective settings have no skip rule or TIMESTAMP mode and whose dump keys (incl. all=True '
              'aliases) resolve back, nested to any depth (induction over the conformance derivation, chaining the generated dump '
              'field loop and the tag entry into the load key loop and the constructor step; the Union case finds the tag and '
              "dispatches); the key-spelling condition is itself a theorem on the property's name class for every "
              'key_transform_with_dump (C01_every_dump_transform, through the casing round trips of C08), and under NONE for any identifier '
              '(C01_none_transform_any_identifier: the dump key is the name, a key that is a field name resolves to that field first); leaf inverses and the Z '
              'rewrite over all strings. Outside the fragment (skip rules, catch-all, non-str dict keys, Unions with non- '
              'dataclass members, negative timedelta) the round trip is carried by the oracle: model of dump + load tied to the code '
              'by type-directed correspondence; round trip through dict, JSON text, list, YAML, TOML and JSON-file mixins, incl. '
              'tagged-config families with stand-alone-first histories, Unions declared in nested classes, recursive_classes and self-referential '
              'main classes (dump first); arbitrary identifiers incl. names that coincide under case / underscore folding under NONE; texts (values, elements, dict keys, below Any) over the '
              'whole character range (C0 / C1 controls, U+2028/9, code-page / BMP / astral / format / non-characters, lone surrogates, scalar '
              'look-alikes, long lines) through the YAML / TOML / JSON mixins in memory and through their *_file methods, "carried by the '
              'format" decided by the standard writer and reader of the format, and the file round trips again in child interpreters under '
              'every locale encoding of the machine (LC_ALL=C: ASCII) with UTF-8 mode off / on; directed '
              'reproductions of the recorded findings '),
        technique='Lean 4 proof over a hand model + differential correspondence + round-trip oracle', ref='4 C01'),
    'C02': dict(
        text=('Lean theorems over a semantic model of the v1 loader: the structural round trip fromdict(cls, json(asdict(x))) = x '
              'below a main class whose v1 Meta makes the load key case match the dump transform (RTV1.Setup; instances CAMEL with '
              'the default dump transform, keys as they are, AUTO, KEBAB / LISP, SNAKE, PASCAL; C02_key_cases reduces the class '
              'condition to a syntactic one on the field names) for every instance of every model over the scalar kinds incl. bytes / '
              'bytearray (base64) and Literal, Optional, list / deque / set / frozenset, variadic and fixed tuples incl. nested ones '
              '(the generated v1[k] indexing), NamedTuple, TypedDict (Required / NotRequired keys), dict / defaultdict / OrderedDict [str, .], Unions holding a tagged '
              'dataclass next to any other members, and dataclasses whose only customisation is a tag, nested to any depth (induction '
              'over the conformance derivation: shape of the dumped dict, the generated field loop finds every field, finish step, '
              'tag dispatch); consistency of every (v1_key_case, dump transform) pair, AUTO tries the own name first, witness of the '
              'recorded Union finding. Outside the fragment the round trip is carried by the oracle: model tied to the code by round- '
              'trip + load correspondence over the v1 grammar incl. reversed-Union fields, histories over several main classes '
              'sharing nested classes, transparent spellings (PEP 695 aliases, Annotated, Required / NotRequired), self-referential / '
              'mutually recursive class models (defaulted fields around the recursive field, deep instances; compared with the model of '
              'the unrolled class) and histories in which Union member classes are serialised on their own before / between uses of the '
              'main class (own tags / auto_assign_tags x tag_key); generator '
              'failures are detected by the correspondence (loader generation is part of every case), not proved absent '),
        technique='Lean 4 proof over a hand (semantic) model + differential correspondence + round-trip oracle', ref='4 C02'),
    'C03': dict(
        text=("Lean theorems: the isinstance scan over the registration table (regenerated from source) reaches the documented "
              "most-specific encoder for every documented runtime type incl. subclasses; hooks are effect-free (ast summaries); the "
              "dump of EVERY value (any nesting of dataclasses, containers, named tuples, scalars, any Meta / travelling config, ISO "
              "or TIMESTAMP) that does not raise contains no node the standard encoder refuses (induction on the size of the value "
              "over all five mutually recursive dump functions); dump model tied to the code by type-exact correspondence incl. "
              "aliasing / side-effect monitors. Keys of user dictionaries are not restricted by the theorem (dict[tuple, .]). C03_generated_code_json_safe: the same for the pairs obtained by running the text-level model of the dump-function generator (tied byte for byte to the generated source) and applying asdict to its emissions"),
        technique='Lean 4 proof over generated tables + hand model + differential correspondence', ref='4 C03'),
    'C04': dict(
        text=("Lean theorems for all three engines: default — truthy table = documented set (regenerated), coercion laws, int-of-float "
              "= round-half-even of the exact value, nesting lifting; v1 — scalar laws, element-wise lifting (induction over member "
              "types / through mapME) and position independence through any stack of list / set / deque / tuple / dict-value / "
              "Optional layers (induction over contexts); EnvWizard — string conversion model with the decision order numeric-before-ISO "
              "for date / datetime for all strings, bool table, split / join lemmas (induction), position independence; witness of the "
              "recorded fixed-tuple finding. Tie: spelling table x nesting contexts per engine vs ref_coerce and the model, type-directed "
              "fuzz of environment strings, splitting functions compared directly"),
        technique='Lean 4 proof over hand models of three engines + generated table + differential correspondence', ref='4 C04'),
    'C05': dict(
        text=('Lean theorems for BOTH engines (C05_sound / C05_fromdict_sound, C05_v1_sound / C05_v1_fromdict_sound): for every type '
              'built from the scalar kinds (v1: incl. bytes / bytearray; Literal by == and type), Any, Optional, list / set / '
              'frozenset / deque, variadic tuples, fixed tuples (default engine: members that do not accept None, then the count is '
              'exact; v1: all), dict-like types, TypedDict, NamedTuple, Unions (default: both phases of the Union parser; v1: tag dispatch, '
              'exact-type fast path, try-parse, coercion pass) and dataclasses nested to any depth, for EVERY JSON input (nan / inf / '
              'huge / junk / wrong containers) and any travelling config: the result is an instance of the annotation (exact '
              'container kinds, exact tuple length, declared fields in order holding loaded values, the catch-all dictionary or '
              'declared defaults; a Union result sound for one declared member) - induction over the type through the key loop / '
              'generated field loop, junk inputs and the constructor step; scalar soundness by case analysis; no load hook writes its '
              'arguments (ast effect summaries regenerated each run); witnesses of the two recorded findings and of the repaired '
              'Union defect. no function generated for the battery writes through a parameter (C05_generated_no_input_writes, AST table regenerated each run). Fixed tuples with None-accepting members and the None annotation (recorded findings) are covered by the oracle: '
              'models tied to the code on malformed + near-miss streams on both engines; exact-type conforms() (user subclasses, mix- '
              'in Enums, shared Patterns) / input-mutation oracle, also over families of classes related by inheritance loaded in one history '
              '(base before derived and the reverse, fromdict / from_dict / fromlist / from_list / from_json) and over documents that lean '
              'on declared defaults (short NamedTuple lists, dropped defaulted keys); Literal positions whose member lists mix types within '
              'families of equal values (False / 0 / 0.0, True / 1 / 1.0, 2 / 2.0 ...; one or two Literal types per class) with inputs == to '
              'a member under the type of another member, through fromdict / from_dict / from_json, v1 mostly (the v1 test is on the pair: '
              'C05_v1_literal_member_by_value_and_type / C05_v1_literal_rejects); directed reproductions of the recorded findings '),
        technique='Lean 4 proof over a hand model + effect summaries + differential correspondence', ref='4 C05'),
    'C09': dict(
        text=('Lean theorems for both engines: the document-level deletion statement for the default engine (C09_key_deletion: any class without catch-all, any field loaders and Meta, any document that loads, any set of deleted keys - the sub-document loads exactly when no constructor field without default lost all the keys that resolve to it, else MissingFields names the class and exactly those fields; on success every field holds the converted value of the last remaining key, else its default / fresh factory product - induction over the key loop, which treats every key on its own); exact MissingFields list (class + exactly the absent required constructor fields, in declaration order for v1), init=False never demanded, defaulted never missing, on success every field holds the last supplied value or its default, kwargs contain constructor fields only (v1), a nested failure passes unchanged; models tied to the code by exhaustive key-subset correspondence (power sets) on default and v1 classes, on families of classes related by inheritance loaded in one history (derived classes adding required / defaulted fields; the result is an instance of the class asked for) and with debug mode switched on for the main class'),
        technique='Lean 4 proof over hand models of both engines + exhaustive subset correspondence', ref='4 C09'),
    'C10': dict(
        text=('Lean theorems for both engines: RAISE never accepts a document containing an unknown key and names exactly the unknown keys and the class; catch-all captures exactly the unknown pairs in order minus the whitelisted tag key; unknown keys never change mapped fields; v1: the len(o) != i test holds iff the document has an unknown pair (counting proof under V1WellKeyed), IGNORE drops, witnesses of the recorded findings; models tied to the code over policy x depth x repetition x tag presence x history (load-first / dump-first / second root), dump of captured keys compared with the dump model; write-back clause: on the dump model a successful dump contains every item of the CatchAll mapping, key as given, for every Meta (skip_if / skip_defaults_if / skip_defaults / dump key transform) and skip_defaults argument (C10_writeback_whatever_dump_settings, C10_writeback_keys_as_given), tied to the code by a stream over CatchAll classes x those settings (own or cascading) x SkipIf on other fields x unknown values the settings look at (None / 0 / False / empty / equal to a default) x every way of dumping, both engines. C10_generated_code_writes_back: at the level of the generated dump function (text-level generator model + interpreter, harness/props/c11_gencode.py) the items of a CatchAll field that is not excluded, not default and not skipped as a default are re-emitted at top level whatever the other settings are'),
        technique='Lean 4 proof over hand models of both engines + differential correspondence', ref='4 C10'),
    'C11': dict(
        text=("Lean theorems: the generated skip bookkeeping omits exactly the reference selection (exclude, dump=False, skip_defaults "
              "with the argument winning, skip_defaults_if, per-field SkipIf else Meta.skip_if) whenever no comparison raises; operator "
              "table regenerated from the source; NaN comparison value selects nothing; model tied to the code on literal class models, "
              "oracle against Condition.evaluate over hashable/unhashable/non-finite/Enum/object comparison values. The generated code itself: an interpreter of the statement forms of the dump-function generator model (DW/Model/GenDumpSem.lean) and theorem C11_generated_code_selects - for every class, Meta, exclude / skip_defaults arguments and instance whose comparisons do not raise, running the body the generator writes yields exactly the reference selection (entries in order, catch-all items, tag) and never gets stuck; tie: generated text == generator model byte for byte, and the dict the real function returns == the dict rebuilt from the interpreter emissions (harness/props/c11_gencode.py)"),
        technique='Lean 4 proof over a hand model + generated operator table + differential correspondence', ref='4 C11'),
    'C12': dict(
        text=("Lean theorems for both engines: merge specification (own setting wins, else root's) for every modelled mergeable setting, special attributes never inherited, recursive=False hands nothing down, the travelling config passes unchanged through every container and nested instance on dump and load; v1: a class two levels down is configured with merge(own, root) and its loader contains no mention of the intermediate class's Meta; attribute sets regenerated from AbstractMeta; models tied to the code over the settings lattice x shapes x binding styles, 2- and 3-level v1 nestings with 6 link shapes, v1 nested classes with a tag / tag_key / unknown-key policy / CatchAll of their own judged against a twin class, and default-engine roots with recursive_classes (lazily resolved nested classes, self-referential roots) judged against a twin"),
        technique='Lean 4 proof over hand models + generated attribute sets + differential correspondence', ref='4 C12'),
    'C13': dict(
        text=("Lean theorems for both engines: a dict whose tag key holds K's tag is loaded by K's loader for every position of K in the Union and any other members (dispatch on the tag alone); dump-then-load through the Union gives back the member instance for every member of the round-trip fragment on both engines (C13_roundtrip_tagged, C13_v1_roundtrip_tagged); unassigned / missing tags give ParseError; the tag key is known (never unknown, never captured), also when an init=False attribute mirrors it (v1); dump appends the tag under the configured key; models tied to the code over families, tag keys, argument rotations, container positions, load-before-any-dump streams on both engines; Unions declared in nested classes, under recursive_classes / self-referential main classes, with forward-reference members (oracle; dump first). C13_generated_code_writes_tag: at the level of the generated dump function (text-level generator model + interpreter) the tag entry is written last, once, under the configured tag key, for every class with a tag"),
        technique='Lean 4 proof over hand models of both engines + differential correspondence', ref='4 C13'),
    'C14': dict(
        text=('Lean theorems: every failing load of a v1 class - any JSON input, any field loaders - ends in a library error (induction over the field list + constructor step, finish step, nested classes), innermost attribution kept, inner errors pass, error lattice regenerated from errors.py; attribution at the level of documents (C14_v1_error_origin: a failing load of a dict document is either the failure of ONE constructor field loader on the value found under the key of that field, re-attributed by the handler of this class - (class, field) when the inner error names nothing yet, the inner names otherwise - or an UnknownKeysError / MissingFields of the last step naming this class; induction over the generated field loop); model tied to the code on malformed streams comparing (type, class_name, field_name / missing / unknown); oracle: isinstance JSONWizardError, str(e) returns (incl. missing AliasPath keys in nested classes), independent path-based attribution for scalar positions'),
        technique='Lean 4 proof over a hand model + generated lattice + differential correspondence', ref='4 C14'),
    'C15': dict(
        text=("Lean theorems: repr-quoting of spliced text reads back as exactly that text for every string (induction over the "
              "characters, hex escapes included); the v1 naming schemes (field variables, type locals, helper families) are pairwise "
              "distinct for all names; the generator-internal names, the shapes of user-derived names and the scope rows of every "
              "function generated for the battery are regenerated from the generated code on every run and checked by kernel "
              "evaluation. Tie + oracle: renaming equivariance of dump / load on class models renamed into adversarial names drawn from "
              "those tables (incl. aliases spelled like other fields of the class, and skip-condition operands that are instances of "
              "user-defined int / str subclasses vs the equal plain values), symtable scope check of every captured generated function, "
              "Lean pyRepr/pyUnquote vs repr/literal_eval. "
              "For the generator of the dump function (dump_func_for_dataclass) there is a Lean model of the generator itself, at the "
              "level of the source text it writes (structured statement forms + printer + Python's definite-assignment scoping rule): "
              "theorem C15_gendump_well_scoped - the body generated for EVERY class (any fields, keys, paths, catch-all, skip conditions, "
              "tag text, Meta switches) reads only names that are bound when read; tie: parameter list, body text and ordered closure "
              "keys compared byte for byte with the captured cls_asdict of seeded classes on every run, names vs symtable, and the "
              "function is run through every bookkeeping branch (also under Python's scoping rule taken literally: C15_gendump_well_scoped_py). "
              "The same for the default-engine load generator load_func_for_dataclass (DW/Model/GenLoad.lean: recursive statement forms with "
              "declared names, control-flow-aware scoping checker): theorem C15_genload_well_scoped for every class, tie: body, ordered "
              "closure keys and globals byte for byte, declared names vs ast per source line, run on documents driving every branch; and for "
              "the EnvWizard constructor generator _create_methods (DW/Model/GenEnv.lean): theorems C15_geninit_well_scoped / _py / "
              "C15_geninit_defaults_bound for every class and every field name (the template's own names included), "
              "C15_geninit_name_is_literal (variable names enter the text as literals only), tie: parameter list, body, dict, closure keys "
              "and globals byte for byte over hostile names / prefixes, constructor run through its branches; the EnvWizard copy of the dump "
              "generator (environ/dumpers.py) is tied to the GenDump model modulo a stated substitution (sixth call argument / closure key), "
              "so C15_gendump_well_scoped covers it. For "
              "the v1 load generator the skeleton (everything around the per-field value expressions) is modelled as text "
              "(DW/Model/GenLoadV1.lean: layered statements, conditions that bind, reads that may be unbound by design): theorem "
              "C15_genloadv1_well_scoped for every class under Python's scoping rule, given that each value expression reads only v1 and "
              "outside names (an input read off the generated line by an evaluation-order-aware ast walk; premises evaluated on every "
              "generated function; sound Boolean form C15_genloadv1_premises_sound), C15_genloadv1_ctor_vars_local, C15_genloadv1_field_vars_fresh; tie: body byte for byte, declared names vs ast, bound names vs the "
              "compiler's, run on documents; the value expressions themselves (type-directed, recursive) are carried by the oracle. The renaming oracle "
              "is also run over histories of use (harness/props/c15_hist.py): nested classes with their own Meta loaded / dumped on "
              "their own before and after the root, x Meta.recursive = False, x one __name__ for several definitions and names of the "
              "form <shared name><number>, both engines"),
        technique='Lean 4 proof over quoting / naming models and over text-level models of the dump-function, default load-function, EnvWizard constructor and v1 load-function (skeleton) generators (scoping theorems for every class, byte-for-byte correspondence with the generated source) + tables regenerated from generated code + renaming-equivariance oracle', ref='4 C15'),
    'C16': dict(
        text=("Lean theorems over a model of the property_wizard metaclass, dataclass field collection and the setter wrapper: field "
              "order, constructor parameters, the declared default is the one routed through the setter exactly once when the argument "
              "is omitted (factory product fresh per instance), supplied / assigned values pass unchanged, unpaired and read-only "
              "properties and other attributes untouched (frame lemma), the IDE-helper style; witness of the repaired plain-default "
              "defect under a quirk flag; model tied to the code over styled and wild class bodies x annotation kinds x default kinds x "
              "argument subsets x spellings of the public names (trailing / interior underscores; only leading underscores are dropped: "
              "C16_public_name_keeps_suffix) x setter functions under user decorators (must be entered through them) in forked children; "
              "the implied default is read off the first member / first value of the class's own annotation (C16_union_default_is_first_member, "
              "C16_literal_default_is_first_value, C16_optional_default_none, C16_member_order_matters_example), checked over histories of "
              "classes declared in one process whose annotations are orders / spellings of shared member pools (annotations Python "
              "compares equal)"),
        technique='Lean 4 proof over a hand model + differential correspondence + quirk probe', ref='4 C16'),
    'C18': dict(
        text=("Lean theorems over a state machine of Env (environ copy, var_names, cleaned_to_env) and the generated __init__: in every "
              "reachable state a _reload=True instantiation meets the reference resolution (kwarg, explicit names with prefix, letter-case "
              "tiers, cleaned match, default; all missing fields reported together) — induction over histories with a cache invariant; "
              "os.environ only changes by the user's own edits; dotenv over secrets over process environment, later file wins; "
              "priority table regenerated from source; witnesses of the two repaired defects and of the recorded one under quirk flags; "
              "model tied to the code state-by-state over exhaustive short and random long histories in forked children, incl. histories "
              "over the file system (dotenv files / secrets dirs absent at first, appearing, rewritten, removed; relative names found "
              "in or above the working directory; str / Path spellings; classes defined mid-history) judged on what is on disk at "
              "that moment. Value conversion is not modelled here (C04)"),
        technique='Lean 4 proof over a hand state machine + history correspondence + quirk probes', ref='4 C18'),
    'C17': dict(
        text=("Lean theorems over a model of both pattern engines (default: generated pattern_to_dt incl. the '-'/'+' time variant; v1: "
              "generated load_to_pattern with class-level generation state): value = strptime under the first matching pattern converted "
              "to the annotated class, ISO precedence, neither -> error naming all patterns, v1 zone attached, dump/reload under a named "
              "ISO law, element-wise lifting through list/tuple/dict/Optional, each position uses its own pattern (fold invariant over the "
              "field list); witnesses of the four repaired defects under quirk flags; model tied to the code over a 52-pattern catalogue x "
              "targets x zones x positions x document modes with per-run quirk probes; the declared zone of the Aware variants is a case "
              "dimension of its own (any key of the system's IANA table by lexical class, ZoneInfo and fixed-offset timezone objects, as "
              "the annotation itself and inside Annotated, every position; all four clauses as oracle, zone opaque in the model)"),
        technique='Lean 4 proof over a hand model + differential correspondence + quirk probes', ref='4 C17'),
    'C19': dict(
        text=("Lean theorems over a model of the schema generator (type inference, the three merges, naming, rendering, the CLI as a "
              "state machine): the schema covers its source document — a field for every key at every path, null => Optional, scalar "
              "types present (mutual induction over the merges), Optional merge at any depth, determinism and independence of earlier "
              "runs, merge commutes on field-name sets, well-scopedness of the rendered module (imports registered, class references "
              "defined), names resolve under NamesOK, CLI error path; witnesses of every recorded finding. Tie: imports, class order, "
              "field names, annotation text and AST compared with the real generator over corpus + random documents x 4 flag "
              "combinations, history pairs in forked children, CLI subprocess cases. 'Imports and loads its source' is decided by the "
              "oracle on the real module; it is false on the unchanged tree for the recorded shapes"),
        technique='Lean 4 proof over a hand model + differential correspondence + import/load oracle', ref='4 C19'),
    'C20': dict(
        text=("Lean theorems over an interleaving model of the lock-free lazy initialisation (fill entries, publish flag last; build, "
              "publish with one store; scan a snapshot): for any number of threads and any schedule every finished call returns the "
              "sequential result and the tables hold only correct entries (invariant by induction over schedules); subtype scans are "
              "independent of concurrent cachings; the publication discipline is regenerated from the AST on every run "
              "(C20_code_discipline); failing schedules of the broken disciplines are theorems. Tie + search: a settrace scheduler "
              "enumerates pre-emptions at line/opcode events of library and generated code, each schedule in a forked process, "
              "outcomes must be those of a sequential order"),
        technique='Lean 4 proof over a hand interleaving model + discipline tables regenerated from source + controlled-schedule exploration', ref='4 C20'),
    'C06': dict(
        text=("Lean theorems about both sides of the per-class state that survives a call. Load side: for any class, Meta, "
              "per-field loaders and ANY sequence of earlier documents, every call of the generated loader with the key cache "
              "returns what it returns in a fresh process (cache invariant by induction over the history), also when the calls go "
              "through functions generated for the class under different unknown-key policies that share the cache "
              "(C06_load_history_independent_across_policies, after repairs 7fd7207 / ade1ea0). Dump side: cache state machine (per-class key cache + dumper attributes): the first use of a "
              "freshly defined family shows the specification, repeating a dump never changes it, operations on disjoint families "
              "in between do not matter (induction over arbitrary operation lists); the machine reproduces the recorded leak. Tie: "
              "fingerprint correspondence on forked histories; oracle: every position of a history re-run alone in a pristine "
              "forked child - including histories in which the functions of a class are built more than once (a first use that "
              "fails during the set-up because a nested class is not a dataclass yet / not defined yet, repeated after the cause "
              "is removed; one class with CatchAll / aliases / paths reached through two main classes; both engines)"),
        technique='Lean 4 proof over hand state machines + forked-history correspondence + replay oracle', ref='4 C06'),
    'C07': dict(
        text=("Lean theorems: frame lemma and non-interference (C07_disjoint: any operations on other families leave a disjoint family's "
              "dump unchanged — induction over operation lists), witness of the shared-nested leak; same machine/correspondence as C06; "
              "oracle: behaviour of G with F defined/configured/exercised == behaviour of G alone (forked children), all orders, "
              "three-family histories ordered by first use (unrelated bystander used last, late binds), families sharing only the "
              "identity of a configuration object (one key-mapping constant / one LoadMeta object), three-to-six-family histories around one "
              "Meta-less nested class first reached through a bare / non-recursive / recursively dump- or load-configured root or alone, "
              "unrelated bystander families first used at every point of a uniformly drawn first-use order (oracle and cache-machine "
              "correspondence)"),
        technique='Lean 4 proof over a hand state machine + forked-history correspondence + isolation oracle', ref='4 C07'),
    'C08': dict(
        text=("Lean theorems: split_object_path parses what a token list prints (parse/print round trip by induction with a tokenizer "
              "state invariant; bool / int components after any quoted components), v1 first listed alias present wins (induction over "
              "the alias list), load independent of the document's key order, dump=False / skip win over all=True for every documented "
              "form, first listed alias is the dump key, casing round trips (lisp: every canonical name; camel / pascal: exact safe "
              "classes with witnesses outside them, and the property's own name class). Tie: exhaustive small-alphabet + token-grammar "
              "correspondence of casing and paths, end-to-end alias / path classes on both engines vs an independent reference and an "
              "alias model (op c08), dump-before-load orders, a failed first use (forward-referenced class defined late) repeated, "
              "the end-to-end clauses re-judged in child interpreters under python -O / -OO / -X dev / -X utf8"),
        technique='Lean 4 proof over hand models + exhaustive / grammar-based differential correspondence + end-to-end oracle', ref='4 C08'),
}

NOT_YET = {}


def main():
    props = [json.loads(l) for l in (HERE / 'properties.jsonl').read_text().splitlines() if l.strip()]
    checks, na = [], []
    for p in props:
        pid = p['id']
        if pid in CHECKS:
            c = CHECKS[pid]
            checks.append(dict(
                property_id=pid,
                quick_cmd=f'./check {pid} --tier quick',
                thorough_cmd=f'./check {pid} --tier thorough',
                evidence_file=f'evidence/{pid}.json',
                replay_cmd_template=f'./check {pid} --replay {{path}}',
                engine='lean-dw',
                level_claimed=dict(category='proof', text=c['text'], design_ref=c['ref']),
                level_note=c.get('note', TRUST),
                technique=c['technique'],
            ))
        else:
            na.append(dict(property_id=pid, reason=NOT_YET.get(pid, 'check not built yet in this session (work in progress; see DESIGN.md §8 build order)')))
    m = dict(
        version=1,
        setup_cmd='cd lean && lake build DW dwdriver',
        hooks=dict(guard='DATACLASS_WIZARD_VERIF', enable='export DATACLASS_WIZARD_VERIF=1 (set by harness/common.py; no source hooks are needed so far)',
                   baseline_off_cmd='cd /repo && env -u DATACLASS_WIZARD_VERIF /venv/bin/python -m pytest -ra -q -p no:cacheprovider --timeout=900 --continue-on-collection-errors',
                   source_commits=[], add_only=True),
        engines=[dict(name='lean-dw', path='lean/', serves_properties=sorted(CHECKS),
                      kind_free_text='Lean 4 library DW (model + theorems) + compiled driver dwdriver + Python correspondence harness')],
        checks=checks,
        not_applicable=na,
        notes='See DESIGN.md. ./check <id> runs translator -> lake build -> axiom audit -> correspondence + oracle -> verdict.',
    )
    (HERE / 'MANIFEST.json').write_text(json.dumps(m, indent=1, ensure_ascii=False) + '\n')


if __name__ == '__main__':
    main()
