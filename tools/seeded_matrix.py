#!/venv/bin/python
"""Run the registered check of each seeded change (seeded/<id>-M<n>/patch.diff) against a scratch worktree of /repo with
the change applied (VERIF_REPO), and write the detection table to seeded/README.md.  Development tool: evidence and replay
files of these runs go to a scratch directory (VERIF_OUT), never to /verif/evidence.
usage: tools/seeded_matrix.py [ids ...] [--extra C08:C01-M1 ...]   (extra: also run check C08 on change C01-M1)"""
import json, os, re, subprocess, sys, tempfile, shutil
from pathlib import Path
V = Path(__file__).resolve().parent.parent
S = V / 'seeded'
args = [a for a in sys.argv[1:] if not a.startswith('--')]
extra = {}
for a in sys.argv[1:]:
    if a.startswith('--extra='):
        for pair in a[len('--extra='):].split(','):
            c, m = pair.split(':')
            extra.setdefault(m, []).append(c)
rows_path = S / 'matrix.json'
rows = json.loads(rows_path.read_text()) if rows_path.exists() else {}
out = Path(tempfile.mkdtemp(prefix='dwv_seeded_'))
for d in sorted(p for p in S.iterdir() if p.is_dir()):
    name = d.name
    pid = name.split('-')[0]
    if args and name not in args and pid not in args:
        continue
    wt = out / ('wt_' + name)
    subprocess.run(['git', '-C', '/repo', 'worktree', 'add', '--detach', str(wt), 'HEAD'], capture_output=True)
    try:
        r = subprocess.run(['git', 'apply', str(d / 'patch.diff')], cwd=wt, capture_output=True, text=True)
        if r.returncode:
            rows[name] = {'status': 'patch no longer applies'}
            continue
        res = {}
        for chk in [pid] + extra.get(name, []):
            env = dict(os.environ, VERIF_REPO=str(wt), VERIF_OUT=str(out / 'o'))
            p = subprocess.run([str(V / 'check'), chk, '--tier', 'quick', '--seed', '1'], cwd=V, env=env, capture_output=True, text=True, timeout=3600)
            text = p.stdout + p.stderr
            viol = [l for l in text.splitlines() if l.startswith('VIOLATION')]
            if p.returncode == 1 and viol:
                res[chk] = 'no-failing-input-found' if all('no-failing-input-found' in l for l in viol) else f'input ({len(viol)} replays)'
            elif p.returncode == 0:
                res[chk] = 'not detected'
            else:
                res[chk] = f'exit {p.returncode}: ' + (text.strip().splitlines() or ['?'])[-1][:120]
        rows[name] = {'status': 'ok', 'checks': res}
        print(name, res, flush=True)
    finally:
        subprocess.run(['git', '-C', '/repo', 'worktree', 'remove', '--force', str(wt)], capture_output=True)
        rows_path.write_text(json.dumps(rows, indent=1, sort_keys=True))
shutil.rmtree(out, ignore_errors=True)
# translator output was produced from the scratch worktrees: regenerate from /repo
subprocess.run(['/venv/bin/python', str(V / 'tools' / 'extract_tables.py')], capture_output=True)
lines = ['# Seeded changes', '',
         'Produced by sub-agents that saw only the property text; each confirmed in a fresh worktree (applies, test suite passes,',
         '`demo.py` exits 0 on the unchanged tree and non-zero with the change). `meta.json` says what the change needs in order to',
         'manifest and what was run. Detection by the registered quick check (seed 1), via `tools/seeded_matrix.py`:', '',
         '| change | summary | detection |', '|---|---|---|']
for name in sorted(rows):
    meta = json.loads((S / name / 'meta.json').read_text()) if (S / name / 'meta.json').exists() else {}
    det = rows[name].get('checks') or rows[name]['status']
    det = '; '.join(f'{k}: {v}' for k, v in det.items()) if isinstance(det, dict) else det
    lines.append(f'| {name} | {meta.get("summary", "")[:160].replace("|", "/")} | {det} |')
notes = S / 'NOTES.md'
if notes.exists():
    lines += ['', notes.read_text()]
(S / 'README.md').write_text('\n'.join(lines) + '\n')
