/- `dwdriver`: line protocol.  One JSON object per input line -> one JSON object per output line:
   {"id": <same id>, "r": <result>}  or  {"id":..., "err": "<driver error>"}  -/
import DW.Driver.Strings
import DW.Driver.Core
import DW.Driver.Caches
import DW.Driver.Conc
import DW.Driver.C17
import DW.Driver.Names
import DW.Driver.C16
import DW.Driver.C18
import DW.Driver.C19
import DW.Driver.Alias
import DW.Driver.C04
import DW.Driver.GenDump
import DW.Driver.GenLoad
import DW.Driver.GenEnv
import DW.Driver.GenLoadV1

open Lean DW.Driver

def dispatch (j : Json) : Except String Json := do
  let op ← getStr j "op"
  match String.ofList op with
  | "str" => handleStr j
  | "dump" => handleDump j
  | "load" => handleLoad j
  | "loadv1" => handleLoadV1 j
  | "caches" => handleCaches j
  | "conc" => handleConc j
  | "c17" => handleC17 j
  | "names" => handleNames j
  | "c16" => handleC16 j
  | "c18" => handleC18 j
  | "c19" => handleC19 j
  | "c08" => handleC08 j
  | "c04" => handleC04 j
  | "gendump" => handleGenDump j
  | "gendumprun" => handleGenDumpRun j
  | "genload" => handleGenLoad j
  | "genenv" => handleGenEnv j
  | "genloadv1" => handleGenLoadV1 j
  | x => throw s!"unknown op {x}"

def handleLine (line : String) : String :=
  match Json.parse line with
  | .error e => (Json.mkObj [("err", Json.str s!"parse: {e}")]).compress
  | .ok j =>
    let id := (j.getObjVal? "id").toOption.getD Json.null
    match dispatch j with
    | .ok r => (Json.mkObj [("id", id), ("r", r)]).compress
    | .error e => (Json.mkObj [("id", id), ("err", Json.str e)]).compress

partial def loop (hin hout : IO.FS.Stream) : IO Unit := do
  let line ← hin.getLine
  if line.isEmpty then return ()
  let t := line.trimAscii.toString
  if !t.isEmpty then
    hout.putStrLn (handleLine t)
  loop hin hout

def main : IO Unit := do
  let hin ← IO.getStdin
  let hout ← IO.getStdout
  loop hin hout
  hout.flush
