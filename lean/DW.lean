-- Root of the `DW` library: generated tables, model, driver glue and property theorems.
import DW.Generated.Tables
import DW.Model.Strings
import DW.Model.ObjPath
import DW.Driver.Strings
import DW.Props.C08
