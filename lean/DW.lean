-- Root of the `DW` library: generated tables, model, driver glue and property theorems.
import DW.Generated.Tables
import DW.Model.Strings
import DW.Model.ObjPath
import DW.Model.Values
import DW.Model.Std
import DW.Model.Dump
import DW.Model.Load
import DW.Driver.Strings
import DW.Driver.Codec
import DW.Driver.Core
import DW.Model.StdLaws
import DW.Lemmas.Strings
import DW.Lemmas.Dump
import DW.Props.C01
import DW.Props.C03
import DW.Props.C08
