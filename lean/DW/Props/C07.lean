/-
C07 — configuration of one class never changes the behaviour of another.
Theorems about the cache state machine `DW.Caches` (dump side).
-/
import DW.Model.Caches
import DW.Lemmas.KeyCache

namespace DW.Props.C07
open DW DW.Caches

theorem get_set_eq (st : St) (c : Nat) (v : ClsSt) : (st.set c v).get c = v := by simp [St.get, St.set]
theorem get_set_ne (st : St) (c x : Nat) (v : ClsSt) (h : x ≠ c) : (st.set c v).get x = st.get x := by
  simp [St.get, St.set, h]

/-- dumping the nested classes `ns` only touches the state of those classes -/
theorem dumpNested_frame (ds : Defs) (cfg : Option MetaL) (ns : List Nat) (st : St) (c : Nat) (hc : c ∉ ns) :
    ((dumpNested ds cfg st ns).1).get c = st.get c := by
  induction ns generalizing st with
  | nil => rfl
  | cons n r ih =>
    have hn : c ≠ n := fun h => hc (by simp [h])
    have hr : c ∉ r := fun h => hc (by simp [h])
    simp only [dumpNested]
    rw [ih _ hr]
    exact get_set_ne _ _ _ _ hn

/-- the classes an operation can touch: the class itself and, for a dump, the classes nested in it -/
def family (ds : Defs) : Op → List Nat
  | .define c => [c]
  | .dump r => r :: (ds.get r).nested

/-- FRAME: an operation on one family leaves the state of every class outside that family untouched. -/
theorem C07_frame (ds : Defs) (st : St) (op : Op) (c : Nat) (hc : c ∉ family ds op) :
    ((step ds st op).1).get c = st.get c := by
  cases op with
  | define d =>
    simp only [family, List.mem_singleton] at hc
    simp only [step]
    split <;> exact get_set_ne _ _ _ _ hc
  | dump r =>
    simp only [family, List.mem_cons, not_or] at hc
    simp only [step]
    rw [dumpNested_frame ds _ _ _ c hc.2]
    exact get_set_ne _ _ _ _ hc.1

/-- what a dump shows depends only on the state of the classes nested in it ... -/
theorem dumpNested_congr (ds : Defs) (cfg : Option MetaL) (ns : List Nat) (st1 st2 : St)
    (h : ∀ c ∈ ns, st1.get c = st2.get c) :
    (dumpNested ds cfg st1 ns).2 = (dumpNested ds cfg st2 ns).2 ∧
    ∀ c ∈ ns, ((dumpNested ds cfg st1 ns).1).get c = ((dumpNested ds cfg st2 ns).1).get c := by
  induction ns generalizing st1 st2 with
  | nil => exact ⟨rfl, fun c hc => by simp at hc⟩
  | cons n r ih =>
    have hn : st1.get n = st2.get n := h n (by simp)
    simp only [dumpNested]
    rw [hn]
    -- the two states after processing `n` agree on all of `n :: r`
    have hagree : ∀ c ∈ r, (st1.set n (nestedUpdate ds cfg n (st2.get n))).get c
        = (st2.set n (nestedUpdate ds cfg n (st2.get n))).get c := by
      intro c hc
      by_cases hcn : c = n
      · subst hcn; simp [get_set_eq]
      · rw [get_set_ne _ _ _ _ hcn, get_set_ne _ _ _ _ hcn]; exact h c (by simp [hc])
    obtain ⟨h1, h2⟩ := ih _ _ hagree
    refine ⟨by rw [h1], ?_⟩
    intro c hc
    by_cases hcr : c ∈ r
    · exact h2 c hcr
    · -- c = n and n ∉ r: untouched by the rest
      have hcn : c = n := by
        simp at hc; rcases hc with h | h
        · exact h
        · exact absurd h hcr
      subst hcn
      rw [dumpNested_frame ds cfg r _ c hcr, dumpNested_frame ds cfg r _ c hcr]
      simp [get_set_eq]

/-- ... and of the root: two states that agree on a dump's family give the same observable result. -/
theorem step_dump_congr (ds : Defs) (r : Nat) (st1 st2 : St)
    (h : ∀ c ∈ family ds (.dump r), st1.get c = st2.get c) :
    (step ds st1 (.dump r)).2 = (step ds st2 (.dump r)).2 := by
  have hr : st1.get r = st2.get r := h r (by simp [family])
  simp only [step]
  rw [hr]
  have hagree : ∀ c ∈ (ds.get r).nested,
      (st1.set r (genKeys (st2.get r))).get c = (st2.set r (genKeys (st2.get r))).get c := by
    intro c hc
    by_cases hcr : c = r
    · subst hcr; simp [get_set_eq]
    · rw [get_set_ne _ _ _ _ hcr, get_set_ne _ _ _ _ hcr]; exact h c (by simp [family, hc])
  obtain ⟨h1, h2⟩ := dumpNested_congr ds (rootCfg (ds.get r).own) (ds.get r).nested _ _ hagree
  rw [h1]
  congr 1
  -- the root's own occurrence
  by_cases hrn : r ∈ (ds.get r).nested
  · rw [h2 r hrn]
  · rw [dumpNested_frame _ _ _ _ r hrn, dumpNested_frame _ _ _ _ r hrn]
    simp [get_set_eq]

/-- running operations that never touch a set of classes leaves their state untouched -/
theorem run_frame (ds : Defs) (ops : List Op) (st : St) (cs : List Nat)
    (h : ∀ op ∈ ops, ∀ c ∈ cs, c ∉ family ds op) : ∀ c ∈ cs, ((run ds st ops).1).get c = st.get c := by
  induction ops generalizing st with
  | nil => intro c _; rfl
  | cons op r ih =>
    intro c hc
    simp only [run]
    have := ih (step ds st op).1 (fun op' hop' c' hc' => h op' (by simp [hop']) c' hc') c hc
    rw [this]
    exact C07_frame ds st op c (h op (by simp) c hc)

/-- C07 (disjoint families): whatever operations are performed on other classes — definitions with any Meta, dumps
in any number and order — a dump of a class whose family is disjoint from theirs shows exactly what it would have
shown without them. -/
theorem C07_disjoint (ds : Defs) (st : St) (opsF : List Op) (g : Nat)
    (hdisj : ∀ op ∈ opsF, ∀ c ∈ family ds (.dump g), c ∉ family ds op) :
    (step ds (run ds st opsF).1 (.dump g)).2 = (step ds st (.dump g)).2 := by
  apply step_dump_congr
  exact run_frame ds opsF st _ hdisj

/-- KNOWN FINDING (witness): a nested class shared with a configured root keeps that root's key style afterwards —
`N` (class 0) dumped on its own after `Outer` (class 1, SNAKE) nested it shows snake_case keys, a fresh process
shows camelCase. -/
theorem C07_shared_nested_witness :
    let ds : Defs := [{ id := 0 }, { id := 1, own := some { kt := some .snake }, nested := [0] }]
    (step ds (run ds St.init [.define 0, .define 1, .dump 1]).1 (.dump 0)).2 = [(0, .snake, false)] ∧
    specDump ds 0 = [(0, .camel, false)] := by
  constructor <;> rfl

/-! ### the load side -/

/-- **C07 (load side).** The key caches are per class: for any number of classes with any Meta and field loaders and **any
interleaved history** of loads over them, every call returns what the same call returns in a fresh process — no call on
one class changes what another class (or the class itself, later) loads. -/
theorem C07_load_isolation (specs : Nat → KeyCache.ClsSpec) (calls : List (Nat × List (S × JVal))) :
    (KeyCache.runWorld false specs (fun _ => []) calls).1 =
      calls.map (fun c => loadClassWith (specs c.1).fieldLoader (specs c.1).eff (specs c.1).ci (.dict c.2)) :=
  KeyCache.world_eq specs calls (fun _ => []) (fun n => KeyCache.Inv_nil _ _)

end DW.Props.C07
