/-
C08 — every documented key spelling, alias or path reaches its field, both ways.
Property theorems only (helper lemmas live in DW/Lemmas/C08*.lean).

  (a) path syntax   : parse/print round trip of `split_object_path` over a token grammar, state reset between components
  (b) alias on load : v1 ordered lookup — the first listed alias present wins, independent of the document's key order
                      (default engine: a witness that it *does* depend on the document order there)
  (c) dump targets  : dump=False / skip=True beat all=True; the first listed alias is the dump key
  (d) casings       : snake -> camel / Pascal / kebab -> snake round trips on canonical names
-/
import DW.Generated.Tables
import DW.Model.Strings
import DW.Model.ObjPath
import DW.Model.Alias
import DW.Lemmas.C08
import DW.Lemmas.C08Path
import DW.Lemmas.C08Case

namespace DW.Props.C08
open DW.Str DW.ObjPath DW.Alias DW.C08 DW.C08Path DW.C08Case

/-- The tokenizer's literal tables in the source are the ones the model hard-codes. -/
theorem C08_path_tables :
    DW.Generated.pathTruthy = ["True", "true"] ∧ DW.Generated.pathFalsy = ["False", "false"]
    ∧ DW.Generated.pathStartSep = [".", "["] := by decide

/-! ### (a) path syntax -/

/-- Parse/print round trip: for every list of well-formed tokens — bare identifiers, `true`/`false` in both
capitalisations, (negative) decimal integers, quoted strings with either quote character that may contain dots,
brackets, the other quote and the (escaped) quote itself — each rendered as `.body` or `[body]`, the tokenizer returns
exactly the keys / indexes the tokens denote. Proved by induction over the token list with a tokenizer-state invariant
(`DW.C08Path.Ready`): every flag, in particular `parsed_string_literal`, is back to its initial value at each separator. -/
theorem C08_path_parse_print (toks : List PTok) (h : ∀ t ∈ toks, t.tok.WF) :
    splitObjectPath (render toks) = toks.map (fun t => t.tok.denote) :=
  split_render toks h

/-- State reset: a bare `true` / `false` (`True` / `False`) component is emitted as a bool key whatever components
precede it — quoted ones included. -/
theorem C08_bool_after_any_components (pre : List PTok) (h : ∀ t ∈ pre, t.tok.WF) (b cap br : Bool) :
    splitObjectPath (render (pre ++ [⟨.bool b cap, br⟩])) = pre.map (fun t => t.tok.denote) ++ [.bool b] :=
  bool_after_any pre h b cap br

/-- State reset: a bare integer component is emitted as an int index whatever components precede it. -/
theorem C08_int_after_any_components (pre : List PTok) (h : ∀ t ∈ pre, t.tok.WF) (neg : Bool) (ds : S)
    (hw : (Tok.int neg ds).WF) (br : Bool) :
    splitObjectPath (render (pre ++ [⟨.int neg ds, br⟩]))
      = pre.map (fun t => t.tok.denote) ++ [(Tok.int neg ds).denote] :=
  int_after_any pre h neg ds hw br

/-- Quotes turn a reserved word into a string key: `"true"` is the key `'true'`, not `True`. -/
theorem C08_quoted_true_is_string :
    splitObjectPath (render [⟨.quoted '"' "true".toList, false⟩]) = [.str "true".toList] :=
  quoted_true_is_string

/-! ### (b) aliases on load -/

/-- v1: when several listed aliases are present the FIRST listed one wins: if no alias listed before `a` is in the
document and `a` is, the lookup returns the value stored under `a` (induction over the alias list). -/
theorem C08_v1_first_listed_alias_wins (get : Key → Option Doc) (pre : List S) (a : S) (post : List S) (v : Doc)
    (hpre : ∀ b ∈ pre, get (.str b) = none) (ha : get (.str a) = some v) :
    findAlias get (pre ++ a :: post) = some v :=
  findAlias_first get pre a post v hpre ha

/-- v1: a field none of whose listed aliases is in the document is not found (it then takes its default or is
reported missing) — its own name is not consulted. -/
theorem C08_v1_no_listed_alias_present (get : Key → Option Doc) (as : List S)
    (h : ∀ b ∈ as, get (.str b) = none) : findAlias get as = none :=
  findAlias_none get as h

/-- A dict lookup does not depend on the order in which the document lists its keys (keys pairwise distinct, as in
every real `dict`). -/
theorem C08_lookup_independent_of_key_order {kvs kvs' : List (Key × Doc)} (hp : kvs.Perm kvs')
    (hd : KeysDistinct kvs) (k : Key) : objGet kvs k = objGet kvs' k :=
  objGet_perm hp hd k

/-- v1: the whole load result is independent of the order of the keys in the document — for every class model
(aliases, paths, key case, AUTO, Meta mapping) whose paths are non-empty. -/
theorem C08_v1_load_independent_of_key_order (c : ClassSpec) {kvs kvs' : List (Key × Doc)} (hp : kvs.Perm kvs')
    (hd : KeysDistinct kvs) (hpaths : ∀ f ∈ c.fields, ∀ p ∈ f.paths, p ≠ []) :
    loadV1 c (.obj kvs) = loadV1 c (.obj kvs') := by
  have hget : ∀ k, objGet kvs k = objGet kvs' k := fun k => objGet_perm hp hd k
  have hfun : objGet kvs = objGet kvs' := funext hget
  unfold loadV1
  apply mapM_option_congr
  intro f hf
  have hv : v1FieldValue c (.obj kvs) (objGet kvs) f = v1FieldValue c (.obj kvs') (objGet kvs') f := by
    unfold v1FieldValue
    rw [hfun]
    cases hA : loadAliasesOf c f with
    | some as => rfl
    | none =>
      cases hP : loadPathsOf f with
      | none => rfl
      | some ps =>
        have hps : ∀ p ∈ ps, p ≠ [] := by
          intro p hpmem
          apply hpaths f hf p
          unfold loadPathsOf at hP
          split at hP
          · split at hP
            · exact absurd hP (by simp)
            · cases hP; exact hpmem
          · exact absurd hP (by simp)
        simp only
        rw [findPath_congr hget _ ps hps]
  rw [hv]

/-- Default engine: the generated `cls_fromdict` walks the DOCUMENT's keys, so with two aliases of one field present
the one that comes last in the document wins — the result depends on the document's key order (the property restricts
"first listed wins" to v1 for this reason). -/
theorem C08_default_multi_alias_order_dependent_witness :
    let c : ClassSpec := { v1 := false, fields := [{ name := ['x'], form := .jsonField, keys := [['a'], ['b']] }] }
    loadDefault c false (.obj [(.str ['a'], .val 1), (.str ['b'], .val 2)]) = some [(['x'], 2)]
    ∧ loadDefault c false (.obj [(.str ['b'], .val 2), (.str ['a'], .val 1)]) = some [(['x'], 1)] := by
  decide

/-! ### (c) dump targets -/

/-- Default engine: `dump=False` wins over `all=True` — a `json_field` / `Annotated[.., json_key]` / `path_field` /
`Annotated[.., KeyPath]` / `field(metadata={'__remapping__': ..})` field with dump=False is written nowhere, whatever
`all`, the class-level mapping, the key transform and the set-up order are (all five documented forms, the metadata form
since repair d820e9b). -/
theorem C08_dump_false_wins_over_all (c : ClassSpec) (dumpFirst : Bool) (f : FieldSpec)
    (hform : f.form = .jsonField ∨ f.form = .annKey ∨ f.form = .pathField ∨ f.form = .annPath ∨ f.form = .metaKey)
    (hd : f.dump = false) : dumpTarget c dumpFirst f = .nowhere := by
  rcases hform with h | h | h | h | h <;> simp [dumpTarget, fieldDumpSetting, h, hd]

/-- v1: `skip=True` wins — an `Alias(..)` / `AliasPath(..)` field with skip=True is written nowhere, whatever aliases,
dump alias or paths it lists. -/
theorem C08_skip_wins (c : ClassSpec) (dumpFirst : Bool) (f : FieldSpec)
    (hform : f.form = .aliasAll ∨ f.form = .aliasLd ∨ f.form = .aliasPath)
    (hs : f.skip = true) : dumpTarget c dumpFirst f = .nowhere := by
  rcases hform with h | h | h <;> simp [dumpTarget, fieldDumpSetting, h, hs]

/-- the case repaired by d820e9b: `field(metadata={'__remapping__': json_key('X', all=True, dump=False)})` is written
nowhere (before the repair the dump set-up looked at `all` only and wrote the field under `X`). -/
theorem C08_dump_false_metadata_form_repaired :
    dumpTarget { v1 := false, fields := [] } false
      { name := ['x'], form := .metaKey, keys := [['X']], all := true, dump := false } = .nowhere := by
  decide

/-- since repair 5af972b the path table the generated load function sees does not depend on whether the class was dumped
before its first load -/
theorem C08_load_paths_independent_of_first_op (c : ClassSpec) :
    pathTableAtLoad c true = pathTableAtLoad c false := rfl

/-- When the mapping is marked for both directions the FIRST listed alias is the dump key (default engine
`all=True`; v1 `Alias(a, ...)`), literally. -/
theorem C08_dump_first_listed_alias (c : ClassSpec) (dumpFirst : Bool) (f : FieldSpec) (a : S) (rest : List S)
    (ha : a ≠ []) (hk : f.keys = a :: rest)
    (hform : ((f.form = .jsonField ∨ f.form = .annKey) ∧ f.dump = true ∧ f.all = true)
      ∨ (f.form = .aliasAll ∧ f.skip = false)) :
    dumpTarget c dumpFirst f = .key a := by
  cases a with
  | nil => exact absurd rfl ha
  | cons x xs =>
    rcases hform with ⟨h | h, hd, hall⟩ | ⟨h, hs⟩ <;> simp [dumpTarget, fieldDumpSetting, *]

/-! ### (d) casings -/

/-- kebab-case: for every canonical snake_case name (lower-case letters / digits, single underscores between
non-empty words, first character a letter) `to_snake_case(to_lisp_case(n)) = n`, and `to_lisp_case(n)` is the name
with `-` for `_`. -/
theorem C08_lisp_roundtrip {ws : List S} (h : CanonWords ws) :
    toSnake (toLisp (joinWords ws)) = joinWords ws ∧ toLisp (joinWords ws) = joinSep '-' ws :=
  ⟨lisp_roundtrip h, lisp_of_canon h⟩

/-- `to_snake_case` is the identity on canonical snake_case names. -/
theorem C08_snake_idempotent {ws : List S} (h : CanonWords ws) : toSnake (joinWords ws) = joinWords ws :=
  snake_idem h

/-- The full statement "toSnake (toCamel n) = n for every canonical name" is FALSE: `a_b_c ↦ aBC ↦ a_bc`
(a one-letter word followed by a word whose second character is not a lower-case letter). The name is canonical. -/
theorem C08_camel_roundtrip_witness :
    CanonWords ["a".toList, "b".toList, "c".toList]
    ∧ toCamel "a_b_c".toList = some "aBC".toList ∧ toSnake "aBC".toList = "a_bc".toList :=
  ⟨camel_witness_canon.1, camel_roundtrip_witness⟩

/-- Likewise for PascalCase: `a_b1 ↦ AB1 ↦ ab1`. -/
theorem C08_pascal_roundtrip_witness :
    CanonWords ["a".toList, "b1".toList]
    ∧ toPascal "a_b1".toList = some "AB1".toList ∧ toSnake "AB1".toList = "ab1".toList :=
  ⟨pascal_witness_canon.1, pascal_roundtrip_witness⟩

/-- camelCase round trip under the explicit hypothesis `CamelSafe` (canonical; every word after the first starts with
a letter; a one-letter word after the first is last or followed by a word whose second character is a lower-case
letter). On small universes `CamelSafe` is exactly the set of canonical names with the round trip
(`DW.C08Case.safe_classes_exact_small`). -/
theorem C08_camel_roundtrip_partial {ws : List S} (h : CamelSafe ws) :
    ∃ c, toCamel (joinWords ws) = some c ∧ toSnake c = joinWords ws :=
  camel_roundtrip h

/-- PascalCase round trip under `PascalSafe` (as `CamelSafe`, the first word taking part in the one-letter rule). -/
theorem C08_pascal_roundtrip_partial {ws : List S} (h : PascalSafe ws) :
    ∃ c, toPascal (joinWords ws) = some c ∧ toSnake c = joinWords ws :=
  pascal_roundtrip h

/-- The property's own name class — words of at least two characters `[a-z][a-z0-9]+`, which contains
`[a-z]{2,}[0-9]*` — has all three round trips. -/
theorem C08_casing_roundtrips_property_class {ws : List S} (hne : ws ≠ [])
    (h : ∀ w ∈ ws, wordOk w = true ∧ startsLower w = true ∧ 2 ≤ w.length) :
    toSnake (toLisp (joinWords ws)) = joinWords ws
    ∧ (∃ c, toCamel (joinWords ws) = some c ∧ toSnake c = joinWords ws)
    ∧ (∃ c, toPascal (joinWords ws) = some c ∧ toSnake c = joinWords ws) :=
  roundtrips_property_class hne h

end DW.Props.C08
