/-
C08 — every documented key spelling, alias or path reaches its field, both ways.
Property theorems only (helper lemmas live in DW/Lemmas).
-/
import DW.Generated.Tables
import DW.Model.Strings
import DW.Model.ObjPath

namespace DW.Props.C08
open DW.Str DW.ObjPath

/-- The tokenizer's literal tables in the source are the ones the model hard-codes. -/
theorem C08_path_tables :
    DW.Generated.pathTruthy = ["True", "true"] ∧ DW.Generated.pathFalsy = ["False", "false"]
    ∧ DW.Generated.pathStartSep = [".", "["] := by decide

end DW.Props.C08
