/-
C10 — unknown keys are ignored, rejected or captured exactly as configured (default engine).
Theorems about `loadKeysWith`, the `for json_key in o:` loop of the generated loader.
-/
import DW.Model.Load
import DW.Model.LoadV1
import DW.Model.Dump
import DW.Lemmas.V1
import DW.Lemmas.GenDumpSem

namespace DW.Props.C10
open DW

/-- a key that maps to no field (after aliases, exact name and the case-normalising lookup) and is not the
whitelisted tag key -/
def IsUnknown (eff : MetaCfg) (ci : ClassInfo) (k : S) : Prop := resolveKey eff ci k = .ok .unknown

instance (eff : MetaCfg) (ci : ClassInfo) (k : S) : Decidable (IsUnknown eff ci k) := by
  unfold IsUnknown
  cases h : resolveKey eff ci k with
  | error e => exact isFalse (by simp)
  | ok r => cases r with
    | unknown => exact isTrue rfl
    | field f => exact isFalse (by simp)
    | ignored => exact isFalse (by simp)

def isTagKey (eff : MetaCfg) (k : S) : Bool := eff.tag.isSome && k == eff.tagKey.getD Generated.tagKey.toList

/-- RAISE: the first unknown key (in document order) is reported, with the class, provided the fields before it
loaded; documents are never accepted while they contain an unknown key. -/
theorem C10_raise_rejects (fl : S → JVal → LRes) (eff : MetaCfg) (ci : ClassInfo) (kvs : List (S × JVal))
    (hr : eff.raiseOnUnknown.getD false = true) (hu : ∃ kv ∈ kvs, IsUnknown eff ci kv.1) :
    ∀ res, loadKeysWith fl eff ci kvs ≠ .ok res := by
  induction kvs with
  | nil => simp at hu
  | cons kv r ih =>
    obtain ⟨k, v⟩ := kv
    intro res h
    simp only [loadKeysWith] at h
    cases hk : resolveKey eff ci k with
    | error e => simp [hk, bind, Except.bind] at h
    | ok kr =>
      cases kr with
      | unknown => simp [hk, bind, Except.bind, hr] at h
      | ignored =>
        simp [hk, bind, Except.bind] at h
        have : ∃ kv ∈ r, IsUnknown eff ci kv.1 := by
          obtain ⟨kv, hm, hkv⟩ := hu
          simp at hm
          rcases hm with rfl | hm
          · simp [IsUnknown, hk] at hkv
          · exact ⟨kv, hm, hkv⟩
        exact ih this res h
      | field f =>
        simp [hk, bind, Except.bind] at h
        have hex : ∃ kv ∈ r, IsUnknown eff ci kv.1 := by
          obtain ⟨kv, hm, hkv⟩ := hu
          simp at hm
          rcases hm with rfl | hm
          · simp [IsUnknown, hk] at hkv
          · exact ⟨kv, hm, hkv⟩
        cases hf : (fl f v).mapError (setAttribution ci.name f) with
        | error e => simp [hf] at h
        | ok y =>
          simp [hf] at h
          cases hrest : loadKeysWith fl eff ci r with
          | error e => simp [hrest] at h
          | ok rr => exact ih hex rr hrest

/-- when RAISE reports, it names a key of the document that is unknown, and the class being loaded -/
theorem C10_raise_names_unknown_key (fl : S → JVal → LRes) (eff : MetaCfg) (ci : ClassInfo) (kvs : List (S × JVal))
    (c : S) (ks : List S) (h : loadKeysWith fl eff ci kvs = .error (.unknownKeys c ks))
    (hfl : ∀ f v c' ks', fl f v ≠ .error (.unknownKeys c' ks')) :
    c = ci.name ∧ ∃ k, ks = [k] ∧ (∃ v, (k, v) ∈ kvs) ∧ IsUnknown eff ci k := by
  induction kvs with
  | nil => simp [loadKeysWith, pure, Except.pure] at h
  | cons kv r ih =>
    obtain ⟨k, v⟩ := kv
    simp only [loadKeysWith] at h
    cases hk : resolveKey eff ci k with
    | error e =>
      simp [hk, bind, Except.bind] at h
      subst h
      -- resolveKey never produces unknownKeys
      simp [resolveKey] at hk
      split at hk
      · simp [pure, Except.pure] at hk
      · split at hk
        · simp [pure, Except.pure] at hk
        · split at hk
          · simp [pure, Except.pure] at hk
          · split at hk
            · simp [rawE] at hk
            · split at hk <;> simp [pure, Except.pure] at hk
    | ok kr =>
      cases kr with
      | unknown =>
        simp [hk, bind, Except.bind] at h
        split at h
        · simp at h
          obtain ⟨h1, h2⟩ := h
          exact ⟨h1.symm, k, h2.symm, ⟨v, by simp⟩, hk⟩
        · cases hrest : loadKeysWith fl eff ci r with
          | error e =>
            simp [hrest] at h
            subst h
            obtain ⟨h1, k', h2, ⟨v', hv'⟩, h4⟩ := ih hrest
            exact ⟨h1, k', h2, ⟨v', by simp [hv']⟩, h4⟩
          | ok rr =>
            simp [hrest] at h
            split at h <;> simp [pure, Except.pure] at h
      | ignored =>
        simp [hk, bind, Except.bind] at h
        obtain ⟨h1, k', h2, ⟨v', hv'⟩, h4⟩ := ih h
        exact ⟨h1, k', h2, ⟨v', by simp [hv']⟩, h4⟩
      | field f =>
        simp [hk, bind, Except.bind] at h
        cases hf : (fl f v).mapError (setAttribution ci.name f) with
        | error e =>
          simp [hf] at h
          subst h
          -- the field loader's error is not an UnknownKeysError of this class
          cases hfv : fl f v with
          | ok y => simp [hfv, Except.mapError] at hf
          | error e' =>
            simp [hfv, Except.mapError] at hf
            cases e' <;> simp [setAttribution] at hf
            rename_i c' ks'
            exact absurd hfv (hfl f v c' ks')
        | ok y =>
          simp [hf] at h
          cases hrest : loadKeysWith fl eff ci r with
          | error e =>
            simp [hrest] at h
            subst h
            obtain ⟨h1, k', h2, ⟨v', hv'⟩, h4⟩ := ih hrest
            exact ⟨h1, k', h2, ⟨v', by simp [hv']⟩, h4⟩
          | ok rr => simp [hrest, pure, Except.pure] at h

/-- IGNORE / CATCH-ALL: the captured pairs are exactly the unknown pairs of the document, in document order,
spelled and valued as given, minus the tag key; nothing else is captured. -/
theorem C10_catchall_exact (fl : S → JVal → LRes) (eff : MetaCfg) (ci : ClassInfo) (kvs : List (S × JVal))
    (hr : eff.raiseOnUnknown.getD false = false) (kw : List (S × PyVal)) (ca : List (PyVal × PyVal))
    (h : loadKeysWith fl eff ci kvs = .ok (kw, ca)) :
    ca = (kvs.filter (fun kv => decide (IsUnknown eff ci kv.1) && !isTagKey eff kv.1)).map
            (fun kv => (PyVal.str kv.1, kv.2.toPy)) := by
  induction kvs generalizing kw ca with
  | nil => simp [loadKeysWith, pure, Except.pure] at h; simp [h.2]
  | cons kv r ih =>
    obtain ⟨k, v⟩ := kv
    simp only [loadKeysWith] at h
    cases hk : resolveKey eff ci k with
    | error e => simp [hk, bind, Except.bind] at h
    | ok kr =>
      cases kr with
      | unknown =>
        simp [hk, bind, Except.bind, hr] at h
        cases hrest : loadKeysWith fl eff ci r with
        | error e => simp [hrest] at h
        | ok rr =>
          obtain ⟨kw', ca'⟩ := rr
          simp [hrest] at h
          have := ih kw' ca' hrest
          have hunk : IsUnknown eff ci k := hk
          have hd : decide (IsUnknown eff ci k) = true := decide_eq_true hunk
          cases ht : isTagKey eff k with
          | true =>
            have ht' := ht
            simp [isTagKey] at ht'
            simp [ht', pure, Except.pure] at h
            obtain ⟨_, h2⟩ := h
            subst h2
            simp [List.filter, hd, ht, this]
          | false =>
            have ht' := ht
            simp [isTagKey] at ht'
            have hne : ¬ (eff.tag.isSome = true ∧ k = eff.tagKey.getD Generated.tagKey.toList) := by
              intro hh; exact ht' hh.1 hh.2
            simp [hne, pure, Except.pure] at h
            obtain ⟨_, h2⟩ := h
            subst h2
            simp [List.filter, hd, ht, this]
      | ignored =>
        simp [hk, bind, Except.bind] at h
        have := ih kw ca h
        have hunk : ¬ IsUnknown eff ci k := by simp [IsUnknown, hk]
        simp [List.filter, hunk, this]
      | field f =>
        simp [hk, bind, Except.bind] at h
        cases hf : (fl f v).mapError (setAttribution ci.name f) with
        | error e => simp [hf] at h
        | ok y =>
          simp [hf] at h
          cases hrest : loadKeysWith fl eff ci r with
          | error e => simp [hrest] at h
          | ok rr =>
            obtain ⟨kw', ca'⟩ := rr
            simp [hrest, pure, Except.pure] at h
            obtain ⟨_, h2⟩ := h
            subst h2
            have := ih kw' ca' hrest
            have hunk : ¬ IsUnknown eff ci k := by simp [IsUnknown, hk]
            simp [List.filter, hunk, this]

/-- Unknown keys never change the values of mapped fields: the constructor arguments are the same with and
without them. -/
theorem C10_mapped_unaffected (fl : S → JVal → LRes) (eff : MetaCfg) (ci : ClassInfo) (kvs : List (S × JVal))
    (hr : eff.raiseOnUnknown.getD false = false) (kw : List (S × PyVal)) (ca : List (PyVal × PyVal))
    (h : loadKeysWith fl eff ci kvs = .ok (kw, ca)) :
    ∃ ca', loadKeysWith fl eff ci (kvs.filter (fun kv => !decide (IsUnknown eff ci kv.1))) = .ok (kw, ca') := by
  induction kvs generalizing kw ca with
  | nil => simp [loadKeysWith, pure, Except.pure] at h ⊢; exact h.1
  | cons kv r ih =>
    obtain ⟨k, v⟩ := kv
    simp only [loadKeysWith] at h
    cases hk : resolveKey eff ci k with
    | error e => simp [hk, bind, Except.bind] at h
    | ok kr =>
      cases kr with
      | unknown =>
        have hunk : IsUnknown eff ci k := hk
        simp [hk, bind, Except.bind, hr] at h
        cases hrest : loadKeysWith fl eff ci r with
        | error e => simp [hrest] at h
        | ok rr =>
          obtain ⟨kw', ca'⟩ := rr
          simp [hrest] at h
          have hkw : kw = kw' := by
            split at h <;> simp [pure, Except.pure] at h <;> exact h.1.symm
          subst hkw
          obtain ⟨ca2, h2⟩ := ih kw ca' hrest
          exact ⟨ca2, by simp [List.filter, hunk, h2]⟩
      | ignored =>
        have hunk : ¬ IsUnknown eff ci k := by simp [IsUnknown, hk]
        simp [hk, bind, Except.bind] at h
        obtain ⟨ca2, h2⟩ := ih kw ca h
        exact ⟨ca2, by simp [List.filter, hunk, loadKeysWith, hk, bind, Except.bind, h2]⟩
      | field f =>
        have hunk : ¬ IsUnknown eff ci k := by simp [IsUnknown, hk]
        simp [hk, bind, Except.bind] at h
        cases hf : (fl f v).mapError (setAttribution ci.name f) with
        | error e => simp [hf] at h
        | ok y =>
          simp [hf] at h
          cases hrest : loadKeysWith fl eff ci r with
          | error e => simp [hrest] at h
          | ok rr =>
            obtain ⟨kw', ca'⟩ := rr
            simp [hrest, pure, Except.pure] at h
            obtain ⟨h1, _⟩ := h
            subst h1
            obtain ⟨ca2, h2⟩ := ih kw' ca' hrest
            exact ⟨ca2, by simp [List.filter, hunk, loadKeysWith, hk, bind, Except.bind, hf, h2, pure, Except.pure]⟩

/-! ### v1 engine

The v1 class function does not walk the document: it looks the constructor fields up, counts the hits in `i` (plus the
whitelisted tag key when present) and uses `len(o) != i` as the test for "there is a key I do not know"; only then does it
compute `set(o) - aliases` (RAISE / WARN) or the catch-all comprehension. -/

open DW.Lemmas.V1

/-- the conditions under which `len(o) != i` is an exact test: the document is a JSON object (keys pairwise different), no two
constructor fields (nor a field and the tag key) share a key, every constructor field has exactly one key (no key-case AUTO,
no multi-key alias), and the class has a constructor field -/
structure V1WellKeyed (eff : MetaCfg) (ci : ClassInfo) (kvs : List (S × JVal)) : Prop where
  docNodup : (docKeys kvs).Nodup
  knownNodup : (v1KnownKeys eff ci).Nodup
  single : SingleKeyed eff ci
  nonempty : (v1InitFields ci).isEmpty = false

/-- a key of the document is unknown to the class: not a key of any constructor field, not the whitelisted tag key -/
def v1Unknown (eff : MetaCfg) (ci : ClassInfo) (k : S) : Bool := !(v1KnownKeys eff ci).contains k

/-- `len(o) != i` holds exactly when the document has an unknown key -/
theorem C10_v1_len_test_exact (fl : S → JVal → LRes) (eff : MetaCfg) (ci : ClassInfo) (kvs : List (S × JVal))
    (kw : List (S × PyVal)) (found : Nat) (hw : V1WellKeyed eff ci kvs) (hcount : v1Counting eff ci = true)
    (hok : v1Fields fl eff ci kvs ci.fields = .ok (kw, found)) :
    (kvs.length != v1Matched eff ci kvs found) = !(v1Extra eff ci kvs).isEmpty := by
  obtain ⟨_, hn⟩ := v1Fields_ok fl eff ci kvs ci.fields kw found hok
  have hlen := length_eq_matched_add_extra eff ci kvs found hw.docNodup hw.knownNodup hw.single hcount hw.nonempty hn
  cases hx : v1Extra eff ci kvs with
  | nil => simp [hx] at hlen ⊢; exact hlen
  | cons a r =>
    simp only [hx, List.length_cons] at hlen
    simp only [List.isEmpty_cons, Bool.not_false, bne_iff_ne, ne_eq]
    omega

theorem find_none_of_any_false (ci : ClassInfo) (h : v1HasCatchAll ci = false) : ci.fields.find? (·.isCatchAll) = none := by
  unfold v1HasCatchAll at h
  rw [List.any_eq_false] at h
  exact List.find?_eq_none.mpr h

theorem raise_counts (eff : MetaCfg) (ci : ClassInfo) (h : eff.v1OnUnknown = some .raise) : v1Counting eff ci = true := by
  simp [v1Counting, h]

/-- RAISE, v1: *every* document with at least one unknown key is rejected with UnknownKeysError naming the class and exactly
the unknown keys of the document (in document order), provided the values of the mapped fields converted. -/
theorem C10_v1_raise_rejects (fl : S → JVal → LRes) (eff : MetaCfg) (ci : ClassInfo) (kvs : List (S × JVal))
    (kw : List (S × PyVal)) (found : Nat) (hr : eff.v1OnUnknown = some .raise) (hca : v1HasCatchAll ci = false)
    (hw : V1WellKeyed eff ci kvs) (hok : v1Fields fl eff ci kvs ci.fields = .ok (kw, found))
    (hu : ∃ kv ∈ kvs, v1Unknown eff ci kv.1 = true) :
    v1ClassWith fl eff ci (.dict kvs) = .error (.unknownKeys ci.name ((v1Extra eff ci kvs).map (·.1))) ∧
    (v1Extra eff ci kvs).map (·.1) ≠ [] := by
  have hne : v1Extra eff ci kvs ≠ [] := by
    obtain ⟨kv, hm, hkv⟩ := hu
    intro h
    have : kv ∈ v1Extra eff ci kvs := by
      unfold v1Extra
      exact List.mem_filter.mpr ⟨hm, hkv⟩
    rw [h] at this
    simp at this
  have htest := C10_v1_len_test_exact fl eff ci kvs kw found hw (raise_counts eff ci hr) hok
  have hemp : (v1Extra eff ci kvs).isEmpty = false := by
    cases hx : v1Extra eff ci kvs with
    | nil => exact absurd hx hne
    | cons a r => rfl
  constructor
  · simp [v1ClassWith, hok, bind, Except.bind, v1Finish, hca, hr, htest, hemp]
  · intro h
    exact hne (List.map_eq_nil_iff.mp h)

/-- ... and a document *without* unknown keys is never rejected for its keys: it goes on to `cls(...)` with nothing captured -/
theorem C10_v1_raise_accepts_clean (fl : S → JVal → LRes) (eff : MetaCfg) (ci : ClassInfo) (kvs : List (S × JVal))
    (kw : List (S × PyVal)) (found : Nat) (hr : eff.v1OnUnknown = some .raise) (hca : v1HasCatchAll ci = false)
    (hw : V1WellKeyed eff ci kvs) (hok : v1Fields fl eff ci kvs ci.fields = .ok (kw, found))
    (hu : ∀ kv ∈ kvs, v1Unknown eff ci kv.1 = false) :
    v1ClassWith fl eff ci (.dict kvs) = finishClass ci kw [] (.dict kvs) := by
  have hnil : v1Extra eff ci kvs = [] := by
    unfold v1Extra
    rw [List.filter_eq_nil_iff]
    intro kv hm
    have := hu kv hm
    unfold v1Unknown at this
    rw [this]
    simp
  have htest := C10_v1_len_test_exact fl eff ci kvs kw found hw (raise_counts eff ci hr) hok
  simp only [hnil, List.isEmpty_nil, Bool.not_true] at htest
  have heq : (kvs.length == v1Matched eff ci kvs found) = true := by
    have : ¬ (kvs.length ≠ v1Matched eff ci kvs found) := by
      intro hne
      have : (kvs.length != v1Matched eff ci kvs found) = true := bne_iff_ne.mpr hne
      rw [htest] at this
      exact absurd this (by simp)
    simpa using this
  simp only [v1ClassWith, hok, bind, Except.bind, v1Finish, htest, Bool.and_false, Bool.false_eq_true, ↓reduceIte]
  exact finishKw_eq_finishClass ci kw _ _ _ (find_none_of_any_false ci hca)

/-- what an UnknownKeysError of the v1 engine names: exactly the keys of the document that are unknown to the class — never
a key of a mapped field, never the whitelisted tag key -/
theorem C10_v1_raise_names_exactly_unknown (eff : MetaCfg) (ci : ClassInfo) (kvs : List (S × JVal)) (k : S) :
    k ∈ (v1Extra eff ci kvs).map (·.1) ↔ (k ∈ docKeys kvs ∧ v1Unknown eff ci k = true) := by
  unfold v1Extra docKeys v1Unknown
  simp only [List.mem_map, List.mem_filter]
  constructor
  · rintro ⟨kv, ⟨hm, hp⟩, rfl⟩
    exact ⟨⟨kv, hm, rfl⟩, hp⟩
  · rintro ⟨⟨kv, hm, rfl⟩, hp⟩
    exact ⟨kv, ⟨hm, hp⟩, rfl⟩

/-- CATCH-ALL, v1: the catch-all argument is built from exactly the unknown pairs of the document, in document order, spelled and
valued as given; it is assigned whenever there is such a pair — and, for a catch-all field with a plain default, *only* then
(see `C10_v1_catchall_argument`) -/
theorem C10_v1_catchall_exact (fl : S → JVal → LRes) (eff : MetaCfg) (ci : ClassInfo) (kvs : List (S × JVal))
    (kw : List (S × PyVal)) (found : Nat) (hca : v1HasCatchAll ci = true)
    (hw : V1WellKeyed eff ci kvs) (hok : v1Fields fl eff ci kvs ci.fields = .ok (kw, found)) :
    v1ClassWith fl eff ci (.dict kvs)
      = finishKw ci (v1WithCatchAll ci kw (!(v1Extra eff ci kvs).isEmpty)
          ((v1Extra eff ci kvs).map (fun kv => (PyVal.str kv.1, kv.2.toPy)))) := by
  have hcount : v1Counting eff ci = true := by simp [v1Counting, hca]
  have htest := C10_v1_len_test_exact fl eff ci kvs kw found hw hcount hok
  simp only [v1ClassWith, hok, bind, Except.bind, v1Finish, hca, Bool.not_true, Bool.false_and, Bool.false_eq_true, ↓reduceIte, htest]

/-- what the constructor receives for the catch-all field `cf`: with unknown pairs, a dict of exactly those pairs; without any,
`{}` for a catch-all field without plain default and *nothing* (so the default is kept) for one with a plain default -/
theorem C10_v1_catchall_argument (ci : ClassInfo) (kw : List (S × PyVal)) (cf : FieldInfo) (extra : List (PyVal × PyVal))
    (hcf : ci.fields.find? (·.isCatchAll) = some cf) :
    (extra ≠ [] → v1WithCatchAll ci kw (!extra.isEmpty) extra = kw ++ [(cf.name, PyVal.map .dict extra)]) ∧
    (cf.dflt.isNone = true → v1WithCatchAll ci kw (!([] : List (PyVal × PyVal)).isEmpty) [] = kw ++ [(cf.name, PyVal.map .dict [])]) ∧
    (cf.dflt.isSome = true → cf.isFactory = false → v1WithCatchAll ci kw (!([] : List (PyVal × PyVal)).isEmpty) [] = kw) := by
  refine ⟨?_, ?_, ?_⟩
  · intro hne
    cases extra with
    | nil => exact absurd rfl hne
    | cons a r => simp [v1WithCatchAll, hcf]
  · intro hd
    simp [v1WithCatchAll, hcf, hd]
  · intro hd hf
    have : cf.dflt.isNone = false := by cases h : cf.dflt <;> simp_all
    simp [v1WithCatchAll, hcf, this, hf]

/-- the tag key of a tagged class is whitelisted: it is a known key, hence never among the pairs reported or captured — unless a
*constructor* field carries that name (then it is that field's key) -/
theorem C10_v1_tag_key_never_extra (eff : MetaCfg) (ci : ClassInfo) (kvs : List (S × JVal))
    (ht : v1ExpectTag eff ci = true) : ∀ kv ∈ v1Extra eff ci kvs, kv.1 ≠ v1TagKey eff := by
  intro kv hkv heq
  unfold v1Extra at hkv
  have hp := (List.mem_filter.mp hkv).2
  have : (v1KnownKeys eff ci).contains kv.1 = true := by
    apply List.contains_iff_mem.mpr
    unfold v1KnownKeys
    simp [ht, heq]
  rw [this] at hp
  simp at hp

/-- IGNORE / WARN / unset, v1, no catch-all field: unknown keys are dropped — the outcome is `cls(...)` on the mapped fields -/
theorem C10_v1_ignore_drops (fl : S → JVal → LRes) (eff : MetaCfg) (ci : ClassInfo) (kvs : List (S × JVal))
    (kw : List (S × PyVal)) (found : Nat) (hr : eff.v1OnUnknown ≠ some .raise) (hca : v1HasCatchAll ci = false)
    (hok : v1Fields fl eff ci kvs ci.fields = .ok (kw, found)) :
    v1ClassWith fl eff ci (.dict kvs) = finishClass ci kw [] (.dict kvs) := by
  have hr' : (eff.v1OnUnknown == some KeyAct.raise) = false := by
    cases h : eff.v1OnUnknown with
    | none => rfl
    | some a => cases a <;> simp_all
  simp only [v1ClassWith, hok, bind, Except.bind, v1Finish, hr', Bool.and_false, Bool.false_and, Bool.false_eq_true, ↓reduceIte]
  exact finishKw_eq_finishClass ci kw _ _ _ (find_none_of_any_false ci hca)

theorem lookupFirst_filter_known (known : List S) (kvs : List (S × JVal)) (ks : List S) (h : ∀ k ∈ ks, k ∈ known) :
    lookupFirst (kvs.filter (fun kv => known.contains kv.1)) ks = lookupFirst kvs ks := by
  induction ks with
  | nil => rfl
  | cons k r ih =>
    have hk : known.contains k = true := List.contains_iff_mem.mpr (h k (by simp))
    have hr : ∀ k ∈ r, k ∈ known := fun k' hk' => h k' (by simp [hk'])
    have hfun : (fun a : S × JVal => decide (known.contains a.1 = true ∧ (a.1 == k) = true)) = (fun a => a.1 == k) := by
      funext a
      cases hq : (a.1 == k) with
      | false => simp
      | true =>
        have : a.1 = k := by simpa using hq
        rw [this, hk]
        simp
    simp only [lookupFirst, List.find?_filter, hfun, ih hr]

/-- Keys that map to no field never change the values of the mapped fields (v1): the field loop gives the same constructor
arguments — or the same error — on the document and on the document with its unknown pairs removed. -/
theorem C10_v1_mapped_unaffected (fl : S → JVal → LRes) (eff : MetaCfg) (ci : ClassInfo) (kvs : List (S × JVal))
    (fs : List FieldInfo) (hfs : ∀ f ∈ fs, f ∈ ci.fields) :
    v1Fields fl eff ci (kvs.filter (fun kv => !v1Unknown eff ci kv.1)) fs = v1Fields fl eff ci kvs fs := by
  have hfilter : (kvs.filter (fun kv => !v1Unknown eff ci kv.1)) = kvs.filter (fun kv => (v1KnownKeys eff ci).contains kv.1) := by
    apply List.filter_congr
    intro kv _
    simp [v1Unknown]
  rw [hfilter]
  induction fs with
  | nil => rfl
  | cons fi r ih =>
    have hr : ∀ f ∈ r, f ∈ ci.fields := fun f hf => hfs f (by simp [hf])
    simp only [v1Fields]
    split
    · exact ih hr
    · rename_i hskip
      have hin : fi ∈ v1InitFields ci := by
        unfold v1InitFields
        apply List.mem_filter.mpr
        refine ⟨hfs fi (by simp), ?_⟩
        cases hi : fi.init <;> cases hc : fi.isCatchAll <;> simp_all
      have hkeys : ∀ k ∈ v1Keys eff fi, k ∈ v1KnownKeys eff ci := by
        intro k hk
        unfold v1KnownKeys
        apply List.mem_append.mpr
        right
        exact List.mem_flatMap.mpr ⟨fi, hin, hk⟩
      rw [lookupFirst_filter_known _ kvs _ hkeys, ih hr]

/-- Witness (unchanged code): without the one-key-per-field condition the `len(o) != i` test misfires. A field with two
alternative keys (`Alias('a', 'b')`, or key case AUTO) counts once however many of its spellings the document holds, so under
RAISE a document with *no* unknown key is rejected — with an empty list of unknown keys. -/
theorem C10_v1_raise_two_spellings_witness :
    let ci : ClassInfo := { name := ['K'], fields := [{ name := ['x'], loadKeys := [['a'], ['b']] }] }
    let eff : MetaCfg := { v1 := some true, v1OnUnknown := some .raise }
    let doc : List (S × JVal) := [(['a'], .int 1), (['b'], .int 2)]
    (∀ kv ∈ doc, v1Unknown eff ci kv.1 = false) ∧
    v1ClassWith (fun _ v => pure v.toPy) eff ci (.dict doc) = .error (.unknownKeys ['K'] []) := by
  refine ⟨by decide, by rfl⟩

/-! ### The write-back clause and the dump-side settings

`to_dict` writes the items of the CatchAll mapping back at top level.  The unknown pairs are the document's data, not fields of the
class: none of the settings that select or spell the class's own fields on a dump (Meta.skip_if, skip_defaults_if, skip_defaults,
key_transform_with_dump, SkipIf on other fields, the `skip_defaults` argument) has a say about them.  Stated on the dump model
(`dumpFields`, tied to the generated `cls_asdict` by the C10 / C11 / C03 correspondence streams). -/

/-- the field loop handles the first field and then the rest: whatever the first field contributes is a prefix of the result -/
theorem dumpFields_cons_tail (std : Std) (ts : Bool) (cfg : Option MetaCfg) (eff : MetaCfg) (args : DumpArgs) (ci : ClassInfo)
    (n : S) (v : PyVal) (rest : List (S × PyVal)) (out : List (DVal × DVal))
    (h : dumpFields std ts cfg eff args ci ((n, v) :: rest) = .ok out) :
    ∃ here more, dumpFields std ts cfg eff args ci rest = .ok more ∧ out = here ++ more := by
  cases v <;> rw [dumpFields] at h
  all_goals first
    | (intro _ _ hh; cases hh; done)
    | (simp only [bind, Except.bind, pure, Except.pure] at h
       repeat' split at h
       all_goals first
         | (simp at h; done)
         | (simp only [Except.ok.injEq] at h; subst h; exact ⟨_, _, by assumption, rfl⟩))

/-- the declaration the field loop uses for the attribute called `n` -/
def fieldOf (ci : ClassInfo) (n : S) : FieldInfo := (ci.fields.find? (fun f => f.name == n)).getD { name := n }

/-- "the catch-all mapping is written": the attribute is the CatchAll field, it is not named in `exclude`, and it does not equal its
declared default (a CatchAll field without default is always written) -/
def CatchAllWritten (eff : MetaCfg) (args : DumpArgs) (ci : ClassInfo) (n : S) (v : PyVal) : Prop :=
  (fieldOf ci n).isCatchAll = true ∧ excluded args (fieldOf ci n) = false ∧
  (∀ d, (fieldOf ci n).dflt = some d → pyEqDflt v d = false) ∧
  -- … and the skip-defaults bookkeeping does not select it (a defaulted CatchAll field is tested like any defaulted field:
  -- the recorded finding `catchall-mapping-judged-by-skip-defaults-if`, witness below)
  (skipDefaultsOn eff args = true → defaultTest eff (fieldOf ci n) v = .ok false)

/-- one step of the field loop at the CatchAll field: its items, then the remaining fields — no Meta setting and no `skip_defaults`
argument is consulted -/
theorem dumpFields_cons_catchall (std : Std) (ts : Bool) (cfg : Option MetaCfg) (eff : MetaCfg) (args : DumpArgs) (ci : ClassInfo)
    (n : S) (k : MapKind) (kvs : List (PyVal × PyVal)) (rest : List (S × PyVal))
    (hw : CatchAllWritten eff args ci n (.map k kvs)) :
    dumpFields std ts cfg eff args ci ((n, .map k kvs) :: rest) = (do
      let here ← dumpCatchAll std ts cfg kvs
      let more ← dumpFields std ts cfg eff args ci rest
      pure (here ++ more)) := by
  obtain ⟨hca, hex, hnd, hsd⟩ := hw
  unfold fieldOf at hca hex hnd hsd
  rw [dumpFields]
  simp only [hca, hex, if_true, Bool.false_eq_true, if_false]
  by_cases hon : skipDefaultsOn eff args = true
  · cases hd : ((List.find? (fun f => f.name == n) ci.fields).getD { name := n }).dflt with
    | none => simp [hon, hsd hon, bind, Except.bind, pure, Except.pure]
    | some d => simp [hon, hsd hon, hnd d hd, bind, Except.bind, pure, Except.pure]
  · have hoff : skipDefaultsOn eff args = false := by simpa using hon
    cases hd : ((List.find? (fun f => f.name == n) ci.fields).getD { name := n }).dflt with
    | none => simp [hoff, bind, Except.bind, pure, Except.pure]
    | some d => simp [hoff, hnd d hd, bind, Except.bind, pure, Except.pure]

/-- C10, write-back clause on the dump model: for EVERY effective Meta `eff` (skip_if, skip_defaults_if, skip_defaults, dump key
transform, ...), every `skip_defaults` argument and every other field of the class, a dump that succeeds contains every item of the
mapping held by the CatchAll field (unless that field is excluded or equals its default).  `_partial`: the full statement
("unless excluded or default" only) is false of the code and of the model for a defaulted CatchAll field whose mapping satisfies
`Meta.skip_defaults_if` — `C10_writeback_lost_under_skip_defaults_if` below, recorded finding
`catchall-mapping-judged-by-skip-defaults-if` — so the hypothesis `CatchAllWritten` also asks that the skip-defaults
bookkeeping does not select the field. -/
theorem C10_writeback_whatever_dump_settings_partial (std : Std) (ts : Bool) (cfg : Option MetaCfg) (eff : MetaCfg) (args : DumpArgs)
    (ci : ClassInfo) (n : S) (k : MapKind) (kvs : List (PyVal × PyVal)) (hw : CatchAllWritten eff args ci n (.map k kvs)) :
    ∀ (fields : List (S × PyVal)) (out : List (DVal × DVal)), (n, PyVal.map k kvs) ∈ fields →
      dumpFields std ts cfg eff args ci fields = .ok out →
      ∃ items, dumpCatchAll std ts cfg kvs = .ok items ∧ ∀ p ∈ items, p ∈ out := by
  intro fields
  induction fields with
  | nil => intro out hm; cases hm
  | cons fv rest ih =>
    intro out hm h
    obtain ⟨n', v'⟩ := fv
    rcases List.mem_cons.mp hm with heq | hin
    · cases heq
      rw [dumpFields_cons_catchall std ts cfg eff args ci n k kvs rest hw] at h
      simp only [bind, Except.bind, pure, Except.pure] at h
      cases hc : dumpCatchAll std ts cfg kvs with
      | error e => rw [hc] at h; simp at h
      | ok items =>
        rw [hc] at h
        cases hr : dumpFields std ts cfg eff args ci rest with
        | error e => rw [hr] at h; simp at h
        | ok more =>
          rw [hr] at h
          simp only [Except.ok.injEq] at h
          subst h
          exact ⟨items, rfl, fun p hp => List.mem_append_left _ hp⟩
    · obtain ⟨here, more, hrest, hout⟩ := dumpFields_cons_tail std ts cfg eff args ci n' v' rest out h
      obtain ⟨items, hi, hsub⟩ := ih more hin hrest
      exact ⟨items, hi, fun p hp => by rw [hout]; exact List.mem_append_right _ (hsub p hp)⟩

/-- the key an item of the CatchAll mapping is written under: the key itself -/
def itemKey : PyVal → DVal
  | .str s => .str s
  | .int i => .int i
  | .bool b => .bool b
  | .none => .null
  | _ => .bad "key".toList

/-- ... spelled as given, in the order of the mapping: no key transform touches them -/
theorem C10_writeback_keys_as_given (std : Std) (ts : Bool) (cfg : Option MetaCfg) :
    ∀ (kvs : List (PyVal × PyVal)) (items : List (DVal × DVal)), dumpCatchAll std ts cfg kvs = .ok items →
      items.map (·.1) = kvs.map (fun kv => itemKey kv.1) := by
  intro kvs
  induction kvs with
  | nil => intro items h; simp only [dumpCatchAll, pure, Except.pure, Except.ok.injEq] at h; subst h; rfl
  | cons kv rest ih =>
    intro items h
    obtain ⟨k, v⟩ := kv
    unfold dumpCatchAll at h
    simp only [bind, Except.bind, pure, Except.pure] at h
    cases hv : dumpV std ts cfg v with
    | error e => rw [hv] at h; simp at h
    | ok dv =>
      rw [hv] at h
      cases hr : dumpCatchAll std ts cfg rest with
      | error e => rw [hr] at h; simp at h
      | ok more =>
        rw [hr] at h
        simp only [Except.ok.injEq] at h
        subst h
        simp only [List.map_cons, ih more hr]
        cases k <;> rfl

/-- non-vacuity: a class whose Meta leaves out every falsy value (skip_if = IS_FALSY()) and has skip_defaults on still writes back
both captured pairs, whose values are falsy, while its own field `x = 0` is left out -/
example (std : Std) :
    let ci : ClassInfo := { name := ['K'], fields := [{ name := ['x'] }, { name := ['r'], isCatchAll := true, dflt := some (.lit .none) }] }
    let eff : MetaCfg := { skipIf := some ⟨.falsy, .none⟩, skipDefaults := some true }
    let m : List (PyVal × PyVal) := [(.str ['n'], .int 0), (.str ['s'], .none)]
    CatchAllWritten eff {} ci ['r'] (.map .dict m) ∧
    dumpFields std false none eff {} ci [(['x'], .int 0), (['r'], .map .dict m)] = .ok [(.str ['n'], .int 0), (.str ['s'], .null)] := by
  refine ⟨⟨by decide, by decide, ?_, ?_⟩, by rfl⟩
  · intro d hd
    cases hd
    decide
  · intro _; rfl

/-- **the full write-back statement is false of the code** (and of the model, which follows it): with `skip_defaults_if = IS_TRUTHY()`
a defaulted CatchAll field holding a non-empty mapping is skipped as a "default", so both captured pairs are lost — replayed on the
implementation by `findings/catchall-mapping-judged-by-skip-defaults-if.py` -/
theorem C10_writeback_lost_under_skip_defaults_if (std : Std) :
    let ci : ClassInfo := { name := ['K'], fields := [{ name := ['x'] }, { name := ['r'], isCatchAll := true, dflt := some (.lit .none) }] }
    let eff : MetaCfg := { skipDefaultsIf := some ⟨.truthy, .none⟩ }
    let m : List (PyVal × PyVal) := [(.str ['n'], .int 0), (.str ['s'], .none)]
    dumpFields std false none eff {} ci [(['x'], .int 5), (['r'], .map .dict m)] = .ok [(.str ['x'], .int 5)] := by
  rfl

/-! ### the write-back of captured pairs, at the level of the generated code -/

open DW.GenDump in
/-- **C10 (the generated dump function writes the captured pairs back).**  For any class with a CatchAll field `fi` that is not
named in `exclude`, is not skipped as a default and does not hold its default, running the body `dump_func_for_dataclass` writes
for the class re-emits the items of the mapping the field holds at top level — whatever other fields, aliases, skip conditions
and Meta switches the class has (`Meta.skip_if` and per-field conditions of other fields never apply to the captured pairs). -/
theorem C10_generated_code_writes_back (p : Char → Bool) (ρ : Env) (eff : MetaCfg) (args : DumpArgs)
    (fks : List (FieldInfo × S)) (vals : S → PyVal) (W : World p eff args fks vals ρ) (dtv ocv : FieldInfo → Bool)
    (Hd : ∀ q ∈ fks, defaultTest eff q.1 (vals q.1.name) = .ok (dtv q.1))
    (Ho : ∀ q ∈ fks, ownCond eff q.1 (vals q.1.name) = .ok (ocv q.1))
    (fi : FieldInfo) (k : S) (hmem : (fi, k) ∈ fks) (hca : fi.isCatchAll = true)
    (hex : excluded args fi = false) (hsd : (skipDefaultsOn eff args && dtv fi) = false)
    (hnd : isDefaultVal fi (vals fi.name) = false) :
    ∃ out, run ρ (genBody p (ginOf eff fks)) = .ok out ∧ Emit.catchAll fi.name ∈ out := by
  refine ⟨_, run_genBody p ρ eff args fks vals W dtv ocv Hd Ho, ?_⟩
  rw [emitsFrom_eq eff args fks dtv ocv vals fks 0 (by simp)]
  apply List.mem_append_left
  simp only [List.mem_flatMap]
  refine ⟨(fi, k), hmem, ?_⟩
  simp [refFieldEmit, hca, hex, hsd, hnd]

end DW.Props.C10
