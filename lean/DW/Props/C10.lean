/-
C10 — unknown keys are ignored, rejected or captured exactly as configured (default engine).
Theorems about `loadKeysWith`, the `for json_key in o:` loop of the generated loader.
-/
import DW.Model.Load

namespace DW.Props.C10
open DW

/-- a key that maps to no field (after aliases, exact name and the case-normalising lookup) and is not the
whitelisted tag key -/
def IsUnknown (eff : MetaCfg) (ci : ClassInfo) (k : S) : Prop := resolveKey eff ci k = .ok .unknown

instance (eff : MetaCfg) (ci : ClassInfo) (k : S) : Decidable (IsUnknown eff ci k) := by
  unfold IsUnknown
  cases h : resolveKey eff ci k with
  | error e => exact isFalse (by simp)
  | ok r => cases r with
    | unknown => exact isTrue rfl
    | field f => exact isFalse (by simp)
    | ignored => exact isFalse (by simp)

def isTagKey (eff : MetaCfg) (k : S) : Bool := eff.tag.isSome && k == eff.tagKey.getD Generated.tagKey.toList

/-- RAISE: the first unknown key (in document order) is reported, with the class, provided the fields before it
loaded; documents are never accepted while they contain an unknown key. -/
theorem C10_raise_rejects (fl : S → JVal → LRes) (eff : MetaCfg) (ci : ClassInfo) (kvs : List (S × JVal))
    (hr : eff.raiseOnUnknown.getD false = true) (hu : ∃ kv ∈ kvs, IsUnknown eff ci kv.1) :
    ∀ res, loadKeysWith fl eff ci kvs ≠ .ok res := by
  induction kvs with
  | nil => simp at hu
  | cons kv r ih =>
    obtain ⟨k, v⟩ := kv
    intro res h
    simp only [loadKeysWith] at h
    cases hk : resolveKey eff ci k with
    | error e => simp [hk, bind, Except.bind] at h
    | ok kr =>
      cases kr with
      | unknown => simp [hk, bind, Except.bind, hr] at h
      | ignored =>
        simp [hk, bind, Except.bind] at h
        have : ∃ kv ∈ r, IsUnknown eff ci kv.1 := by
          obtain ⟨kv, hm, hkv⟩ := hu
          simp at hm
          rcases hm with rfl | hm
          · simp [IsUnknown, hk] at hkv
          · exact ⟨kv, hm, hkv⟩
        exact ih this res h
      | field f =>
        simp [hk, bind, Except.bind] at h
        have hex : ∃ kv ∈ r, IsUnknown eff ci kv.1 := by
          obtain ⟨kv, hm, hkv⟩ := hu
          simp at hm
          rcases hm with rfl | hm
          · simp [IsUnknown, hk] at hkv
          · exact ⟨kv, hm, hkv⟩
        cases hf : (fl f v).mapError (setAttribution ci.name f) with
        | error e => simp [hf] at h
        | ok y =>
          simp [hf] at h
          cases hrest : loadKeysWith fl eff ci r with
          | error e => simp [hrest] at h
          | ok rr => exact ih hex rr hrest

/-- when RAISE reports, it names a key of the document that is unknown, and the class being loaded -/
theorem C10_raise_names_unknown_key (fl : S → JVal → LRes) (eff : MetaCfg) (ci : ClassInfo) (kvs : List (S × JVal))
    (c : S) (ks : List S) (h : loadKeysWith fl eff ci kvs = .error (.unknownKeys c ks))
    (hfl : ∀ f v c' ks', fl f v ≠ .error (.unknownKeys c' ks')) :
    c = ci.name ∧ ∃ k, ks = [k] ∧ (∃ v, (k, v) ∈ kvs) ∧ IsUnknown eff ci k := by
  induction kvs with
  | nil => simp [loadKeysWith, pure, Except.pure] at h
  | cons kv r ih =>
    obtain ⟨k, v⟩ := kv
    simp only [loadKeysWith] at h
    cases hk : resolveKey eff ci k with
    | error e =>
      simp [hk, bind, Except.bind] at h
      subst h
      -- resolveKey never produces unknownKeys
      simp [resolveKey] at hk
      split at hk
      · simp [pure, Except.pure] at hk
      · split at hk
        · simp [pure, Except.pure] at hk
        · split at hk
          · simp [pure, Except.pure] at hk
          · split at hk
            · simp [rawE] at hk
            · split at hk <;> simp [pure, Except.pure] at hk
    | ok kr =>
      cases kr with
      | unknown =>
        simp [hk, bind, Except.bind] at h
        split at h
        · simp at h
          obtain ⟨h1, h2⟩ := h
          exact ⟨h1.symm, k, h2.symm, ⟨v, by simp⟩, hk⟩
        · cases hrest : loadKeysWith fl eff ci r with
          | error e =>
            simp [hrest] at h
            subst h
            obtain ⟨h1, k', h2, ⟨v', hv'⟩, h4⟩ := ih hrest
            exact ⟨h1, k', h2, ⟨v', by simp [hv']⟩, h4⟩
          | ok rr =>
            simp [hrest] at h
            split at h <;> simp [pure, Except.pure] at h
      | ignored =>
        simp [hk, bind, Except.bind] at h
        obtain ⟨h1, k', h2, ⟨v', hv'⟩, h4⟩ := ih h
        exact ⟨h1, k', h2, ⟨v', by simp [hv']⟩, h4⟩
      | field f =>
        simp [hk, bind, Except.bind] at h
        cases hf : (fl f v).mapError (setAttribution ci.name f) with
        | error e =>
          simp [hf] at h
          subst h
          -- the field loader's error is not an UnknownKeysError of this class
          cases hfv : fl f v with
          | ok y => simp [hfv, Except.mapError] at hf
          | error e' =>
            simp [hfv, Except.mapError] at hf
            cases e' <;> simp [setAttribution] at hf
            rename_i c' ks'
            exact absurd hfv (hfl f v c' ks')
        | ok y =>
          simp [hf] at h
          cases hrest : loadKeysWith fl eff ci r with
          | error e =>
            simp [hrest] at h
            subst h
            obtain ⟨h1, k', h2, ⟨v', hv'⟩, h4⟩ := ih hrest
            exact ⟨h1, k', h2, ⟨v', by simp [hv']⟩, h4⟩
          | ok rr => simp [hrest, pure, Except.pure] at h

/-- IGNORE / CATCH-ALL: the captured pairs are exactly the unknown pairs of the document, in document order,
spelled and valued as given, minus the tag key; nothing else is captured. -/
theorem C10_catchall_exact (fl : S → JVal → LRes) (eff : MetaCfg) (ci : ClassInfo) (kvs : List (S × JVal))
    (hr : eff.raiseOnUnknown.getD false = false) (kw : List (S × PyVal)) (ca : List (PyVal × PyVal))
    (h : loadKeysWith fl eff ci kvs = .ok (kw, ca)) :
    ca = (kvs.filter (fun kv => decide (IsUnknown eff ci kv.1) && !isTagKey eff kv.1)).map
            (fun kv => (PyVal.str kv.1, kv.2.toPy)) := by
  induction kvs generalizing kw ca with
  | nil => simp [loadKeysWith, pure, Except.pure] at h; simp [h.2]
  | cons kv r ih =>
    obtain ⟨k, v⟩ := kv
    simp only [loadKeysWith] at h
    cases hk : resolveKey eff ci k with
    | error e => simp [hk, bind, Except.bind] at h
    | ok kr =>
      cases kr with
      | unknown =>
        simp [hk, bind, Except.bind, hr] at h
        cases hrest : loadKeysWith fl eff ci r with
        | error e => simp [hrest] at h
        | ok rr =>
          obtain ⟨kw', ca'⟩ := rr
          simp [hrest] at h
          have := ih kw' ca' hrest
          have hunk : IsUnknown eff ci k := hk
          have hd : decide (IsUnknown eff ci k) = true := decide_eq_true hunk
          cases ht : isTagKey eff k with
          | true =>
            have ht' := ht
            simp [isTagKey] at ht'
            simp [ht', pure, Except.pure] at h
            obtain ⟨_, h2⟩ := h
            subst h2
            simp [List.filter, hd, ht, this]
          | false =>
            have ht' := ht
            simp [isTagKey] at ht'
            have hne : ¬ (eff.tag.isSome = true ∧ k = eff.tagKey.getD Generated.tagKey.toList) := by
              intro hh; exact ht' hh.1 hh.2
            simp [hne, pure, Except.pure] at h
            obtain ⟨_, h2⟩ := h
            subst h2
            simp [List.filter, hd, ht, this]
      | ignored =>
        simp [hk, bind, Except.bind] at h
        have := ih kw ca h
        have hunk : ¬ IsUnknown eff ci k := by simp [IsUnknown, hk]
        simp [List.filter, hunk, this]
      | field f =>
        simp [hk, bind, Except.bind] at h
        cases hf : (fl f v).mapError (setAttribution ci.name f) with
        | error e => simp [hf] at h
        | ok y =>
          simp [hf] at h
          cases hrest : loadKeysWith fl eff ci r with
          | error e => simp [hrest] at h
          | ok rr =>
            obtain ⟨kw', ca'⟩ := rr
            simp [hrest, pure, Except.pure] at h
            obtain ⟨_, h2⟩ := h
            subst h2
            have := ih kw' ca' hrest
            have hunk : ¬ IsUnknown eff ci k := by simp [IsUnknown, hk]
            simp [List.filter, hunk, this]

/-- Unknown keys never change the values of mapped fields: the constructor arguments are the same with and
without them. -/
theorem C10_mapped_unaffected (fl : S → JVal → LRes) (eff : MetaCfg) (ci : ClassInfo) (kvs : List (S × JVal))
    (hr : eff.raiseOnUnknown.getD false = false) (kw : List (S × PyVal)) (ca : List (PyVal × PyVal))
    (h : loadKeysWith fl eff ci kvs = .ok (kw, ca)) :
    ∃ ca', loadKeysWith fl eff ci (kvs.filter (fun kv => !decide (IsUnknown eff ci kv.1))) = .ok (kw, ca') := by
  induction kvs generalizing kw ca with
  | nil => simp [loadKeysWith, pure, Except.pure] at h ⊢; exact h.1
  | cons kv r ih =>
    obtain ⟨k, v⟩ := kv
    simp only [loadKeysWith] at h
    cases hk : resolveKey eff ci k with
    | error e => simp [hk, bind, Except.bind] at h
    | ok kr =>
      cases kr with
      | unknown =>
        have hunk : IsUnknown eff ci k := hk
        simp [hk, bind, Except.bind, hr] at h
        cases hrest : loadKeysWith fl eff ci r with
        | error e => simp [hrest] at h
        | ok rr =>
          obtain ⟨kw', ca'⟩ := rr
          simp [hrest] at h
          have hkw : kw = kw' := by
            split at h <;> simp [pure, Except.pure] at h <;> exact h.1.symm
          subst hkw
          obtain ⟨ca2, h2⟩ := ih kw ca' hrest
          exact ⟨ca2, by simp [List.filter, hunk, h2]⟩
      | ignored =>
        have hunk : ¬ IsUnknown eff ci k := by simp [IsUnknown, hk]
        simp [hk, bind, Except.bind] at h
        obtain ⟨ca2, h2⟩ := ih kw ca h
        exact ⟨ca2, by simp [List.filter, hunk, loadKeysWith, hk, bind, Except.bind, h2]⟩
      | field f =>
        have hunk : ¬ IsUnknown eff ci k := by simp [IsUnknown, hk]
        simp [hk, bind, Except.bind] at h
        cases hf : (fl f v).mapError (setAttribution ci.name f) with
        | error e => simp [hf] at h
        | ok y =>
          simp [hf] at h
          cases hrest : loadKeysWith fl eff ci r with
          | error e => simp [hrest] at h
          | ok rr =>
            obtain ⟨kw', ca'⟩ := rr
            simp [hrest, pure, Except.pure] at h
            obtain ⟨h1, _⟩ := h
            subst h1
            obtain ⟨ca2, h2⟩ := ih kw' ca' hrest
            exact ⟨ca2, by simp [List.filter, hunk, loadKeysWith, hk, bind, Except.bind, hf, h2, pure, Except.pure]⟩

end DW.Props.C10
