/-
C14 — v1 load failures are library errors that render and name the class and field.
-/
import DW.Generated.Tables
import DW.Model.LoadV1

namespace DW.Props.C14
open DW

/-- the error lattice in the source: every error class the loaders raise derives from JSONWizardError, and
MissingData is a ParseError (regenerated from errors.py on every run) -/
theorem C14_error_lattice :
    Generated.errorLattice =
      [("JSONWizardError", "JSONWizardError"), ("ParseError", "ParseError JSONWizardError"),
       ("MissingFields", "MissingFields JSONWizardError"), ("MissingData", "MissingData ParseError JSONWizardError"),
       ("UnknownKeysError", "UnknownKeysError JSONWizardError"), ("RecursiveClassError", "RecursiveClassError JSONWizardError"),
       ("InvalidConditionError", "InvalidConditionError JSONWizardError"), ("MissingVars", "MissingVars JSONWizardError"),
       ("ExtraData", "ExtraData JSONWizardError")] := by decide

/-- an error is a library error: not a bare Python exception -/
def isLib : LErr → Bool
  | .raw _ => false
  | .unsupported _ => true      -- (outside the model; the harness skips such cases)
  | _ => true

theorem v1SetAttr_isLib (c f : S) (e : LErr) : isLib (v1SetAttr c f e) = true := by
  cases e <;> simp [v1SetAttr, isLib]

/-- the field loop of the generated class function converts *every* failure of a field loader — whatever it is —
into a library error -/
theorem v1Fields_lib (fl : S → JVal → LRes) (eff : MetaCfg) (ci : ClassInfo) (kvs : List (S × JVal))
    (fs : List FieldInfo) (e : LErr) (h : v1Fields fl eff ci kvs fs = .error e) : isLib e = true := by
  induction fs with
  | nil => simp [v1Fields, pure, Except.pure] at h
  | cons fi r ih =>
    simp only [v1Fields] at h
    split at h
    · exact ih h
    · split at h
      · exact ih h
      · rename_i v hv
        cases hf : (fl fi.name v).mapError (v1SetAttr ci.name fi.name) with
        | error e' =>
          simp [hf, bind, Except.bind] at h
          subst h
          cases hfl : fl fi.name v with
          | ok y => simp [hfl, Except.mapError] at hf
          | error e0 =>
            simp [hfl, Except.mapError] at hf
            subst hf
            exact v1SetAttr_isLib _ _ _
        | ok y =>
          simp [hf, bind, Except.bind] at h
          cases hr : v1Fields fl eff ci kvs r with
          | error e' => simp [hr] at h; subst h; exact ih hr
          | ok rr => simp [hr, pure, Except.pure] at h

theorem buildFields_lib (kw : List (S × PyVal)) (fs : List FieldInfo) (e : LErr)
    (h : buildFields kw fs = .error e) : isLib e = true := by
  induction fs with
  | nil => simp [buildFields, pure, Except.pure] at h
  | cons f r ih =>
    simp only [buildFields] at h
    split at h
    · cases hr : buildFields kw r with
      | error e2 => simp [hr, bind, Except.bind] at h; subst h; exact ih hr
      | ok rr => simp [hr, bind, Except.bind, pure, Except.pure] at h
    · cases hr : buildFields kw r with
      | error e2 => simp [hr, bind, Except.bind] at h; subst h; exact ih hr
      | ok rr => simp [hr, bind, Except.bind, pure, Except.pure] at h
    · split at h
      · cases hr : buildFields kw r with
        | error e2 => simp [hr, bind, Except.bind] at h; subst h; exact ih hr
        | ok rr => simp [hr, bind, Except.bind, pure, Except.pure] at h
      · simp at h; subst h; rfl

theorem finishClass_lib (ci : ClassInfo) (kw : List (S × PyVal)) (ca : List (PyVal × PyVal)) (o : JVal) (e : LErr)
    (h : finishClass ci kw ca o = .error e) : isLib e = true := by
  simp only [finishClass] at h
  split at h
  · cases hb : buildFields (withCatchAll ci kw ca) ci.fields with
    | error e2 => simp [hb, bind, Except.bind] at h; subst h; exact buildFields_lib _ _ _ hb
    | ok fs => simp [hb, bind, Except.bind, pure, Except.pure] at h
  · simp at h; subst h; rfl

theorem finishKw_lib (ci : ClassInfo) (kw : List (S × PyVal)) (e : LErr)
    (h : finishKw ci kw = .error e) : isLib e = true := by
  simp only [finishKw] at h
  split at h
  · cases hb : buildFields kw ci.fields with
    | error e2 => simp [hb, bind, Except.bind] at h; subst h; exact buildFields_lib _ _ _ hb
    | ok fs => simp [hb, bind, Except.bind, pure, Except.pure] at h
  · simp at h; subst h; rfl

/-- C14, v1 engine: *every* failing load of a class — any JSON input, any field loaders — ends in a library
error (ParseError, MissingData, MissingFields, UnknownKeysError), never a bare exception. -/
theorem C14_lib_only (fl : S → JVal → LRes) (eff : MetaCfg) (ci : ClassInfo) (o : JVal) (e : LErr)
    (h : v1ClassWith fl eff ci o = .error e) : isLib e = true := by
  cases o with
  | null => simp [v1ClassWith] at h; subst h; rfl
  | dict kvs =>
    simp only [v1ClassWith] at h
    cases hf : v1Fields fl eff ci kvs ci.fields with
    | error e' =>
      simp [hf, bind, Except.bind] at h
      subst h
      exact v1Fields_lib fl eff ci kvs ci.fields e' hf
    | ok res =>
      obtain ⟨kw, found⟩ := res
      simp only [hf, bind, Except.bind, v1Finish] at h
      split at h
      · simp at h; subst h; rfl
      · exact finishKw_lib _ _ _ h
  | bool b => simp [v1ClassWith] at h; subst h; rfl
  | int i => simp [v1ClassWith] at h; subst h; rfl
  | float f => simp [v1ClassWith] at h; subst h; rfl
  | str s => simp [v1ClassWith] at h; subst h; rfl
  | list xs => simp [v1ClassWith] at h; subst h; rfl

/-- attribution: a failure converting the value of field `f` of class `c` is reported as (c, f) unless a nested
loader already named an inner class / field (innermost wins) -/
theorem C14_attribution_innermost (c f : S) (ic : Option S) (ifd : Option S) :
    v1SetAttr c f (.parse ic ifd) = .parse (ic <|> some c) (ifd <|> some f) ∧
    v1SetAttr c f (.raw "ValueError".toList) = .parse (some c) (some f) := ⟨rfl, rfl⟩

/-! ### v1 stream (unknown-key policies, catch-all, tags, nesting) -/

/-- whatever the unknown-key policy, catch-all field and tag of the class: the step after the field loop (UnknownKeysError
under RAISE, catch-all capture, `cls(...)` and its MissingFields conversion) fails with library errors only -/
theorem C14_v1_finish_lib (eff : MetaCfg) (ci : ClassInfo) (kvs : List (S × JVal)) (kw : List (S × PyVal)) (found : Nat)
    (e : LErr) (h : v1Finish eff ci kvs kw found = .error e) : isLib e = true := by
  simp only [v1Finish] at h
  split at h
  · simp at h; subst h; rfl
  · exact finishKw_lib _ _ _ h

/-- a main class bound to the v1 engine: every failing `fromdict` ends in a library error -/
theorem C14_v1_fromdict_lib (std : Std) (ci : ClassInfo) (ftys : List (S × Ty)) (o : JVal) (e : LErr)
    (h : fromdictV1 std (.cls ci ftys) o = .error e) : isLib e = true := by
  simp only [fromdictV1] at h
  exact C14_lib_only _ _ _ _ _ h

/-- ... and so does every nested dataclass, under whatever Meta the cascade gives it -/
theorem C14_v1_nested_lib (std : Std) (cfg : Option MetaCfg) (ci : ClassInfo) (ftys : List (S × Ty)) (o : JVal) (e : LErr)
    (h : loadV1 std cfg (.cls ci ftys) o = .error e) : isLib e = true := by
  simp only [loadV1] at h
  exact C14_lib_only _ _ _ _ _ h

/-- innermost attribution survives any number of enclosing classes: once an inner class has named (class, field), the
handlers of the enclosing classes leave both untouched — for a ParseError as for a MissingData -/
theorem C14_v1_innermost_kept (c1 f1 c2 f2 : S) (x : S) (n : S) :
    v1SetAttr c2 f2 (v1SetAttr c1 f1 (.raw x)) = .parse (some c1) (some f1) ∧
    v1SetAttr c2 f2 (v1SetAttr c1 f1 (.parse none none)) = .parse (some c1) (some f1) ∧
    v1SetAttr c2 f2 (v1SetAttr c1 f1 (.missingData none none n)) = .missingData (some c1) (some f1) n := ⟨rfl, rfl, rfl⟩

/-- MissingFields and UnknownKeysError of an inner class pass through the enclosing handlers unchanged: they keep naming
the inner class -/
theorem C14_v1_inner_errors_pass (c f : S) (c' : S) (ms ks : List S) :
    v1SetAttr c f (.missingFields c' ms) = .missingFields c' ms ∧
    v1SetAttr c f (.unknownKeys c' ks) = .unknownKeys c' ks := ⟨rfl, rfl⟩

/-! ### where an error comes from (v1): the field named is the field whose loader failed, the class named is the class being built -/

/-- a failure of the generated field loop is the failure of *one* field's loader: a constructor field whose key is in the
document, on the value found under that key, re-attributed by the handler of this class -/
theorem v1Fields_origin (fl : S → JVal → LRes) (eff : MetaCfg) (ci : ClassInfo) (kvs : List (S × JVal)) :
    ∀ (fs : List FieldInfo) (e : LErr), v1Fields fl eff ci kvs fs = .error e →
    ∃ fi ∈ fs, fi.init = true ∧ fi.isCatchAll = false ∧ ∃ v e0, lookupFirst kvs (v1Keys eff fi) = some v ∧
      fl fi.name v = .error e0 ∧ e = v1SetAttr ci.name fi.name e0
  | [], e, h => by simp [v1Fields, pure, Except.pure] at h
  | fi :: r, e, h => by
    simp only [v1Fields] at h
    split at h
    · obtain ⟨g, hg, rest⟩ := v1Fields_origin fl eff ci kvs r e h
      exact ⟨g, by simp [hg], rest⟩
    · next hinit =>
      split at h
      · obtain ⟨g, hg, rest⟩ := v1Fields_origin fl eff ci kvs r e h
        exact ⟨g, by simp [hg], rest⟩
      · next v hv =>
        cases hfl : fl fi.name v with
        | error e0 =>
          simp [hfl, Except.mapError, bind, Except.bind] at h
          subst h
          have hi : fi.init = true ∧ fi.isCatchAll = false := by
            cases h1 : fi.init <;> cases h2 : fi.isCatchAll <;> simp_all
          exact ⟨fi, by simp, hi.1, hi.2, v, e0, hv, hfl, rfl⟩
        | ok y =>
          simp only [hfl, Except.mapError, bind, Except.bind] at h
          cases hr : v1Fields fl eff ci kvs r with
          | error e' =>
            simp [hr] at h; subst h
            obtain ⟨g, hg, rest⟩ := v1Fields_origin fl eff ci kvs r e' hr
            exact ⟨g, by simp [hg], rest⟩
          | ok rr => simp [hr, pure, Except.pure] at h

/-- the class an error of this class's own last step speaks of -/
def ownError (c : S) : LErr → Prop
  | .unknownKeys c' _ => c' = c
  | .missingFields c' _ => c' = c
  | .unsupported _ => True      -- (outside the model; the harness skips such cases)
  | _ => False

theorem buildFields_err (kw : List (S × PyVal)) : ∀ (fs : List FieldInfo) (e : LErr),
    buildFields kw fs = .error e → ∃ w, e = .unsupported w
  | [], e, h => by simp [buildFields, pure, Except.pure] at h
  | f :: r, e, h => by
    simp only [buildFields] at h
    split at h
    · cases hr : buildFields kw r with
      | error e2 => simp [hr, bind, Except.bind] at h; subst h; exact buildFields_err kw r _ hr
      | ok rr => simp [hr, bind, Except.bind, pure, Except.pure] at h
    · cases hr : buildFields kw r with
      | error e2 => simp [hr, bind, Except.bind] at h; subst h; exact buildFields_err kw r _ hr
      | ok rr => simp [hr, bind, Except.bind, pure, Except.pure] at h
    · split at h
      · cases hr : buildFields kw r with
        | error e2 => simp [hr, bind, Except.bind] at h; subst h; exact buildFields_err kw r _ hr
        | ok rr => simp [hr, bind, Except.bind, pure, Except.pure] at h
      · simp at h; subst h; exact ⟨_, rfl⟩

theorem finishKw_own (ci : ClassInfo) (kw : List (S × PyVal)) (e : LErr) (h : finishKw ci kw = .error e) :
    ownError ci.name e := by
  simp only [finishKw] at h
  split at h
  · cases hb : buildFields kw ci.fields with
    | error e2 =>
      simp [hb, bind, Except.bind] at h; subst h
      obtain ⟨w, rfl⟩ := buildFields_err _ _ _ hb
      simp [ownError]
    | ok fs => simp [hb, bind, Except.bind, pure, Except.pure] at h
  · simp at h; subst h; simp [ownError]

theorem v1Finish_own (eff : MetaCfg) (ci : ClassInfo) (kvs : List (S × JVal)) (kw : List (S × PyVal)) (found : Nat)
    (e : LErr) (h : v1Finish eff ci kvs kw found = .error e) : ownError ci.name e := by
  simp only [v1Finish] at h
  split at h
  · simp at h; subst h; simp [ownError]
  · exact finishKw_own _ _ _ h

/-- **C14 (v1, attribution at the level of documents).** A failing load of a dict document by the function generated for
class `ci` — any field loaders, any Meta — is exactly one of two things. (1) The loader of one constructor field `fi` of
`ci`, applied to the value found in the document under `fi`'s first present key, failed with some `e0`, and the error is
`e0` re-attributed by `ci`'s handler: `(ci, fi)` when `e0` names nothing yet (a bare exception, or a ParseError /
MissingData without class and field — `C14_v1_innermost_kept`), the inner class and field when a nested dataclass already
named them, and unchanged when it is an inner MissingFields / UnknownKeysError (`C14_v1_inner_errors_pass`). (2) Every
field loaded and the last step of `ci` failed: an UnknownKeysError or MissingFields naming `ci` itself. So the class named
is always the innermost dataclass being built and the field named is the one holding the value that did not convert. -/
theorem C14_v1_error_origin (fl : S → JVal → LRes) (eff : MetaCfg) (ci : ClassInfo) (kvs : List (S × JVal)) (e : LErr)
    (h : v1ClassWith fl eff ci (.dict kvs) = .error e) :
    (∃ fi ∈ ci.fields, fi.init = true ∧ fi.isCatchAll = false ∧ ∃ v e0, lookupFirst kvs (v1Keys eff fi) = some v ∧
        fl fi.name v = .error e0 ∧ e = v1SetAttr ci.name fi.name e0) ∨
    ownError ci.name e := by
  simp only [v1ClassWith] at h
  cases hf : v1Fields fl eff ci kvs ci.fields with
  | error e' =>
    simp [hf, bind, Except.bind] at h
    subst h
    exact Or.inl (v1Fields_origin fl eff ci kvs ci.fields e' hf)
  | ok res =>
    obtain ⟨kw, found⟩ := res
    simp only [hf, bind, Except.bind] at h
    exact Or.inr (v1Finish_own eff ci kvs kw found e h)

/-- what the handler makes of the inner failure, case by case (the second half of `C14_v1_error_origin`'s reading) -/
theorem C14_v1_reattribution (c f : S) :
    (∀ x, v1SetAttr c f (.raw x) = .parse (some c) (some f)) ∧
    v1SetAttr c f (.parse none none) = .parse (some c) (some f) ∧
    (∀ c' f', v1SetAttr c f (.parse (some c') (some f')) = .parse (some c') (some f')) ∧
    (∀ c' ms, v1SetAttr c f (.missingFields c' ms) = .missingFields c' ms) ∧
    (∀ c' ks, v1SetAttr c f (.unknownKeys c' ks) = .unknownKeys c' ks) :=
  ⟨fun _ => rfl, rfl, fun _ _ => rfl, fun _ _ => rfl, fun _ _ => rfl⟩

/-- the first alternative occurs: `class A: x: int` on `{'x': 'junk'}` with a field loader that raises ValueError fails
with ParseError(class A, field x) -/
theorem C14_v1_error_origin_example :
    v1ClassWith (fun _ _ => rawE "ValueError") {} { name := "A".toList, fields := [{ name := "x".toList }] }
      (.dict [("x".toList, .str "junk".toList)]) = .error (.parse (some "A".toList) (some "x".toList)) := by rfl

end DW.Props.C14
