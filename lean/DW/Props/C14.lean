/-
C14 — v1 load failures are library errors that render and name the class and field.
-/
import DW.Generated.Tables
import DW.Model.LoadV1

namespace DW.Props.C14
open DW

/-- the error lattice in the source: every error class the loaders raise derives from JSONWizardError, and
MissingData is a ParseError (regenerated from errors.py on every run) -/
theorem C14_error_lattice :
    Generated.errorLattice =
      [("JSONWizardError", "JSONWizardError"), ("ParseError", "ParseError JSONWizardError"),
       ("MissingFields", "MissingFields JSONWizardError"), ("MissingData", "MissingData ParseError JSONWizardError"),
       ("UnknownKeysError", "UnknownKeysError JSONWizardError"), ("RecursiveClassError", "RecursiveClassError JSONWizardError"),
       ("InvalidConditionError", "InvalidConditionError JSONWizardError"), ("MissingVars", "MissingVars JSONWizardError"),
       ("ExtraData", "ExtraData JSONWizardError")] := by decide

/-- an error is a library error: not a bare Python exception -/
def isLib : LErr → Bool
  | .raw _ => false
  | .unsupported _ => true      -- (outside the model; the harness skips such cases)
  | _ => true

theorem v1SetAttr_isLib (c f : S) (e : LErr) : isLib (v1SetAttr c f e) = true := by
  cases e <;> simp [v1SetAttr, isLib]

/-- the field loop of the generated class function converts *every* failure of a field loader — whatever it is —
into a library error -/
theorem v1Fields_lib (fl : S → JVal → LRes) (eff : MetaCfg) (ci : ClassInfo) (kvs : List (S × JVal))
    (fs : List FieldInfo) (e : LErr) (h : v1Fields fl eff ci kvs fs = .error e) : isLib e = true := by
  induction fs with
  | nil => simp [v1Fields, pure, Except.pure] at h
  | cons fi r ih =>
    simp only [v1Fields] at h
    split at h
    · exact ih h
    · split at h
      · exact ih h
      · rename_i v hv
        cases hf : (fl fi.name v).mapError (v1SetAttr ci.name fi.name) with
        | error e' =>
          simp [hf, bind, Except.bind] at h
          subst h
          cases hfl : fl fi.name v with
          | ok y => simp [hfl, Except.mapError] at hf
          | error e0 =>
            simp [hfl, Except.mapError] at hf
            subst hf
            exact v1SetAttr_isLib _ _ _
        | ok y =>
          simp [hf, bind, Except.bind] at h
          cases hr : v1Fields fl eff ci kvs r with
          | error e' => simp [hr] at h; subst h; exact ih hr
          | ok rr => simp [hr, pure, Except.pure] at h

theorem buildFields_lib (kw : List (S × PyVal)) (fs : List FieldInfo) (e : LErr)
    (h : buildFields kw fs = .error e) : isLib e = true := by
  induction fs with
  | nil => simp [buildFields, pure, Except.pure] at h
  | cons f r ih =>
    simp only [buildFields] at h
    split at h
    · cases hr : buildFields kw r with
      | error e2 => simp [hr, bind, Except.bind] at h; subst h; exact ih hr
      | ok rr => simp [hr, bind, Except.bind, pure, Except.pure] at h
    · cases hr : buildFields kw r with
      | error e2 => simp [hr, bind, Except.bind] at h; subst h; exact ih hr
      | ok rr => simp [hr, bind, Except.bind, pure, Except.pure] at h
    · split at h
      · cases hr : buildFields kw r with
        | error e2 => simp [hr, bind, Except.bind] at h; subst h; exact ih hr
        | ok rr => simp [hr, bind, Except.bind, pure, Except.pure] at h
      · simp at h; subst h; rfl

theorem finishClass_lib (ci : ClassInfo) (kw : List (S × PyVal)) (ca : List (PyVal × PyVal)) (o : JVal) (e : LErr)
    (h : finishClass ci kw ca o = .error e) : isLib e = true := by
  simp only [finishClass] at h
  split at h
  · cases hb : buildFields (withCatchAll ci kw ca) ci.fields with
    | error e2 => simp [hb, bind, Except.bind] at h; subst h; exact buildFields_lib _ _ _ hb
    | ok fs => simp [hb, bind, Except.bind, pure, Except.pure] at h
  · simp at h; subst h; rfl

theorem finishKw_lib (ci : ClassInfo) (kw : List (S × PyVal)) (e : LErr)
    (h : finishKw ci kw = .error e) : isLib e = true := by
  simp only [finishKw] at h
  split at h
  · cases hb : buildFields kw ci.fields with
    | error e2 => simp [hb, bind, Except.bind] at h; subst h; exact buildFields_lib _ _ _ hb
    | ok fs => simp [hb, bind, Except.bind, pure, Except.pure] at h
  · simp at h; subst h; rfl

/-- C14, v1 engine: *every* failing load of a class — any JSON input, any field loaders — ends in a library
error (ParseError, MissingData, MissingFields, UnknownKeysError), never a bare exception. -/
theorem C14_lib_only (fl : S → JVal → LRes) (eff : MetaCfg) (ci : ClassInfo) (o : JVal) (e : LErr)
    (h : v1ClassWith fl eff ci o = .error e) : isLib e = true := by
  cases o with
  | null => simp [v1ClassWith] at h; subst h; rfl
  | dict kvs =>
    simp only [v1ClassWith] at h
    cases hf : v1Fields fl eff ci kvs ci.fields with
    | error e' =>
      simp [hf, bind, Except.bind] at h
      subst h
      exact v1Fields_lib fl eff ci kvs ci.fields e' hf
    | ok res =>
      obtain ⟨kw, found⟩ := res
      simp only [hf, bind, Except.bind, v1Finish] at h
      split at h
      · simp at h; subst h; rfl
      · exact finishKw_lib _ _ _ h
  | bool b => simp [v1ClassWith] at h; subst h; rfl
  | int i => simp [v1ClassWith] at h; subst h; rfl
  | float f => simp [v1ClassWith] at h; subst h; rfl
  | str s => simp [v1ClassWith] at h; subst h; rfl
  | list xs => simp [v1ClassWith] at h; subst h; rfl

/-- attribution: a failure converting the value of field `f` of class `c` is reported as (c, f) unless a nested
loader already named an inner class / field (innermost wins) -/
theorem C14_attribution_innermost (c f : S) (ic : Option S) (ifd : Option S) :
    v1SetAttr c f (.parse ic ifd) = .parse (ic <|> some c) (ifd <|> some f) ∧
    v1SetAttr c f (.raw "ValueError".toList) = .parse (some c) (some f) := ⟨rfl, rfl⟩

/-! ### v1 stream (unknown-key policies, catch-all, tags, nesting) -/

/-- whatever the unknown-key policy, catch-all field and tag of the class: the step after the field loop (UnknownKeysError
under RAISE, catch-all capture, `cls(...)` and its MissingFields conversion) fails with library errors only -/
theorem C14_v1_finish_lib (eff : MetaCfg) (ci : ClassInfo) (kvs : List (S × JVal)) (kw : List (S × PyVal)) (found : Nat)
    (e : LErr) (h : v1Finish eff ci kvs kw found = .error e) : isLib e = true := by
  simp only [v1Finish] at h
  split at h
  · simp at h; subst h; rfl
  · exact finishKw_lib _ _ _ h

/-- a main class bound to the v1 engine: every failing `fromdict` ends in a library error -/
theorem C14_v1_fromdict_lib (std : Std) (ci : ClassInfo) (ftys : List (S × Ty)) (o : JVal) (e : LErr)
    (h : fromdictV1 std (.cls ci ftys) o = .error e) : isLib e = true := by
  simp only [fromdictV1] at h
  exact C14_lib_only _ _ _ _ _ h

/-- ... and so does every nested dataclass, under whatever Meta the cascade gives it -/
theorem C14_v1_nested_lib (std : Std) (cfg : Option MetaCfg) (ci : ClassInfo) (ftys : List (S × Ty)) (o : JVal) (e : LErr)
    (h : loadV1 std cfg (.cls ci ftys) o = .error e) : isLib e = true := by
  simp only [loadV1] at h
  exact C14_lib_only _ _ _ _ _ h

/-- innermost attribution survives any number of enclosing classes: once an inner class has named (class, field), the
handlers of the enclosing classes leave both untouched — for a ParseError as for a MissingData -/
theorem C14_v1_innermost_kept (c1 f1 c2 f2 : S) (x : S) (n : S) :
    v1SetAttr c2 f2 (v1SetAttr c1 f1 (.raw x)) = .parse (some c1) (some f1) ∧
    v1SetAttr c2 f2 (v1SetAttr c1 f1 (.parse none none)) = .parse (some c1) (some f1) ∧
    v1SetAttr c2 f2 (v1SetAttr c1 f1 (.missingData none none n)) = .missingData (some c1) (some f1) n := ⟨rfl, rfl, rfl⟩

/-- MissingFields and UnknownKeysError of an inner class pass through the enclosing handlers unchanged: they keep naming
the inner class -/
theorem C14_v1_inner_errors_pass (c f : S) (c' : S) (ms ks : List S) :
    v1SetAttr c f (.missingFields c' ms) = .missingFields c' ms ∧
    v1SetAttr c f (.unknownKeys c' ks) = .unknownKeys c' ks := ⟨rfl, rfl⟩

end DW.Props.C14
