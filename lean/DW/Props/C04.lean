/-
C04 — loading applies the documented coercions, and only those: default engine, v1 engine (`C04_v1_*`)
and EnvWizard (`C04_env_*`).
-/
import DW.Generated.Tables
import DW.Model.Load
import DW.Model.LoadV1
import DW.Model.EnvLoad
import DW.Lemmas.C04

namespace DW.Props.C04
open DW

/-- The truthy table in the source is exactly the documented set {true, t, yes, y, on, 1}. -/
theorem C04_truthy_table : Generated.truthyValues = ["1", "on", "t", "true", "y", "yes"] := by decide

/-- `bool` from a string: case-insensitive membership in the truthy table, nothing else. -/
theorem C04_bool_of_str (s : S) :
    asBool (.str s) = Generated.truthyValues.contains (String.ofList (Str.lowerS s)) := rfl

/-- `bool` from a number: `== 1`. -/
theorem C04_bool_of_int (i : Int) : asBool (.int i) = (i == 1) := rfl
theorem C04_bool_of_float (f : PyFloat) : asBool (.float f) = f.eqOne := rfl
theorem C04_bool_of_bool (b : Bool) : asBool (.bool b) = b := rfl

/-- `int`: a bool is rejected (TypeError), never coerced. -/
theorem C04_int_rejects_bool (std : Std) (b : Bool) : asInt std (.bool b) = .error (.raw "TypeError".toList) := rfl

/-- `int`: `''` and `None` give 0; an int is returned unchanged. -/
theorem C04_int_empty (std : Std) : asInt std (.str []) = .ok (.int 0) ∧ asInt std .null = .ok (.int 0) := ⟨rfl, rfl⟩
theorem C04_int_identity (std : Std) (i : Int) : asInt std (.int i) = .ok (.int i) := rfl

/-- `int` from a finite float is `round()`: round-half-even of the exact value. -/
theorem C04_int_of_float (std : Std) (neg : Bool) (m : Nat) (e : Int) (r : S) :
    asInt std (.float (.fin neg m e r)) = .ok (.int (PyFloat.sign neg (PyFloat.finRoundHalfEven m e))) := rfl

/-- round-half-even really is the nearest integer, ties to even: with `d = 10^k` and `x = m / d`,
the result `q` satisfies `|m - q·d| ≤ d/2`, and on an exact tie `q` is even. -/
theorem C04_round_half_even_spec (m k : Nat) :
    let d := 10 ^ (k + 1)
    let q := PyFloat.finRoundHalfEven m (Int.negSucc k)
    (2 * (m - q * d) ≤ d ∧ 2 * (q * d - m) ≤ d) ∧ ((2 * (m - q * d) = d ∨ 2 * (q * d - m) = d) → q % 2 = 0) := by
  intro d q
  have hd : 0 < d := Nat.pow_pos (by decide)
  have hq : q = (if 2 * (m % d) < d then m / d else if 2 * (m % d) > d then m / d + 1
                  else if (m / d) % 2 = 0 then m / d else m / d + 1) := by
    simp only [q, PyFloat.finRoundHalfEven, d]
    have : ¬ (Int.negSucc k ≥ 0) := by simp
    simp [this, Int.natAbs_negSucc]
  have hdm := Nat.div_add_mod m d
  have hlt := Nat.mod_lt m hd
  generalize hA : m / d = a at *
  generalize hB : m % d = b at *
  have hm : m = d * a + b := hdm.symm
  rw [hq]
  split
  · have : a * d = d * a := Nat.mul_comm _ _
    constructor
    · constructor <;> omega
    · intro h; omega
  · split
    · have : (a + 1) * d = d * a + d := by rw [Nat.add_mul, Nat.mul_comm]; simp
      constructor
      · constructor <;> omega
      · intro h; omega
    · split
      · have : a * d = d * a := Nat.mul_comm _ _
        constructor
        · constructor <;> omega
        · intro _; assumption
      · have : (a + 1) * d = d * a + d := by rw [Nat.add_mul, Nat.mul_comm]; simp
        constructor
        · constructor <;> omega
        · intro _; omega

/-- `str`: `None` becomes `''`, a string is unchanged, an int becomes its decimal text. -/
theorem C04_str (i : Int) (s : S) :
    asStr .null = .ok (.str []) ∧ asStr (.str s) = .ok (.str s) ∧ asStr (.int i) = .ok (.str (intRepr i)) := ⟨rfl, rfl, rfl⟩

/-- datetime / time strings: a `Z` is first rewritten to `+00:00`, then `fromisoformat`. -/
theorem C04_datetime_of_str (std : Std) (s t : S) (h : std.datetimeFromIso (zToOffset s) = some t) :
    asDatetime std (.str s) = .ok (.leaf .datetime false t) := by
  simp [asDatetime, h, pure, Except.pure]

/-- epoch numbers for datetime are read in UTC (`fromtimestamp(o, tz=utc)`), never for a bool. -/
theorem C04_datetime_of_number (std : Std) (i : Int) (t : S) (h : std.datetimeFromTsUtc (.int i) = some t) :
    asDatetime std (.int i) = .ok (.leaf .datetime false t) := by
  simp [asDatetime, jNumExact?, h, pure, Except.pure]

theorem C04_datetime_rejects_bool (std : Std) (b : Bool) :
    asDatetime std (.bool b) = .error (.raw "TypeError".toList) := rfl

/-- Enum: lookup by value. -/
theorem C04_enum_by_value (name : S) (members : List (S × Lit)) (o : JVal) (m : S × Lit)
    (h : members.find? (fun m => jEqLit o m.2) = some m) :
    asEnum name members o = .ok (.enum name m.1 m.2) := by
  simp [asEnum, h, pure, Except.pure]

/-- The same coercion applies at every nesting depth: containers convert element-wise with the
element type's own loader (no context-dependent behaviour). -/
theorem C04_nesting_list (std : Std) (cfg : Option MetaCfg) (k : SeqKind) (t : Ty) (xs : List JVal) :
    loadD std cfg (.seq k t) (.list xs) = (mapME (fun x => loadD std cfg t x) xs) >>= mkSeq k := by
  simp [loadD, jIter]

theorem C04_nesting_optional (std : Std) (cfg : Option MetaCfg) (t : Ty) (o : JVal) (h : o.kind ≠ .null) :
    loadD std cfg (.optional t) o = loadD std cfg t o := by
  cases o <;> simp [loadD, JVal.kind] at h ⊢

/-! ## v1 engine -/

open DW.Lemmas.C04

/-- v1 `str`: `None` becomes `''` (the template `'' if v is None else str(v)`), a string is unchanged. -/
theorem C04_v1_str (std : Std) (cfg : Option MetaCfg) (s : S) :
    loadV1 std cfg .str .null = .ok (.str []) ∧ loadV1 std cfg .str (.str s) = .ok (.str s) := by
  simp [loadV1, v1Str, asStr, pure, Except.pure]

/-- v1 `bool` from a string: case-insensitive membership in the same truthy table as the default engine. -/
theorem C04_v1_bool_of_str (std : Std) (cfg : Option MetaCfg) (s : S) :
    loadV1 std cfg .bool (.str s) = .ok (.bool (Generated.truthyValues.contains (String.ofList (Str.lowerS s)))) := by
  simp [loadV1, v1Bool, isTruthyStr, pure, Except.pure]

/-- v1 `bool` from a number: `== 1`. -/
theorem C04_v1_bool_of_int (std : Std) (cfg : Option MetaCfg) (i : Int) :
    loadV1 std cfg .bool (.int i) = .ok (.bool (i == 1)) := by
  simp [loadV1, v1Bool, pure, Except.pure]

/-- v1 `int`: a float with a fractional part is rejected, an integral one is converted exactly
(README "What's New in v1.0": Float to Int Conversion Change). -/
theorem C04_v1_int_of_float (std : Std) (cfg : Option MetaCfg) (neg : Bool) (m : Nat) (e : Int) (r : S) :
    loadV1 std cfg .int (.float (.fin neg m e r)) =
      (if PyFloat.finIsInteger m e then .ok (.int (PyFloat.sign neg (PyFloat.finTrunc m e))) else .error (.parse none none)) := by
  simp only [loadV1, v1Int, PyFloat.isInteger, PyFloat.toInt, perr, pure, Except.pure]
  split <;> simp [*]

/-- v1 `int` from a float string (a string containing '.'): `float(s)` must be integral. -/
theorem C04_v1_int_of_float_str (std : Std) (cfg : Option MetaCfg) (s : S) (f : PyFloat)
    (hdot : s.contains '.' = true) (hf : std.floatOfStr s = some f) (hfrac : f.isInteger = false) :
    loadV1 std cfg .int (.str s) = .error (.parse none none) := by
  have hmem : '.' ∈ s := by simpa using hdot
  simp [loadV1, v1Int, hmem, hf, hfrac, perr]

/-- v1 `int`: `None`, `''` and a bool are rejected (not coerced to 0 / 1). -/
theorem C04_v1_int_rejects (std : Std) (cfg : Option MetaCfg) (b : Bool) :
    loadV1 std cfg .int .null = .error (.parse none none) ∧
    loadV1 std cfg .int (.str []) = .error (.parse none none) ∧
    loadV1 std cfg .int (.bool b) = .error (.parse none none) := by
  refine ⟨?_, ?_, ?_⟩
  · simp [loadV1, v1Int, perr]
  · simp only [loadV1, v1Int, perr]
    have : ObjPath.pyIntOfStr [] = none := by decide
    simp [this]
  · simp [loadV1, v1Int, perr]

/-- v1 containers convert element-wise with the element type's own loader — for every element type. -/
theorem C04_v1_list_elementwise (std : Std) (cfg : Option MetaCfg) (k : SeqKind) (t : Ty) (xs : List JVal) :
    loadV1 std cfg (.seq k t) (.list xs) =
      (mapME (fun x => loadV1 std cfg t x) xs >>= fun ys => (mkSeq k ys).mapError v1Wrap) := by
  simp [loadV1, jIter]

theorem C04_v1_vtuple_elementwise (std : Std) (cfg : Option MetaCfg) (t : Ty) (xs : List JVal) :
    loadV1 std cfg (.vtuple t) (.list xs) = (mapME (fun x => loadV1 std cfg t x) xs >>= fun ys => pure (.tuple ys)) := by
  simp [loadV1, jIter]

theorem C04_v1_dict_elementwise (std : Std) (cfg : Option MetaCfg) (mk : MapKind) (kt vt : Ty) (kvs : List (S × JVal)) :
    loadV1 std cfg (.map mk kt vt) (.dict kvs) =
      (mapME (fun (kv : S × JVal) => do
          let k' ← loadV1 std cfg kt (.str kv.1)
          let v' ← loadV1 std cfg vt kv.2
          pure (k', v')) kvs >>= fun ps => (mkMap mk ps).mapError v1Wrap) := by
  simp [loadV1]

/-- a list loads to a list exactly when every element loads, position by position, with the *same* function
`loadV1 t` (induction over the value list through `mapME`). -/
theorem C04_v1_list_pointwise (std : Std) (cfg : Option MetaCfg) (t : Ty) (xs : List JVal) (ys : List PyVal) :
    loadV1 std cfg (.seq .list t) (.list xs) = .ok (.seq .list ys) ↔
      Pointwise (fun x y => loadV1 std cfg t x = .ok y) xs ys := by
  rw [C04_v1_list_elementwise, ← mapME_ok_iff]
  cases h : mapME (fun x => loadV1 std cfg t x) xs with
  | error e => simp [bind, Except.bind]
  | ok r => simp [bind, Except.bind, mkSeq, pure, Except.pure, Except.mapError]

/-- `Optional[T]` is transparent for every non-null value: the wrapped type's own loader runs
(no flag travels from the Optional into the positions below it). -/
theorem C04_v1_optional (std : Std) (cfg : Option MetaCfg) (t : Ty) (o : JVal) (h : o.kind ≠ .null) :
    loadV1 std cfg (.optional t) o = loadV1 std cfg t o := by
  cases o <;> simp [loadV1, JVal.kind] at h ⊢

/-- POSITION INDEPENDENCE (v1): through any stack of list / set / deque / variadic-tuple / dict-value / Optional
layers the value at the leaf is converted by `loadV1 t` — the same function as at the bare position — and the
result is only re-wrapped by the layers.  Induction over the context. -/
theorem C04_v1_nesting (std : Std) (cfg : Option MetaCfg) (t : Ty) (v : JVal) (ls : List Layer) (h : optOk ls v = true) :
    loadV1 std cfg (wrapTys ls t) (wrapDocs ls v) = liftsV1 ls (loadV1 std cfg t v) := by
  induction ls with
  | nil => rfl
  | cons l ls ih =>
    cases l with
    | seq k =>
      have := ih (by simpa [optOk] using h)
      simp only [wrapTys, wrapDocs, Layer.wrapTy, Layer.wrapDoc, liftsV1, Layer.liftV1]
      rw [C04_v1_list_elementwise, mapME_singleton, this]
      cases liftsV1 ls (loadV1 std cfg t v) <;> simp [bind, Except.bind, pure, Except.pure]
    | vtuple =>
      have := ih (by simpa [optOk] using h)
      simp only [wrapTys, wrapDocs, Layer.wrapTy, Layer.wrapDoc, liftsV1, Layer.liftV1]
      rw [C04_v1_vtuple_elementwise, mapME_singleton, this]
      cases liftsV1 ls (loadV1 std cfg t v) <;> simp [bind, Except.bind, pure, Except.pure]
    | mapVal mk key =>
      have := ih (by simpa [optOk] using h)
      simp only [wrapTys, wrapDocs, Layer.wrapTy, Layer.wrapDoc, liftsV1, Layer.liftV1]
      rw [C04_v1_dict_elementwise, mapME_singleton]
      simp only [this]
      have hk : loadV1 std cfg .str (.str key) = .ok (.str key) := (C04_v1_str std cfg key).2
      simp only [hk]
      cases liftsV1 ls (loadV1 std cfg t v) <;> simp [bind, Except.bind, pure, Except.pure]
    | opt =>
      simp only [optOk, Bool.and_eq_true, bne_iff_ne, ne_eq] at h
      have := ih h.2
      simp only [wrapTys, wrapDocs, Layer.wrapTy, Layer.wrapDoc, liftsV1, Layer.liftV1]
      rw [C04_v1_optional std cfg _ _ h.1, this]

/-- in particular: a `None` at a `str` position nested inside an `Optional[...]`-wrapped container loads as `''`,
exactly like at a `str` position outside it (`Optional[list[str]]`, `Optional[dict[str, str]]`,
`Optional[list[list[str]]]`, …: any stack whose innermost layer is a container). -/
theorem C04_v1_str_none_nested (std : Std) (cfg : Option MetaCfg) (ls : List Layer) (h : optOk ls .null = true) :
    loadV1 std cfg (wrapTys ls .str) (wrapDocs ls .null) = liftsV1 ls (.ok (.str [])) := by
  rw [C04_v1_nesting std cfg .str .null ls h, (C04_v1_str std cfg []).1]

/-- the instance the mutation demo uses: `Optional[List[str]]` with `[None, …]`. -/
theorem C04_v1_optional_list_str_none (std : Std) (cfg : Option MetaCfg) :
    loadV1 std cfg (.optional (.seq .list .str)) (.list [.null]) = .ok (.seq .list [.str []]) := by
  have := C04_v1_str_none_nested std cfg [.opt, .seq .list] (by decide)
  simpa [wrapTys, wrapDocs, Layer.wrapTy, Layer.wrapDoc, liftsV1, Layer.liftV1, mkSeq, bind, Except.bind, pure,
    Except.pure, Except.mapError] using this

/-- fixed-length tuple (v1): member `k` of the value is converted by the loader of member type `k` — the values
before position `k` play no role (induction over the member types). -/
theorem C04_v1_tuple_elementwise (std : Std) (cfg : Option MetaCfg) (ts : List Ty) (pre xs : List JVal)
    (h : xs.length = ts.length) :
    v1Tuple std cfg ts pre.length (.list (pre ++ xs)) =
      mapME (fun (p : Ty × JVal) => loadV1 std cfg p.1 p.2) (ts.zip xs) := by
  induction ts generalizing pre xs with
  | nil => simp [v1Tuple, mapME]
  | cons t ts ih =>
    cases xs with
    | nil => simp at h
    | cons x xs =>
      have hlen : xs.length = ts.length := by simpa using h
      have hidx : jIndex (.list (pre ++ x :: xs)) pre.length = some x := by simp [jIndex]
      have hrec := ih (pre ++ [x]) xs hlen
      simp only [List.length_append, List.length_singleton, List.append_assoc, List.singleton_append] at hrec
      simp only [v1Tuple, hidx, List.zip_cons_cons, mapME, hrec]

/-- `tuple[T1, T2]` (v1): each member by its own loader. -/
theorem C04_v1_tuple_pair (std : Std) (cfg : Option MetaCfg) (t1 t2 : Ty) (x1 x2 : JVal) :
    loadV1 std cfg (.tuple [t1, t2]) (.list [x1, x2]) =
      (do let y1 ← loadV1 std cfg t1 x1
          let y2 ← loadV1 std cfg t2 x2
          pure (.tuple [y1, y2])) := by
  have := C04_v1_tuple_elementwise std cfg [t1, t2] [] [x1, x2] rfl
  simp only [List.length_nil, List.nil_append] at this
  simp only [loadV1, List.isEmpty_cons, Bool.false_eq_true, if_false, this, List.zip_cons_cons, List.zip_nil_right, mapME]
  cases loadV1 std cfg t1 x1 <;> simp [bind, Except.bind, pure, Except.pure]
  cases loadV1 std cfg t2 x2 <;> simp

/-- TypedDict member (v1): the value under a required key is converted by that key's loader. -/
theorem C04_v1_typeddict_member (std : Std) (cfg : Option MetaCfg) (name k : S) (t : Ty) (v : JVal) :
    loadV1 std cfg (.typeddict name [(k, t, true)]) (.dict [(k, v)]) =
      (loadV1 std cfg t v >>= fun y => pure (.map .dict [(.str k, y)])) := by
  simp [loadV1, v1Td, bind, Except.bind, pure, Except.pure]
  cases loadV1 std cfg t v <;> simp

/-- NamedTuple member (v1): field `i` of the class is converted from element `i` by the field's loader. -/
theorem C04_v1_namedtuple_member (std : Std) (cfg : Option MetaCfg) (name a b : S) (t : Ty) (s : S) (v : JVal) (y : PyVal)
    (h : loadV1 std cfg t v = .ok y) :
    loadV1 std cfg (.ntuple name [(a, .str, none), (b, t, none)]) (.list [.str s, v]) = .ok (.ntuple name [a, b] [.str s, y]) := by
  simp [loadV1, jLen, v1NtSeq, jIndex, v1Str, asStr, h, bind, Except.bind, pure, Except.pure]

/-- … and a library error of the member's loader (ParseError, MissingFields, …) is the error of the whole. (A raw
IndexError — a nested fixed-length tuple that is too short — is caught by the NamedTuple loader itself and reported as
MissingFields: modelled in `v1NtSeq`, exercised by the C14 correspondence.) -/
theorem C04_v1_namedtuple_member_error (std : Std) (cfg : Option MetaCfg) (name a b : S) (t : Ty) (s : S) (v : JVal) (e : LErr)
    (h : loadV1 std cfg t v = .error e) (hr : ∀ k, e ≠ .raw k) :
    loadV1 std cfg (.ntuple name [(a, .str, none), (b, t, none)]) (.list [.str s, v]) = .error e := by
  cases e <;> simp_all [loadV1, jLen, v1NtSeq, jIndex, v1Str, asStr, bind, Except.bind, pure, Except.pure]

/-! ## EnvWizard (`EnvLoader`) -/

/-- `bool` from an environment string follows the truthy table (case-insensitive), like the default engine. -/
theorem C04_env_bool_of_str (std : Std) (js : S → Option JVal) (cfg : Option MetaCfg) (s : S) :
    loadE std js cfg .bool (.str s) = .ok (.bool (Generated.truthyValues.contains (String.ofList (Str.lowerS s)))) := by
  simp [loadE, asBool, isTruthyStr, pure, Except.pure]

/-- ORDER OF THE DECISION for `datetime`, for ALL strings: the numeric-form test comes first.  A string in numeric
form is an epoch timestamp (UTC) … -/
theorem C04_env_datetime_numeric (std : Std) (s : S) (h : looksNumeric s = true) :
    envDatetime std (.str s) =
      (match std.floatOfStr s with
       | none => .error (.raw "ValueError".toList)
       | some f => match std.datetimeFromTsUtc (.float f) with
         | some t => .ok (.leaf .datetime false t)
         | none => .error (.raw "OverflowError".toList)) := by
  simp only [envDatetime, h, if_true, rawE, pure, Except.pure]
  cases std.floatOfStr s with
  | none => rfl
  | some f => cases std.datetimeFromTsUtc (.float f) <;> rfl

/-- … whatever `fromisoformat` would make of it: the ISO parser is never consulted for a numeric string
(so `'20240101'` can never load as the compact ISO date 2024-01-01). -/
theorem C04_env_datetime_numeric_ignores_iso (std : Std) (iso : S → Option S) (s : S) (h : looksNumeric s = true) :
    envDatetime { std with datetimeFromIso := iso } (.str s) = envDatetime std (.str s) := by
  simp only [envDatetime, h, if_true]

/-- … and every other string goes to `fromisoformat` after the `Z` rewrite; the timestamp branch is never consulted. -/
theorem C04_env_datetime_iso (std : Std) (s : S) (h : looksNumeric s = false) :
    envDatetime std (.str s) =
      (match std.datetimeFromIso (zToOffset s) with
       | some t => .ok (.leaf .datetime false t)
       | none => .error (.raw "ValueError".toList)) := by
  simp only [envDatetime, h, rawE, pure, Except.pure]
  cases std.datetimeFromIso (zToOffset s) <;> rfl

/-- the same order for `date`. -/
theorem C04_env_date_numeric (std : Std) (s : S) (h : looksNumeric s = true) :
    envDate std (.str s) =
      (match std.floatOfStr s with
       | none => .error (.raw "ValueError".toList)
       | some f => match std.dateFromTs (.float f) with
         | some t => .ok (.leaf .date false t)
         | none => .error (.raw "OverflowError".toList)) := by
  simp only [envDate, h, if_true, rawE, pure, Except.pure]
  cases std.floatOfStr s with
  | none => rfl
  | some f => cases std.dateFromTs (.float f) <;> rfl

theorem C04_env_date_numeric_ignores_iso (std : Std) (iso : S → Option S) (s : S) (h : looksNumeric s = true) :
    envDate { std with dateFromIso := iso } (.str s) = envDate std (.str s) := by
  simp only [envDate, h, if_true]

theorem C04_env_date_iso (std : Std) (s : S) (h : looksNumeric s = false) :
    envDate std (.str s) =
      (match std.dateFromIso s with
       | some t => .ok (.leaf .date false t)
       | none => .error (.raw "ValueError".toList)) := by
  simp only [envDate, h, rawE, pure, Except.pure]
  cases std.dateFromIso s <;> rfl

/-- what "numeric form" is: a non-empty run of digits … -/
theorem C04_env_numeric_digits (s : S) (hne : s ≠ []) (hd : s.all Str.isDig = true) : looksNumeric s = true := by
  have := replaceFirst_dot_noDot s (noDot_of_allDigits s hd)
  simp [looksNumeric, this, hd, hne]

/-- … or digits with exactly one point somewhere (at least one digit overall) … -/
theorem C04_env_numeric_point (a b : S) (ha : a.all Str.isDig = true) (hb : b.all Str.isDig = true) (hne : a ++ b ≠ []) :
    looksNumeric (a ++ '.' :: b) = true := by
  have := replaceFirst_dot_at a b (noDot_of_allDigits a ha)
  simp only [looksNumeric, this]
  simp [List.all_append, ha, hb]
  simpa using hne

/-- … and nothing carrying a sign, an exponent or a blank. -/
theorem C04_env_numeric_rejects (c : Char) (a b : S) (hc : Str.isDig c = false) (hdot : c ≠ '.') :
    looksNumeric (a ++ c :: b) = false := by
  simp only [looksNumeric]
  have hmem : ∀ (s : S), c ∈ s → c ∈ replaceFirst ['.'] [] s := by
    intro s
    induction s with
    | nil => intro h; cases h
    | cons d r ih =>
      intro h
      by_cases hd : d = '.'
      · subst hd
        have : c ∈ r := by
          cases h with
          | head => exact absurd rfl hdot
          | tail _ h' => exact h'
        simpa [replaceFirst, List.isPrefixOf] using this
      · have hd' : ('.' == d) = false := by
          simp only [beq_eq_false_iff_ne, ne_eq]; exact fun e => hd e.symm
        simp only [replaceFirst, List.isPrefixOf, hd', Bool.false_and]
        cases h with
        | head => simp
        | tail _ h' => simp [ih h']
  have hin : c ∈ replaceFirst ['.'] [] (a ++ c :: b) := hmem _ (by simp)
  have : (replaceFirst ['.'] [] (a ++ c :: b)).all Str.isDig = false := by
    rw [Bool.eq_false_iff]
    intro hall
    have := (List.all_eq_true.1 hall) c hin
    simp [hc] at this
  simp [this]

/-- `'20240101'` is in numeric form, hence an epoch timestamp for every `Std` (whatever `fromisoformat` accepts). -/
theorem C04_env_compact_date_is_epoch (std : Std) (iso : S → Option S) :
    envDate { std with dateFromIso := iso } (.str "20240101".toList) = envDate std (.str "20240101".toList) ∧
    envDatetime { std with datetimeFromIso := iso } (.str "20240101".toList) = envDatetime std (.str "20240101".toList) :=
  ⟨C04_env_date_numeric_ignores_iso std iso _ (by decide), C04_env_datetime_numeric_ignores_iso std iso _ (by decide)⟩

/-- SPLITTING, shorthand form: a string that does not look like JSON is split on commas, every item is stripped,
and each item is converted by the element type's own loader (split, then element-wise coercion). -/
theorem C04_env_list_shorthand (std : Std) (js : S → Option JVal) (cfg : Option MetaCfg) (k : SeqKind) (t : Ty) (s : S)
    (h : looksJson '[' s = false) :
    loadE std js cfg (.seq k t) (.str s) =
      (mapME (fun x => loadE std js cfg t (.str x)) (commaItems s) >>= mkSeq k) := by
  simp [loadE, envAsList, h, jIter, mapME_map, bind, Except.bind, pure, Except.pure]

/-- JSON form: the parsed list is converted element-wise by the same loader. -/
theorem C04_env_list_json (std : Std) (js : S → Option JVal) (cfg : Option MetaCfg) (k : SeqKind) (t : Ty) (s : S)
    (xs : List JVal) (h : looksJson '[' s = true) (hj : js s = some (.list xs)) :
    loadE std js cfg (.seq k t) (.str s) = (mapME (fun x => loadE std js cfg t x) xs >>= mkSeq k) := by
  simp [loadE, envAsList, h, hj, jIter, bind, Except.bind, pure, Except.pure]

/-- an already parsed list (a value nested in a JSON form) is converted element-wise by the same loader. -/
theorem C04_env_list_elementwise (std : Std) (js : S → Option JVal) (cfg : Option MetaCfg) (k : SeqKind) (t : Ty)
    (xs : List JVal) :
    loadE std js cfg (.seq k t) (.list xs) = (mapME (fun x => loadE std js cfg t x) xs >>= mkSeq k) := by
  simp [loadE, envAsList, jIter, bind, Except.bind, pure, Except.pure]

theorem C04_env_dict_elementwise (std : Std) (js : S → Option JVal) (cfg : Option MetaCfg) (mk : MapKind) (kt vt : Ty)
    (kvs : List (S × JVal)) :
    loadE std js cfg (.map mk kt vt) (.dict kvs) =
      (mapME (fun (kv : S × JVal) => do
          let k' ← loadE std js cfg kt (.str kv.1)
          let v' ← loadE std js cfg vt kv.2
          pure (k', v')) kvs >>= mkMap mk) := by
  simp [loadE, envAsDict, bind, Except.bind, pure, Except.pure]

/-- joining comma-free items and splitting gives the items back (induction over the item list) … -/
theorem C04_env_split_join (items : List S) (hne : items ≠ []) (h : ∀ x ∈ items, ',' ∉ x) :
    splitOn ',' (joinSep ',' items) = items :=
  splitOn_joinSep ',' items hne h

/-- … and joining the pieces of ANY string gives the string back: splitting loses nothing. -/
theorem C04_env_join_split (s : S) : joinSep ',' (splitOn ',' s) = s := joinSep_splitOn ',' s

/-- hence: the comma-joined form of comma-free, already stripped items loads as the list of the items' own
conversions — the same function `loadE t` as at a bare field. -/
theorem C04_env_list_of_items (std : Std) (js : S → Option JVal) (cfg : Option MetaCfg) (t : Ty) (items : List S)
    (hne : items ≠ []) (hc : ∀ x ∈ items, ',' ∉ x) (hs : ∀ x ∈ items, pyStrip x = x)
    (hj : looksJson '[' (joinSep ',' items) = false) :
    loadE std js cfg (.seq .list t) (.str (joinSep ',' items)) =
      (mapME (fun x => loadE std js cfg t (.str x)) items >>= fun ys => pure (.seq .list ys)) := by
  rw [C04_env_list_shorthand std js cfg .list t _ hj]
  have : commaItems (joinSep ',' items) = items := by
    simp only [commaItems, splitOn_joinSep ',' items hne hc]
    have hmap : ∀ (l : List S), (∀ x ∈ l, pyStrip x = x) → l.map pyStrip = l := by
      intro l hl
      induction l with
      | nil => rfl
      | cons a r ih => simp [hl a (by simp), ih (fun x hx => hl x (by simp [hx]))]
    exact hmap items hs
  rw [this]
  cases mapME (fun x => loadE std js cfg t (.str x)) items <;> simp [bind, Except.bind, mkSeq]

/-- `k=v` shorthand: one pair without a comma loads as the one-entry dict of the stripped key and the stripped value,
each converted by its own loader. -/
theorem C04_env_dict_pair (std : Std) (js : S → Option JVal) (cfg : Option MetaCfg) (mk : MapKind) (kt vt : Ty) (k v : S)
    (hk : '=' ∉ k) (hc : ',' ∉ k ++ '=' :: v) (hj : looksJson '{' (k ++ '=' :: v) = false) :
    loadE std js cfg (.map mk kt vt) (.str (k ++ '=' :: v)) =
      (do let k' ← loadE std js cfg kt (.str (pyStrip k))
          let v' ← loadE std js cfg vt (.str (pyStrip v))
          mkMap mk [(k', v')]) := by
  have hsp := splitOn_noSep ',' _ hc
  have hp := partitionAt_append_sep '=' k v hk
  simp only [loadE, envAsDict, hj, hsp, kvPairs, hp, jDictOf, List.foldl, jDictInsert]
  simp [bind, Except.bind, pure, Except.pure, mapME]
  cases loadE std js cfg kt (.str (pyStrip k)) <;> simp
  cases loadE std js cfg vt (.str (pyStrip v)) <;> simp

theorem C04_env_optional (std : Std) (js : S → Option JVal) (cfg : Option MetaCfg) (t : Ty) (o : JVal) (h : o.kind ≠ .null) :
    loadE std js cfg (.optional t) o = loadE std js cfg t o := by
  cases o <;> simp [loadE, JVal.kind] at h ⊢

/-- POSITION INDEPENDENCE (EnvWizard, inside a JSON form): through any stack of list / set / dict-value / Optional
layers the leaf value is converted by `loadE t`, the function used for a bare field. -/
theorem C04_env_nesting (std : Std) (js : S → Option JVal) (cfg : Option MetaCfg) (t : Ty) (v : JVal) (ls : List Layer)
    (hv : ∀ l ∈ ls, match l with | .vtuple => False | _ => True) (h : optOk ls v = true) :
    loadE std js cfg (wrapTys ls t) (wrapDocs ls v) = liftsE ls (loadE std js cfg t v) := by
  induction ls with
  | nil => rfl
  | cons l ls ih =>
    have hv' : ∀ l ∈ ls, match l with | .vtuple => False | _ => True := fun a ha => hv a (by simp [ha])
    cases l with
    | seq k =>
      have := ih hv' (by simpa [optOk] using h)
      simp only [wrapTys, wrapDocs, Layer.wrapTy, Layer.wrapDoc, liftsE, Layer.liftE]
      rw [C04_env_list_elementwise, mapME_singleton, this]
      cases liftsE ls (loadE std js cfg t v) <;> simp [bind, Except.bind, pure, Except.pure]
    | vtuple => exact absurd (hv .vtuple (by simp)) (by simp)
    | mapVal mk key =>
      have := ih hv' (by simpa [optOk] using h)
      simp only [wrapTys, wrapDocs, Layer.wrapTy, Layer.wrapDoc, liftsE, Layer.liftE]
      rw [C04_env_dict_elementwise, mapME_singleton]
      simp only [this]
      have hk : loadE std js cfg .str (.str key) = .ok (.str key) := by simp [loadE, asStr, pure, Except.pure]
      simp only [hk]
      cases liftsE ls (loadE std js cfg t v) <;> simp [bind, Except.bind, pure, Except.pure]
    | opt =>
      simp only [optOk, Bool.and_eq_true, bne_iff_ne, ne_eq] at h
      have := ih hv' h.2
      simp only [wrapTys, wrapDocs, Layer.wrapTy, Layer.wrapDoc, liftsE, Layer.liftE]
      rw [C04_env_optional std js cfg _ _ h.1, this]

/-- WITNESS (defect in the unchanged code, key `env-tuple-length-of-unsplit-string`): `TupleParser.__call__` checks the
element count on the value it is handed — under EnvWizard the *unsplit* string — so `tuple[str, int]` does not load
the two items of `'a,5'` (3 characters ≠ 2 members), for any stdlib tables. -/
theorem C04_env_fixed_tuple_witness (std : Std) (js : S → Option JVal) (cfg : Option MetaCfg) :
    loadE std js cfg (.tuple [.str, .int]) (.str "a,5".toList) = .error (.parse none none) := by
  simp [loadE, jLen, acceptsNone, parserContains, JVal.kind, parseE]

/-- PARTIAL: when the string happens to have as many characters as the tuple has members, the items are converted
member by member (here: two members, no member accepting None). -/
theorem C04_env_fixed_tuple_partial (std : Std) (js : S → Option JVal) (cfg : Option MetaCfg) (t1 t2 : Ty) (s : S)
    (hlen : s.length = 2) (hj : looksJson '[' s = false)
    (h1 : acceptsNone t1 = false) (h2 : acceptsNone t2 = false) :
    loadE std js cfg (.tuple [t1, t2]) (.str s) =
      (loadZipE std js cfg [t1, t2] ((commaItems s).map JVal.str) >>= fun ys => pure (.tuple ys)) := by
  simp [loadE, jLen, hlen, h1, h2, envAsList, hj, jIter, bind, Except.bind, pure, Except.pure]

end DW.Props.C04
