/-
C04 — loading applies the documented coercions, and only those (default engine part).
-/
import DW.Generated.Tables
import DW.Model.Load

namespace DW.Props.C04
open DW

/-- The truthy table in the source is exactly the documented set {true, t, yes, y, on, 1}. -/
theorem C04_truthy_table : Generated.truthyValues = ["1", "on", "t", "true", "y", "yes"] := by decide

/-- `bool` from a string: case-insensitive membership in the truthy table, nothing else. -/
theorem C04_bool_of_str (s : S) :
    asBool (.str s) = Generated.truthyValues.contains (String.ofList (Str.lowerS s)) := rfl

/-- `bool` from a number: `== 1`. -/
theorem C04_bool_of_int (i : Int) : asBool (.int i) = (i == 1) := rfl
theorem C04_bool_of_float (f : PyFloat) : asBool (.float f) = f.eqOne := rfl
theorem C04_bool_of_bool (b : Bool) : asBool (.bool b) = b := rfl

/-- `int`: a bool is rejected (TypeError), never coerced. -/
theorem C04_int_rejects_bool (std : Std) (b : Bool) : asInt std (.bool b) = .error (.raw "TypeError".toList) := rfl

/-- `int`: `''` and `None` give 0; an int is returned unchanged. -/
theorem C04_int_empty (std : Std) : asInt std (.str []) = .ok (.int 0) ∧ asInt std .null = .ok (.int 0) := ⟨rfl, rfl⟩
theorem C04_int_identity (std : Std) (i : Int) : asInt std (.int i) = .ok (.int i) := rfl

/-- `int` from a finite float is `round()`: round-half-even of the exact value. -/
theorem C04_int_of_float (std : Std) (neg : Bool) (m : Nat) (e : Int) (r : S) :
    asInt std (.float (.fin neg m e r)) = .ok (.int (PyFloat.sign neg (PyFloat.finRoundHalfEven m e))) := rfl

/-- round-half-even really is the nearest integer, ties to even: with `d = 10^k` and `x = m / d`,
the result `q` satisfies `|m - q·d| ≤ d/2`, and on an exact tie `q` is even. -/
theorem C04_round_half_even_spec (m k : Nat) :
    let d := 10 ^ (k + 1)
    let q := PyFloat.finRoundHalfEven m (Int.negSucc k)
    (2 * (m - q * d) ≤ d ∧ 2 * (q * d - m) ≤ d) ∧ ((2 * (m - q * d) = d ∨ 2 * (q * d - m) = d) → q % 2 = 0) := by
  intro d q
  have hd : 0 < d := Nat.pow_pos (by decide)
  have hq : q = (if 2 * (m % d) < d then m / d else if 2 * (m % d) > d then m / d + 1
                  else if (m / d) % 2 = 0 then m / d else m / d + 1) := by
    simp only [q, PyFloat.finRoundHalfEven, d]
    have : ¬ (Int.negSucc k ≥ 0) := by simp
    simp [this, Int.natAbs_negSucc]
  have hdm := Nat.div_add_mod m d
  have hlt := Nat.mod_lt m hd
  generalize hA : m / d = a at *
  generalize hB : m % d = b at *
  have hm : m = d * a + b := hdm.symm
  rw [hq]
  split
  · have : a * d = d * a := Nat.mul_comm _ _
    constructor
    · constructor <;> omega
    · intro h; omega
  · split
    · have : (a + 1) * d = d * a + d := by rw [Nat.add_mul, Nat.mul_comm]; simp
      constructor
      · constructor <;> omega
      · intro h; omega
    · split
      · have : a * d = d * a := Nat.mul_comm _ _
        constructor
        · constructor <;> omega
        · intro _; assumption
      · have : (a + 1) * d = d * a + d := by rw [Nat.add_mul, Nat.mul_comm]; simp
        constructor
        · constructor <;> omega
        · intro _; omega

/-- `str`: `None` becomes `''`, a string is unchanged, an int becomes its decimal text. -/
theorem C04_str (i : Int) (s : S) :
    asStr .null = .ok (.str []) ∧ asStr (.str s) = .ok (.str s) ∧ asStr (.int i) = .ok (.str (intRepr i)) := ⟨rfl, rfl, rfl⟩

/-- datetime / time strings: a `Z` is first rewritten to `+00:00`, then `fromisoformat`. -/
theorem C04_datetime_of_str (std : Std) (s t : S) (h : std.datetimeFromIso (zToOffset s) = some t) :
    asDatetime std (.str s) = .ok (.leaf .datetime false t) := by
  simp [asDatetime, h, pure, Except.pure]

/-- epoch numbers for datetime are read in UTC (`fromtimestamp(o, tz=utc)`), never for a bool. -/
theorem C04_datetime_of_number (std : Std) (i : Int) (t : S) (h : std.datetimeFromTsUtc (.int i) = some t) :
    asDatetime std (.int i) = .ok (.leaf .datetime false t) := by
  simp [asDatetime, jNumExact?, h, pure, Except.pure]

theorem C04_datetime_rejects_bool (std : Std) (b : Bool) :
    asDatetime std (.bool b) = .error (.raw "TypeError".toList) := rfl

/-- Enum: lookup by value. -/
theorem C04_enum_by_value (name : S) (members : List (S × Lit)) (o : JVal) (m : S × Lit)
    (h : members.find? (fun m => jEqLit o m.2) = some m) :
    asEnum name members o = .ok (.enum name m.1 m.2) := by
  simp [asEnum, h, pure, Except.pure]

/-- The same coercion applies at every nesting depth: containers convert element-wise with the
element type's own loader (no context-dependent behaviour). -/
theorem C04_nesting_list (std : Std) (cfg : Option MetaCfg) (k : SeqKind) (t : Ty) (xs : List JVal) :
    loadD std cfg (.seq k t) (.list xs) = (mapME (fun x => loadD std cfg t x) xs) >>= mkSeq k := by
  simp [loadD, jIter]

theorem C04_nesting_optional (std : Std) (cfg : Option MetaCfg) (t : Ty) (o : JVal) (h : o.kind ≠ .null) :
    loadD std cfg (.optional t) o = loadD std cfg t o := by
  cases o <;> simp [loadD, JVal.kind] at h ⊢

end DW.Props.C04
