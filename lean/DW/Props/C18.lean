/-
C18 — EnvWizard resolves fields by the documented precedence; os.environ stays untouched.
Property theorems only; the model is DW/Model/C18.lean (`DW.Env`), helper lemmas and the definitions used in
the statements (`Reach`, `Reachable`, `CleanInj`, `FieldOK`, witness data) are in DW/Lemmas/C18.lean.
-/
import DW.Generated.Tables
import DW.Model.C18
import DW.Lemmas.C18

namespace DW.Props.C18
open DW.Env DW.Str

/-- T5: the `LetterCasePriority` members of the source dispatch to the three lookup functions the model's `tiers`
transcribe (regenerated from /repo on every run). -/
theorem C18_priority_table :
    Generated.letterCasePriority =
      [("SCREAMING_SNAKE", "SCREAMING_SNAKE", "with_screaming_snake_case"), ("SNAKE", "SNAKE", "with_snake_case"),
       ("CAMEL", "CAMEL", "with_pascal_or_camel_case"), ("PASCAL", "PASCAL", "with_pascal_or_camel_case")] := by decide

/-- No operation of the library writes the process environment: a step changes `os` only when it IS the user's own
`os.environ[k] = v` / `os.environ.pop(k)` (by cases on the step function; every quirk setting). -/
theorem C18_os_environ_untouched (q : Quirks) (w : World) (op : Op) :
    (step q w op).1.os = match op with
      | .setOs k v => dset k v w.os
      | .delOs k => ddel k w.os
      | _ => w.os := by
  cases op <;> rfl

/-- Along a whole history the process environment is what the user's own edits make it. -/
theorem C18_os_environ_history (q : Quirks) (ops : List Op) :
    ∀ w : World, (run q w ops).os = ops.foldl (fun os op => match op with
      | .setOs k v => dset k v os
      | .delOs k => ddel k os
      | _ => os) w.os := by
  induction ops with
  | nil => intro w; rfl
  | cons op r ih =>
    intro w
    simp only [run, List.foldl_cons]
    rw [ih, C18_os_environ_untouched]

/-- C18, full strength, for the documented behaviour (`Quirks.clean`): in EVERY reachable state of the process-wide
cache — any history of environment edits, `Env.reload()` calls and instantiations of any classes with any overlays,
any set-iteration orders — instantiating with `_reload=True` conforms to `refResolve`: keyword argument, else first
present explicit name (prefixed), else the letter-case tiers then ANY variable with the same cleaned key, else the
default; MissingVars exactly when some field has no source; never a KeyError. -/
theorem C18_resolve {w : World} (hw : Reach Quirks.clean w) (c : ClassDef) (a : InstArgs) (hr : a.reload = true) :
    (instantiate Quirks.clean w.os c a w.env).1.meets (refResolve w.os c a) = true :=
  instantiate_meets (U := []) (fun h => by simp [Quirks.clean] at h) (hw.reachable rfl) c a hr
    (fun f _ => fieldOK_clean _ _ _ _ _ f)

/-- C18 for the code as it is, any quirk setting: the same conclusion under one decidable hypothesis per switched-on
quirk — F1 (stale cache): every variable name ever in play (environment, overlays) comes from a list `U` on which
`clean` is injective, i.e. two spellings of one cleaned key never meet; F2: no field has two or more explicit names
while a prefix is in force; F3: a field with an explicit mapping gets a keyword, or one of its names is present, or
the letter-case lookup would find nothing anyway (`FieldOK`). -/
theorem C18_resolve_partial {q : Quirks} {U : List S} {w : World}
    (hinj : q.staleCleaned = true → CleanInj U) (hw : Reachable q U w)
    (c : ClassDef) (a : InstArgs) (hr : a.reload = true)
    (hok : ∀ f ∈ c.fields, FieldOK q (refLookup w.os (effSecrets c a) (effDotenv c a))
      (refNames w.os (effSecrets c a) (effDotenv c a)) c.prio (effPrefix c a) a.kw f) :
    (instantiate q w.os c a w.env).1.meets (refResolve w.os c a) = true :=
  instantiate_meets hinj hw c a hr hok

/-- the hypotheses of the partial theorem are decidable and satisfiable: a name universe with one spelling per key,
and the witness field of F1 (no explicit mapping) is `FieldOK` under the shipped quirks -/
example : CleanInj ["MY_VAR".toList, "APP_HOST".toList, "other".toList] ∧ ¬ CleanInj ["MY_VAR".toList, "my_var".toList]
    ∧ FieldOK Quirks.shipped (fun n => dget n wOs) (keys wOs) .screamingSnake [] [] wField := by
  refine ⟨by decide, by decide, by decide⟩

/-- F1 witness (key `stale-cleaned-to-env-evicts-surviving-spelling`): `my_var` set, field `myVar`; instantiate; set
MY_VAR; instantiate; delete MY_VAR; instantiate with `_reload=True`: the shipped machine drops the cache entry with
MY_VAR, never re-adds the surviving `my_var`, and gives the default although `my_var` matches the third tier — the
documented machine finds it. -/
theorem C18_stale_cache_witness :
    (instantiate Quirks.shipped (run Quirks.shipped { os := wOs } wOps).os wClass wArgs
        (run Quirks.shipped { os := wOs } wOps).env).1 = .ok [("myVar".toList, .dflt)]
    ∧ refResolve (run Quirks.shipped { os := wOs } wOps).os wClass wArgs = [("myVar".toList, .oneOf ["lower".toList])]
    ∧ (instantiate Quirks.clean (run Quirks.clean { os := wOs } wOps).os wClass wArgs
        (run Quirks.clean { os := wOs } wOps).env).1 = .ok [("myVar".toList, .val "lower".toList)] := by
  refine ⟨by decide, by decide, by decide⟩

/-- F2 witness (key `explicit-multi-name-with-prefix`): prefix `P_`, explicit names (A, B), P_A and P_B set: the
shipped machine looks up the single bogus name `P_('A', 'B')` and falls to the default; the reference demands P_A. -/
theorem C18_multi_explicit_prefix_witness :
    (instantiate Quirks.shipped wOsMulti wClassMulti wArgs {}).1 = .ok [("x".toList, .dflt)]
    ∧ refResolve wOsMulti wClassMulti wArgs = [("x".toList, .oneOf ["pa".toList])]
    ∧ (instantiate Quirks.clean wOsMulti wClassMulti wArgs {}).1 = .ok [("x".toList, .val "pa".toList)] := by
  refine ⟨by decide, by decide, by decide⟩

/-- F3 witness (key `explicit-mapping-no-case-fallback`): field `a` mapped to the absent NOPE while A is set: the
shipped machine never tries the letter-case lookup; the statement's precedence reaches A. -/
theorem C18_explicit_no_fallback_witness :
    (instantiate Quirks.shipped wOsNoFall wClassNoFall wArgs {}).1 = .ok [("a".toList, .dflt)]
    ∧ refResolve wOsNoFall wClassNoFall wArgs = [("a".toList, .oneOf ["a".toList])]
    ∧ (instantiate Quirks.clean wOsNoFall wClassNoFall wArgs {}).1 = .ok [("a".toList, .val "a".toList)] := by
  refine ⟨by decide, by decide, by decide⟩

/-- Overlays: after the preparation phase of a `_reload=True` instantiation — from ANY prior state, any quirks — the
library's `environ` maps every name exactly as the reference does: dotenv files over secrets directories over the
process environment (`refLookup`), each stack resolved by `layersGet`. -/
theorem C18_overlay_order (q : Quirks) (os : Dict) (c : ClassDef) (a : InstArgs) (st : EnvSt) (hr : a.reload = true) :
    ∃ e, (prepare q os c a st).environ = some e ∧
      ∀ n, dget n e = (layersGet (effDotenv c a) n).or ((layersGet (effSecrets c a) n).or (dget n os)) := by
  obtain ⟨e, he, hl⟩ := prepare_environ q os c a st hr
  exact ⟨e, he, fun n => by rw [hl, refLookup_eq]⟩

/-- ... and within a stack a later file overrides an earlier one (and a later line of a file an earlier line). -/
theorem C18_later_file_wins (fs : List Dict) (f : Dict) (n : S) :
    layersGet (fs ++ [f]) n = (dgetLast n f).or (layersGet fs n) :=
  layersGet_append_singleton fs f n

/-- All missing fields at once: in every reachable state, if the reference leaves at least one field without a
source, the `_reload=True` instantiation raises MissingVars naming EXACTLY all such fields (in field order), and
otherwise it returns an instance. -/
theorem C18_missing_all_at_once {w : World} (hw : Reach Quirks.clean w) (c : ClassDef) (a : InstArgs)
    (hr : a.reload = true) :
    (refMissing (refResolve w.os c a) ≠ [] →
        (instantiate Quirks.clean w.os c a w.env).1 = .missing (refMissing (refResolve w.os c a)))
    ∧ (refMissing (refResolve w.os c a) = [] → ∃ rs, (instantiate Quirks.clean w.os c a w.env).1 = .ok rs) := by
  obtain ⟨h1, h2⟩ := outcome_meets_missing (C18_resolve hw c a hr)
  exact ⟨h1, fun h => let ⟨rs, e, _⟩ := h2 h; ⟨rs, e⟩⟩

/-- the same for the code as it is, under the hypotheses of `C18_resolve_partial` -/
theorem C18_missing_all_at_once_partial {q : Quirks} {U : List S} {w : World}
    (hinj : q.staleCleaned = true → CleanInj U) (hw : Reachable q U w)
    (c : ClassDef) (a : InstArgs) (hr : a.reload = true)
    (hok : ∀ f ∈ c.fields, FieldOK q (refLookup w.os (effSecrets c a) (effDotenv c a))
      (refNames w.os (effSecrets c a) (effDotenv c a)) c.prio (effPrefix c a) a.kw f) :
    refMissing (refResolve w.os c a) ≠ [] →
      (instantiate q w.os c a w.env).1 = .missing (refMissing (refResolve w.os c a)) :=
  (outcome_meets_missing (C18_resolve_partial hinj hw c a hr hok)).1

end DW.Props.C18
