/-
C09 — absent keys: defaults for optional fields, else one exact MissingFields error.
Theorems about `finishClass` (the `cls(**init_kwargs)` step of the generated loader): it is reached
with exactly the converted values of the keys present in the document.
-/
import DW.Model.Load

namespace DW.Props.C09
open DW

/-- the constructor fields without default that the document did not provide -/
def requiredMissing (ci : ClassInfo) (provided : List S) : List S :=
  (missingInit ci provided).map (·.name)

def noCatchAll (ci : ClassInfo) : Prop := ci.fields.find? (·.isCatchAll) = none

/-- If a required constructor field is absent, the outcome is MissingFields naming the class and *exactly*
the absent required constructor fields (in declaration order) — nothing else, for any document. -/
theorem C09_missing_exact (ci : ClassInfo) (kwargs : List (S × PyVal)) (o : JVal) (hc : noCatchAll ci)
    (hm : requiredMissing ci (kwargs.map (·.1)) ≠ []) :
    finishClass ci kwargs [] o = .error (.missingFields ci.name (requiredMissing ci (kwargs.map (·.1)))) := by
  unfold noCatchAll at hc
  unfold requiredMissing at hm ⊢
  simp only [finishClass, withCatchAll, hc]
  cases hL : missingInit ci (kwargs.map (·.1)) with
  | nil => simp [hL] at hm
  | cons a l => rfl

/-- init=False fields are never demanded: no name in a MissingFields list belongs to an init=False field. -/
theorem C09_init_false_never_demanded (ci : ClassInfo) (provided : List S) (n : S)
    (h : n ∈ requiredMissing ci provided) : ∃ f ∈ ci.fields, f.name = n ∧ f.init = true ∧ f.dflt = none := by
  unfold requiredMissing missingInit at h
  simp only [List.mem_map, List.mem_filter] at h
  obtain ⟨f, ⟨hf, hp⟩, rfl⟩ := h
  simp only [Bool.and_eq_true, Option.isNone_iff_eq_none] at hp
  exact ⟨f, hf, rfl, hp.1.1, hp.1.2⟩

/-- a field with a default is never reported missing -/
theorem C09_defaulted_never_missing (ci : ClassInfo) (provided : List S) (f : FieldInfo)
    (hd : f.dflt.isSome = true) (_hf : f ∈ ci.fields)
    (huniq : ∀ g ∈ ci.fields, g.name = f.name → g = f) : f.name ∉ requiredMissing ci provided := by
  intro h
  obtain ⟨g, hg, hn, _, hdn⟩ := C09_init_false_never_demanded ci provided f.name h
  have := huniq g hg hn
  subst this
  simp [hdn] at hd

/-- the per-field outcome of `cls(**init_kwargs)`: the last value supplied for the field if any,
else its declared default (a fresh product: `Dflt.toPy` builds a new value on every call). -/
def fieldValue (kwargs : List (S × PyVal)) (f : FieldInfo) : Option PyVal :=
  match (if f.init then kwargs.reverse.find? (fun p => p.1 == f.name) else none), f.dflt with
  | some p, _ => some p.2
  | none, some d => some d.toPy
  | none, none => f.postInit.map Lit.toPy

theorem build_spec (kwargs : List (S × PyVal)) (fs : List FieldInfo) (out : List (S × PyVal))
    (h : buildFields kwargs fs = .ok out) :
    out.map (·.1) = fs.map (·.name) ∧ ∀ p ∈ out, ∃ f ∈ fs, p.1 = f.name ∧ fieldValue kwargs f = some p.2 := by
  induction fs generalizing out with
  | nil =>
    simp [buildFields, pure, Except.pure] at h
    subst h; simp
  | cons f r ih =>
    simp only [buildFields] at h
    split at h
    · rename_i p _ hp
      cases hr : buildFields kwargs r with
      | error e => simp [hr, bind, Except.bind] at h
      | ok rest =>
        simp [hr, bind, Except.bind, pure, Except.pure] at h
        subst h
        obtain ⟨h1, h2⟩ := ih rest hr
        constructor
        · simp [h1]
        · intro q hq
          simp at hq
          rcases hq with rfl | hq
          · exact ⟨f, by simp, rfl, by simp [fieldValue, hp]⟩
          · obtain ⟨g, hg, hh⟩ := h2 q hq
            exact ⟨g, by simp [hg], hh⟩
    · rename_i d hp hd
      cases hr : buildFields kwargs r with
      | error e => simp [hr, bind, Except.bind] at h
      | ok rest =>
        simp [hr, bind, Except.bind, pure, Except.pure] at h
        subst h
        obtain ⟨h1, h2⟩ := ih rest hr
        constructor
        · simp [h1]
        · intro q hq
          simp at hq
          rcases hq with rfl | hq
          · exact ⟨f, by simp, rfl, by simp [fieldValue, hp, hd]⟩
          · obtain ⟨g, hg, hh⟩ := h2 q hq
            exact ⟨g, by simp [hg], hh⟩
    · rename_i hp hd
      split at h
      · rename_i l hl
        cases hr : buildFields kwargs r with
        | error e => simp [hr, bind, Except.bind] at h
        | ok rest =>
          simp [hr, bind, Except.bind, pure, Except.pure] at h
          subst h
          obtain ⟨h1, h2⟩ := ih rest hr
          constructor
          · simp [h1]
          · intro q hq
            simp at hq
            rcases hq with rfl | hq
            · exact ⟨f, by simp, rfl, by simp [fieldValue, hp, hd, hl]⟩
            · obtain ⟨g, hg, hh⟩ := h2 q hq
              exact ⟨g, by simp [hg], hh⟩
      · simp at h

/-- On success the instance has exactly the declared fields, in declaration order; every field present in
the document holds the (last) converted value, every omitted one its declared default. -/
theorem C09_success_fields (ci : ClassInfo) (kwargs : List (S × PyVal)) (o : JVal) (hc : noCatchAll ci)
    (ci' : ClassInfo) (out : List (S × PyVal)) (h : finishClass ci kwargs [] o = .ok (.inst ci' out)) :
    ci' = ci ∧ out.map (·.1) = ci.fields.map (·.name) ∧
      ∀ p ∈ out, ∃ f ∈ ci.fields, p.1 = f.name ∧ fieldValue kwargs f = some p.2 := by
  unfold noCatchAll at hc
  simp only [finishClass, withCatchAll, hc] at h
  split at h
  · cases hb : buildFields kwargs ci.fields with
    | error e => simp [hb, bind, Except.bind] at h
    | ok fs =>
      simp [hb, bind, Except.bind, pure, Except.pure] at h
      obtain ⟨h1, h2⟩ := h
      subst h1 h2
      exact ⟨rfl, build_spec kwargs ci.fields fs hb⟩
  · simp at h

/-- ... and loading succeeds only if no required constructor field is absent. -/
theorem C09_success_only_if_complete (ci : ClassInfo) (kwargs : List (S × PyVal)) (o : JVal) (hc : noCatchAll ci)
    (y : PyVal) (h : finishClass ci kwargs [] o = .ok y) : requiredMissing ci (kwargs.map (·.1)) = [] := by
  by_cases hm : requiredMissing ci (kwargs.map (·.1)) = []
  · exact hm
  · rw [C09_missing_exact ci kwargs o hc hm] at h
    simp at h

end DW.Props.C09
