/-
C09 — absent keys: defaults for optional fields, else one exact MissingFields error.
Theorems about `finishClass` (the `cls(**init_kwargs)` step of the generated loader): it is reached
with exactly the converted values of the keys present in the document.
-/
import DW.Model.Load
import DW.Model.LoadV1
import DW.Lemmas.V1
import DW.Lemmas.KeyLoop

namespace DW.Props.C09
open DW

/-- the constructor fields without default that the document did not provide -/
def requiredMissing (ci : ClassInfo) (provided : List S) : List S :=
  (missingInit ci provided).map (·.name)

def noCatchAll (ci : ClassInfo) : Prop := ci.fields.find? (·.isCatchAll) = none

/-- If a required constructor field is absent, the outcome is MissingFields naming the class and *exactly*
the absent required constructor fields (in declaration order) — nothing else, for any document. -/
theorem C09_missing_exact (ci : ClassInfo) (kwargs : List (S × PyVal)) (o : JVal) (hc : noCatchAll ci)
    (hm : requiredMissing ci (kwargs.map (·.1)) ≠ []) :
    finishClass ci kwargs [] o = .error (.missingFields ci.name (requiredMissing ci (kwargs.map (·.1)))) := by
  unfold noCatchAll at hc
  unfold requiredMissing at hm ⊢
  simp only [finishClass, withCatchAll, hc]
  cases hL : missingInit ci (kwargs.map (·.1)) with
  | nil => simp [hL] at hm
  | cons a l => rfl

/-- init=False fields are never demanded: no name in a MissingFields list belongs to an init=False field. -/
theorem C09_init_false_never_demanded (ci : ClassInfo) (provided : List S) (n : S)
    (h : n ∈ requiredMissing ci provided) : ∃ f ∈ ci.fields, f.name = n ∧ f.init = true ∧ f.dflt = none := by
  unfold requiredMissing missingInit at h
  simp only [List.mem_map, List.mem_filter] at h
  obtain ⟨f, ⟨hf, hp⟩, rfl⟩ := h
  simp only [Bool.and_eq_true, Option.isNone_iff_eq_none] at hp
  exact ⟨f, hf, rfl, hp.1.1, hp.1.2⟩

/-- a field with a default is never reported missing -/
theorem C09_defaulted_never_missing (ci : ClassInfo) (provided : List S) (f : FieldInfo)
    (hd : f.dflt.isSome = true) (_hf : f ∈ ci.fields)
    (huniq : ∀ g ∈ ci.fields, g.name = f.name → g = f) : f.name ∉ requiredMissing ci provided := by
  intro h
  obtain ⟨g, hg, hn, _, hdn⟩ := C09_init_false_never_demanded ci provided f.name h
  have := huniq g hg hn
  subst this
  simp [hdn] at hd

/-- the per-field outcome of `cls(**init_kwargs)`: the last value supplied for the field if any,
else its declared default (a fresh product: `Dflt.toPy` builds a new value on every call). -/
def fieldValue (kwargs : List (S × PyVal)) (f : FieldInfo) : Option PyVal :=
  match (if f.init then kwargs.reverse.find? (fun p => p.1 == f.name) else none), f.dflt with
  | some p, _ => some p.2
  | none, some d => some d.toPy
  | none, none => f.postInit.map Lit.toPy

theorem build_spec (kwargs : List (S × PyVal)) (fs : List FieldInfo) (out : List (S × PyVal))
    (h : buildFields kwargs fs = .ok out) :
    out.map (·.1) = fs.map (·.name) ∧ ∀ p ∈ out, ∃ f ∈ fs, p.1 = f.name ∧ fieldValue kwargs f = some p.2 := by
  induction fs generalizing out with
  | nil =>
    simp [buildFields, pure, Except.pure] at h
    subst h; simp
  | cons f r ih =>
    simp only [buildFields] at h
    split at h
    · rename_i p _ hp
      cases hr : buildFields kwargs r with
      | error e => simp [hr, bind, Except.bind] at h
      | ok rest =>
        simp [hr, bind, Except.bind, pure, Except.pure] at h
        subst h
        obtain ⟨h1, h2⟩ := ih rest hr
        constructor
        · simp [h1]
        · intro q hq
          simp at hq
          rcases hq with rfl | hq
          · exact ⟨f, by simp, rfl, by simp [fieldValue, hp]⟩
          · obtain ⟨g, hg, hh⟩ := h2 q hq
            exact ⟨g, by simp [hg], hh⟩
    · rename_i d hp hd
      cases hr : buildFields kwargs r with
      | error e => simp [hr, bind, Except.bind] at h
      | ok rest =>
        simp [hr, bind, Except.bind, pure, Except.pure] at h
        subst h
        obtain ⟨h1, h2⟩ := ih rest hr
        constructor
        · simp [h1]
        · intro q hq
          simp at hq
          rcases hq with rfl | hq
          · exact ⟨f, by simp, rfl, by simp [fieldValue, hp, hd]⟩
          · obtain ⟨g, hg, hh⟩ := h2 q hq
            exact ⟨g, by simp [hg], hh⟩
    · rename_i hp hd
      split at h
      · rename_i l hl
        cases hr : buildFields kwargs r with
        | error e => simp [hr, bind, Except.bind] at h
        | ok rest =>
          simp [hr, bind, Except.bind, pure, Except.pure] at h
          subst h
          obtain ⟨h1, h2⟩ := ih rest hr
          constructor
          · simp [h1]
          · intro q hq
            simp at hq
            rcases hq with rfl | hq
            · exact ⟨f, by simp, rfl, by simp [fieldValue, hp, hd, hl]⟩
            · obtain ⟨g, hg, hh⟩ := h2 q hq
              exact ⟨g, by simp [hg], hh⟩
      · simp at h

/-- On success the instance has exactly the declared fields, in declaration order; every field present in
the document holds the (last) converted value, every omitted one its declared default. -/
theorem C09_success_fields (ci : ClassInfo) (kwargs : List (S × PyVal)) (o : JVal) (hc : noCatchAll ci)
    (ci' : ClassInfo) (out : List (S × PyVal)) (h : finishClass ci kwargs [] o = .ok (.inst ci' out)) :
    ci' = ci ∧ out.map (·.1) = ci.fields.map (·.name) ∧
      ∀ p ∈ out, ∃ f ∈ ci.fields, p.1 = f.name ∧ fieldValue kwargs f = some p.2 := by
  unfold noCatchAll at hc
  simp only [finishClass, withCatchAll, hc] at h
  split at h
  · cases hb : buildFields kwargs ci.fields with
    | error e => simp [hb, bind, Except.bind] at h
    | ok fs =>
      simp [hb, bind, Except.bind, pure, Except.pure] at h
      obtain ⟨h1, h2⟩ := h
      subst h1 h2
      exact ⟨rfl, build_spec kwargs ci.fields fs hb⟩
  · simp at h

/-- ... and loading succeeds only if no required constructor field is absent. -/
theorem C09_success_only_if_complete (ci : ClassInfo) (kwargs : List (S × PyVal)) (o : JVal) (hc : noCatchAll ci)
    (y : PyVal) (h : finishClass ci kwargs [] o = .ok y) : requiredMissing ci (kwargs.map (·.1)) = [] := by
  by_cases hm : requiredMissing ci (kwargs.map (·.1)) = []
  · exact hm
  · rw [C09_missing_exact ci kwargs o hc hm] at h
    simp at h


/-! ### the document-level statement (default engine): deleting keys from a document that loads -/

theorem buildFields_initFalse (kw : List (S × PyVal)) : ∀ (fs : List FieldInfo) (out : List (S × PyVal)),
    buildFields kw fs = .ok out → ∀ f ∈ fs, f.init = false → f.dflt.isSome = true ∨ f.postInit.isSome = true
  | [], _, _, f, hf, _ => by simp at hf
  | g :: r, out, h, f, hf, hi => by
    have hrest : ∃ out', buildFields kw r = .ok out' := by
      simp only [buildFields] at h
      split at h
      · cases hb : buildFields kw r with
        | error e => simp [hb, bind, Except.bind] at h
        | ok o => exact ⟨o, rfl⟩
      · cases hb : buildFields kw r with
        | error e => simp [hb, bind, Except.bind] at h
        | ok o => exact ⟨o, rfl⟩
      · split at h
        · cases hb : buildFields kw r with
          | error e => simp [hb, bind, Except.bind] at h
          | ok o => exact ⟨o, rfl⟩
        · simp at h
    obtain ⟨out', hout'⟩ := hrest
    simp only [List.mem_cons] at hf
    rcases hf with rfl | hf
    · simp only [buildFields, hi, Bool.false_eq_true, if_false] at h
      cases hd : f.dflt with
      | some d => simp
      | none =>
        cases hp : f.postInit with
        | some l => simp
        | none => simp [hd, hp] at h
    · exact buildFields_initFalse kw r out' hout' f hf hi

theorem buildFields_total (kw : List (S × PyVal)) : ∀ (fs : List FieldInfo),
    (∀ f ∈ fs, f.init = false → f.dflt.isSome = true ∨ f.postInit.isSome = true) →
    (∀ f ∈ fs, f.init = true → f.dflt.isSome = true ∨ (kw.map (·.1)).contains f.name = true) →
    ∃ out, buildFields kw fs = .ok out
  | [], _, _ => ⟨[], rfl⟩
  | f :: r, h1, h2 => by
    obtain ⟨out, hout⟩ := buildFields_total kw r (fun g hg => h1 g (by simp [hg])) (fun g hg => h2 g (by simp [hg]))
    simp only [buildFields, hout, bind, Except.bind, pure, Except.pure]
    cases hi : f.init with
    | false =>
      simp only [Bool.false_eq_true, if_false]
      rcases h1 f (by simp) hi with hd | hp
      · obtain ⟨d, hd⟩ := Option.isSome_iff_exists.1 hd
        simp [hd]
      · obtain ⟨l, hl⟩ := Option.isSome_iff_exists.1 hp
        cases hd : f.dflt <;> simp [hl]
    | true =>
      simp only [if_true]
      cases hfind : kw.reverse.find? (fun p => p.1 == f.name) with
      | some p => simp
      | none =>
        rcases h2 f (by simp) hi with hd | hc
        · obtain ⟨d, hd⟩ := Option.isSome_iff_exists.1 hd
          simp [hd]
        · exfalso
          simp only [List.contains_eq_mem, List.mem_map, decide_eq_true_eq] at hc
          obtain ⟨q, hq, hqn⟩ := hc
          have := List.find?_eq_none.1 hfind q (by simpa using hq)
          simp [hqn] at this

theorem finish_noCatchAll (ci : ClassInfo) (kw : List (S × PyVal)) (ca : List (PyVal × PyVal)) (o o' : JVal) (hc : noCatchAll ci) :
    finishClass ci kw ca o = finishClass ci kw [] o' := by
  unfold noCatchAll at hc
  simp only [finishClass, withCatchAll, hc]

open DW.KeyLoop in
/-- exactly which names the error lists: the constructor fields without default to which no key of the document resolves -/
theorem C09_absent_iff (eff : MetaCfg) (ci : ClassInfo) (kvs : List (S × JVal)) (n : S) :
    n ∈ requiredMissing ci (resolvedFields eff ci kvs) ↔
      ∃ f ∈ ci.fields, f.name = n ∧ f.init = true ∧ f.dflt = none ∧ n ∉ resolvedFields eff ci kvs := by
  unfold requiredMissing missingInit
  simp only [List.mem_map, List.mem_filter, Bool.and_eq_true, Option.isNone_iff_eq_none, Bool.not_eq_true',
    List.contains_eq_mem, decide_eq_false_iff_not]
  constructor
  · rintro ⟨f, ⟨hf, ⟨hi, hd⟩, hn⟩, rfl⟩
    exact ⟨f, hf, rfl, hi, hd, hn⟩
  · rintro ⟨f, hf, rfl, hi, hd, hn⟩
    exact ⟨f, ⟨hf, ⟨hi, hd⟩, hn⟩, rfl⟩

open DW.KeyLoop in
/-- **C09 (default engine, at the level of documents).** Take any class without catch-all field, any per-field loaders and
any effective Meta, a document `kvs` that loads, and delete any set of keys from it (`keep` says which stay). Let
`absent` be the constructor fields without default to which no remaining key resolves (`C09_absent_iff`). Then the
sub-document loads exactly when `absent` is empty: if it is not, the outcome is MissingFields naming the class and exactly
`absent`, in declaration order; if it is, the outcome is an instance with exactly the declared fields in which every field
holds the converted value of the last remaining key that resolves to it, else its declared default (a fresh product),
else its `__post_init__` value. No other outcome exists: conversions that succeeded in the whole document succeed in the
part, and nothing a deleted key contributed is seen. -/
theorem C09_key_deletion (fl : S → JVal → LRes) (eff : MetaCfg) (ci : ClassInfo) (kvs : List (S × JVal)) (hc : noCatchAll ci)
    (x : PyVal) (hfull : loadClassWith fl eff ci (.dict kvs) = .ok x) (keep : S → Bool) :
    let kvs' := kvs.filter (fun kv => keep kv.1)
    let absent := requiredMissing ci (resolvedFields eff ci kvs')
    (absent ≠ [] → loadClassWith fl eff ci (.dict kvs') = .error (.missingFields ci.name absent)) ∧
    (absent = [] → ∃ out, loadClassWith fl eff ci (.dict kvs') = .ok (.inst ci out) ∧
        out.map (·.1) = ci.fields.map (·.name) ∧
        ∀ p ∈ out, ∃ f ∈ ci.fields, p.1 = f.name ∧ fieldValue (loadedPairs fl eff ci kvs') f = some p.2) := by
  intro kvs' absent
  -- the whole document: the key loop got through, and the constructor step succeeded
  simp only [loadClassWith, bind, Except.bind] at hfull
  cases hk : loadKeysWith fl eff ci kvs with
  | error e => simp [hk] at hfull
  | ok r =>
    obtain ⟨kw, ca⟩ := r
    simp only [hk] at hfull
    rw [finish_noCatchAll ci kw ca _ (.dict kvs) hc] at hfull
    obtain ⟨⟨kw', ca'⟩, hk'⟩ := loadKeysWith_filter fl eff ci keep kvs (kw, ca) hk
    obtain ⟨hkw', hnames'⟩ := loadKeysWith_ok fl eff ci kvs' kw' ca' hk'
    have hload : loadClassWith fl eff ci (.dict kvs') = finishClass ci kw' [] (.dict kvs') := by
      show loadClassWith fl eff ci (.dict (kvs.filter (fun kv => keep kv.1))) = _
      simp only [loadClassWith, bind, Except.bind, hk']
      exact finish_noCatchAll ci kw' ca' _ _ hc
    refine ⟨?_, ?_⟩
    · intro hne
      rw [hload]
      have := C09_missing_exact ci kw' (.dict kvs') hc (by rw [hnames']; exact hne)
      rw [this, hnames']
    · intro he
      -- init=False fields are filled as they were in the whole document; constructor fields are present or defaulted
      have hfull' := hfull
      unfold noCatchAll at hc
      simp only [finishClass, withCatchAll, hc] at hfull'
      have hinitF : ∀ f ∈ ci.fields, f.init = false → f.dflt.isSome = true ∨ f.postInit.isSome = true := by
        split at hfull'
        · cases hb : buildFields kw ci.fields with
          | error e => simp [hb, bind, Except.bind] at hfull'
          | ok o => exact buildFields_initFalse kw ci.fields o hb
        · simp at hfull'
      have hinitT : ∀ f ∈ ci.fields, f.init = true → f.dflt.isSome = true ∨ (kw'.map (·.1)).contains f.name = true := by
        intro f hf hi
        cases hd : f.dflt with
        | some d => simp
        | none =>
          right
          rw [hnames']
          cases hcon : (resolvedFields eff ci kvs').contains f.name with
          | true => rfl
          | false =>
            have : f.name ∈ absent := by
              show f.name ∈ requiredMissing ci (resolvedFields eff ci kvs')
              rw [C09_absent_iff]
              exact ⟨f, hf, rfl, hi, hd, by simpa using hcon⟩
            rw [he] at this
            simp at this
      obtain ⟨out, hout⟩ := buildFields_total kw' ci.fields hinitF hinitT
      have hfin : finishClass ci kw' [] (.dict kvs') = .ok (.inst ci out) := by
        have hm : missingInit ci (kw'.map (·.1)) = [] := by
          have : requiredMissing ci (kw'.map (·.1)) = [] := by rw [hnames']; exact he
          simpa [requiredMissing] using this
        simp only [finishClass, withCatchAll, hc, hm, hout, bind, Except.bind, pure, Except.pure]
      refine ⟨out, by rw [hload, hfin], ?_⟩
      have := build_spec kw' ci.fields out hout
      rw [hkw'] at this
      exact this

/-- the hypotheses of `C09_key_deletion` are met, and both outcomes occur: for `class P: a: int; tags: list = field(default_factory=list)`
the document `{'a': 1, 'tags': 2}` loads; without `'a'` the error lists exactly `a`; without `'tags'` the field holds a
fresh `[]`. -/
def exP : ClassInfo :=
  { name := "P".toList, fields := [{ name := "a".toList }, { name := "tags".toList, dflt := some .emptyList, isFactory := true }] }
def exFl : S → JVal → LRes := fun _ v => .ok v.toPy
def exDoc : List (S × JVal) := [("a".toList, .int 1), ("tags".toList, .int 2)]

theorem C09_key_deletion_example :
    noCatchAll exP ∧
    loadClassWith exFl {} exP (.dict exDoc) = .ok (.inst exP [("a".toList, .int 1), ("tags".toList, .int 2)]) ∧
    loadClassWith exFl {} exP (.dict (exDoc.filter (fun kv => kv.1 != "a".toList))) = .error (.missingFields "P".toList ["a".toList]) ∧
    loadClassWith exFl {} exP (.dict (exDoc.filter (fun kv => kv.1 != "tags".toList))) =
      .ok (.inst exP [("a".toList, .int 1), ("tags".toList, .seq .list [])]) := by
  refine ⟨by unfold noCatchAll; decide, by rfl, by rfl, by rfl⟩

/-! ### v1 engine

The generated v1 function looks every constructor field up under its key(s), binds a local for each one found, and
converts the `UnboundLocalError` / `TypeError` of `cls(...)` into MissingFields (`check_and_raise_missing_fields`). -/

open DW.Lemmas.V1 in
/-- the constructor fields without default none of whose keys is present in the document (declaration order) -/
def v1RequiredAbsent (eff : MetaCfg) (ci : ClassInfo) (kvs : List (S × JVal)) : List S :=
  (ci.fields.filter (fun f => f.init && f.dflt.isNone && !present eff kvs f)).map (·.name)

/-- without a catch-all field the last step of the v1 function is the `cls(**init_kwargs)` step the theorems above speak of -/
theorem finishKw_noCatchAll (ci : ClassInfo) (kw : List (S × PyVal)) (b : Bool) (ca : List (PyVal × PyVal)) (o : JVal)
    (hc : noCatchAll ci) : finishKw ci (v1WithCatchAll ci kw b ca) = finishClass ci kw [] o := by
  exact DW.Lemmas.V1.finishKw_eq_finishClass ci kw b ca o hc

open DW.Lemmas.V1 in
/-- what `cls(...)` finds missing after the v1 field loop: exactly the required constructor fields whose key is absent -/
theorem v1_missingInit_eq (fl : S → JVal → LRes) (eff : MetaCfg) (ci : ClassInfo) (kvs : List (S × JVal))
    (kw : List (S × PyVal)) (n : Nat) (hnames : (ci.fields.map (·.name)).Nodup) (hc : noCatchAll ci)
    (hok : v1Fields fl eff ci kvs ci.fields = .ok (kw, n)) :
    missingInit ci (kw.map (·.1)) = ci.fields.filter (fun f => f.init && f.dflt.isNone && !present eff kvs f) := by
  obtain ⟨hkw, _⟩ := v1Fields_ok fl eff ci kvs ci.fields kw n hok
  unfold missingInit
  apply List.filter_congr
  intro f hf
  have hnc : f.isCatchAll = false := by
    unfold noCatchAll at hc
    rw [List.find?_eq_none] at hc
    cases hfc : f.isCatchAll with
    | false => rfl
    | true => exact absurd hfc (hc f hf)
  have hprov : (kw.map (·.1)).contains f.name = (f.init && present eff kvs f) := by
    rw [hkw]
    cases hp : (f.init && present eff kvs f) with
    | true =>
      simp only [Bool.and_eq_true] at hp
      apply List.contains_iff_mem.mpr
      apply List.mem_map.mpr
      exact ⟨f, by simp [List.mem_filter, hf, hp.1, hp.2, hnc], rfl⟩
    | false =>
      cases hcn : (List.map (fun x => x.name)
          (List.filter (present eff kvs) (List.filter (fun f => f.init && !f.isCatchAll) ci.fields))).contains f.name with
      | false => rfl
      | true =>
        obtain ⟨g, hg, hgn⟩ := List.mem_map.mp (List.contains_iff_mem.mp hcn)
        simp only [List.mem_filter, Bool.and_eq_true] at hg
        have : g = f := eq_of_name_eq (·.name) ci.fields hnames g f hg.1.1 hf hgn
        subst this
        simp [hg.1.2.1, hg.2] at hp
  rw [hprov]
  cases f.init <;> cases f.dflt.isNone <;> cases present eff kvs f <;> rfl

/-- C09, v1 engine: when a required constructor field is absent — and the class neither rejects unknown keys nor has a
catch-all field — the outcome is MissingFields naming the class and *exactly* the required constructor fields none of whose
keys is in the document, in declaration order, whatever else the document holds. -/
theorem C09_v1_missing_exact (fl : S → JVal → LRes) (eff : MetaCfg) (ci : ClassInfo) (kvs : List (S × JVal))
    (kw : List (S × PyVal)) (n : Nat) (hnames : (ci.fields.map (·.name)).Nodup) (hc : noCatchAll ci)
    (hraise : eff.v1OnUnknown ≠ some .raise)
    (hok : v1Fields fl eff ci kvs ci.fields = .ok (kw, n))
    (hm : v1RequiredAbsent eff ci kvs ≠ []) :
    v1ClassWith fl eff ci (.dict kvs) = .error (.missingFields ci.name (v1RequiredAbsent eff ci kvs)) := by
  have hr : (eff.v1OnUnknown == some KeyAct.raise) = false := by
    cases h : eff.v1OnUnknown with
    | none => rfl
    | some a => cases a <;> simp_all
  simp only [v1ClassWith, hok, bind, Except.bind, v1Finish, hr, Bool.and_false, Bool.false_and, Bool.false_eq_true, ↓reduceIte]
  rw [finishKw_noCatchAll _ _ _ _ (.dict kvs) hc]
  have hmi := v1_missingInit_eq fl eff ci kvs kw n hnames hc hok
  have : requiredMissing ci (kw.map (·.1)) = v1RequiredAbsent eff ci kvs := by
    unfold requiredMissing v1RequiredAbsent
    rw [hmi]
  rw [← this] at hm ⊢
  exact C09_missing_exact ci kw (.dict kvs) hc hm

open DW.Lemmas.V1 in
/-- init=False fields are never demanded by the v1 engine: every name in the list belongs to a *constructor* field without
default whose key is absent from the document. -/
theorem C09_v1_init_false_never_demanded (eff : MetaCfg) (ci : ClassInfo) (kvs : List (S × JVal)) (nme : S)
    (h : nme ∈ v1RequiredAbsent eff ci kvs) :
    ∃ f ∈ ci.fields, f.name = nme ∧ f.init = true ∧ f.dflt = none ∧ present eff kvs f = false := by
  unfold v1RequiredAbsent at h
  simp only [List.mem_map, List.mem_filter, Bool.and_eq_true, Option.isNone_iff_eq_none, Bool.not_eq_true'] at h
  obtain ⟨f, ⟨hf, hp⟩, rfl⟩ := h
  exact ⟨f, hf, rfl, hp.1.1, hp.1.2, hp.2⟩

/-- the field loop itself never hands an init=False field (or the catch-all field) to the constructor -/
theorem C09_v1_kwargs_constructor_fields_only (fl : S → JVal → LRes) (eff : MetaCfg) (ci : ClassInfo) (kvs : List (S × JVal))
    (kw : List (S × PyVal)) (n : Nat) (hok : v1Fields fl eff ci kvs ci.fields = .ok (kw, n)) (p : S × PyVal) (hp : p ∈ kw) :
    ∃ f ∈ ci.fields, f.name = p.1 ∧ f.init = true ∧ f.isCatchAll = false ∧ DW.Lemmas.V1.present eff kvs f = true := by
  obtain ⟨hkw, _⟩ := DW.Lemmas.V1.v1Fields_ok fl eff ci kvs ci.fields kw n hok
  have : p.1 ∈ kw.map (·.1) := List.mem_map.mpr ⟨p, hp, rfl⟩
  rw [hkw] at this
  obtain ⟨f, hf, hn⟩ := List.mem_map.mp this
  simp only [List.mem_filter, Bool.and_eq_true, Bool.not_eq_true'] at hf
  exact ⟨f, hf.1.1, hn, hf.1.2.1, hf.1.2.2, hf.2⟩

/-- Conversely the v1 load gets past the MissingFields check exactly when no required key is absent; on success the instance
has the declared fields in order, each present field holding the converted value and each omitted one its default. -/
theorem C09_v1_success_fields (fl : S → JVal → LRes) (eff : MetaCfg) (ci : ClassInfo) (kvs : List (S × JVal))
    (kw : List (S × PyVal)) (n : Nat) (hnames : (ci.fields.map (·.name)).Nodup) (hc : noCatchAll ci)
    (hraise : eff.v1OnUnknown ≠ some .raise)
    (hok : v1Fields fl eff ci kvs ci.fields = .ok (kw, n))
    (ci' : ClassInfo) (out : List (S × PyVal)) (h : v1ClassWith fl eff ci (.dict kvs) = .ok (.inst ci' out)) :
    v1RequiredAbsent eff ci kvs = [] ∧ ci' = ci ∧ out.map (·.1) = ci.fields.map (·.name) ∧
      ∀ p ∈ out, ∃ f ∈ ci.fields, p.1 = f.name ∧ fieldValue kw f = some p.2 := by
  have hr : (eff.v1OnUnknown == some KeyAct.raise) = false := by
    cases h : eff.v1OnUnknown with
    | none => rfl
    | some a => cases a <;> simp_all
  constructor
  · by_cases hm : v1RequiredAbsent eff ci kvs = []
    · exact hm
    · rw [C09_v1_missing_exact fl eff ci kvs kw n hnames hc hraise hok hm] at h
      simp at h
  · simp only [v1ClassWith, hok, bind, Except.bind, v1Finish, hr, Bool.and_false, Bool.false_and, Bool.false_eq_true, ↓reduceIte] at h
    rw [finishKw_noCatchAll _ _ _ _ (.dict kvs) hc] at h
    exact C09_success_fields ci kw (.dict kvs) hc ci' out h

/-- omissions at any nesting depth: a MissingFields raised while converting a nested value travels through the handlers of
the enclosing classes unchanged (it keeps naming the nested class and its own missing fields) -/
theorem C09_v1_nested_missing_unchanged (c f c' : S) (ms : List S) :
    v1SetAttr c f (.missingFields c' ms) = .missingFields c' ms := rfl

end DW.Props.C09
