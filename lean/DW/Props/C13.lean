/-
C13 — tagged unions dispatch on the tag alone (default engine).
-/
import DW.Generated.Tables
import DW.Model.Load
import DW.Model.LoadV1
import DW.Lemmas.Tagged
import DW.Lemmas.TaggedV1
import DW.Lemmas.RoundTrip
import DW.Lemmas.RoundTripV1
import DW.Lemmas.GenDumpSem

namespace DW.Props.C13
open DW DW.Tagged

/-- C13 dispatch, end to end at a Union annotation: a dict whose tag key holds K's tag is loaded as K, for every
position of K among the Union arguments. -/
theorem C13_dispatch (std : Std) (cfg : Option MetaCfg) (tg : S) (pre post : List Ty)
    (ci : ClassInfo) (ftys : List (S × Ty)) (kvs : List (S × JVal))
    (hk : memberTag cfg ci = some tg)
    (hpre : ∀ t ∈ pre, tagOf cfg t ≠ some tg) (hpost : ∀ t ∈ post, tagOf cfg t ≠ some tg)
    (hclaim : NoDictClaim (pre ++ .cls ci ftys :: post) (.dict kvs))
    (htag : kvs.find? (fun kv => kv.1 == (cfg.bind (·.tagKey)).getD Generated.tagKey.toList)
              = some ((cfg.bind (·.tagKey)).getD Generated.tagKey.toList, .str tg)) :
    loadD std cfg (.union (pre ++ .cls ci ftys :: post)) (.dict kvs)
      = loadClassWith (fun f v => loadField std cfg f v ftys) (effMeta ci.cmeta cfg) ci (.dict kvs) :=
  C13_dispatch_core std cfg tg pre post ci ftys kvs hk hpre hpost hclaim htag

/-- an unassigned tag is rejected with ParseError -/
theorem loadTagged_unassigned (std : Std) (cfg : Option MetaCfg) (tg : S) (ts : List Ty) (o : JVal)
    (h : ∀ t ∈ ts, tagOf cfg t ≠ some tg) : loadTagged std cfg tg ts o = .error (.parse none none) := by
  induction ts with
  | nil => rfl
  | cons t r ih =>
    have hr : ∀ t ∈ r, tagOf cfg t ≠ some tg := fun t' ht' => h t' (by simp [ht'])
    have ht := h t (by simp)
    cases t <;> simp only [loadTagged] <;> try exact ih hr
    case cls ci' ftys' =>
      simp [tagOf] at ht
      simp [ht]
      exact ih hr

theorem C13_bad_tag (std : Std) (cfg : Option MetaCfg) (tg : S) (ts : List Ty) (kvs : List (S × JVal))
    (h : ∀ t ∈ ts, tagOf cfg t ≠ some tg) (hclaim : NoDictClaim ts (.dict kvs))
    (htag : kvs.find? (fun kv => kv.1 == (cfg.bind (·.tagKey)).getD Generated.tagKey.toList)
              = some ((cfg.bind (·.tagKey)).getD Generated.tagKey.toList, .str tg)) :
    loadD std cfg (.union ts) (.dict kvs) = .error (.parse none none) := by
  simp only [loadD, JVal.kind]
  have hk' : (JKind.dict == JKind.null) = false := by decide
  simp only [hk', Bool.false_and, Bool.false_eq_true, ↓reduceIte]
  rw [loadUnionTry_none std cfg _ _ hclaim]
  simp only [htag]
  exact loadTagged_unassigned std cfg tg ts _ h

/-- a dict without the tag key, when no untagged alternative claims it, is rejected with ParseError -/
theorem C13_missing_tag (std : Std) (cfg : Option MetaCfg) (ts : List Ty) (kvs : List (S × JVal))
    (hclaim : NoDictClaim ts (.dict kvs))
    (htag : kvs.find? (fun kv => kv.1 == (cfg.bind (·.tagKey)).getD Generated.tagKey.toList) = none) :
    loadD std cfg (.union ts) (.dict kvs) = .error (.parse none none) := by
  simp only [loadD, JVal.kind]
  have hk' : (JKind.dict == JKind.null) = false := by decide
  simp only [hk', Bool.false_and, Bool.false_eq_true, ↓reduceIte]
  rw [loadUnionTry_none std cfg _ _ hclaim]
  simp [htag, parseE]

/-- the tag key of a tagged class is never an unknown key (so it is neither reported nor captured) -/
theorem C13_tag_key_not_unknown (eff : MetaCfg) (ci : ClassInfo) (t : S) (ht : eff.tag = some t)
    (hnf : eff.tagKey.getD Generated.tagKey.toList ∉ initFieldNames ci)
    (hna : (aliasTable ci).reverse.find? (fun p => p.1 == eff.tagKey.getD Generated.tagKey.toList) = none) :
    resolveKey eff ci (eff.tagKey.getD Generated.tagKey.toList) = .ok .ignored := by
  simp [resolveKey, hna, ht, hnf, pure, Except.pure]

/-- dump writes K's tag under the configured tag key, next to K's fields -/
theorem C13_dump_tag (eff : MetaCfg) (t : S) (body : List (DVal × DVal)) (ht : eff.tag = some t) :
    finishInst eff body = .dict false (body ++ [(.str (eff.tagKey.getD Generated.tagKey.toList), .str t)]) := by
  simp [finishInst, ht]

/-- the default tag key is the documented `__tag__` -/
theorem C13_default_tag_key : Generated.tagKey = "__tag__" := by decide

/-- **dump then load through the Union** (default engine): for a member class K of the round-trip fragment carrying tag
`tg` (`RT.ClsOK … (some tg)`: the tag key is that of the travelling config and no key of K), every other Union member a
dataclass answering to another tag or `None`, and field values that conform: what `asdict` writes for an instance of K —
K's fields and K's tag under the tag key — is loaded back by the Union annotation to exactly that instance of K,
whatever the position of K among the members and however similar the members' fields are. -/
theorem C13_roundtrip_tagged (std : Std) (laws : StdLaws std) (cfg : Option MetaCfg) (pre post : List Ty) (ci : ClassInfo)
    (ftys : List (S × Ty)) (vals : List PyVal) (tg : S) (hp : RT.ClsOK cfg ci ftys (some tg)) (hlen : vals.length = ftys.length)
    (hvals : ∀ p ∈ ftys.zip vals, RT.Conf std cfg p.1.2 p.2)
    (hpre : ∀ t ∈ pre, RT.OtherMember cfg tg t) (hpost : ∀ t ∈ post, RT.OtherMember cfg tg t)
    (d : DVal) (h : dumpV std false cfg (.inst ci ((ftys.map (·.1)).zip vals)) = .ok d) :
    loadD std cfg (.union (pre ++ .cls ci ftys :: post)) (RT.toJ d) = .ok (.inst ci ((ftys.map (·.1)).zip vals)) :=
  RT.rt_unionTagged std cfg pre post ci ftys vals tg hp hlen
    (fun p hp' => RT.roundtrip std cfg laws p.1.2 p.2 (hvals p hp')) hpre hpost d h

/-! ### v1 engine

The v1 Union helper reads `v1[tag_key]` first (when at least one member dataclass carries a tag) and compares it with each
member's tag in turn; only a value without the tag key falls through to the exact-type / try-parse passes. -/

/-- C13 dispatch for the v1 engine, end to end at a Union annotation: a dict whose tag key holds K's tag is loaded as K, for
every position of K among the Union arguments and whatever scalar / container / other dataclass members stand next to it. -/
theorem C13_v1_dispatch (std : Std) (cfg : Option MetaCfg) (tg : S) (pre post : List Ty)
    (ci : ClassInfo) (ftys : List (S × Ty)) (kvs : List (S × JVal))
    (hk : memberTag cfg ci = some tg)
    (hpre : ∀ t ∈ pre, tagOf cfg t ≠ some tg) (hpost : ∀ t ∈ post, tagOf cfg t ≠ some tg)
    (htag : kvs.find? (fun kv => kv.1 == (cfg.bind (·.tagKey)).getD Generated.tagKey.toList)
              = some ((cfg.bind (·.tagKey)).getD Generated.tagKey.toList, .str tg)) :
    loadV1 std cfg (.union (pre ++ .cls ci ftys :: post)) (.dict kvs)
      = v1ClassWith (fun f v => v1Field std cfg f v ftys) (effMeta ci.cmeta cfg) ci (.dict kvs) :=
  v1_dispatch_core std cfg tg pre post ci ftys kvs hk hpre hpost htag

theorem v1Tagged_unassigned (std : Std) (cfg : Option MetaCfg) (tg : S) (ts : List Ty) (o : JVal)
    (h : ∀ t ∈ ts, tagOf cfg t ≠ some tg) : v1Tagged std cfg tg ts o = .error (.parse none none) := by
  induction ts with
  | nil => rfl
  | cons t r ih =>
    have hr : ∀ t ∈ r, tagOf cfg t ≠ some tg := fun t' ht' => h t' (by simp [ht'])
    have ht := h t (by simp)
    cases t <;> simp only [v1Tagged] <;> try exact ih hr
    case cls ci' ftys' =>
      simp [tagOf] at ht
      simp [ht]
      exact ih hr

/-- an unassigned tag is rejected with ParseError — no member is tried structurally, however well the dict would fit one -/
theorem C13_v1_bad_tag (std : Std) (cfg : Option MetaCfg) (tg : S) (ts : List Ty) (kvs : List (S × JVal))
    (h : ∀ t ∈ ts, tagOf cfg t ≠ some tg) (hany : v1AnyTagged cfg ts = true)
    (htag : kvs.find? (fun kv => kv.1 == (cfg.bind (·.tagKey)).getD Generated.tagKey.toList)
              = some ((cfg.bind (·.tagKey)).getD Generated.tagKey.toList, .str tg)) :
    loadV1 std cfg (.union ts) (.dict kvs) = .error (.parse none none) := by
  simp only [loadV1, JVal.kind]
  have hk' : (JKind.dict == JKind.null) = false := by decide
  simp only [hk', Bool.false_and, Bool.false_eq_true, ↓reduceIte]
  simp only [hany, htag, ↓reduceIte, Option.map_some]
  exact v1Tagged_unassigned std cfg tg ts _ h

/-- every member of the Union is a tagged dataclass (or None) -/
def AllTagged (cfg : Option MetaCfg) (ts : List Ty) : Prop :=
  ∀ t ∈ ts, t = .none ∨ ∃ ci ftys, t = .cls ci ftys ∧ (memberTag cfg ci).isSome = true

theorem v1UnionExact_none (std : Std) (cfg : Option MetaCfg) (ts : List Ty) (o : JVal) (h : AllTagged cfg ts) :
    v1UnionExact std cfg ts o = none := by
  induction ts with
  | nil => rfl
  | cons t r ih =>
    have hr : AllTagged cfg r := fun t' ht' => h t' (by simp [ht'])
    rcases h t (by simp) with rfl | ⟨ci, ftys, rfl, htg⟩
    · simp only [v1UnionExact]; exact ih hr
    · simp only [v1UnionExact, htg, ↓reduceIte]; exact ih hr

theorem v1UnionCoerce_none (std : Std) (cfg : Option MetaCfg) (ts : List Ty) (o : JVal) (h : AllTagged cfg ts) :
    v1UnionCoerce std cfg ts o = none := by
  induction ts with
  | nil => rfl
  | cons t r ih =>
    have hr : AllTagged cfg r := fun t' ht' => h t' (by simp [ht'])
    rcases h t (by simp) with rfl | ⟨ci, ftys, rfl, _⟩
    · simp only [v1UnionCoerce, isSimpleTy]; simp; exact ih hr
    · simp only [v1UnionCoerce, isSimpleTy]; simp; exact ih hr

/-- a dict without the tag key, offered to a Union of tagged dataclasses only, is rejected with ParseError -/
theorem C13_v1_missing_tag (std : Std) (cfg : Option MetaCfg) (ts : List Ty) (kvs : List (S × JVal))
    (h : AllTagged cfg ts)
    (htag : kvs.find? (fun kv => kv.1 == (cfg.bind (·.tagKey)).getD Generated.tagKey.toList) = none) :
    loadV1 std cfg (.union ts) (.dict kvs) = .error (.parse none none) := by
  simp only [loadV1, JVal.kind]
  have hk' : (JKind.dict == JKind.null) = false := by decide
  simp only [hk', Bool.false_and, Bool.false_eq_true, ↓reduceIte, htag, Option.map_none]
  have : (if v1AnyTagged cfg ts = true then (none : Option JVal) else none) = none := by split <;> rfl
  simp only [this, v1UnionExact_none std cfg ts _ h, v1UnionCoerce_none std cfg ts _ h, perr]

/-- the tag key of a tagged class is a *known* key of its v1 function: it is neither reported by UnknownKeysError nor captured
by CatchAll (both only ever see `v1Extra`, the pairs with unknown keys) -/
theorem C13_v1_tag_key_known (eff : MetaCfg) (ci : ClassInfo) (t : S) (ht : eff.tag = some t)
    (hnf : v1TagKey eff ∉ initFieldNames ci) (kvs : List (S × JVal)) :
    v1TagKey eff ∈ v1KnownKeys eff ci ∧ ∀ kv ∈ v1Extra eff ci kvs, kv.1 ≠ v1TagKey eff := by
  have hnc : (initFieldNames ci).contains (v1TagKey eff) = false := by
    cases hc : (initFieldNames ci).contains (v1TagKey eff) with
    | false => rfl
    | true => exact absurd (List.contains_iff_mem.mp hc) hnf
  have hx : v1ExpectTag eff ci = true := by
    unfold v1ExpectTag
    rw [ht, hnc]
    rfl
  have hmem : v1TagKey eff ∈ v1KnownKeys eff ci := by simp [v1KnownKeys, hx]
  refine ⟨hmem, ?_⟩
  intro kv hkv heq
  have hp := (List.mem_filter.mp hkv).2
  rw [heq, List.contains_iff_mem.mpr hmem] at hp
  simp at hp

/-- an attribute that merely *mirrors* the tag (an `init=False` field named like the tag key) does not switch the whitelisting
off: only constructor fields count -/
theorem C13_v1_noninit_mirror_ignored (eff : MetaCfg) (ci : ClassInfo)
    (h : ∀ f ∈ ci.fields, f.name = v1TagKey eff → f.init = false) : v1TagKey eff ∉ initFieldNames ci := by
  intro hm
  unfold initFieldNames at hm
  obtain ⟨f, hf, hn⟩ := List.mem_map.mp hm
  have hfi := List.mem_filter.mp hf
  have := h f hfi.1 hn
  simp [this] at hfi

/-- Witness (unchanged code): the tag key is counted inside the `if cls_init_fields:` block only. A tagged class *without* any
constructor field therefore never counts its tag key: under RAISE a document holding just the tag is rejected — with an empty
list of unknown keys — although the tag key is whitelisted. -/
theorem C13_v1_tag_only_class_witness :
    let ci : ClassInfo := { name := ['B'], fields := [{ name := ['n'], init := false, dflt := some (.lit (.int 3)) }] }
    let eff : MetaCfg := { v1 := some true, v1OnUnknown := some .raise, tag := some ['b'], tagKey := some ['t'] }
    v1TagKey eff ∈ v1KnownKeys eff ci ∧
    v1ClassWith (fun _ v => pure v.toPy) eff ci (.dict [(['t'], .str ['b'])]) = .error (.unknownKeys ['B'] []) := by
  refine ⟨by decide, by rfl⟩

/-- **dump then load through the Union** (v1 engine): below a main class whose v1 Meta makes the load key case match the dump
transform (`RTV1.Setup`), for a member class K carrying tag `tg` (`RTV1.ClsOK … (some tg)`: the tag key is none of K's
keys) and **any** other members — dataclasses, scalars, containers — of which none answers to the same tag: what `asdict`
writes for an instance of K is loaded back by the Union annotation to exactly that instance. -/
theorem C13_v1_roundtrip_tagged (su : RTV1.Setup) (std : Std) (laws : StdLaws std) (pre post : List Ty) (ci : ClassInfo)
    (ftys : List (S × Ty)) (vals : List PyVal) (tg : S) (hp : RTV1.ClsOK su ci ftys (some tg)) (hlen : vals.length = ftys.length)
    (hvals : ∀ p ∈ ftys.zip vals, RTV1.Conf su std p.1.2 p.2)
    (hpre : ∀ t ∈ pre, tagOf (some su.m) t ≠ some tg) (hpost : ∀ t ∈ post, tagOf (some su.m) t ≠ some tg)
    (d : DVal) (h : dumpV std false (some su.m) (.inst ci ((ftys.map (·.1)).zip vals)) = .ok d) :
    loadV1 std (some su.m) (.union (pre ++ .cls ci ftys :: post)) (RT.toJ d) = .ok (.inst ci ((ftys.map (·.1)).zip vals)) :=
  RTV1.rt_unionTagged std pre post ci ftys vals tg hp hlen
    (fun p hp' => RTV1.roundtrip std laws p.1.2 p.2 (hvals p hp')) hpre hpost d h

/-- the hypotheses are satisfiable: `Cat(name: str)` with `Meta.tag = 'cat'` below a root with the v1 CAMEL Meta is
`RTV1.ClsOK … (some 'cat')` -/
theorem C13_v1_roundtrip_tagged_example :
    RTV1.ClsOK RTV1.camelSetup
      { name := "Cat".toList, cmeta := some { tag := some "cat".toList }, fields := [{ name := "name".toList }] }
      [("name".toList, .str)] (some "cat".toList) := by
  refine ⟨by decide, rfl, by decide, ?_, ?_, ?_, by decide, ?_, ?_⟩
  · intro f hf
    simp only [List.mem_cons, List.not_mem_nil, or_false] at hf
    subst hf; exact ⟨rfl, rfl, rfl, rfl⟩
  · intro f hf
    simp only [List.mem_cons, List.not_mem_nil, or_false] at hf
    subst hf; rfl
  · intro f hf
    simp only [List.mem_cons, List.not_mem_nil, or_false] at hf
    subst hf; exact ⟨[], rfl⟩
  · intro t ht; cases ht; rfl
  · intro t ht f hf
    cases ht
    simp only [List.mem_cons, List.not_mem_nil, or_false] at hf
    subst hf; decide

/-! ### the tag entry, at the level of the generated code -/

open DW.GenDump in
/-- **C13 (the generated dump function writes the tag).**  For any class with a (non-empty) `Meta.tag`, any fields, Meta switches,
call arguments and instance whose skip comparisons do not raise: running the body `dump_func_for_dataclass` writes for the class
ends by writing the class's tag under the configured tag key (`Meta.tag_key`, or `__tag__` when none is set) — after all
field entries, exactly once, whatever the fields are called and whatever they hold. -/
theorem C13_generated_code_writes_tag (p : Char → Bool) (ρ : Env) (eff : MetaCfg) (args : DumpArgs)
    (fks : List (FieldInfo × S)) (vals : S → PyVal) (W : World p eff args fks vals ρ) (dtv ocv : FieldInfo → Bool)
    (Hd : ∀ q ∈ fks, defaultTest eff q.1 (vals q.1.name) = .ok (dtv q.1))
    (Ho : ∀ q ∈ fks, ownCond eff q.1 (vals q.1.name) = .ok (ocv q.1))
    (t : S) (ht : eff.tag = some t) (hne : t ≠ []) :
    ∃ body, run ρ (genBody p (ginOf eff fks)) = .ok (body ++ [.tag (ginOf eff fks).effTagKey t]) ∧
      ∀ e ∈ body, ∀ k t', e ≠ .tag k t' := by
  refine ⟨emitsFrom (sk2At eff args fks dtv) ocv vals 0 fks, ?_, ?_⟩
  · rw [run_genBody p ρ eff args fks vals W dtv ocv Hd Ho]
    have : tagEmits (ginOf eff fks) = [.tag (ginOf eff fks).effTagKey t] := by
      have hto : (ginOf eff fks).tagOn = some t := by
        simp only [GIn.tagOn, ginOf, ht]
        cases t with
        | nil => exact absurd rfl hne
        | cons c r => rfl
      simp [tagEmits, hto]
    rw [this]
  · intro e he k t' hk
    rw [emitsFrom_eq eff args fks dtv ocv vals fks 0 (by simp)] at he
    simp only [List.mem_flatMap] at he
    obtain ⟨q, _, hq⟩ := he
    subst hk
    unfold refFieldEmit at hq
    split at hq
    · split at hq <;> simp at hq
    · split at hq
      · simp at hq
      · split at hq <;> simp at hq

end DW.Props.C13
