/-
C01 — dump-then-load is the identity (default engine).
Property theorems only; helper lemmas are in DW/Lemmas.
-/
import DW.Generated.Tables
import DW.Model.Load
import DW.Model.StdLaws
import DW.Lemmas.Strings
import DW.Lemmas.Dump
import DW.Lemmas.RoundTrip
import DW.Lemmas.RoundTripKeys

namespace DW.Props.C01
open DW

/-- JSON view of a dumped scalar (what `json.loads(json.dumps(d))`, or the dict itself, hands to load) -/
def jsonifyScalar : DVal → Option JVal
  | .null => some .null
  | .bool b => some (.bool b)
  | .int i => some (.int i)
  | .float f => some (.float f)
  | .str s => some (.str s)
  | _ => none

/-- The `Z` rewrite of the dump side is undone by the load side on every ISO text. -/
theorem C01_z_rewrite_inverse (t : S) (h : 'Z' ∉ t) : zToOffset (isoZ t) = t :=
  zToOffset_isoZ t h

/-- datetime: `load(dump(v)) = v` for every canonical token, any tz offset (incl. UTC written as `Z`). -/
theorem C01_datetime_roundtrip (std : Std) (laws : StdLaws std) (cfg : Option MetaCfg) (t : S)
    (ht : std.validTok .datetime t = true) :
    ∃ d j, dumpScalar std false (.leaf .datetime false t) = .ok d ∧ jsonifyScalar d = some j ∧
      loadD std cfg (.leaf .datetime) j = .ok (.leaf .datetime false t) := by
  refine ⟨.str (isoZ t), .str (isoZ t), ?_, rfl, ?_⟩
  · simp [dumpScalar, pure, Except.pure]
  · simp only [loadD, asDatetime]
    rw [C01_z_rewrite_inverse t (laws.datetime_noZ t ht), laws.datetime_rt t ht]
    rfl

theorem C01_time_roundtrip (std : Std) (laws : StdLaws std) (cfg : Option MetaCfg) (t : S)
    (ht : std.validTok .time t = true) :
    ∃ d j, dumpScalar std false (.leaf .time false t) = .ok d ∧ jsonifyScalar d = some j ∧
      loadD std cfg (.leaf .time) j = .ok (.leaf .time false t) := by
  refine ⟨.str (isoZ t), .str (isoZ t), ?_, rfl, ?_⟩
  · simp [dumpScalar, pure, Except.pure]
  · simp only [loadD, asTime]
    rw [C01_z_rewrite_inverse t (laws.time_noZ t ht), laws.time_rt t ht]
    rfl

theorem C01_date_roundtrip (std : Std) (laws : StdLaws std) (cfg : Option MetaCfg) (t : S)
    (ht : std.validTok .date t = true) :
    ∃ d j, dumpScalar std false (.leaf .date false t) = .ok d ∧ jsonifyScalar d = some j ∧
      loadD std cfg (.leaf .date) j = .ok (.leaf .date false t) := by
  refine ⟨.str t, .str t, ?_, rfl, ?_⟩
  · simp [dumpScalar, pure, Except.pure]
  · simp only [loadD, asDate]
    rw [laws.date_rt t ht]
    rfl

theorem C01_decimal_roundtrip (std : Std) (laws : StdLaws std) (cfg : Option MetaCfg) (t : S)
    (ht : std.validTok .decimal t = true) :
    ∃ d j, dumpScalar std false (.leaf .decimal false t) = .ok d ∧ jsonifyScalar d = some j ∧
      loadD std cfg (.leaf .decimal) j = .ok (.leaf .decimal false t) := by
  refine ⟨.str t, .str t, ?_, rfl, ?_⟩
  · simp [dumpScalar, pure, Except.pure]
  · simp only [loadD, asDecimal, strOfJ]
    rw [laws.decimal_rt t ht]
    rfl

theorem C01_uuid_roundtrip (std : Std) (laws : StdLaws std) (cfg : Option MetaCfg) (t : S)
    (ht : std.validTok .uuid t = true) :
    ∃ d j, dumpScalar std false (.leaf .uuid false t) = .ok d ∧ jsonifyScalar d = some j ∧
      loadD std cfg (.leaf .uuid) j = .ok (.leaf .uuid false t) := by
  refine ⟨.str t, .str t, ?_, rfl, ?_⟩
  · simp [dumpScalar, pure, Except.pure]
  · simp only [loadD, asUuid]
    rw [laws.uuid_rt t ht]
    rfl

theorem C01_path_roundtrip (std : Std) (laws : StdLaws std) (cfg : Option MetaCfg) (t : S)
    (ht : std.validTok .path t = true) :
    ∃ d j, dumpScalar std false (.leaf .path false t) = .ok d ∧ jsonifyScalar d = some j ∧
      loadD std cfg (.leaf .path) j = .ok (.leaf .path false t) := by
  refine ⟨.str t, .str t, ?_, rfl, ?_⟩
  · simp [dumpScalar, pure, Except.pure]
  · simp only [loadD, asPath, strOfJ]
    rw [laws.path_rt t ht]
    rfl

/-- plain JSON scalars are fixed points of dump∘load at their own annotation -/
theorem C01_int_roundtrip (std : Std) (cfg : Option MetaCfg) (i : Int) :
    dumpScalar std false (.int i) = .ok (.int i) ∧ loadD std cfg .int (.int i) = .ok (.int i) := by
  constructor
  · simp [dumpScalar, pure, Except.pure]
  · simp [loadD, asInt, pure, Except.pure]

theorem C01_bool_roundtrip (std : Std) (cfg : Option MetaCfg) (b : Bool) :
    dumpScalar std false (.bool b) = .ok (.bool b) ∧ loadD std cfg .bool (.bool b) = .ok (.bool b) := by
  constructor
  · simp [dumpScalar, pure, Except.pure]
  · simp [loadD, asBool, pure, Except.pure]

theorem C01_str_roundtrip (std : Std) (cfg : Option MetaCfg) (s : S) :
    dumpScalar std false (.str s) = .ok (.str s) ∧ loadD std cfg .str (.str s) = .ok (.str s) := by
  constructor
  · simp [dumpScalar, pure, Except.pure]
  · simp [loadD, asStr, pure, Except.pure]

theorem C01_float_roundtrip (std : Std) (cfg : Option MetaCfg) (f : PyFloat) :
    dumpScalar std false (.float f) = .ok (.float f) ∧ loadD std cfg .float (.float f) = .ok (.float f) := by
  constructor
  · simp [dumpScalar, pure, Except.pure]
  · simp [loadD, asFloat, pure, Except.pure]

/-- `str(timedelta)` always contains a `:` so it never takes the numeric-string branch of `as_timedelta`. -/
theorem C01_neg_timedelta_text : tdStr (-1000000) = "-1 day, 23:59:59".toList := by decide

/-! ### the structural round trip -/

/-- **C01 (structure).** Below any travelling config `cfg` (the recursive Meta of the main class, or none), for every type
of the fragment int / float / str / bool / Decimal / Path / UUID / date / time / datetime / non-negative timedelta
(canonical tokens, under the named `StdLaws`) / Enum (members with pairwise different values) / Literal[...] (the value is
the first member equal to it) / Optional[·] / list[·] / deque[·] / set[·] / frozenset[·] (hashable, pairwise different
elements, in the iteration order of the instance) / tuple[·, ...] / fixed tuples / NamedTuple classes / TypedDict classes
(distinct keys; every Required key present, a NotRequired key present or absent; entries in declaration order — the model
writes a dict as its item list, Python's dict equality does not look at the order) / dict[str, ·] /
defaultdict[str, ·] / OrderedDict[str, ·] / Union of tagged dataclasses and None (pairwise different tags, `RT.OtherMember`;
the tag key is the one of the travelling config and no key of the member, `RT.TagFacts`) / dataclass, tagged or not, — with or without a Meta of its own — whose effective
Meta (`effMeta ci.cmeta cfg`: any key transforms, `recursive` …) has no skip rule / TIMESTAMP mode, without
catch-all or init=False fields, and whose dump keys (first alias when `all=True`, else the effective dump transform of the
name) lead the loader back to their fields (`RT.ClsOK cfg`, a decidable condition on the class), nested to any depth,
and every value conforming to it (`RT.Conf`): whatever the dump produces, the JSON image of it (`RT.toJ` = what
`json.loads(json.dumps(·))` returns) loads back to exactly the value. By induction over the conformance derivation; the
dataclass case chains the generated field loop of the dumper into the key loop of the loader (`RT.fields_chain`, which
also steps over the tag entry a tagged class appends) and the constructor step (`RT.buildFields_ok`); the Union case
finds the tag entry behind the field entries and dispatches on it (`RT.rt_unionTagged`). -/
theorem C01_roundtrip_struct (std : Std) (laws : StdLaws std) (cfg : Option MetaCfg) (t : Ty) (v : PyVal)
    (hc : RT.Conf std cfg t v) (d : DVal) (h : dumpV std false cfg v = .ok d) : loadD std cfg t (RT.toJ d) = .ok v :=
  RT.roundtrip std cfg laws t v hc d h

/-- **every `key_transform_with_dump` setting, canonically snake_cased names.** The one condition of `RT.ClsOK` that
speaks about key spellings (`keys`) is a theorem on the property's own name class: for a class whose fields are plain
constructor fields without aliases, named by words `[a-z][a-z0-9]+` joined with `_` (`RT.NameOK`), loaded with the default
key transform, the class is in the fragment of `C01_roundtrip_struct` under *whatever* dump transform its effective Meta
carries (CAMEL — the default —, PASCAL, LISP, SNAKE or NONE) — via the casing round trips of `DW.C08Case`. -/
theorem C01_every_dump_transform (cfg : Option MetaCfg) (ci : ClassInfo) (ftys : List (S × Ty))
    (hns : RT.NoSkip (effMeta ci.cmeta cfg)) (htag : (effMeta ci.cmeta cfg).tag = none)
    (hnames : ci.fields.map (·.name) = ftys.map (·.1)) (hnd : (ci.fields.map (·.name)).Nodup)
    (hplain : ∀ f ∈ ci.fields, f.init = true ∧ f.isCatchAll = false ∧ f.dumpSkip = false ∧ f.skipIf = none ∧
      f.loadKeys = [] ∧ f.dumpAll = false)
    (hN : ∀ f ∈ ci.fields, RT.NameOK f.name)
    (hload : (effMeta ci.cmeta cfg).keyTransformLoad.getD .snake = .snake) :
    RT.PlainCls cfg ci ftys :=
  { noSkip := hns, tag := htag, names := hnames, nodup := hnd,
    plain := fun f hf => ⟨(hplain f hf).1, (hplain f hf).2.1, (hplain f hf).2.2.1, (hplain f hf).2.2.2.1⟩,
    keys := RT.keys_of_names cfg ci (fun f hf => ⟨(hplain f hf).1, (hplain f hf).2.2.2.2.1, (hplain f hf).2.2.2.2.2⟩) hN hload
      (fun f hf k hk => by simp [htag]),
    tagFacts := fun t ht => by cases ht }

/-- **the NONE transform, any identifier.** Under `key_transform_with_dump = NONE` the key-spelling condition needs no
assumption on the spelling of the names at all: for a class whose fields are plain constructor fields without aliases
(whatever their names — `t` next to `T`, `userName` next to `user_name`, non-ASCII letters …), the dump key of a field is its
name and the loader resolves a key that *is* a field name to exactly that field, before any key transform or
case-insensitive matching is tried; the one side condition is that no field of a tagged class is named like its tag key. -/
theorem C01_none_transform_any_identifier (cfg : Option MetaCfg) (ci : ClassInfo)
    (hplain : ∀ f ∈ ci.fields, f.init = true ∧ f.loadKeys = [] ∧ f.dumpAll = false)
    (hnone : (effMeta ci.cmeta cfg).keyTransformDump = some .none)
    (htag : ∀ f ∈ ci.fields,
      ((effMeta ci.cmeta cfg).tag.isSome && f.name == RT.tagKeyOf (effMeta ci.cmeta cfg)) = false) :
    ∀ f ∈ ci.fields, dumpKey (effMeta ci.cmeta cfg) f = .ok f.name ∧
      resolveKey (effMeta ci.cmeta cfg) ci f.name = .ok (.field f.name) := by
  intro f hf
  obtain ⟨hinit, hkeys, hall⟩ := hplain f hf
  have hmem : f.name ∈ initFieldNames ci := by
    unfold initFieldNames
    exact List.mem_map.2 ⟨f, List.mem_filter.2 ⟨hf, by simp [hinit]⟩, rfl⟩
  have hc : (initFieldNames ci).contains f.name = true := by simpa using hmem
  have htk := htag f hf
  simp only [RT.tagKeyOf] at htk
  refine ⟨?_, ?_⟩
  · simp [dumpKey, hall, hnone, LetterCaseOpt.toLC, Str.LetterCase.apply]
  · unfold resolveKey
    simp only [RT.aliasTable_nil ci (fun g hg => (hplain g hg).2.1), List.reverse_nil, List.find?_nil]
    simp [htk, pure, Except.pure]
    intro h; exact absurd hmem h

/-- `user_name`, `zip_code2` and `id` … are names of that class (non-vacuity of `RT.NameOK`) -/
theorem C01_nameOK_examples : RT.NameOK "user_name".toList ∧ RT.NameOK "zip_code2".toList ∧ RT.NameOK "id".toList :=
  ⟨⟨["user".toList, "name".toList], by simp, by decide, by decide⟩,
   ⟨["zip".toList, "code2".toList], by simp, by decide, by decide⟩,
   ⟨["id".toList], by simp, by decide, by decide⟩⟩

/-- … and at the top level: `fromdict(cls, json.loads(json.dumps(asdict(x)))) == x` for every instance of a main class
of the fragment, whatever Meta it declares (its travelling config is `rootConfig ci.cmeta`). -/
theorem C01_roundtrip_root (std : Std) (laws : StdLaws std) (ci : ClassInfo) (ftys : List (S × Ty)) (v : PyVal)
    (hc : RT.Conf std (rootConfig ci.cmeta) (.cls ci ftys) v) (d : DVal) (h : asdict std {} v = .ok d) :
    fromdict std (.cls ci ftys) (RT.toJ d) = .ok v :=
  RT.roundtrip_root std laws ci ftys v hc d h

/-- the hypotheses are satisfiable by a nested, configured model: `Root(inner_obj: Inner, by_name: dict[str, Inner],
maybe: Optional[bool])` declaring `key_transform_with_dump = 'LISP'` with `Inner(val_one: int, tags: list[str] =
json_field(('TAGS', 'labels'), all=True))` — both classes are `PlainCls` below the root's config, and a concrete
instance conforms. -/
theorem C01_roundtrip_example (std : Std) :
    RT.PlainCls RT.exCfg RT.exRoot RT.exRootTys ∧ RT.PlainCls RT.exCfg RT.exInner RT.exInnerTys ∧
    RT.exCfg = rootConfig RT.exRoot.cmeta ∧
    RT.Conf std RT.exCfg (.cls RT.exInner RT.exInnerTys)
      (.inst RT.exInner ((RT.exInnerTys.map (·.1)).zip [.int 3, .seq .list [.str "a".toList, .str [] ]])) := by
  refine ⟨RT.exRoot_plain, RT.exInner_plain, rfl, RT.Conf.inst _ _ _ none RT.exInner_plain rfl ?_⟩
  intro p hp
  simp only [RT.exInnerTys, List.zip_cons_cons, List.zip_nil_right, List.mem_cons, List.not_mem_nil, or_false] at hp
  rcases hp with rfl | rfl
  · exact RT.Conf.int 3
  · refine RT.Conf.list _ _ ?_
    intro x hx
    simp only [List.mem_cons, List.not_mem_nil, or_false] at hx
    rcases hx with rfl | rfl <;> exact RT.Conf.str _

/-- the container kinds added to the fragment are inhabited: a `set[int]`, a `Literal['a', 1]`, a NamedTuple
`P(x: int, y: Optional[str] = None)` and an `OrderedDict[str, bool]` value conform. -/
theorem C01_roundtrip_example_containers (std : Std) :
    RT.Conf std none (.seq .set .int) (.seq .set [.int 1, .int 2]) ∧
    RT.Conf std none (.literal [.str "a".toList, .int 1]) (Lit.toPy (.int 1)) ∧
    RT.Conf std none (.ntuple "P".toList [("x".toList, .int, none), ("y".toList, .optional .str, some (.lit .none))])
      (.ntuple "P".toList ["x".toList, "y".toList] [.int 1, .none]) ∧
    RT.Conf std none (.map .ordereddict .str .bool) (.map .ordereddict [(.str "k".toList, .bool true)]) := by
  refine ⟨RT.Conf.set _ _ (by rfl) (by rfl) ?_, RT.Conf.literal _ (.int 1) (by rfl), ?_, ?_⟩
  · intro x hx
    simp only [List.mem_cons, List.not_mem_nil, or_false] at hx
    rcases hx with rfl | rfl <;> exact RT.Conf.int _
  · refine RT.Conf.ntuple "P".toList [("x".toList, .int, none), ("y".toList, .optional .str, some (.lit .none))] [.int 1, .none] rfl ?_
    intro p hp
    simp only [List.map_cons, List.map_nil, List.zip_cons_cons, List.zip_nil_right, List.mem_cons, List.not_mem_nil, or_false] at hp
    rcases hp with rfl | rfl
    · exact RT.Conf.int 1
    · exact RT.Conf.optNone _
  · refine RT.Conf.ordereddict .bool [("k".toList, .bool true)] (by decide) ?_
    intro p hp
    simp only [List.mem_cons, List.not_mem_nil, or_false] at hp
    subst hp
    exact RT.Conf.bool true

/-- TypedDict values of the fragment exist: for `class TD(TypedDict): a: int; b: NotRequired[str]` both `{'a': 1}` and
`{'a': 1, 'b': 'x'}` conform, and the round trip of the first one is the theorem's instance. -/
theorem C01_roundtrip_example_typeddict (std : Std) (laws : StdLaws std) :
    let td : Ty := .typeddict "TD".toList [("a".toList, .int, true), ("b".toList, .str, false)]
    RT.Conf std none td (.map .dict [(.str "a".toList, .int 1)]) ∧
    RT.Conf std none td (.map .dict [(.str "a".toList, .int 1), (.str "b".toList, .str "x".toList)]) ∧
    loadD std none td (.dict [("a".toList, .int 1)]) = .ok (.map .dict [(.str "a".toList, .int 1)]) := by
  intro td
  have h1 : RT.Conf std none td (.map .dict [(.str "a".toList, .int 1)]) := by
    refine RT.Conf.typeddict "TD".toList [("a".toList, .int, true), ("b".toList, .str, false)] [some (.int 1), none] (by decide) rfl ?_ ?_
    · intro p hp hn
      simp only [List.zip_cons_cons, List.zip_nil_right, List.mem_cons, List.not_mem_nil, or_false] at hp
      rcases hp with rfl | rfl
      · cases hn
      · rfl
    · intro p hp v hv
      simp only [List.zip_cons_cons, List.zip_nil_right, List.mem_cons, List.not_mem_nil, or_false] at hp
      rcases hp with rfl | rfl
      · cases hv; exact RT.Conf.int 1
      · cases hv
  refine ⟨h1, ?_, ?_⟩
  · refine RT.Conf.typeddict "TD".toList [("a".toList, .int, true), ("b".toList, .str, false)] [some (.int 1), some (.str "x".toList)] (by decide) rfl ?_ ?_
    · intro p hp hn
      simp only [List.zip_cons_cons, List.zip_nil_right, List.mem_cons, List.not_mem_nil, or_false] at hp
      rcases hp with rfl | rfl <;> cases hn
    · intro p hp v hv
      simp only [List.zip_cons_cons, List.zip_nil_right, List.mem_cons, List.not_mem_nil, or_false] at hp
      rcases hp with rfl | rfl
      · cases hv; exact RT.Conf.int 1
      · cases hv; exact RT.Conf.str _
  · have := C01_roundtrip_struct std laws none td _ h1 (.dict false [(.str "a".toList, .int 1)]) (by
      rw [RT.dumpV_dict]
      simp [dumpPairs, RT.dump_str, RT.dump_int, bind, Except.bind, pure, Except.pure, Except.map])
    simpa [RT.toJ, RT.toJPairs, RT.keyStr] using this

/-! a Union of tagged dataclasses: `Cat(name: str)` with `Meta.tag = 'cat'`, `Dog(name: str)` with `Meta.tag = 'dog'` -/
def exCat : ClassInfo := { name := "Cat".toList, cmeta := some { tag := some "cat".toList }, fields := [{ name := "name".toList }] }
def exDog : ClassInfo := { name := "Dog".toList, cmeta := some { tag := some "dog".toList }, fields := [{ name := "name".toList }] }
def exPetTys : List (S × Ty) := [("name".toList, .str)]

theorem exCat_ok : RT.ClsOK none exCat exPetTys (some "cat".toList) := by
  refine ⟨⟨rfl, rfl, rfl, rfl⟩, rfl, rfl, by decide, ?_, ?_, ?_⟩
  · intro f hf
    simp only [exCat, List.mem_cons, List.not_mem_nil, or_false] at hf
    subst hf; exact ⟨rfl, rfl, rfl, rfl⟩
  · intro f hf
    simp only [exCat, List.mem_cons, List.not_mem_nil, or_false] at hf
    subst hf; exact ⟨"name".toList, by rfl, by rfl⟩
  · intro t ht
    cases ht
    refine ⟨by rfl, by rfl, by decide, by rfl, ?_⟩
    intro f hf
    simp only [exCat, List.mem_cons, List.not_mem_nil, or_false] at hf
    subst hf
    intro h
    have hk : dumpKey (effMeta exCat.cmeta none) { name := "name".toList } = .ok "name".toList := by rfl
    rw [hk] at h
    exact absurd (Except.ok.inj h) (by decide)

/-- the Union / tagged-class hypotheses are satisfiable: `Cat('tom')` conforms to `Union[Cat, Dog, None]` (so the theorem
gives `load(dump(Cat('tom'))) == Cat('tom')` at that annotation), and so does `None`. -/
theorem C01_roundtrip_example_tagged_union (std : Std) :
    RT.Conf std none (.union ([] ++ .cls exCat exPetTys :: [.cls exDog exPetTys, .none]))
      (.inst exCat ((exPetTys.map (·.1)).zip [.str "tom".toList])) ∧
    RT.Conf std none (.union [.cls exCat exPetTys, .cls exDog exPetTys, .none]) .none := by
  refine ⟨RT.Conf.unionTagged [] _ exCat exPetTys [.str "tom".toList] "cat".toList exCat_ok rfl ?_ ?_ ?_,
    RT.Conf.unionNone _ (by rfl)⟩
  · intro p hp
    simp only [exPetTys, List.zip_cons_cons, List.zip_nil_right, List.mem_cons, List.not_mem_nil, or_false] at hp
    subst hp; exact RT.Conf.str _
  · intro t ht; simp at ht
  · intro t ht
    simp only [List.mem_cons, List.not_mem_nil, or_false] at ht
    rcases ht with rfl | rfl
    · exact ⟨Or.inl rfl, by decide⟩
    · exact ⟨Or.inr rfl, by decide⟩

end DW.Props.C01
