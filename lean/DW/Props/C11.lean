/-
C11 — dump omits exactly the fields selected by skip rules, exclude and dump=False.
-/
import DW.Generated.Tables
import DW.Model.Dump
import DW.Lemmas.RoundTrip
import DW.Lemmas.GenDumpSem
import DW.Lemmas.GenDumpRefine
import DW.Lemmas.GenDumpTotal

namespace DW.Props.C11
open DW

/-- the operator table of `Condition.evaluate` in the source is the documented one, and every builder maps to
its operator (tables regenerated from the source on every run) -/
theorem C11_operator_table :
    Generated.conditionEvaluate =
      [("==", "a == b"), ("!=", "a != b"), ("<", "a < b"), ("<=", "a <= b"), (">", "a > b"), (">=", "a >= b"),
       ("is", "a is b"), ("is not", "a is not b"), ("+", "True if a else False"), ("!", "not a")]
    ∧ Generated.conditionBuilders =
      [("EQ", "==", "false"), ("NE", "!=", "false"), ("LT", "<", "false"), ("LE", "<=", "false"), ("GT", ">", "false"),
       ("GE", ">=", "false"), ("IS", "is", "false"), ("IS_NOT", "is not", "false"), ("IS_TRUTHY", "+", "true"),
       ("IS_FALSY", "!", "true")] := by decide

/-- reference value of a test that may raise: what it returns when it returns -/
def defaultTestRef (eff : MetaCfg) (fi : FieldInfo) (v : PyVal) : Bool :=
  match fi.dflt with
  | none => false
  | some d => match eff.skipDefaultsIf with
    | some c => (evalCond c v).getD false
    | none => pyEqDflt v d

/-- the condition that applies to a field: its own SkipIf, or else Meta.skip_if -/
def ownCondRef (eff : MetaCfg) (fi : FieldInfo) (v : PyVal) : Bool :=
  match fi.skipIf with
  | some c => (evalCond c v).getD false
  | none => match eff.skipIf with
    | some c => (evalCond c v).getD false
    | none => false

/-- Reference selection, stated outright: a field is omitted iff it is named in `exclude`, or declared
dump=False, or (skip_defaults in force — the argument winning over Meta —, the field has a default, and its value
satisfies Meta.skip_defaults_if, or equals the default when there is no such condition), or its value satisfies its
own SkipIf condition or else Meta.skip_if. -/
def refOmitted (eff : MetaCfg) (args : DumpArgs) (fi : FieldInfo) (v : PyVal) : Bool :=
  excluded args fi || fi.dumpSkip || (skipDefaultsOn eff args && defaultTestRef eff fi v) || ownCondRef eff fi v

theorem C11_argument_wins (eff : MetaCfg) (e : Option (List S)) (b : Bool) :
    skipDefaultsOn eff { exclude := e, skipDefaults := some b } = b := rfl

theorem evalCondE_ok (c : Cond) (v : PyVal) (b : Bool) (h : evalCondE c v = .ok b) : b = (evalCond c v).getD false := by
  unfold evalCondE at h
  cases hc : evalCond c v with
  | none => simp [hc] at h
  | some r => simp [hc] at h; simp [h]

theorem defaultTest_ok (eff : MetaCfg) (fi : FieldInfo) (v : PyVal) (b : Bool)
    (h : defaultTest eff fi v = .ok b) : b = defaultTestRef eff fi v := by
  unfold defaultTest at h
  unfold defaultTestRef
  cases hd : fi.dflt with
  | none => simp [hd, pure, Except.pure] at h; simp [h]
  | some d =>
    cases hs : eff.skipDefaultsIf with
    | some c => simp [hd, hs] at h ⊢; exact evalCondE_ok c v b h
    | none => simp [hd, hs, pure, Except.pure] at h; simp [h]

theorem ownCond_ok (eff : MetaCfg) (fi : FieldInfo) (v : PyVal) (b : Bool)
    (h : ownCond eff fi v = .ok b) : b = ownCondRef eff fi v := by
  unfold ownCond at h
  unfold ownCondRef
  cases hf : fi.skipIf with
  | some c => simp [hf] at h ⊢; exact evalCondE_ok c v b h
  | none =>
    cases hm : eff.skipIf with
    | some c => simp [hf, hm] at h ⊢; exact evalCondE_ok c v b h
    | none => simp [hf, hm, pure, Except.pure] at h; simp [h]

/-- Whenever the generated bookkeeping returns (no comparison raised), it omits exactly the fields of the
reference selection. -/
theorem C11_selection (eff : MetaCfg) (args : DumpArgs) (fi : FieldInfo) (v : PyVal) (b : Bool)
    (h : fieldSkipped eff args fi v = .ok b) : b = refOmitted eff args fi v := by
  unfold fieldSkipped at h
  unfold refOmitted
  cases hex : excluded args fi with
  | true => simp [hex, pure, Except.pure] at h; simp [h]
  | false =>
    simp only [hex, Bool.false_eq_true, ↓reduceIte, Bool.false_or] at h ⊢
    cases hsd : skipDefaultsOn eff args with
    | false =>
      simp only [hsd, Bool.false_eq_true, ↓reduceIte, pure, Except.pure, bind, Except.bind, Bool.false_and, Bool.or_false] at h ⊢
      cases hds : fi.dumpSkip with
      | true => simp [hds] at h; simp [h]
      | false => simp [hds] at h ⊢; exact ownCond_ok eff fi v b h
    | true =>
      simp only [hsd, ↓reduceIte, Bool.true_and] at h ⊢
      cases hdt : defaultTest eff fi v with
      | error e => simp [hdt, bind, Except.bind] at h
      | ok bd =>
        have hbd := defaultTest_ok eff fi v bd hdt
        simp only [hdt, bind, Except.bind] at h
        cases hds : fi.dumpSkip with
        | true => simp [hds, pure, Except.pure] at h; simp [h]
        | false =>
          simp only [hds, Bool.false_eq_true, ↓reduceIte, Bool.false_or] at h ⊢
          cases bd with
          | true => simp [pure, Except.pure] at h; simp [h, ← hbd]
          | false =>
            simp at h
            rw [← hbd]
            simp
            exact ownCond_ok eff fi v b h

/-- operators select exactly the values for which the Python operator is true: e.g. EQ is `==`, NE its negation,
and the two truthiness tests are complementary for every value -/
theorem C11_eq_ne_complement (l : Lit) (v : PyVal) :
    evalCond ⟨.ne, l⟩ v = (evalCond ⟨.eq, l⟩ v).map (!·) := by simp [evalCond]

theorem C11_truthy_falsy_complement (l : Lit) (v : PyVal) :
    evalCond ⟨.falsy, l⟩ v = (evalCond ⟨.truthy, l⟩ v).map (!·) := by simp [evalCond]

/-- a NaN comparison value equals nothing and orders nothing (no NameError, no accidental match) -/
theorem C11_nan_selects_nothing (v : PyVal) :
    evalCond ⟨.eq, .float .nan⟩ v = some false := by
  cases v <;> simp [evalCond, pyEqLit, PyVal.num?, Lit.num?, NumV.cmp]
  case float f => cases f <;> simp [NumV.cmp]

/-- the `FieldInfo` the generated dumper uses for the attribute `n` -/
def fiOf (ci : ClassInfo) (n : S) : FieldInfo := (ci.fields.find? (fun f => f.name == n)).getD { name := n }

/-- the key a kept field is written under -/
def keyOf (eff : MetaCfg) (fi : FieldInfo) : S :=
  match dumpKey eff fi with
  | .ok k => k
  | .error _ => []

/-- **C11 (whole class).** For any class without a catch-all field, any effective Meta, any `exclude=` / `skip_defaults=`
arguments and any instance: whenever the dump returns, the keys of the dumped dict are exactly — and in declaration
order — the dump keys of the fields that the reference selection does *not* omit. -/
theorem C11_dump_keys_exact (std : Std) (ts : Bool) (cfg : Option MetaCfg) (eff : MetaCfg) (args : DumpArgs) (ci : ClassInfo) :
    ∀ (fs : List (S × PyVal)) (body : List (DVal × DVal)), (∀ p ∈ fs, (fiOf ci p.1).isCatchAll = false) →
      dumpFields std ts cfg eff args ci fs = .ok body →
      body.map (·.1) = (fs.filter (fun p => !refOmitted eff args (fiOf ci p.1) p.2)).map (fun p => DVal.str (keyOf eff (fiOf ci p.1)))
  | [], body, _, h => by
    simp only [dumpFields, pure, Except.pure, Except.ok.injEq] at h; subst h; rfl
  | (n, v) :: rest, body, hca, h => by
    rw [RT.dumpFields_cons_plain std ts cfg eff args ci n v rest (hca (n, v) (by simp))] at h
    simp only [bind, Except.bind] at h
    split at h
    · simp at h
    · next sk hsk =>
      have hsel := C11_selection eff args (fiOf ci n) v sk hsk
      cases sk with
      | true =>
        simp only [if_true, pure, Except.pure] at h
        split at h
        · simp at h
        · next more hmore =>
          simp only [Except.ok.injEq] at h; subst h
          have ih := C11_dump_keys_exact std ts cfg eff args ci rest more (fun p hp => hca p (by simp [hp])) hmore
          simp [List.filter, ← hsel, ih]
      | false =>
        simp only [Bool.false_eq_true, if_false, pure, Except.pure] at h
        split at h
        · simp at h
        · next k hk =>
          split at h
          · simp at h
          · next d hd =>
            split at h
            · simp at h
            · next more hmore =>
              simp only [Except.ok.injEq] at h; subst h
              have ih := C11_dump_keys_exact std ts cfg eff args ci rest more (fun p hp => hca p (by simp [hp])) hmore
              have hkey : keyOf eff (fiOf ci n) = k := by simp [keyOf, fiOf, hk]
              simp [List.filter, ← hsel, hkey, ih]

/-! ### the generated code itself

The theorems above are about the dump *model* (`dumpFields`: a hand transcription of what the generated `cls_asdict` computes).
The theorems below close that gap for the selection: they are about the **text the generator writes** — `genBody` of
`DW/Model/GenDump.lean`, which the correspondence check compares byte for byte with the library's generated source on every
run — interpreted by `DW/Model/GenDumpSem.lean`. -/

open DW.GenDump in
/-- the reference selection, as emissions: a non-catch-all field is written under its key unless `refOmitted`; the
catch-all field re-emits its items unless it is excluded, skipped as a default, or holds its default -/
def refSelection (eff : MetaCfg) (args : DumpArgs) (vals : S → PyVal) (fks : List (FieldInfo × S)) : List Emit :=
  fks.flatMap (fun q =>
    if q.1.isCatchAll then
      if isDefaultVal q.1 (vals q.1.name) || excluded args q.1 ||
          (skipDefaultsOn eff args && defaultTestRef eff q.1 (vals q.1.name)) then []
      else [.catchAll q.1.name]
    else if refOmitted eff args q.1 (vals q.1.name) then [] else [.entry q.2 q.1.name])

open DW.GenDump in
/-- **C11 (the generated code selects exactly the reference fields).**  Take any class (`fks`: its fields with their resolved
dump keys), any effective Meta, any `exclude=` / `skip_defaults=` arguments and any instance (`vals`), and let `ρ` be the call
environment (`World`: `o.<f>` holds `vals f`, the arguments as passed, the closure as `dump_func_for_dataclass` filled it).
If no comparison raises on this instance, then *running the body the generator writes for the class* yields exactly the
reference selection — every non-omitted field once, under its key, in declaration order, the catch-all items, then the tag
entry — and never hits a statement form the interpreter does not know. -/
theorem C11_generated_code_selects (p : Char → Bool) (ρ : Env) (eff : MetaCfg) (args : DumpArgs)
    (fks : List (FieldInfo × S)) (vals : S → PyVal) (W : World p eff args fks vals ρ)
    (Hd : ∀ q ∈ fks, ∃ b, defaultTest eff q.1 (vals q.1.name) = .ok b)
    (Ho : ∀ q ∈ fks, ∃ b, ownCond eff q.1 (vals q.1.name) = .ok b) :
    run ρ (genBody p (ginOf eff fks)) = .ok (refSelection eff args vals fks ++ tagEmits (ginOf eff fks)) := by
  have Hd' : ∀ q ∈ fks, defaultTest eff q.1 (vals q.1.name) = .ok (defaultTestRef eff q.1 (vals q.1.name)) := by
    intro q hq
    obtain ⟨b, hb⟩ := Hd q hq
    rw [hb, defaultTest_ok eff q.1 _ b hb]
  have Ho' : ∀ q ∈ fks, ownCond eff q.1 (vals q.1.name) = .ok (ownCondRef eff q.1 (vals q.1.name)) := by
    intro q hq
    obtain ⟨b, hb⟩ := Ho q hq
    rw [hb, ownCond_ok eff q.1 _ b hb]
  rw [run_genBody p ρ eff args fks vals W (fun fi => defaultTestRef eff fi (vals fi.name))
    (fun fi => ownCondRef eff fi (vals fi.name)) Hd' Ho']
  rw [emitsFrom_eq eff args fks _ _ vals fks 0 (by simp)]
  unfold refSelection
  congr 1
  refine congrArg (fun l => l ++ tagEmits (ginOf eff fks)) (congrArg (fun f => List.flatMap f fks) ?_)
  funext q
  unfold refFieldEmit refOmitted
  by_cases hca : q.1.isCatchAll = true
  · simp only [hca, if_true]
    cases isDefaultVal q.1 (vals q.1.name) <;> cases excluded args q.1 <;> simp
  · have hca' : q.1.isCatchAll = false := by simpa using hca
    simp only [hca', Bool.false_eq_true, if_false]
    cases q.1.dumpSkip <;> cases excluded args q.1 <;> simp

open DW.GenDump in
/-- … and the environment is not an assumption: for the call environment built from the class itself (`envOf`: the instance's
attributes, the arguments as passed, and a closure holding exactly what the generator's `_locals[...] = …` assignments store —
`_default_<i>`, `_skip_if_<i>`, `_skip_value`, `_skip_defaults_value`) the statement holds outright. -/
theorem C11_generated_code_selects_env (p : Char → Bool) (eff : MetaCfg) (args : DumpArgs)
    (fks : List (FieldInfo × S)) (vals : S → PyVal)
    (Hd : ∀ q ∈ fks, ∃ b, defaultTest eff q.1 (vals q.1.name) = .ok b)
    (Ho : ∀ q ∈ fks, ∃ b, ownCond eff q.1 (vals q.1.name) = .ok b) :
    run (envOf eff args fks vals) (genBody p (ginOf eff fks)) =
      .ok (refSelection eff args vals fks ++ tagEmits (ginOf eff fks)) :=
  C11_generated_code_selects p _ eff args fks vals (world_envOf p eff args fks vals) Hd Ho

open DW.GenDump in
/-- **The dump model is the generated code.**  The behavioural field loop `dumpFields` — the definition the round-trip (C01, C02),
wire-encoding / JSON-safety (C03), catch-all (C10) and tagged-union (C13) theorems are about — is not only a transcription: for
any class (fields found by name, resolved dump keys `k`), Meta, arguments and instance whose skip comparisons do not raise, it
returns exactly what one gets by running the body the generator writes (the text compared byte for byte with the library's
output) and applying `asdict` to the entries that run emits, in order. -/
theorem C11_dump_model_realises_generated_code (p : Char → Bool) (std : Std) (ts : Bool) (cfg : Option MetaCfg)
    (eff : MetaCfg) (args : DumpArgs) (ci : ClassInfo) (fks : List (FieldInfo × S)) (vals : S → PyVal)
    (hfind : ∀ q ∈ fks, ci.fields.find? (fun f => f.name == q.1.name) = some q.1)
    (Hd : ∀ q ∈ fks, ∃ b, defaultTest eff q.1 (vals q.1.name) = .ok b)
    (Ho : ∀ q ∈ fks, ∃ b, ownCond eff q.1 (vals q.1.name) = .ok b)
    (Hk : ∀ q ∈ fks, q.1.isCatchAll = false → q.1.dumpSkip = false → dumpKey eff q.1 = .ok q.2) :
    ∃ out, run (envOf eff args fks vals) (genBody p (ginOf eff fks)) = .ok (out ++ tagEmits (ginOf eff fks)) ∧
      dumpFields std ts cfg eff args ci (fks.map (fun q => (q.1.name, vals q.1.name))) = realise std ts cfg vals out := by
  have Hd' : ∀ q ∈ fks, defaultTest eff q.1 (vals q.1.name) = .ok (defaultTestRef eff q.1 (vals q.1.name)) := by
    intro q hq
    obtain ⟨b, hb⟩ := Hd q hq
    rw [hb, defaultTest_ok eff q.1 _ b hb]
  have Ho' : ∀ q ∈ fks, ownCond eff q.1 (vals q.1.name) = .ok (ownCondRef eff q.1 (vals q.1.name)) := by
    intro q hq
    obtain ⟨b, hb⟩ := Ho q hq
    rw [hb, ownCond_ok eff q.1 _ b hb]
  refine ⟨fks.flatMap (refEmitOf eff args (fun fi => defaultTestRef eff fi (vals fi.name))
    (fun fi => ownCondRef eff fi (vals fi.name)) vals), ?_, ?_⟩
  · rw [run_genBody p _ eff args fks vals (world_envOf p eff args fks vals)
        (fun fi => defaultTestRef eff fi (vals fi.name)) (fun fi => ownCondRef eff fi (vals fi.name)) Hd' Ho',
      emitsFrom_eq eff args fks _ _ vals fks 0 (by simp)]
    rfl
  · exact dumpFields_eq_realise std ts cfg eff args ci vals _ _ fks hfind Hd' Ho' Hk

open DW.GenDump in
/-- **C11 (the generated code, every instance).**  Without any assumption about the comparisons: for every class, Meta, call
arguments and instance, running the body the generator writes in the environment the generator sets up gives exactly the reference
run `refRun` — the skip-defaults tests of all non-excluded defaulted fields first, in field order (the call raises at the first one
that raises), then field by field the field's own `SkipIf` or else `Meta.skip_if` unless the field is already skipped (again raising
where the comparison raises), the catch-all items, and the tag entry.  In particular a comparison is evaluated exactly when Python
evaluates it (`or` / `and` short-circuit), and a comparison that raises makes `to_dict` raise rather than select or drop the field. -/
theorem C11_generated_code_total (p : Char → Bool) (eff : MetaCfg) (args : DumpArgs) (fks : List (FieldInfo × S)) (vals : S → PyVal) :
    run (envOf eff args fks vals) (genBody p (ginOf eff fks)) = refRun eff args vals fks :=
  run_genBody_total p _ eff args fks vals (world_envOf p eff args fks vals)

open DW.GenDump in
/-- … and the interpreter is complete for the generator: the body generated for any class, run on any instance with any arguments,
never reaches a statement or expression form outside `DW/Model/GenDumpSem.lean` — every failing run is a Python exception of a
comparison (`SErr.raised`). -/
theorem C11_generated_code_never_stuck (p : Char → Bool) (eff : MetaCfg) (args : DumpArgs) (fks : List (FieldInfo × S))
    (vals : S → PyVal) : run (envOf eff args fks vals) (genBody p (ginOf eff fks)) ≠ .error .stuck := by
  rw [C11_generated_code_total]
  exact refRun_not_stuck eff args vals fks

namespace Example
open DW.GenDump

/-- a concrete class: a plain field with a default, a field with its own SkipIf, a defaulted catch-all -/
def fks : List (FieldInfo × S) :=
  [({ name := "x".toList, dflt := some (.lit (.int 1)) }, "x".toList),
   ({ name := "y".toList, skipIf := some ⟨.lt, .int 3⟩ }, "y".toList),
   ({ name := "extra".toList, dflt := some (.lit .none), isCatchAll := true }, [])]

def eff : MetaCfg := { skipDefaultsIf := some ⟨.is_, .none⟩, tag := some "T".toList }

def vals : S → PyVal := fun n =>
  if n = "x".toList then .none else if n = "y".toList then .int 5 else .map .dict [(.str "u".toList, .int 1)]

def env : Env :=
  { field := fun n => some (vals n), exclude := none, skipDefaults := true,
    closure := fun n => if n = defaultName 0 then some (.dflt (.lit (.int 1)))
                        else if n = defaultName 2 then some (.dflt (.lit .none)) else none }

/-- non-vacuity: what the generated body emits for this class, instance and call (`x` is None and skipped by
`skip_defaults_if = IS(None)`, `y` = 5 is kept by its own `LT(3)`, the catch-all items and the tag follow) -/
example : (match run env (genBody (fun _ => true) (ginOf eff fks)) with
    | .ok out => decide (out = [.entry "y".toList "y".toList, .catchAll "extra".toList, .tag "__tag__".toList "T".toList])
    | .error _ => false) = true := by
  decide +kernel

/-- … and the environment meets the hypotheses of `C11_generated_code_selects` -/
example : World (fun _ => true) eff {} fks vals env where
  field := fun _ => rfl
  exclude := rfl
  skipDefaults := by decide
  dflt := by
    intro i fi k d hi hd
    match i with
    | 0 => simp [fks] at hi; obtain ⟨rfl, rfl⟩ := hi; simp at hd; subst hd; decide
    | 1 => simp [fks] at hi; obtain ⟨rfl, rfl⟩ := hi; simp at hd
    | 2 => simp [fks] at hi; obtain ⟨rfl, rfl⟩ := hi; simp at hd; subst hd; decide
    | n + 3 => simp [fks] at hi
  skipIf := by
    intro i fi k c hi hc hb
    match i with
    | 0 => simp [fks] at hi; obtain ⟨rfl, rfl⟩ := hi; simp at hc
    | 1 => simp [fks] at hi; obtain ⟨rfl, rfl⟩ := hi; simp at hc; subst hc; revert hb; decide
    | 2 => simp [fks] at hi; obtain ⟨rfl, rfl⟩ := hi; simp at hc
    | n + 3 => simp [fks] at hi
  skipValue := by intro c hc; simp [eff] at hc
  skipDefaultsValue := by
    intro c hc hb
    simp [eff] at hc; subst hc; revert hb; decide

end Example

end DW.Props.C11
