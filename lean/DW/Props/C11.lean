/-
C11 — dump omits exactly the fields selected by skip rules, exclude and dump=False.
-/
import DW.Generated.Tables
import DW.Model.Dump
import DW.Lemmas.RoundTrip

namespace DW.Props.C11
open DW

/-- the operator table of `Condition.evaluate` in the source is the documented one, and every builder maps to
its operator (tables regenerated from the source on every run) -/
theorem C11_operator_table :
    Generated.conditionEvaluate =
      [("==", "a == b"), ("!=", "a != b"), ("<", "a < b"), ("<=", "a <= b"), (">", "a > b"), (">=", "a >= b"),
       ("is", "a is b"), ("is not", "a is not b"), ("+", "True if a else False"), ("!", "not a")]
    ∧ Generated.conditionBuilders =
      [("EQ", "==", "false"), ("NE", "!=", "false"), ("LT", "<", "false"), ("LE", "<=", "false"), ("GT", ">", "false"),
       ("GE", ">=", "false"), ("IS", "is", "false"), ("IS_NOT", "is not", "false"), ("IS_TRUTHY", "+", "true"),
       ("IS_FALSY", "!", "true")] := by decide

/-- reference value of a test that may raise: what it returns when it returns -/
def defaultTestRef (eff : MetaCfg) (fi : FieldInfo) (v : PyVal) : Bool :=
  match fi.dflt with
  | none => false
  | some d => match eff.skipDefaultsIf with
    | some c => (evalCond c v).getD false
    | none => pyEqDflt v d

/-- the condition that applies to a field: its own SkipIf, or else Meta.skip_if -/
def ownCondRef (eff : MetaCfg) (fi : FieldInfo) (v : PyVal) : Bool :=
  match fi.skipIf with
  | some c => (evalCond c v).getD false
  | none => match eff.skipIf with
    | some c => (evalCond c v).getD false
    | none => false

/-- Reference selection, stated outright: a field is omitted iff it is named in `exclude`, or declared
dump=False, or (skip_defaults in force — the argument winning over Meta —, the field has a default, and its value
satisfies Meta.skip_defaults_if, or equals the default when there is no such condition), or its value satisfies its
own SkipIf condition or else Meta.skip_if. -/
def refOmitted (eff : MetaCfg) (args : DumpArgs) (fi : FieldInfo) (v : PyVal) : Bool :=
  excluded args fi || fi.dumpSkip || (skipDefaultsOn eff args && defaultTestRef eff fi v) || ownCondRef eff fi v

theorem C11_argument_wins (eff : MetaCfg) (e : Option (List S)) (b : Bool) :
    skipDefaultsOn eff { exclude := e, skipDefaults := some b } = b := rfl

theorem evalCondE_ok (c : Cond) (v : PyVal) (b : Bool) (h : evalCondE c v = .ok b) : b = (evalCond c v).getD false := by
  unfold evalCondE at h
  cases hc : evalCond c v with
  | none => simp [hc] at h
  | some r => simp [hc] at h; simp [h]

theorem defaultTest_ok (eff : MetaCfg) (fi : FieldInfo) (v : PyVal) (b : Bool)
    (h : defaultTest eff fi v = .ok b) : b = defaultTestRef eff fi v := by
  unfold defaultTest at h
  unfold defaultTestRef
  cases hd : fi.dflt with
  | none => simp [hd, pure, Except.pure] at h; simp [h]
  | some d =>
    cases hs : eff.skipDefaultsIf with
    | some c => simp [hd, hs] at h ⊢; exact evalCondE_ok c v b h
    | none => simp [hd, hs, pure, Except.pure] at h; simp [h]

theorem ownCond_ok (eff : MetaCfg) (fi : FieldInfo) (v : PyVal) (b : Bool)
    (h : ownCond eff fi v = .ok b) : b = ownCondRef eff fi v := by
  unfold ownCond at h
  unfold ownCondRef
  cases hf : fi.skipIf with
  | some c => simp [hf] at h ⊢; exact evalCondE_ok c v b h
  | none =>
    cases hm : eff.skipIf with
    | some c => simp [hf, hm] at h ⊢; exact evalCondE_ok c v b h
    | none => simp [hf, hm, pure, Except.pure] at h; simp [h]

/-- Whenever the generated bookkeeping returns (no comparison raised), it omits exactly the fields of the
reference selection. -/
theorem C11_selection (eff : MetaCfg) (args : DumpArgs) (fi : FieldInfo) (v : PyVal) (b : Bool)
    (h : fieldSkipped eff args fi v = .ok b) : b = refOmitted eff args fi v := by
  unfold fieldSkipped at h
  unfold refOmitted
  cases hex : excluded args fi with
  | true => simp [hex, pure, Except.pure] at h; simp [h]
  | false =>
    simp only [hex, Bool.false_eq_true, ↓reduceIte, Bool.false_or] at h ⊢
    cases hsd : skipDefaultsOn eff args with
    | false =>
      simp only [hsd, Bool.false_eq_true, ↓reduceIte, pure, Except.pure, bind, Except.bind, Bool.false_and, Bool.or_false] at h ⊢
      cases hds : fi.dumpSkip with
      | true => simp [hds] at h; simp [h]
      | false => simp [hds] at h ⊢; exact ownCond_ok eff fi v b h
    | true =>
      simp only [hsd, ↓reduceIte, Bool.true_and] at h ⊢
      cases hdt : defaultTest eff fi v with
      | error e => simp [hdt, bind, Except.bind] at h
      | ok bd =>
        have hbd := defaultTest_ok eff fi v bd hdt
        simp only [hdt, bind, Except.bind] at h
        cases hds : fi.dumpSkip with
        | true => simp [hds, pure, Except.pure] at h; simp [h]
        | false =>
          simp only [hds, Bool.false_eq_true, ↓reduceIte, Bool.false_or] at h ⊢
          cases bd with
          | true => simp [pure, Except.pure] at h; simp [h, ← hbd]
          | false =>
            simp at h
            rw [← hbd]
            simp
            exact ownCond_ok eff fi v b h

/-- operators select exactly the values for which the Python operator is true: e.g. EQ is `==`, NE its negation,
and the two truthiness tests are complementary for every value -/
theorem C11_eq_ne_complement (l : Lit) (v : PyVal) :
    evalCond ⟨.ne, l⟩ v = (evalCond ⟨.eq, l⟩ v).map (!·) := by simp [evalCond]

theorem C11_truthy_falsy_complement (l : Lit) (v : PyVal) :
    evalCond ⟨.falsy, l⟩ v = (evalCond ⟨.truthy, l⟩ v).map (!·) := by simp [evalCond]

/-- a NaN comparison value equals nothing and orders nothing (no NameError, no accidental match) -/
theorem C11_nan_selects_nothing (v : PyVal) :
    evalCond ⟨.eq, .float .nan⟩ v = some false := by
  cases v <;> simp [evalCond, pyEqLit, PyVal.num?, Lit.num?, NumV.cmp]
  case float f => cases f <;> simp [NumV.cmp]

/-- the `FieldInfo` the generated dumper uses for the attribute `n` -/
def fiOf (ci : ClassInfo) (n : S) : FieldInfo := (ci.fields.find? (fun f => f.name == n)).getD { name := n }

/-- the key a kept field is written under -/
def keyOf (eff : MetaCfg) (fi : FieldInfo) : S :=
  match dumpKey eff fi with
  | .ok k => k
  | .error _ => []

/-- **C11 (whole class).** For any class without a catch-all field, any effective Meta, any `exclude=` / `skip_defaults=`
arguments and any instance: whenever the dump returns, the keys of the dumped dict are exactly — and in declaration
order — the dump keys of the fields that the reference selection does *not* omit. -/
theorem C11_dump_keys_exact (std : Std) (ts : Bool) (cfg : Option MetaCfg) (eff : MetaCfg) (args : DumpArgs) (ci : ClassInfo) :
    ∀ (fs : List (S × PyVal)) (body : List (DVal × DVal)), (∀ p ∈ fs, (fiOf ci p.1).isCatchAll = false) →
      dumpFields std ts cfg eff args ci fs = .ok body →
      body.map (·.1) = (fs.filter (fun p => !refOmitted eff args (fiOf ci p.1) p.2)).map (fun p => DVal.str (keyOf eff (fiOf ci p.1)))
  | [], body, _, h => by
    simp only [dumpFields, pure, Except.pure, Except.ok.injEq] at h; subst h; rfl
  | (n, v) :: rest, body, hca, h => by
    rw [RT.dumpFields_cons_plain std ts cfg eff args ci n v rest (hca (n, v) (by simp))] at h
    simp only [bind, Except.bind] at h
    split at h
    · simp at h
    · next sk hsk =>
      have hsel := C11_selection eff args (fiOf ci n) v sk hsk
      cases sk with
      | true =>
        simp only [if_true, pure, Except.pure] at h
        split at h
        · simp at h
        · next more hmore =>
          simp only [Except.ok.injEq] at h; subst h
          have ih := C11_dump_keys_exact std ts cfg eff args ci rest more (fun p hp => hca p (by simp [hp])) hmore
          simp [List.filter, ← hsel, ih]
      | false =>
        simp only [Bool.false_eq_true, if_false, pure, Except.pure] at h
        split at h
        · simp at h
        · next k hk =>
          split at h
          · simp at h
          · next d hd =>
            split at h
            · simp at h
            · next more hmore =>
              simp only [Except.ok.injEq] at h; subst h
              have ih := C11_dump_keys_exact std ts cfg eff args ci rest more (fun p hp => hca p (by simp [hp])) hmore
              have hkey : keyOf eff (fiOf ci n) = k := by simp [keyOf, fiOf, hk]
              simp [List.filter, ← hsel, hkey, ih]

end DW.Props.C11
