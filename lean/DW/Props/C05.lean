/-
C05 — load returns a conforming instance or raises; it never mutates its input.
-/
import DW.Generated.Tables
import DW.Model.Load
import DW.Lemmas.SoundScalar
import DW.Lemmas.Sound
import DW.Lemmas.SoundV1
import DW.Lemmas.RoundTrip

namespace DW.Props.C05
open DW

/-- No default-engine load hook, converter or path getter writes through a parameter
(effect summaries extracted from the source with `ast` on every run). -/
theorem C05_no_input_writes :
    (∀ row ∈ Generated.loadHookEffects, row.2.2 = "") ∧ (∀ row ∈ Generated.convEffects, row.2.2 = "") := by
  constructor <;> decide

/-- … and none of the functions the library *generates* (the per-class `cls_fromdict` / v1 `__dataclass_wizard_from_dict_…` /
`cls_asdict` / EnvWizard functions captured from the battery `harness/battery15.py` on every run) contains a statement that
writes through one of its parameters — no item / attribute assignment or deletion rooted in the document it was given, no
call of a mutating container method on it or on a part of it (AST analysis `harness/gencap.py: param_writes`; the EnvWizard
constructor filling in `self` excluded). The table is regenerated from the generated code on every run. -/
theorem C05_generated_no_input_writes :
    Generated.genParamWrites = [] ∧ 0 < Generated.genFunctionCount := by
  constructor <;> decide

/-- Soundness at scalar annotations, for *every* JSON input (nan, inf, huge, junk, containers):
whatever the default engine returns for `int`, `float`, `str`, `bool`, Decimal/Path/UUID/date/time/datetime,
`timedelta`, an Enum or a `Literal` is a value of that exact type. -/
theorem C05_sound_scalar (std : Std) (cfg : Option MetaCfg) (t : Ty) (ht : isScalarTy t = true) (o : JVal) (y : PyVal)
    (h : loadD std cfg t o = .ok y) : conformsScalar t y = true :=
  sound_scalar std cfg t ht o y h

/-- **C05 (soundness, composite types).** For every type built from the scalar kinds, `Any`, `Optional`, list / set /
frozenset / deque, variadic tuples, fixed-length tuples none of whose members accepts `None` (then the element count is
exact), dict-like types, TypedDict and NamedTuple classes (pairwise distinct field names), `Union`s (of any members of the
fragment, tagged dataclasses and `None`) and dataclasses, nested to any depth (`Frag`), for **every** JSON input and any travelling config: whatever the default engine
returns is an instance of the annotation (`Sound`) — containers of the exact kind whose elements / keys / values are
sound; tuples of exactly the declared length, position by position; TypedDict results holding only declared keys with
sound values and every required key; NamedTuple results of exactly the declared length, each element a sound loaded value
or the field's declared default (from a dict of keyword values or from a sequence); a Union result sound for one of the declared members (or `None` when `None` is
declared); dataclass instances with exactly the declared fields in order, each holding a sound loaded value, the captured
catch-all dictionary, or the field's declared default / `__post_init__` value. By induction over the type; the
dataclass case goes through the key loop (`loadKeysWith_sound`), junk inputs (`loadJunkKeys_sound`) and the constructor
step (`buildFields_origin`); the Union case shows that whatever either phase of the Union parser returns was produced by
the loader of one declared member (`loadUnionTry_origin`, `loadTagged_origin`).
Outside the fragment: fixed-length tuples with `None`-accepting members (recorded finding `short-tuple-with-optional`), the
`None` annotation outside a Union (recorded finding). -/
theorem C05_sound (std : Std) (cfg : Option MetaCfg) (t : Ty) (hf : Frag t) (o : JVal) (y : PyVal)
    (h : loadD std cfg t o = .ok y) : Sound conformsScalar t y :=
  sound std cfg t hf o y h

/-- … and at the entry point: whatever `fromdict(cls, o)` returns for a main class of the fragment, on any JSON input, is a
sound instance of that class (the main class's own Meta is its travelling config). -/
theorem C05_fromdict_sound (std : Std) (ci : ClassInfo) (ftys : List (S × Ty)) (hf : Frag (.cls ci ftys)) (o : JVal) (y : PyVal)
    (h : fromdict std (.cls ci ftys) o = .ok y) : Sound conformsScalar (.cls ci ftys) y := by
  apply sound std (rootConfig ci.cmeta) (.cls ci ftys) hf o y
  rw [loadD, RT.effMeta_root]
  simp only [fromdict] at h
  split at h
  · simp at h
  · exact h

/-- **C05 (soundness, v1 engine).** The same statement for the v1 loader: for every type built from the scalar kinds (incl.
`bytes` / `bytearray`; `Literal` members by `==` *and* type — since repair af98f53), `Any`, `Optional`, list / set /
frozenset / deque, variadic and fixed-length tuples (always exactly the declared length: the generated code indexes
`v1[0] … v1[n-1]`), dict-like types, TypedDict classes, NamedTuple classes (defaulted fields last, as Python demands:
`trailingDefaults`), `Union`s (tag dispatch, the exact-type fast path, try-parse of the
other members, coercion pass) and dataclasses, nested to any depth (`FragV1`), for **every** JSON input and any travelling
config: whatever `loadV1` returns is an instance of the annotation (`Sound conformsScalarV1`). The Union case shows that
each of the four ways the generated Union helper can return produces the result of one declared member's loader, or the
input itself when it already has exactly a simple member's type (`v1Tagged_origin`, `v1UnionExact_origin`,
`v1UnionCoerce_origin`, `exactKind_conf`); the dataclass case goes through the generated field loop (`v1Fields_sound`),
the catch-all argument and `cls(**kw)` (`finishKw_sound`); the NamedTuple case through the positional field expressions
(`v1NtSeq_spec`: taken from the sequence up to its length, then only defaults remain). -/
theorem C05_v1_sound (std : Std) (cfg : Option MetaCfg) (t : Ty) (hf : FragV1 t) (o : JVal) (y : PyVal)
    (h : loadV1 std cfg t o = .ok y) : Sound conformsScalarV1 t y :=
  soundV1 std cfg t hf o y h

/-- … and at the entry point `fromdict(cls, o)` of a main class bound to the v1 engine. -/
theorem C05_v1_fromdict_sound (std : Std) (ci : ClassInfo) (ftys : List (S × Ty)) (hf : FragV1 (.cls ci ftys)) (o : JVal) (y : PyVal)
    (h : fromdictV1 std (.cls ci ftys) o = .ok y) : Sound conformsScalarV1 (.cls ci ftys) y := by
  cases hf with
  | scalar _ ht => simp [isScalarTyV1, isScalarTy] at ht
  | cls _ _ hall =>
    simp only [fromdictV1] at h
    exact v1Class_sound _ _ ci ftys
      (fun f v z hz => v1Field_sound std _ f v z ftys (fun p hp o' z' hz' => soundV1 std _ p.2 (hall p hp) o' z' hz') hz) o y h

/-- the scalar part alone, for every JSON input -/
theorem C05_v1_sound_scalar (std : Std) (cfg : Option MetaCfg) (t : Ty) (ht : isScalarTyV1 t = true) (o : JVal) (y : PyVal)
    (h : loadV1 std cfg t o = .ok y) : conformsScalarV1 t y = true :=
  sound_scalar_v1 std cfg t ht o y h

/-- The v1 `Literal` test is on the *pair* (value, type): whatever `v1Literal` returns is the input itself, and ONE member is
both `==` to it and of its type.  Value and type are not tested independently of each other: for a member list that mixes
types (`Literal[True, 0]`, `Literal[1, 2, 0.5]`) an input that is `==` to one member and carries the type of another one
(`False`, `1`; `1.0`) has no such member and is rejected - see the witnesses below. -/
theorem C05_v1_literal_member_by_value_and_type (vs : List Lit) (o : JVal) (y : PyVal) (h : v1Literal vs o = .ok y) :
    y = o.toPy ∧ ∃ l ∈ vs, jEqLit o l = true ∧ jSameType o l = true := by
  unfold v1Literal at h
  split at h
  · simp [perr] at h
  · split at h
    · rename_i hany
      simp only [pure, Except.pure, Except.ok.injEq] at h
      refine ⟨h.symm, ?_⟩
      obtain ⟨l, hl, hp⟩ := List.any_eq_true.mp hany
      exact ⟨l, hl, by simpa using hp⟩
    · simp [perr] at h

/-- … conversely an input no member matches as a pair is rejected, whatever single members it is `==` to or shares the type of -/
theorem C05_v1_literal_rejects (vs : List Lit) (o : JVal) (h : ∀ l ∈ vs, (jEqLit o l && jSameType o l) = false) :
    v1Literal vs o = perr := by
  unfold v1Literal
  split
  · rfl
  · have : vs.any (fun l => jEqLit o l && jSameType o l) = false := by
      rw [List.any_eq_false]
      intro l hl
      simp [h l hl]
    simp [this]

/-- witnesses on mixed member lists: `Literal[True, 0]` rejects `False` (== 0, the type of True) and `1` (== True, the type
of 0) and returns its members `0` and `True` -/
theorem C05_v1_literal_mixed_witness :
    v1Literal [.bool true, .int 0] (.bool false) = perr ∧ v1Literal [.bool true, .int 0] (.int 1) = perr ∧
    v1Literal [.bool true, .int 0] (.int 0) = .ok (.int 0) ∧ v1Literal [.bool true, .int 0] (.bool true) = .ok (.bool true) := by
  refine ⟨?_, ?_, ?_, ?_⟩ <;> rfl

/-- non-vacuity of `FragV1`: a v1 model with `bytes`, a fixed tuple nested in a fixed tuple, a `Literal`, and a Union of a
simple type, a container, a tagged dataclass and `None` is in the fragment -/
theorem C05_v1_sound_example :
    FragV1 (.cls { name := "R".toList, cmeta := some { v1 := some true }, fields := [{ name := "b".toList }, { name := "t".toList }, { name := "u".toList }] }
      [("b".toList, .bytes), ("t".toList, .tuple [.int, .tuple [.literal [.int 1, .str "a".toList], .bool]]),
       ("u".toList, .union [.int, .seq .list .str, .cls { name := "T".toList, cmeta := some { tag := some "t".toList }, fields := [{ name := "a".toList }] } [("a".toList, .leaf .date)], .none])]) := by
  refine FragV1.cls _ _ ?_
  intro p hp
  simp only [List.mem_cons, List.not_mem_nil, or_false] at hp
  rcases hp with rfl | rfl | rfl
  · exact FragV1.scalar _ rfl
  · refine FragV1.tuple _ (by simp) ?_
    intro t ht
    simp only [List.mem_cons, List.not_mem_nil, or_false] at ht
    rcases ht with rfl | rfl
    · exact FragV1.scalar _ rfl
    · refine FragV1.tuple _ (by simp) ?_
      intro t ht
      simp only [List.mem_cons, List.not_mem_nil, or_false] at ht
      rcases ht with rfl | rfl <;> exact FragV1.scalar _ rfl
  · refine FragV1.union _ ?_
    intro t ht hn
    simp only [List.mem_cons, List.not_mem_nil, or_false] at ht
    rcases ht with rfl | rfl | rfl | rfl
    · exact FragV1.scalar _ rfl
    · exact FragV1.seq _ _ (FragV1.scalar _ rfl)
    · refine FragV1.cls _ _ ?_
      intro q hq
      simp only [List.mem_cons, List.not_mem_nil, or_false] at hq
      subst hq; exact FragV1.scalar _ rfl
    · simp [isNoneArg] at hn

/-- non-vacuity: a nested model is in the fragment -/
theorem C05_sound_example :
    Frag (.cls { name := "R".toList, fields := [{ name := "xs".toList }, { name := "m".toList }] }
      [("xs".toList, .seq .set (.optional .int)), ("m".toList, .map .defaultdict .str (.cls { name := "I".toList, fields := [{ name := "d".toList }] } [("d".toList, .leaf .datetime)]))]) := by
  refine Frag.cls _ _ ?_
  intro p hp
  simp only [List.mem_cons, List.not_mem_nil, or_false] at hp
  rcases hp with rfl | rfl
  · exact Frag.seq _ _ (Frag.optional _ (Frag.scalar _ rfl))
  · refine Frag.map _ _ _ (Frag.scalar _ rfl) (Frag.cls _ _ ?_)
    intro q hq
    simp only [List.mem_cons, List.not_mem_nil, or_false] at hq
    subst hq
    exact Frag.scalar _ rfl

/-- non-vacuity of the Union / tuple / TypedDict / NamedTuple cases: `Union[int, list[str], Tagged, None]`, `tuple[int, str]`, a
TypedDict with a required and an optional key and the NamedTuple `P(x: int, y: Optional[str] = None)` (both engines) are in the
fragments -/
theorem C05_sound_example_union :
    Frag (.union [.int, .seq .list .str, .cls { name := "T".toList, cmeta := some { tag := some "t".toList }, fields := [{ name := "a".toList }] } [("a".toList, .tuple [.int, .str])], .none]) ∧
    Frag (.typeddict "TD".toList [("k".toList, .int, true), ("opt".toList, .optional .str, false)]) ∧
    Frag (.ntuple "P".toList [("x".toList, .int, none), ("y".toList, .optional .str, some (.lit .none))]) ∧
    FragV1 (.ntuple "P".toList [("x".toList, .int, none), ("y".toList, .optional .str, some (.lit .none))]) := by
  refine ⟨?_, ?_, ?_, ?_⟩
  · refine Frag.union _ ?_
    intro t ht hn
    simp only [List.mem_cons, List.not_mem_nil, or_false] at ht
    rcases ht with rfl | rfl | rfl | rfl
    · exact Frag.scalar _ rfl
    · exact Frag.seq _ _ (Frag.scalar _ rfl)
    · refine Frag.cls _ _ ?_
      intro p hp
      simp only [List.mem_cons, List.not_mem_nil, or_false] at hp
      subst hp
      refine Frag.tuple _ (by simp) ?_ ?_
      · intro t ht
        simp only [List.mem_cons, List.not_mem_nil, or_false] at ht
        rcases ht with rfl | rfl <;> rfl
      · intro t ht
        simp only [List.mem_cons, List.not_mem_nil, or_false] at ht
        rcases ht with rfl | rfl <;> exact Frag.scalar _ rfl
    · simp [isNoneArg] at hn
  · refine Frag.typeddict _ _ (by decide) ?_
    intro f hf
    simp only [List.mem_cons, List.not_mem_nil, or_false] at hf
    rcases hf with rfl | rfl
    · exact Frag.scalar _ rfl
    · exact Frag.optional _ (Frag.scalar _ rfl)
  · refine Frag.ntuple _ _ (by decide) ?_
    intro f hf
    simp only [List.mem_cons, List.not_mem_nil, or_false] at hf
    rcases hf with rfl | rfl
    · exact Frag.scalar _ rfl
    · exact Frag.optional _ (Frag.scalar _ rfl)
  · refine FragV1.ntuple _ _ (by rfl) ?_
    intro f hf
    simp only [List.mem_cons, List.not_mem_nil, or_false] at hf
    rcases hf with rfl | rfl
    · exact FragV1.scalar _ rfl
    · exact FragV1.optional _ (FragV1.scalar _ rfl)

/-- After the repair (fix: 461d34c) a Union without `None` rejects `null` instead of passing it through. -/
theorem C05_union_rejects_none (std : Std) (cfg : Option MetaCfg) :
    loadD std cfg (.union [.int, .str]) .null = .error (.parse none none) := by
  have h1 : (JKind.null == JKind.int) = false := by decide
  have h2 : (JKind.null == JKind.str) = false := by decide
  simp [loadD, loadUnionTry, parserContains, JVal.kind, parseE, h1, h2]

theorem C05_union_accepts_declared_none (std : Std) (cfg : Option MetaCfg) :
    loadD std cfg (.union [.int, .none, .str]) .null = .ok .none := by
  simp [loadD, JVal.kind, pure, Except.pure]

/-- KNOWN FINDING (witness): a position annotated `None` is loaded by the identity parser. -/
theorem C05_none_annotation_witness (std : Std) : loadD std none .none (.int 5) = .ok (.int 5) := by
  simp [loadD, JVal.toPy, pure, Except.pure]

/-- KNOWN FINDING (witness): `tuple[int, Optional[str]]` accepts `[1]` and returns the 1-tuple `(1,)`. -/
theorem C05_short_tuple_witness (std : Std) :
    loadD std none (.tuple [.int, .optional .str]) (.list [.int 1]) = .ok (.tuple [.int 1]) := by
  simp [loadD, jLen, jIter, acceptsNone, parserContains, JVal.kind, loadZip, asInt, pure, Except.pure, bind, Except.bind]

end DW.Props.C05
