/-
C19 — `wiz gen-schema` output imports and loads its source JSON, or fails cleanly.

Theorems about the model of `DW/Model/C19.lean` (`gsInfer`, `gsRun`/`gsModule`) and the command-line state
machine of `DW/Model/C19Spec.lean` (`cliRun`).  Full-strength statements are proved for the inference with
identity comparison in `TypeContainer.append` (`dedupByEq = false`); the unchanged code compares generator
objects structurally (all `TypeContainer`s are `==`), for which `_witness` theorems exhibit the violation and
`_partial` theorems hold under an explicit hypothesis.  "Valid Python that imports" itself is a runtime fact
(checked by the harness on every case); here it is carried by `C19_well_scoped`.
-/
import DW.Lemmas.C19
import DW.Lemmas.C19Scope

namespace DW.Props.C19
open DW DW.Str DW.Gs

/-! ### every key has a field; a null makes it Optional; scalars find their types -/

/-- The schema inferred from a document accommodates that document (`Schema.Covers`): for every object at every
path, the class the schema has for that path declares a field named `toSnake key` for each of its keys; the
field's alternatives contain a class / list generator that accommodates the value in turn (recursively, through
lists of objects merged into one class at any depth), are Optional when the value is null, and contain the
inferred types of a scalar value. Inference with identity comparison in `append`. -/
theorem C19_covers_source (std : GsStd) (fl : Flags) (hd : fl.dedupByEq = false) (doc : JVal) (s : Schema)
    (h : gsInfer std fl doc = some s) : s.Covers std fl.forceStrings doc := by
  cases doc with
  | dict kvs =>
    simp only [gsInfer, Option.some.injEq] at h
    subst h
    exact (inferFields_covers std fl hd kvs 0 []).2
  | list xs =>
    simp only [gsInfer, Option.some.injEq] at h
    subst h
    exact (inferElems_covers std fl hd xs _ true 0 ([], false)).2
  | null => simp [gsInfer] at h
  | bool b => simp [gsInfer] at h
  | int i => simp [gsInfer] at h
  | float f => simp [gsInfer] at h
  | str x => simp [gsInfer] at h

/-- one level of `CoversObj`, spelled out: each key `k` of the object has the field `toSnake k`, whose container
accommodates the key's value -/
theorem C19_every_key_has_field (std : GsStd) (force : Bool) (fs : Fields) :
    ∀ (kvs : List (S × JVal)), CoversObj std force fs kvs →
      ∀ k v, (k, v) ∈ kvs → ∃ tc, fieldsLookup (toSnake k) fs = some tc ∧ CoversV std force tc v
  | [], _, _, _, hm => by simp at hm
  | (k0, v0) :: r, hc, k, v, hm => by
    simp only [CoversObj] at hc
    rcases List.mem_cons.mp hm with h | h
    · cases h; exact hc.1
    · exact C19_every_key_has_field std force fs r hc.2 k v h

/-- ... and the next level: a value that is an object has a class among the alternatives that accommodates it; a
value that is a list has a list generator whose model class accommodates every object element. Iterating the two
theorems descends every path of the document. -/
theorem C19_every_path (std : GsStd) (force : Bool) (tc : TC) :
    (∀ kvs, CoversV std force tc (.dict kvs) → ∃ d, Elem.cls d ∈ tc.1 ∧ CoversObj std force d.fields kvs) ∧
    (∀ xs, CoversV std force tc (.list xs) → ∃ l, Elem.lst l ∈ tc.1 ∧
        ∀ kvs, JVal.dict kvs ∈ xs → ∃ m, l.model = some m ∧ CoversObj std force m.fields kvs) := by
  refine ⟨fun kvs h => by simpa only [CoversV] using h, fun xs h => ?_⟩
  simp only [CoversV] at h
  obtain ⟨l, hl, hc⟩ := h
  refine ⟨l, hl, ?_⟩
  have aux : ∀ (ys : List JVal), CoversElems std force l.elems ys → ∀ kvs, JVal.dict kvs ∈ ys →
      ∃ m, firstCls l.elems = some m ∧ CoversObj std force m.fields kvs := by
    intro ys
    induction ys with
    | nil => intro _ kvs hm; simp at hm
    | cons y r ih =>
      intro hc kvs hm
      simp only [CoversElems] at hc
      rcases List.mem_cons.mp hm with h | h
      · subst h; simpa only [CoversElem] using hc.1
      · exact ih hc.2 kvs h
  exact aux xs hc

/-- Root-level corollary in plain terms: the root class of an object document declares a field for every key. -/
theorem C19_root_fields (std : GsStd) (fl : Flags) (hd : fl.dedupByEq = false) (kvs : List (S × JVal)) (k : S) (v : JVal)
    (hk : (k, v) ∈ kvs) : ∃ d, gsInfer std fl (.dict kvs) = some (.obj d) ∧ (fieldsLookup (toSnake k) d.fields).isSome := by
  refine ⟨_, rfl, ?_⟩
  obtain ⟨tc, hl, _⟩ := C19_every_key_has_field std fl.forceStrings _ kvs (inferFields_covers std fl hd kvs 0 []).2 k v hk
  simp [DGen.fields, hl]

/-- A key that is null in some element of a list of objects is Optional in the merged class, at any nesting depth:
stated for the list generator of any list (the document root, a field, a list inside merged siblings — `Covers`
reaches all of them). -/
theorem C19_optional_merge (std : GsStd) (fl : Flags) (hd : fl.dedupByEq = false) (xs : List JVal) (name : S) (isRoot : Bool)
    (lvl : Nat) (kvs : List (S × JVal)) (k : S) (hx : JVal.dict kvs ∈ xs) (hk : (k, JVal.null) ∈ kvs) :
    ∃ m tc, firstCls (inferElems std fl name isRoot lvl xs ([], false)).1 = some m ∧
      fieldsLookup (toSnake k) m.fields = some tc ∧ tc.2 = true := by
  have hc := (inferElems_covers std fl hd xs name isRoot lvl ([], false)).2
  have aux : ∀ (es : List Elem) (ys : List JVal), CoversElems std fl.forceStrings es ys → JVal.dict kvs ∈ ys →
      ∃ m, firstCls es = some m ∧ CoversObj std fl.forceStrings m.fields kvs := by
    intro es ys
    induction ys with
    | nil => intro _ hm; simp at hm
    | cons y r ih =>
      intro hc hm
      simp only [CoversElems] at hc
      rcases List.mem_cons.mp hm with h | h
      · subst h; simpa only [CoversElem] using hc.1
      · exact ih hc.2 h
  obtain ⟨m, hm, hobj⟩ := aux _ xs hc hx
  obtain ⟨tc, hl, hv⟩ := C19_every_key_has_field std fl.forceStrings _ kvs hobj k .null hk
  exact ⟨m, tc, hm, hl, by simpa only [CoversV] using hv⟩

/-- The unchanged code (`dedupByEq = true`): whenever the structural comparison did not change the outcome, the
schema accommodates the document. -/
theorem C19_every_key_has_field_partial (std : GsStd) (fl : Flags) (doc : JVal) (s : Schema)
    (hsame : gsInfer std { fl with dedupByEq := true } doc = gsInfer std { fl with dedupByEq := false } doc)
    (h : gsInfer std { fl with dedupByEq := true } doc = some s) : s.Covers std fl.forceStrings doc := by
  rw [hsame] at h
  exact C19_covers_source std { fl with dedupByEq := false } rfl doc s h

/-! ### determinism: no hidden state -/

/-- A generation does not depend on the state earlier generations left behind (import registry, `Globals`,
selected `__str__`): the new state and the module are the same from any two earlier states. -/
theorem C19_deterministic (std : GsStd) (st st' : GsSt) (fl : Flags) (doc : JVal) :
    gsRun std st fl doc = gsRun std st' fl doc := rfl

/-- ... in particular generating document `b` after an unrelated document `a` (under any flags) gives what a
fresh process gives. -/
theorem C19_independent_of_earlier_runs (std : GsStd) (fl fl' : Flags) (a b : JVal) :
    (gsRun std (gsRun std GsSt.init fl' a).1 fl b).2 = gsModule std fl b := rfl

/-- Merging the classes of two sibling objects is commutative where the code is: the merged class declares the
same set of field names whichever sibling came first (field order and the order of Union members do follow the
document). -/
theorem C19_merge_fields_commute (dedup : Bool) (a b : DGen) (k : S) :
    (fieldsLookup k (mergeD dedup a b).fields).isSome = (fieldsLookup k (mergeD dedup b a).fields).isSome := by
  cases a with
  | mk an ar afs =>
    cases b with
    | mk bn br bfs =>
      simp only [mergeD, DGen.fields, mergeFields_keys]
      exact Bool.or_comm _ _

/-! ### names -/

/-- Every name the generated module uses is bound: in every annotation the plain names are builtins or imported
by one of the module's import lines (the typing names registered while rendering, the date/time types registered
while the document was read), every class reference is a class the module defines, `dataclass` is imported and
`JSONWizard` is imported whenever a class is marked as the JSON root. -/
theorem C19_well_scoped (std : GsStd) (fl : Flags) (doc : JVal) (m : ModuleAst) (h : gsModule std fl doc = some m) :
    WellScoped m := by
  unfold gsModule gsRun at h
  simp only at h
  cases hs : gsInfer std { experimental := fl.experimental, forceStrings := fl.forceStrings, dedupByEq := fl.dedupByEq } doc with
  | none => simp [hs] at h
  | some s =>
    simp only [hs, Option.some.injEq] at h
    subst h
    have hp : PrimsD _ s.rootD := gsInfer_prims
      (([] ++ (if fl.experimental = true then [Imp.future] else []) ++ [Imp.dataclass]) ++
        docImps std fl.forceStrings doc ++ (classesD fl.experimental s.rootD).2) std _ doc s
      (fun i hi => by simp only [List.mem_append]; exact Or.inl (Or.inr hi)) hs
    have hok := classesD_ok _ ((classesD fl.experimental s.rootD).1.map (·.name)) fl.experimental s.rootD hp
      (fun c hc => List.mem_map.mpr ⟨c, hc, rfl⟩)
      (fun i hi => by simp only [List.mem_append]; exact Or.inr hi)
    refine ⟨?_, ?_, ?_⟩
    · intro c hc f hf
      have := (hok c hc).1 f hf
      refine ⟨fun n hn => ?_, fun n hn => this.2 n hn⟩
      rcases this.1 n hn with hb | ⟨i, hi, hpn⟩
      · exact Or.inl hb
      · exact Or.inr (by rw [← hpn]; exact importLines_mem _ i hi)
    · exact importLines_mem _ Imp.dataclass (by simp)
    · intro c hc hr
      exact importLines_mem _ Imp.jsonWizard ((hok c hc).2 hr)

/-- Under the decidable `NamesOK` (identifiers everywhere, class names pairwise distinct and distinct from what
the module imports or uses as builtins) every class name resolves, in the finished module, to the very class that
was emitted for it, and no class shadows an imported or builtin name. -/
theorem C19_names_resolve (std : GsStd) (fl : Flags) (doc : JVal) (m : ModuleAst) (h : gsModule std fl doc = some m)
    (hn : NamesOK m = true) :
    ∀ c ∈ m.classes, m.resolve c.name = some c ∧ c.name ∉ m.importedNames ∧ c.name ∉ builtinNames ∧
      identOK c.name = true ∧ ∀ f ∈ c.fields, identOK f.1 = true := by
  intro c hc
  simp only [NamesOK, Bool.and_eq_true, List.all_eq_true, Bool.not_eq_true'] at hn
  obtain ⟨hall, hnd⟩ := hn
  obtain ⟨⟨hid, hres⟩, hfs⟩ := hall c hc
  have hres' : c.name ∉ reservedNames := by simpa using hres
  refine ⟨?_, ?_, ?_, hid, hfs⟩
  · unfold ModuleAst.resolve
    apply find_by_name_of_inj
    · intro x hx y hy hxy
      exact nodupB_inj m.classes hnd x (List.mem_reverse.mp hx) y (List.mem_reverse.mp hy) hxy
    · exact List.mem_reverse.mpr hc
  · intro hmem
    apply hres'
    -- every imported name is one of the reserved names
    unfold gsModule gsRun at h
    simp only at h
    cases hs : gsInfer std { experimental := fl.experimental, forceStrings := fl.forceStrings, dedupByEq := fl.dedupByEq } doc with
    | none => simp [hs] at h
    | some s =>
      simp only [hs, Option.some.injEq] at h
      subst h
      exact importLines_reserved _ _ hmem
  · intro hmem
    apply hres'
    revert hmem
    simp only [builtinNames, reservedNames, List.mem_map]
    rintro ⟨x, hx, hxc⟩
    refine ⟨x, ?_, hxc⟩
    simp only [List.mem_cons, List.not_mem_nil, or_false] at hx ⊢
    rcases hx with h | h | h | h | h <;> simp [h]

/-! ### where the unchanged code violates the property: concrete documents -/

/-- `[{"a": 1}, {"b": 2}]`: a key that is missing from a sibling is a required, non-Optional field of the merged
class (so `from_dict` of either element raises MissingFields). -/
theorem C19_missing_key_witness :
    (gsModule plainStd {} (.list [.dict [(['a'], .int 1)], .dict [(['b'], .int 2)]])).map (ModuleAst.summary false) =
      some [("Container".toList, [("data".toList, "'Data'".toList)]),
            ("Data".toList, [(['a'], "int".toList), (['b'], "int".toList)])] := by decide +kernel

/-- `[{"x": {"p": {"q": 1}}}, {"x": 5}, {"x": {"p": {"r": 1}}}]`: with the structural comparison of the unchanged
code the third element's class generator is dropped as "already present" (same name, same field names), so key
`r` has no field anywhere; with identity comparison it has. -/
theorem C19_every_key_has_field_witness :
    let doc : JVal := .list [.dict [(['x'], .dict [(['p'], .dict [(['q'], .int 1)])])], .dict [(['x'], .int 5)],
                             .dict [(['x'], .dict [(['p'], .dict [(['r'], .int 1)])])]]
    ((gsModule plainStd { dedupByEq := true } doc).map (fun m => m.classes.any (fun c => c.fields.any (fun f => f.1 == ['r'])))
        = some false) ∧
    ((gsModule plainStd { dedupByEq := false } doc).map (fun m => m.classes.any (fun c => c.fields.any (fun f => f.1 == ['r'])))
        = some true) := by decide +kernel

/-- `{"k": [{"a": [{"p": 1}]}, {"a": [null]}]}`: since repair c45a418 `PyListGenerator.__or__` carries the right operand's
`is_optional` over, so the null element of the second sibling's list gives `a: List[Optional['A']]` (before the repair
it was `List['A']`, which cannot load the second sibling). -/
theorem C19_null_element_repaired :
    (gsModule plainStd {} (.dict [(['k'], .list [.dict [(['a'], .list [.dict [(['p'], .int 1)]])],
                                               .dict [(['a'], .list [.null])]])])).map (ModuleAst.summary false) =
      some [("Data".toList, [(['k'], "List['K']".toList)]), (['K'], [(['a'], "List[Optional['A']]".toList)]),
            (['A'], [(['p'], "int".toList)])] := by decide +kernel

/-- `{"a": {"x": {"p": 1}}, "b": {"x": {"q": 1}}}`: the same key at two paths gives two classes named `X`; the module
is not `NamesOK`, and the name resolves to the later class, which lacks the field `p` of the first. -/
theorem C19_duplicate_class_witness :
    let doc : JVal := .dict [(['a'], .dict [(['x'], .dict [(['p'], .int 1)])]), (['b'], .dict [(['x'], .dict [(['q'], .int 1)])])]
    (gsModule plainStd {} doc).map NamesOK = some false ∧
    (gsModule plainStd {} doc).map (fun m => (m.resolve ['X']).map (fun c => c.fields.map (·.1))) = some (some [['q']]) ∧
    (gsModule plainStd {} doc).map (fun m => m.classNames) = some ["Data".toList, ['A'], ['X'], ['B'], ['X']] := by decide +kernel

/-- keys that are a keyword, start with a digit, contain punctuation or are empty give field names that are not
identifiers (the module is not `NamesOK`); a key whose class name is an imported name shadows the import. -/
theorem C19_key_not_identifier_witness :
    (gsModule plainStd {} (.dict [("class".toList, .int 1)])).map NamesOK = some false ∧
    (gsModule plainStd {} (.dict [("1st".toList, .int 1)])).map NamesOK = some false ∧
    (gsModule plainStd {} (.dict [("a.b".toList, .int 1)])).map NamesOK = some false ∧
    (gsModule plainStd {} (.dict [([], .int 1)])).map NamesOK = some false ∧
    (gsModule plainStd {} (.dict [("list".toList, .dict [])])).map NamesOK = some false ∧
    (gsModule plainStd {} (.dict [("ok_key".toList, .int 1)])).map NamesOK = some true := by decide +kernel

/-! ### the command line -/

/-- On input that is not an object / array document the command exits non-zero and leaves a pre-existing output
file intact — for the variant that opens the output only when there is code to write. -/
theorem C19_error_path (inp : CliInput) (out0 : OutFile) (h : inp.isValid = false) :
    (cliRun false inp out0).exit ≠ 0 ∧ (cliRun false inp out0).out = out0 := by
  cases inp <;> simp [cliRun, CliInput.isValid] at h ⊢

/-- The unchanged code (argparse opens the output with mode `w` while parsing the arguments): a syntax error or a
scalar root still exits non-zero but the existing output file is emptied. -/
theorem C19_error_path_witness :
    (cliRun true .syntaxError (some "x = 1\n".toList)).exit ≠ 0 ∧
    (cliRun true .syntaxError (some "x = 1\n".toList)).out ≠ some "x = 1\n".toList ∧
    (cliRun true .scalarRoot (some "x = 1\n".toList)).out = some [] := by decide

/-- The unchanged code, partial: the exit status is non-zero on every invalid input, and an unreadable input file
(rejected before the output argument is converted) leaves the output intact. -/
theorem C19_error_path_partial (inp : CliInput) (out0 : OutFile) (h : inp.isValid = false) :
    (cliRun true inp out0).exit ≠ 0 ∧ (inp = .unreadable → (cliRun true inp out0).out = out0) := by
  cases inp <;> simp [cliRun, CliInput.isValid] at h ⊢

end DW.Props.C19
