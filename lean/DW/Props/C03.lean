/-
C03 — dump emits the documented wire encoding, JSON-safe, fresh and side-effect free.
Property theorems only.
-/
import DW.Generated.Tables
import DW.Model.Dump
import DW.Lemmas.Dump
import DW.Lemmas.DumpSafe
import DW.Props.C11

namespace DW.Props.C03
open DW

/-- Runtime types the documentation speaks about, as MRO lists (most specific first), with the
encoder each must reach.  `"<sub>"` stands for any user subclass of the stdlib type. -/
def documentedEncoders : List (List String × String) :=
  [ (["NoneType"], "dump_with_null"), (["bool", "int"], "dump_with_bool"), (["int"], "dump_with_int"),
    (["float"], "dump_with_float"), (["str"], "dump_with_str"),
    (["bytes"], "dump_with_bytes"), (["bytearray"], "dump_with_bytes"),
    (["<enum>", "Enum"], "dump_with_enum"),
    (["UUID"], "dump_with_uuid"), (["<sub>", "UUID"], "dump_with_uuid"),
    (["Decimal"], "dump_with_decimal"), (["<sub>", "Decimal"], "dump_with_decimal"),
    (["datetime", "date"], "dump_with_datetime"), (["<sub>", "datetime", "date"], "dump_with_datetime"),
    (["date"], "dump_with_date"), (["<sub>", "date"], "dump_with_date"),
    (["time"], "dump_with_time"), (["<sub>", "time"], "dump_with_time"),
    (["timedelta"], "dump_with_timedelta"), (["<sub>", "timedelta"], "dump_with_timedelta"),
    (["set"], "dump_with_iterable"), (["frozenset"], "dump_with_iterable"), (["deque"], "dump_with_iterable"),
    (["<sub>", "set"], "dump_with_iterable"), (["<sub>", "frozenset"], "dump_with_iterable"),
    (["list"], "dump_with_list_or_tuple"), (["tuple"], "dump_with_list_or_tuple"),
    (["<sub>", "list"], "dump_with_list_or_tuple"),
    (["defaultdict", "dict"], "dump_with_defaultdict"), (["<sub>", "defaultdict", "dict"], "dump_with_defaultdict"),
    (["dict"], "dump_with_dict"), (["OrderedDict", "dict"], "dump_with_dict"), (["<sub>", "dict"], "dump_with_dict"),
    (["PosixPath", "Path", "PurePosixPath", "PurePath"], "default_dump_with") ]

/-- The isinstance scan over the registration table (regenerated from the source on every run)
reaches the documented, most specific encoder for every documented runtime type, including
subclasses: e.g. a `datetime` subclass must not be caught by the `date` hook. -/
theorem C03_scan_specific :
    ∀ p ∈ documentedEncoders, chooseHook Generated.dumpHooks p.1 = p.2 := by decide

/-- No dump hook writes through its arguments (effect summaries extracted from the source by `ast`). -/
theorem C03_hooks_pure :
    ∀ row ∈ Generated.dumpHookEffects, row.2.2 = "" := by decide

/-- every DumpMixin hook the model interprets exists in the source -/
theorem C03_hooks_present :
    ∀ h ∈ ["dump_with_null", "dump_with_bool", "dump_with_int", "dump_with_float", "dump_with_str",
            "dump_with_bytes", "dump_with_enum", "dump_with_uuid", "dump_with_decimal", "dump_with_datetime",
            "dump_with_date", "dump_with_time", "dump_with_timedelta", "dump_with_iterable",
            "dump_with_list_or_tuple", "dump_with_defaultdict", "dump_with_dict", "dump_with_named_tuple",
            "default_dump_with"],
      (Generated.dumpHookEffects.map (·.1)).contains h = true := by decide

/-- Every scalar value of the universe (including instances of proper subclasses of the stdlib value
types) dumps to a JSON-safe scalar, in ISO and in TIMESTAMP mode, whenever the dump does not raise. -/
theorem C03_scalar_json_safe (std : Std) (ts : Bool) (v : PyVal) (d : DVal) (hv : v.isScalar = true)
    (h : dumpScalar std ts v = .ok d) : jsonSafe d = true :=
  scalar_json_safe std ts v d hv h

/-- **C03 (JSON-safe, every value).** Whatever the value — any nesting of dataclasses, containers, named tuples and
scalars incl. subclasses of the stdlib value types, any Meta, any travelling config, ISO or TIMESTAMP mode — a dump that
does not raise contains no node the standard encoder would refuse. `wellKeyed` only asks that the keys of *catch-all*
dictionaries are scalars (what `json.loads` produces); by induction on the size of the value, over all five mutually
recursive dump functions. (`jsonSafe` does not restrict the keys of user dictionaries: `dict[tuple, …]` is outside it.) -/
theorem C03_json_safe (std : Std) (ts : Bool) (cfg : Option MetaCfg) (v : PyVal) (d : DVal)
    (hw : wellKeyed v = true) (h : dumpV std ts cfg v = .ok d) : jsonSafe d = true :=
  dumpV_safe std cfg ts v d hw h

/-- the hypothesis is satisfiable by a nested instance with a catch-all field, and the conclusion is not vacuous -/
theorem C03_json_safe_example :
    wellKeyed (.inst { name := "K".toList, fields := [{ name := "a".toList }, { name := "rest".toList, isCatchAll := true }] }
      [("a".toList, .seq .list [.int 1, .none]), ("rest".toList, .map .dict [(.str "x".toList, .tuple [.bool true])])]) = true := by
  decide

/-! ### what the generated code returns is JSON-safe -/

open DW.GenDump in
/-- **C03 (the generated dump function, JSON-safe).**  Combine the two joints of the chain: for any class `ci` (fields `fks` with their
resolved keys, found by name), any travelling config, and any instance whose values are well keyed and whose skip comparisons do not
raise — run the body `dump_func_for_dataclass` writes for the class (the text compared byte for byte with the library's output) in the
environment the generator sets up, and apply `asdict` to the entries it emits: if that succeeds, every key / value pair obtained is
accepted by the standard JSON encoder. -/
theorem C03_generated_code_json_safe (p : Char → Bool) (std : Std) (cfg : Option MetaCfg) (ci : ClassInfo)
    (fks : List (FieldInfo × S)) (vals : S → PyVal)
    (hw : wellKeyed (.inst ci (fks.map (fun q => (q.1.name, vals q.1.name)))) = true)
    (hfind : ∀ q ∈ fks, ci.fields.find? (fun f => f.name == q.1.name) = some q.1)
    (Hd : ∀ q ∈ fks, ∃ b, defaultTest (effMeta ci.cmeta cfg) q.1 (vals q.1.name) = .ok b)
    (Ho : ∀ q ∈ fks, ∃ b, ownCond (effMeta ci.cmeta cfg) q.1 (vals q.1.name) = .ok b)
    (Hk : ∀ q ∈ fks, q.1.isCatchAll = false → q.1.dumpSkip = false → dumpKey (effMeta ci.cmeta cfg) q.1 = .ok q.2) :
    ∃ out, run (envOf (effMeta ci.cmeta cfg) {} fks vals) (genBody p (ginOf (effMeta ci.cmeta cfg) fks)) =
        .ok (out ++ tagEmits (ginOf (effMeta ci.cmeta cfg) fks)) ∧
      ∀ body, realise std ((effMeta ci.cmeta cfg).marshalTimestamp.getD false) cfg vals out = .ok body →
        jsonSafePairs body = true := by
  obtain ⟨out, hrun, hdump⟩ := DW.Props.C11.C11_dump_model_realises_generated_code p std
    ((effMeta ci.cmeta cfg).marshalTimestamp.getD false) cfg (effMeta ci.cmeta cfg) {} ci fks vals hfind Hd Ho Hk
  refine ⟨out, hrun, ?_⟩
  intro body hb
  rw [← hdump] at hb
  have hv : dumpV std false cfg (.inst ci (fks.map (fun q => (q.1.name, vals q.1.name)))) =
      .ok (finishInst (effMeta ci.cmeta cfg) body) := by
    rw [dumpV]
    simp only [hb, bind, Except.bind, pure, Except.pure]
  have hs := dumpV_safe std cfg false _ _ hw hv
  unfold finishInst at hs
  cases ht : (effMeta ci.cmeta cfg).tag with
  | none => simpa [ht, jsonSafe] using hs
  | some tg =>
    simp only [ht, jsonSafe] at hs
    rw [jsonSafePairs_append] at hs
    simp only [Bool.and_eq_true] at hs
    exact hs.1

end DW.Props.C03
