/-
C03 — dump emits the documented wire encoding, JSON-safe, fresh and side-effect free.
Property theorems only.
-/
import DW.Generated.Tables
import DW.Model.Dump
import DW.Lemmas.Dump

namespace DW.Props.C03
open DW

/-- Runtime types the documentation speaks about, as MRO lists (most specific first), with the
encoder each must reach.  `"<sub>"` stands for any user subclass of the stdlib type. -/
def documentedEncoders : List (List String × String) :=
  [ (["NoneType"], "dump_with_null"), (["bool", "int"], "dump_with_bool"), (["int"], "dump_with_int"),
    (["float"], "dump_with_float"), (["str"], "dump_with_str"),
    (["bytes"], "dump_with_bytes"), (["bytearray"], "dump_with_bytes"),
    (["<enum>", "Enum"], "dump_with_enum"),
    (["UUID"], "dump_with_uuid"), (["<sub>", "UUID"], "dump_with_uuid"),
    (["Decimal"], "dump_with_decimal"), (["<sub>", "Decimal"], "dump_with_decimal"),
    (["datetime", "date"], "dump_with_datetime"), (["<sub>", "datetime", "date"], "dump_with_datetime"),
    (["date"], "dump_with_date"), (["<sub>", "date"], "dump_with_date"),
    (["time"], "dump_with_time"), (["<sub>", "time"], "dump_with_time"),
    (["timedelta"], "dump_with_timedelta"), (["<sub>", "timedelta"], "dump_with_timedelta"),
    (["set"], "dump_with_iterable"), (["frozenset"], "dump_with_iterable"), (["deque"], "dump_with_iterable"),
    (["<sub>", "set"], "dump_with_iterable"), (["<sub>", "frozenset"], "dump_with_iterable"),
    (["list"], "dump_with_list_or_tuple"), (["tuple"], "dump_with_list_or_tuple"),
    (["<sub>", "list"], "dump_with_list_or_tuple"),
    (["defaultdict", "dict"], "dump_with_defaultdict"), (["<sub>", "defaultdict", "dict"], "dump_with_defaultdict"),
    (["dict"], "dump_with_dict"), (["OrderedDict", "dict"], "dump_with_dict"), (["<sub>", "dict"], "dump_with_dict"),
    (["PosixPath", "Path", "PurePosixPath", "PurePath"], "default_dump_with") ]

/-- The isinstance scan over the registration table (regenerated from the source on every run)
reaches the documented, most specific encoder for every documented runtime type, including
subclasses: e.g. a `datetime` subclass must not be caught by the `date` hook. -/
theorem C03_scan_specific :
    ∀ p ∈ documentedEncoders, chooseHook Generated.dumpHooks p.1 = p.2 := by decide

/-- No dump hook writes through its arguments (effect summaries extracted from the source by `ast`). -/
theorem C03_hooks_pure :
    ∀ row ∈ Generated.dumpHookEffects, row.2.2 = "" := by decide

/-- every DumpMixin hook the model interprets exists in the source -/
theorem C03_hooks_present :
    ∀ h ∈ ["dump_with_null", "dump_with_bool", "dump_with_int", "dump_with_float", "dump_with_str",
            "dump_with_bytes", "dump_with_enum", "dump_with_uuid", "dump_with_decimal", "dump_with_datetime",
            "dump_with_date", "dump_with_time", "dump_with_timedelta", "dump_with_iterable",
            "dump_with_list_or_tuple", "dump_with_defaultdict", "dump_with_dict", "dump_with_named_tuple",
            "default_dump_with"],
      (Generated.dumpHookEffects.map (·.1)).contains h = true := by decide

mutual
/-- JSON-safety of a dump result: no node the standard encoder would refuse. -/
def jsonSafe : DVal → Bool
  | .bad _ => false
  | .list xs => jsonSafeList xs
  | .tuple xs => jsonSafeList xs
  | .ntuple _ xs => jsonSafeList xs
  | .dict _ kvs => jsonSafePairs kvs
  | _ => true
def jsonSafeList : List DVal → Bool
  | [] => true
  | x :: xs => jsonSafe x && jsonSafeList xs
def jsonSafePairs : List (DVal × DVal) → Bool
  | [] => true
  | (k, v) :: r => jsonSafe k && jsonSafe v && jsonSafePairs r
end

/-- scalars of the value universe (no containers, no instances) -/
def _root_.DW.PyVal.isScalar : PyVal → Bool
  | .seq _ _ => false | .tuple _ => false | .map _ _ => false | .ntuple _ _ _ => false | .inst _ _ => false
  | _ => true

/-- Every scalar value of the universe (including instances of proper subclasses of the stdlib value
types) dumps to a JSON-safe scalar, in ISO and in TIMESTAMP mode, whenever the dump does not raise. -/
theorem C03_scalar_json_safe (std : Std) (ts : Bool) (v : PyVal) (d : DVal) (hv : v.isScalar = true)
    (h : dumpScalar std ts v = .ok d) : jsonSafe d = true := by
  cases v with
  | none => simp [dumpScalar, pure, Except.pure] at h; subst h; rfl
  | bool b => simp [dumpScalar, pure, Except.pure] at h; subst h; rfl
  | int i => simp [dumpScalar, pure, Except.pure] at h; subst h; rfl
  | float f => simp [dumpScalar, pure, Except.pure] at h; subst h; rfl
  | str s => simp [dumpScalar, pure, Except.pure] at h; subst h; rfl
  | bytes m b => simp [dumpScalar, pure, Except.pure] at h; subst h; rfl
  | leaf k sub t =>
    cases k <;> cases ts <;> simp [dumpScalar, pure, Except.pure] at h <;>
      first
        | (subst h; rfl)
        | (split at h <;> first | (cases h; rfl) | (simp at h))
  | timedelta us => simp [dumpScalar, pure, Except.pure] at h; subst h; rfl
  | enum c m val => simp [dumpScalar, pure, Except.pure] at h; subst h; cases val <;> rfl
  | seq k xs => simp [PyVal.isScalar] at hv
  | tuple xs => simp [PyVal.isScalar] at hv
  | map k kvs => simp [PyVal.isScalar] at hv
  | ntuple c ns xs => simp [PyVal.isScalar] at hv
  | inst ci fs => simp [PyVal.isScalar] at hv

end DW.Props.C03
