/-
C15 — generated code is well-formed for every class; spelling never changes behaviour.

What is proved (for all strings / names, no bound):
  * text spliced into generated source with `repr` reads back as exactly that text (`C15_repr_roundtrip`), whatever
    quotes, backslashes, newlines, control or non-printable characters it contains;
  * the naming schemes of the v1 generator keep user-derived names apart from each other and from every name the
    generators use themselves (`C15_field_var_fresh`, `C15_type_local_fresh`, `C15_fixed_names_*` over the table of
    generator-internal names regenerated from the code the library generates for the battery on every run);
  * every function generated for the battery compiles and refers only to names it binds, closes over, or finds in
    its globals / builtins (`C15_battery_well_scoped` — a statement about the regenerated table, i.e. about the
    battery; the statement for every class is the renaming oracle's job, see DESIGN.md);
  * for the generator of the dump function (`dump_func_for_dataclass`, modelled as the *text* it writes —
    `DW/Model/GenDump.lean`, compared byte for byte with the library's output on every run) the statement IS proved for
    every class: the body generated for any field list, any key / alias / path text, any skip conditions, tag, tag key
    and Meta switches reads only names that are bound when they are read (`C15_gendump_well_scoped`); the closure rule
    the library used before repair b9cb15d does not have this property (`C15_gendump_old_rule_unbound`).
-/
import DW.Lemmas.Names
import DW.Lemmas.GenDump
import DW.Lemmas.GenDumpPy
import DW.Lemmas.GenLoad
import DW.Lemmas.GenLoadPy
import DW.Lemmas.GenEnv
import DW.Lemmas.GenLoadV1
import DW.Generated.Tables

namespace DW.Props.C15
open DW DW.Names

/-- **C15 (quoting).** `repr` then the Python lexer is the identity on every string (for any `isprintable`). -/
theorem C15_repr_roundtrip (printable : Char → Bool) (s : S) : pyUnquote (pyRepr printable s) = some s :=
  repr_roundtrip printable s

/-- … including the adversarial ones of the property text -/
theorem C15_repr_examples :
    pyRepr (fun _ => true) "it's".toList = "\"it's\"".toList ∧
    pyRepr (fun _ => true) "a\"b'c".toList = "'a\"b\\'c'".toList ∧
    pyRepr (fun _ => true) "C:\\new\\tag".toList = "'C:\\\\new\\\\tag'".toList ∧
    pyRepr (fun _ => true) "new\nline{o}".toList = "'new\\nline{o}'".toList ∧
    pyRepr (fun _ => false) "\x00\x7fé".toList = "'\\x00\\x7f\\xe9'".toList := by
  decide

/-! ### names -/

theorem isDigit_digit : ∀ k : Fin 10, isDigit (Char.ofNat (48 + k.val)) = true := by decide

theorem decAux_spec : ∀ (fuel n : Nat) (acc : S),
    ∃ ds, decAux fuel n acc = ds ++ acc ∧ (∀ c ∈ ds, isDigit c = true) ∧ (0 < fuel → ds ≠ []) := by
  intro fuel
  induction fuel with
  | zero => intro n acc; exact ⟨[], by simp [decAux], by simp, by simp⟩
  | succ f ih =>
    intro n acc
    have hd : isDigit (Char.ofNat (48 + n % 10)) = true := isDigit_digit ⟨n % 10, Nat.mod_lt _ (by omega)⟩
    unfold decAux
    by_cases h : n / 10 = 0
    · simp only [h, if_true]
      exact ⟨[Char.ofNat (48 + n % 10)], by simp, by simpa using hd, by simp⟩
    · simp only [h, if_false]
      obtain ⟨ds, h1, h2, _⟩ := ih (n / 10) (Char.ofNat (48 + n % 10) :: acc)
      refine ⟨ds ++ [Char.ofNat (48 + n % 10)], by simp [h1], ?_, by simp⟩
      intro c hc
      rcases List.mem_append.1 hc with hc | hc
      · exact h2 c hc
      · have : c = Char.ofNat (48 + n % 10) := by simpa using hc
        rw [this]; exact hd

/-- the decimal digits of a number: non-empty, digits only -/
theorem dec_spec (n : Nat) : dec n ≠ [] ∧ ∀ c ∈ dec n, isDigit c = true := by
  obtain ⟨ds, h1, h2, h3⟩ := decAux_spec (n + 1) n []
  have : dec n = ds := by unfold dec; simpa using h1
  rw [this]
  exact ⟨h3 (by omega), h2⟩

def lastIsDigit (s : S) : Bool :=
  match s.getLast? with
  | some c => isDigit c
  | none => false

theorem last_append (xs ys : S) (c : Char) (h : ys.getLast? = some c) : (xs ++ ys).getLast? = some c := by
  simp [List.getLast?_append, h]

theorem lastIsDigit_append_dec (pre : S) (n : Nat) : lastIsDigit (pre ++ dec n) = true := by
  obtain ⟨hne, hall⟩ := dec_spec n
  unfold lastIsDigit
  cases h : (dec n).getLast? with
  | none => exact absurd (List.getLast?_eq_none_iff.1 h) hne
  | some c =>
    rw [last_append pre (dec n) c h]
    exact hall c (List.mem_of_getLast? h)

/-- every closure name of a user type ends in a digit -/
theorem C15_type_local_indexed (name : S) (i n : Nat) :
    lastIsDigit (typeLocal name i) = true ∧ lastIsDigit (typeLocalN name i n) = true := by
  constructor
  · have := lastIsDigit_append_dec (name ++ ['_']) i
    simpa [typeLocal] using this
  · have := lastIsDigit_append_dec (typeLocal name i ++ ['_']) n
    simpa [typeLocalN] using this

theorem getLast_fieldVar (name : S) : (fieldVar name).getLast? = some 'v' := by
  have : fieldVar name = ('_' :: '_' :: name) ++ ['_', '_', 'v'] := by simp [fieldVar]
  rw [this]; exact last_append _ _ 'v' (by decide)

theorem getLast_isoHelper (tn : S) : (isoHelper tn).getLast? = some 't' := by
  have : isoHelper tn = ('_' :: '_' :: tn) ++ "_fromisoformat".toList := by simp [isoHelper]
  rw [this]; exact last_append _ _ 't' (by decide)

theorem getLast_tsHelper (tn : S) : (tsHelper tn).getLast? = some 'p' := by
  have : tsHelper tn = ('_' :: '_' :: tn) ++ "_fromtimestamp".toList := by simp [tsHelper]
  rw [this]; exact last_append _ _ 'p' (by decide)

theorem getLast_fromDictHelper (c : S) : (fromDictHelper c).getLast? = some '_' := by
  unfold fromDictHelper; exact last_append _ _ '_' (by decide)

/-- **C15 (field variables).** The local that holds a field's value in a generated v1 `from_dict` differs from every
helper the function closes over and from every type local, whatever the field, type and class are called. -/
theorem C15_field_var_fresh (name tn cls tname : S) (i n : Nat) :
    fieldVar name ≠ isoHelper tn ∧ fieldVar name ≠ tsHelper tn ∧ fieldVar name ≠ fromDictHelper cls ∧
    fieldVar name ≠ asDatetimeHelper ∧ fieldVar name ≠ tzHelper ∧
    fieldVar name ≠ typeLocal tname i ∧ fieldVar name ≠ typeLocalN tname i n := by
  have hv := getLast_fieldVar name
  have key : ∀ (other : S) (c : Char), other.getLast? = some c → c ≠ 'v' → fieldVar name ≠ other := by
    intro other c hc hne e
    rw [e, hc] at hv
    exact hne (by simpa using hv)
  have hdig : ∀ s : S, lastIsDigit s = true → fieldVar name ≠ s := by
    intro s hs e
    rw [← e] at hs
    simp [lastIsDigit, hv] at hs
    revert hs; decide
  refine ⟨key _ 't' (getLast_isoHelper tn) (by decide), key _ 'p' (getLast_tsHelper tn) (by decide),
    key _ '_' (getLast_fromDictHelper cls) (by decide), key _ 'e' (by decide) (by decide), key _ 'z' (by decide) (by decide),
    hdig _ (C15_type_local_indexed tname i n).1, hdig _ (C15_type_local_indexed tname i n).2⟩

/-- two field variables coincide only for the same field -/
theorem C15_field_var_injective (a b : S) (h : fieldVar a = fieldVar b) : a = b := by
  simp only [fieldVar, List.cons.injEq, true_and] at h
  exact List.append_cancel_right h

/-- `__<..>__v`: the shape of a field variable -/
def fieldVarShaped (s : S) : Bool := "__".toList.isPrefixOf s && "__v".toList.isSuffixOf s

/-- **C15 (generator-internal names, regenerated from the generated code).** None of the names the generators bind
themselves has the shape of a field variable, and none of them — apart from the library's own indexed families,
which are checked for freshness at generation time — ends in `_<digits>` like a type local. -/
theorem C15_fixed_names_not_field_vars :
    DW.Generated.genFixedNames.all (fun r => !fieldVarShaped r.toList) = true := by
  decide +kernel

theorem C15_fixed_names_indexed_families :
    (DW.Generated.genFixedNames.filter (fun r => endsIndexed r.toList)).all
      (fun r => "_skip_".isPrefixOf r || "_default_".isPrefixOf r || "fields_".isPrefixOf r || "typed_fields_".isPrefixOf r ||
        "_skip_if_".isPrefixOf r) = true := by
  decide +kernel

/-- a type local is never one of the non-indexed internal names -/
theorem C15_type_local_fresh (name : S) (i : Nat) (r : S) (h : lastIsDigit r = false) : typeLocal name i ≠ r := by
  intro e
  rw [← e, (C15_type_local_indexed name i 0).1] at h
  exact Bool.noConfusion h

/-- **C15 (battery).** Every function the library generated for the battery compiles and is well scoped. -/
theorem C15_battery_well_scoped :
    DW.Generated.genScopeRows.all (fun r => r.2 == "ok") = true := by
  decide +kernel

/-- the shapes of user-derived names are exactly the modelled families -/
theorem C15_derived_shapes :
    DW.Generated.genDerivedShapes =
      ["<U>_<i>", "<u>", "__<U>_<i>_fromisoformat", "__<U>_<i>_fromtimestamp", "__<u>__v",
       "__dataclass_wizard_from_dict_<U>__", "_default_<u>", "_dflt_<u>", "_load_<U>_literal_<i>_<i>",
       "_load_<U>_named_tuple_<U>", "_load_<U>_pattern_date_<hash>", "_load_<U>_pattern_datetime_<hash>",
       "_load_<U>_pattern_time_<hash>", "_load_<U>_typed_dict_<U>", "_load_<U>_union_<i>_<i>", "_parser_<u>", "_tp_<u>"] := by
  decide

/-! ### the generator of `cls_asdict`, for every class -/

open DW.GenDump in
/-- **C15 (the dump-function generator, every class).**  Whatever the class looks like — any number of fields in any
order, with or without defaults, dumped under any key text, at any JSON path, not at all, or as the catch-all; any
per-field / Meta skip conditions with any comparison values; any tag and tag-key text; `_pre_dict`; any `isprintable` —
the body `dump_func_for_dataclass` writes for `cls_asdict` passes Python's scoping rule: every name it reads is a
parameter or a local that is definitely assigned on every path before the read, or is held by the function's closure
(the generator's `_locals`), or is the builtin `Ellipsis`; and no closure name is shadowed by a local. -/
theorem C15_gendump_well_scoped (printable : Char → Bool) (g : GIn) : wellScoped printable g = true :=
  wellScoped_all printable g

open DW.GenDump in
/-- … and under Python's rule taken literally (a name assigned anywhere in the body is local: reading it before it is definitely
assigned is an UnboundLocalError even when the closure holds the same name; any other name must come from the closure or the
builtins): the checker `checkL2sPy` accepts the body generated for every class.  (The two checkers agree whenever the scope lists
the written names among its locals — `checkL2s_eq_py` — which `genScope` does by construction.) -/
theorem C15_gendump_well_scoped_py (printable : Char → Bool) (g : GIn) : wellScopedPy printable g = true :=
  wellScopedPy_all printable g

open DW.GenDump in
/-- the checker's reading rule is Python's whenever only assigned names are local — which `genScope` guarantees by
construction (its locals are the parameters and every name the body writes) -/
theorem C15_gendump_rule_is_pythons (sc : Scope) (asg : List S) (n : S) (h : ∀ x ∈ asg, x ∈ sc.locals) :
    sc.readOk asg n = sc.readOkPy asg n := readOk_eq_py sc asg n h

open DW.GenDump in
/-- the class that exposed the defect: a defaulted CatchAll field under `Meta.skip_defaults_if` -/
def gendumpWitness : GIn :=
  { fields := [{ name := "x".toList, hasDefault := true, key := .key "x".toList },
               { name := "extra".toList, hasDefault := true, key := .null, isCatchAll := true }],
    skipDefaultsIf := some { op := .is_, val := .none } }

open DW.GenDump in
/-- **The proof found a defect.**  With the closure rule of the library before repair b9cb15d (`_default_<i>` bound only
when there is no `Meta.skip_defaults_if`) the function generated for the witness reads `_default_1` without binding it
(every `to_dict()` raised NameError — replayed on the implementation by `findings/catchall-default-unbound-under-skip-defaults-if.py`);
with the repaired rule it is well scoped. -/
theorem C15_gendump_old_rule_unbound :
    wellScopedQ (fun _ => true) false gendumpWitness = false ∧ wellScopedQ (fun _ => true) true gendumpWitness = true := by
  decide

open DW.GenDump in
/-- non-vacuity: the text the model writes for the witness (what the library writes, see the correspondence) -/
example : genCode (fun _ => true) gendumpWitness =
    ("  result = []\n  if exclude is None:\n    _skip_0=_skip_1=False\n  else:\n    _skip_0='x' in exclude;_skip_1='extra' in exclude\n" ++
     "  if skip_defaults:\n    _skip_0 = _skip_0 or o.x is None\n    _skip_1 = _skip_1 or o.extra is None\n" ++
     "  if not _skip_0:\n    result.append(('x',asdict(o.x,dict_factory,hooks,config,cls_to_asdict)))\n" ++
     "  if o.extra != _default_1 and not _skip_1:\n    for k, v in o.extra.items():\n" ++
     "      result.append((k,asdict(v,dict_factory,hooks,config,cls_to_asdict)))\n  return dict_factory(result)").toList := by
  decide +kernel

/-! ### the generator of the default-engine `cls_fromdict`, for every class -/

open DW.GenLoad in
/-- **C15 (the load-function generator of the default engine, every class).**  Whatever the class looks like — `_pre_from_dict` or
not, a CatchAll field with or without default, `raise_on_unknown_json_key`, any number of fields with JSON paths (required,
defaulted or with a default_factory; any path parts; any field names, including the template's own variable names), every
constructor field having a path or not, a tag key or a path's top-level key kept out of the catch-all — the body
`load_func_for_dataclass` writes for `cls_fromdict` (`DW/Model/GenLoad.lean`, compared byte for byte with the library's output, its
declared names with Python's `ast`, on every run) is well scoped on every control-flow path through its `if / elif / else`, `for`
and `try / except` blocks: every name it reads is the parameter, a local definitely bound before (the `e` of an `except … as e`
and the `field` bound by a literal assignment at the head of a `try` body included), a name of the closure the generator fills
(`_default_<field>` among them), a global it is executed with, or a builtin — and none of those is shadowed by a local. -/
theorem C15_genload_well_scoped (printable : Char → Bool) (g : LIn) : wellScoped printable g = true :=
  wellScoped_all printable g

open DW.GenLoad in
/-- … and under Python's rule taken literally (`checkListPy`: a name bound anywhere in the body is local and must be definitely
assigned, whatever the closure holds) -/
theorem C15_genload_well_scoped_py (printable : Char → Bool) (g : LIn) : wellScopedPy printable g = true :=
  wellScopedPy_all printable g

open DW.GenLoad in
/-- non-vacuity: the text the model writes for a class with a required path field, a CatchAll field and
`raise_on_unknown_json_key` (first lines) -/
example : ((renderList 1 (genBody (fun _ => true)
      { catchAll := some ("rest".toList, false), raiseOnUnknown := true,
        paths := [{ field := "r".toList, path := [.str "k".toList] }], knownKeys := true })).take 6).map String.ofList =
    ["  init_kwargs = {}", "  catch_all = {}", "  try:",
     "    field='r'; init_kwargs[field] = field_to_parser[field](safe_get(o, ('k',)))",
     "  except ParseError as e:",
     "    e.class_name, e.field_name, e.json_object, e.fields = cls, field, o, cls_fields"] := by
  decide +kernel

/-! ### the generator of an EnvWizard class's `__init__`, for every class -/

open DW.GenEnv in
/-- **C15 (the constructor generator of EnvWizard, every class).**  Whatever the class looks like — `Meta.env_file` set or not,
`Meta.secrets_dir` set or not, any `env_prefix`, any number of fields (required, defaulted or with a default_factory; no explicit
variable name, one, a tuple or a list of names; any field names, **including every name the template uses itself** — a field is a
keyword parameter of the generated function and so bound from the start) — the body `EnvWizard._create_methods` writes for `__init__`
(`DW/Model/GenEnv.lean`, compared byte for byte with the library's output — parameter list, body, `dict`, closure keys, globals —
and its declared names with Python's `ast`, on every run) is well scoped on every control-flow path: every name it reads is a
parameter, a local definitely bound before (`_name` / `_env_var` bound by the literal assignments at the head of the `try` body and
the `e` of `except ParseError as e` included), a name of the closure or a global the generator fills (`_tp_<f>`, `_parser_<f>`,
`_dflt_<f>`, `_dotenv_values` among them).  No builtin is needed. -/
theorem C15_geninit_well_scoped (printable : Char → Bool) (g : EIn) : wellScoped printable g = true :=
  wellScoped_all printable g

open DW.GenEnv in
/-- … and under Python's rule taken literally -/
theorem C15_geninit_well_scoped_py (printable : Char → Bool) (g : EIn) : wellScopedPy printable g = true :=
  wellScopedPy_all printable g

open DW.GenEnv in
/-- the defaults and annotations of the parameter list (`_secrets_dir=_secrets_dir_value`, `<f>:_tp_<f>=MISSING`) are evaluated when
the function is defined: each of those names is a closure key or a global of the generated function -/
theorem C15_geninit_defaults_bound (g : EIn) : defsBound g = true :=
  defsBound_all g

open DW.GenEnv in
/-- the variable name(s) a field is read from enter the text as Python literals only (`repr`), which read back as the same text
(`C15_repr_roundtrip`): no character of the name is ever part of the code.  (Before the repair 6eb73c4 a single name was pasted
into an f-string literal — KNOWN_FINDINGS env-var-name-pasted-into-fstring.) -/
theorem C15_geninit_name_is_literal (printable : Char → Bool) (fname n : S) (d : DW.GenLoad.DefaultKind) :
    prefixed printable { name := fname, var := .one n, dflt := d } = "f\"{_env_prefix}\" + ".toList ++ pyRepr printable n ∧
    varNameRepr printable { name := fname, var := .one n, dflt := d } = pyRepr printable n ∧
    pyUnquote (pyRepr printable n) = some n :=
  ⟨rfl, rfl, C15_repr_roundtrip printable n⟩

open DW.GenEnv DW.GenLoad in
/-- non-vacuity: the text the model writes for a class whose fields are called like the template's own variables, one of them read
from a variable whose name holds a quote and braces; and the checker is not trivially true — without the `_vars = []` line the
same body reads an unbound name -/
example :
    let g : EIn := { envPrefix := some "P_".toList, fields := [{ name := "_name".toList, var := .one "A\"{x}".toList },
                                                              { name := "cls".toList, dflt := .value }] }
    ((renderList 1 (genBody (fun _ => true) g)).drop 10).take 5 |>.map String.ofList =
      ["    _name='_name'; _env_var='A\"{x}'; _var_name=f\"{_env_prefix}\" + 'A\"{x}' if _env_prefix else 'A\"{x}'",
       "    if _name is not MISSING or (_name := lookup_exact(_var_name)) is not MISSING:",
       "      self._name = _parser__name(_name)",
       "    else:",
       "      add(_vars, _name, _env_prefix, _env_var, _tp__name)"] := by
  decide +kernel

open DW.GenEnv DW.GenLoad in
example :
    let g : EIn := { fields := [{ name := "x".toList }] }
    (checkList (genScope (fun _ => true) g) (params g) (genBody (fun _ => true) g)).isSome = true ∧
    (checkList (genScope (fun _ => true) g) (params g) ((headStmts g).dropLast ++ (fieldBlock (fun _ => true) g ++ GenEnv.tailStmts))).isSome = false := by
  decide +kernel

/-! ### the skeleton of the v1 load-function generator, for every class -/

open DW.GenLoadV1 in
/-- **C15 (the v1 load-function generator, every class; skeleton).**  `DW/Model/GenLoadV1.lean` writes the body of
`__dataclass_wizard_from_dict_<Class>__` around the per-field value expressions (compared byte for byte with the library's output on
every run): `_pre_from_dict`, `init_kwargs`, the key counter, the `try` block with lookup / condition / assignment per constructor
field (one key, several keys, one path, several paths; any names, keys and path parts), the tag-key line, the handler, the catch-all
entry or the unknown-key block, the constructor call.  For every such class, under Python's scoping rule (a name bound anywhere in
the body is local): if the outside names the skeleton itself uses are held outside and bound nowhere in the body (`OuterOk`), every
value expression reads only `v1` and outside names (`ExprsOk`), and no chain of alternative keys / paths is empty (`LookupsOk`), then
no path through the function reads an unbound name — except, by design, the constructor call, whose variables are locals of the
function, so that the only possible failure is the UnboundLocalError the template catches (`S2.tryUnbound`; `ctorVars_local`).  That
the names the body binds are locals of the function is not assumed: it holds by construction (`localsOk_genScope`).  The three
hypotheses are checked executably on every generated function of every run (the driver evaluates `wellScoped` on the inputs cut out
of the generated source and the verdict is compared with running the function). -/
theorem C15_genloadv1_well_scoped (printable : Char → Bool) (g : VIn) (outer : List S) (hk : LookupsOk g)
    (ho : OuterOk (genScope printable g outer) g) (he : ExprsOk (genScope printable g outer) g) :
    wellScoped printable g outer = true :=
  wellScoped_all printable g outer hk ho he

open DW.GenLoadV1 in
/-- the same in any scope whose locals contain what the body binds (the form the proof is carried out in) -/
theorem C15_genloadv1_well_scoped_in (printable : Char → Bool) (sc : DW.GenLoad.Scope) (g : VIn) (hl : LocalsOk sc g)
    (ho : OuterOk sc g) (he : ExprsOk sc g) (hk : LookupsOk g) :
    (checkL2 sc ["o".toList] (genBody printable g)).isSome = true :=
  wellScoped_in printable sc g hl ho he hk

open DW.GenLoadV1 in
/-- the variables handed to the constructor are locals: reading an unbound one raises the UnboundLocalError the template catches,
never a NameError -/
theorem C15_genloadv1_ctor_vars_local (printable : Char → Bool) (g : VIn) (outer : List S) (hk : LookupsOk g) :
    ∀ v ∈ ctorVars g, v ∈ (genScope printable g outer).locals :=
  ctorVars_local _ g (localsOk_genScope printable g outer hk)

open DW.GenLoadV1 DW.GenDump in
/-- non-vacuity: a class with a required field read from two alternative keys, a defaulted field at a path and a required CatchAll
field under RAISE-less counting; the text, and the checker's verdict with the right and with a deficient outside (no `safe_get`) -/
example :
    let g : VIn := { catchAll := .required "rest".toList 1,
                     fields := [{ name := "a".toList, lookup := .anyOf [.lit "A".toList, .lit "it's".toList], expr := "int(v1)".toList,
                                  exprReads := ["v1".toList, "int".toList] },
                                { name := "b".toList, hasDefault := true, lookup := .pathAssign [.str "x".toList, .int 0],
                                  expr := "v1".toList, exprReads := ["v1".toList] }] }
    let outer : List S := ["cls", "fields", "MISSING", "re_raise", "raise_missing_fields", "locals", "Exception", "aliases", "len",
                            "safe_get", "int"].map String.toList
    ((genBody (fun _ => true) g).flatMap (S2.render 1)).map String.ofList =
      ["  init_kwargs = {}", "  i = 0", "  try:", "    field='a'",
       "    if ((v1 := o.get('A', MISSING)) is not MISSING\n     or (v1 := o.get(\"it's\", MISSING)) is not MISSING):",
       "      i+=1; __a__v = int(v1)", "    field='b'; v1=safe_get(o, ['x', 0], False)", "    if v1 is not MISSING:",
       "      i+=1; init_kwargs[field] = v1", "  except Exception as e:",
       "    re_raise(e, cls, o, fields, field, locals().get('v1'))",
       "  __rest__v = {} if len(o) == i else {k: o[k] for k in o if k not in aliases}", "  try:",
       "    return cls(__a__v, __rest__v, **init_kwargs)", "  except UnboundLocalError:",
       "    raise_missing_fields(locals(), o, cls, fields)"] ∧
    wellScoped (fun _ => true) g outer = true ∧
    wellScoped (fun _ => true) g (outer.filter (· != "safe_get".toList)) = false := by
  decide +kernel

open DW.GenLoadV1 DW.GenDump in
/-- … and the premises of the theorem are met by that class in that scope -/
example :
    let g : VIn := { catchAll := .required "rest".toList 1,
                     fields := [{ name := "a".toList, lookup := .anyOf [.lit "A".toList, .lit "it's".toList], expr := "int(v1)".toList,
                                  exprReads := ["v1".toList, "int".toList] },
                                { name := "b".toList, hasDefault := true, lookup := .pathAssign [.str "x".toList, .int 0],
                                  expr := "v1".toList, exprReads := ["v1".toList] }] }
    let outer : List S := ["cls", "fields", "MISSING", "re_raise", "raise_missing_fields", "locals", "Exception", "aliases", "len",
                            "safe_get", "int"].map String.toList
    LookupsOk g ∧ OuterOk (genScope (fun _ => true) g outer) g ∧ ExprsOk (genScope (fun _ => true) g outer) g := by
  refine ⟨?_, ?_, ?_⟩
  · unfold LookupsOk; decide +kernel
  · unfold OuterOk; decide +kernel
  · unfold ExprsOk; decide +kernel

open DW.GenLoadV1 in
/-- **C15 (v1 skeleton, premises about the generator's inputs only).**  For every class: if (1) no chain of alternative keys / paths
is empty, (2) the outside names the skeleton uses are in the closure, the globals or the builtins, (3) no value expression binds one
of the fourteen outside names the skeleton can use, and (4) whatever a value expression reads besides `v1` is held outside and is
not a name the body can bind (one of its seven fixed locals, a field variable `__<f>__v`, a name some value expression binds), then
the generated function is well scoped under Python's rule.  That the skeleton's outside names never collide with what the body binds
is proved (`outerOk_of`: none of them is a fixed local, none ends in `v` as every field variable does), not assumed. -/
theorem C15_genloadv1_well_scoped_inputs (printable : Char → Bool) (g : VIn) (outer : List S) (hk : LookupsOk g)
    (h1 : ∀ n ∈ skeletonOuter g, n ∈ outer)
    (h2 : ∀ f ∈ g.fields, ∀ n, (n ∈ f.exprWrites ∨ n ∈ f.exprBinds) → n ∉ allOuter)
    (h3 : ∀ f ∈ g.fields, ∀ n ∈ f.exprReads, n = "v1".toList ∨ (n ∈ outer ∧ ¬ Bindable g n)) :
    wellScoped printable g outer = true :=
  wellScoped_inputs printable g outer hk h1 h2 h3

open DW.GenLoadV1 in
/-- what the driver evaluates on the inputs of every generated function of every run (`premisesB`: the premises of
`C15_genloadv1_well_scoped_inputs` as a Boolean test; a name shaped `__…__v` counts as a possible field variable): when it passes,
the function is well scoped.  The correspondence stream reports every generated function on which it does not pass. -/
theorem C15_genloadv1_premises_sound (printable : Char → Bool) (g : VIn) (outer : List S) (h : premisesB g outer = true) :
    wellScoped printable g outer = true :=
  premisesB_sound printable g outer h

open DW.GenLoadV1 in
/-- **C15 (v1 skeleton, spelling).**  Whatever a field is called — the template's own variable names, its outside names, Python
builtins included — its variable `__<f>__v` is none of the seven locals the template binds itself and none of the fourteen outside
names it reads; distinct fields get distinct variables; so the variables handed to the constructor are pairwise distinct (a required
CatchAll field's variable included) and every required field is among them.  Renaming the fields of a class consistently therefore
cannot make two of them, or one of them and the template, share a name in the generated function. -/
theorem C15_genloadv1_field_vars_fresh (g : VIn) (m : S) :
    (fieldVar m ∉ fixedLocals ∧ fieldVar m ∉ allOuter) ∧
    ((g.fields.map (·.name)).Nodup → (∀ n idx, g.catchAll = .required n idx → n ∉ g.fields.map (·.name)) → (ctorVars g).Nodup) ∧
    (∀ f ∈ g.fields, f.hasDefault = false → fieldVar f.name ∈ ctorVars g) :=
  ⟨fieldVar_fresh m, ctorVars_nodup g, fun f hf hd => ctorVars_complete g f hf hd⟩

open DW.GenLoadV1 in
/-- **C15 (v1 skeleton, quoting).**  Every piece of user text the skeleton writes into the source — the field name in `field=…`,
each alias in `o.get(…, MISSING)`, the tag key in `… in o`, the name of a defaulted CatchAll field — goes through `repr` (and reads
back as the same text, `C15_repr_roundtrip`); the only other use of a field name is inside the identifier `__<f>__v`.  So quotes,
backslashes, braces or newlines in aliases and tag keys cannot end a literal or open an expression in the generated function (the
byte-for-byte correspondence runs over exactly such texts). -/
theorem C15_genloadv1_text_is_literal (printable : Char → Bool) (f : VField) (k n : S) (g : VIn) (hg : g.tagKey = some k)
    (hp : g.preAssign = true) :
    (fieldLit printable f).text = "field=".toList ++ pyRepr printable f.name ∧
    (getPart printable (.lit k)).text = "v1=o.get(".toList ++ pyRepr printable k ++ ", MISSING)".toList ∧
    getCond printable (.lit k) = "(v1 := o.get(".toList ++ pyRepr printable k ++ ", MISSING)) is not MISSING".toList ∧
    (catchDfltPart printable n).text = "init_kwargs[".toList ++ pyRepr printable n ++ "] = ".toList ++ catchAllDef ∧
    (∃ rest, tagStmts printable g = S1.s0 (.line [fieldNone]) :: S1.ifc (pyRepr printable k ++ " in o".toList) ["o".toList] [] [] [.line [incPart]] :: rest) ∧
    pyUnquote (pyRepr printable k) = some k := by
  refine ⟨rfl, rfl, rfl, rfl, ⟨[], ?_⟩, C15_repr_roundtrip printable k⟩
  simp [tagStmts, hg, hp, DW.GenLoad.t]

open DW.GenLoadV1 DW.GenDump in
/-- non-vacuity of `C15_genloadv1_premises_sound`: the test passes on the class of the examples above (whose second field is called
like a template variable here), and fails when a value expression binds one of the skeleton's outside names -/
example :
    let mk (binds : List S) : VIn :=
      { catchAll := .required "rest".toList 1,
        fields := [{ name := "cls".toList, lookup := .anyOf [.lit "A".toList, .lit "it's".toList], expr := "int(v1)".toList,
                     exprReads := ["v1".toList, "int".toList], exprBinds := binds },
                   { name := "v1".toList, hasDefault := true, lookup := .pathAssign [.str "x".toList, .int 0],
                     expr := "v1".toList, exprReads := ["v1".toList] }] }
    let outer : List S := ["cls", "fields", "MISSING", "re_raise", "raise_missing_fields", "locals", "Exception", "aliases", "len",
                            "safe_get", "int"].map String.toList
    premisesB (mk []) outer = true ∧ premisesB (mk ["tp".toList]) outer = true ∧ premisesB (mk ["len".toList]) outer = false := by
  decide +kernel

open DW.GenLoad in
/-- **C15 (default-engine load generator, quoting).**  The two places where `load_func_for_dataclass` writes user text into the
source — the field name of a path line and the name of the CatchAll field — go through `repr`, which reads back
(`C15_repr_roundtrip`); path parts are literals inside a tuple display. -/
theorem C15_genload_text_is_literal (printable : Char → Bool) (l : PathLine) (f : S) (g : LIn) (hc : g.catchAll = some (f, false)) :
    (∃ parts, pathStmt printable l = Stmt.line parts ∧
      (parts.map (·.text)).head? = some ("field=".toList ++ pyRepr printable l.field)) ∧
    (∃ pre post q, tailStmts printable g = pre ++ Stmt.line [q] :: post ∧
      q.text = "init_kwargs[".toList ++ pyRepr printable f ++ "] = catch_all".toList) ∧
    pyUnquote (pyRepr printable l.field) = some l.field := by
  refine ⟨⟨_, rfl, rfl⟩, ?_, C15_repr_roundtrip printable l.field⟩
  refine ⟨if g.loopOverO then [loopBlock g] else [], ?post,
    Part.mk ("init_kwargs[".toList ++ pyRepr printable f ++ "] = catch_all".toList) ["catch_all".toList, "init_kwargs".toList] [] false,
    ?h, rfl⟩
  case h =>
    unfold tailStmts
    simp only [hc, List.append_assoc, List.singleton_append]
    rfl

end DW.Props.C15
