/-
C06 — results do not depend on call history: caches are transparent.
Theorems about the cache state machine `DW.Caches` (dump side): what a dump shows first in a fresh process is the
specification; repeating it never changes it; the recorded finding is exhibited by a witness.
-/
import DW.Model.Caches
import DW.Props.C07
import DW.Lemmas.KeyCache

namespace DW.Props.C06
open DW DW.Caches DW.Props.C07

/-- state of a class right after its definition (its own Meta, if any, bound to its dumper) -/
def defState (own : Option MetaL) : ClsSt :=
  match own with
  | none => {}
  | some m => bindDumper {} m

theorem genKeys_idem (s : ClsSt) : genKeys (genKeys s) = genKeys s := by
  cases s with
  | mk a k t => cases a <;> simp [genKeys]

theorem nestedUpdate_idem (ds : Defs) (cfg : Option MetaL) (n : Nat) (s : ClsSt) :
    nestedUpdate ds cfg n (nestedUpdate ds cfg n s) = nestedUpdate ds cfg n s := by
  cases s with
  | mk a k t =>
    cases cfg with
    | none => simp [nestedUpdate, genKeys_idem]
    | some c =>
      cases a <;> cases hk : (mergeL (ds.get n).own (some c)).kt <;> cases k <;>
        simp [nestedUpdate, genKeys, bindDumper, hk, Bool.or_assoc]

theorem set_eq_self (st : St) (c : Nat) (v : ClsSt) (h : st.get c = v) : st.set c v = st := by
  funext x
  by_cases hx : x = c
  · subst hx; simp [St.set, ← h, St.get]
  · simp [St.set, hx]

/-- dumping the same nested classes again changes nothing and shows the same -/
theorem dumpNested_idem (ds : Defs) (cfg : Option MetaL) (ns : List Nat) (hnd : ns.Nodup) (st : St) :
    dumpNested ds cfg (dumpNested ds cfg st ns).1 ns = dumpNested ds cfg st ns := by
  induction ns generalizing st with
  | nil => rfl
  | cons n r ih =>
    have hn : n ∉ r := (List.nodup_cons.mp hnd).1
    have hr : r.Nodup := (List.nodup_cons.mp hnd).2
    simp only [dumpNested]
    -- the state of `n` after the whole first pass is what the first step made it
    have hget : ((dumpNested ds cfg (st.set n (nestedUpdate ds cfg n (st.get n))) r).1).get n
        = nestedUpdate ds cfg n (st.get n) := by
      rw [dumpNested_frame ds cfg r _ n hn]; exact get_set_eq _ _ _
    rw [hget, nestedUpdate_idem]
    have hset : ((dumpNested ds cfg (st.set n (nestedUpdate ds cfg n (st.get n))) r).1).set n
        (nestedUpdate ds cfg n (st.get n)) = (dumpNested ds cfg (st.set n (nestedUpdate ds cfg n (st.get n))) r).1 := by
      exact set_eq_self _ _ _ hget
    rw [hset, ih hr]

/-- C06 (repetition): the same dump made again — immediately after — shows exactly the same. -/
theorem C06_repeat_same (ds : Defs) (st : St) (r : Nat) (hnd : (ds.get r).nested.Nodup) (hr : r ∉ (ds.get r).nested) :
    (step ds (step ds st (.dump r)).1 (.dump r)).2 = (step ds st (.dump r)).2 := by
  simp only [step]
  -- after the first dump the root's entry is genKeys of its old one, and it is untouched by its nested classes
  have hroot : ((dumpNested ds (rootCfg (ds.get r).own) (st.set r (genKeys (st.get r))) (ds.get r).nested).1).get r
      = genKeys (st.get r) := by
    rw [dumpNested_frame _ _ _ _ r hr]; exact get_set_eq _ _ _
  rw [hroot, genKeys_idem]
  have hset : ((dumpNested ds (rootCfg (ds.get r).own) (st.set r (genKeys (st.get r))) (ds.get r).nested).1).set r
      (genKeys (st.get r)) = (dumpNested ds (rootCfg (ds.get r).own) (st.set r (genKeys (st.get r))) (ds.get r).nested).1 := by
    exact set_eq_self _ _ _ hroot
  rw [hset, dumpNested_idem ds _ _ hnd, hroot]

theorem upd_spec (n : Nat) (own cfg : Option MetaL) :
    occOf n (genKeys (match cfg with
      | none => defState own
      | some _ => bindDumper (defState own) (mergeL own cfg))) = specOcc n (mergeL own cfg) := by
  cases own with
  | none =>
    cases cfg with
    | none => simp [defState, genKeys, occOf, specOcc, mergeL]
    | some c =>
      cases c with
      | mk kt ts rc =>
        cases kt <;> cases ts <;> simp [defState, genKeys, bindDumper, occOf, specOcc, mergeL]
        all_goals (rename_i b; cases b <;> simp)
  | some o =>
    cases o with
    | mk kt ts rc =>
      cases cfg with
      | none =>
        cases kt <;> cases ts <;> simp [defState, genKeys, bindDumper, occOf, specOcc, mergeL]
        all_goals (rename_i b; cases b <;> simp)
      | some c =>
        cases c with
        | mk kt2 ts2 rc2 =>
          cases kt <;> cases ts <;> cases kt2 <;> cases ts2 <;>
            simp [defState, genKeys, bindDumper, occOf, specOcc, mergeL]
          all_goals (first
            | (rename_i b; cases b <;> simp)
            | (rename_i b1 b2; cases b1 <;> cases b2 <;> simp)
            | skip)

theorem nestedUpdate_def_spec (ds : Defs) (cfg : Option MetaL) (n : Nat) :
    occOf n (nestedUpdate ds cfg n (defState (ds.get n).own)) = specOcc n (mergeL (ds.get n).own cfg) := by
  unfold nestedUpdate
  exact upd_spec n _ cfg

/-- a state in which the listed classes have just been defined and not used yet -/
def FreshOn (ds : Defs) (st : St) (cs : List Nat) : Prop := ∀ c ∈ cs, st.get c = defState (ds.get c).own

theorem dumpNested_fresh (ds : Defs) (cfg : Option MetaL) (ns : List Nat) (hnd : ns.Nodup) (st : St)
    (hf : FreshOn ds st ns) :
    (dumpNested ds cfg st ns).2 = ns.map (fun n => specOcc n (mergeL (ds.get n).own cfg)) := by
  induction ns generalizing st with
  | nil => rfl
  | cons n r ih =>
    have hn : n ∉ r := (List.nodup_cons.mp hnd).1
    have hr : r.Nodup := (List.nodup_cons.mp hnd).2
    simp only [dumpNested, List.map_cons]
    rw [hf n (by simp), nestedUpdate_def_spec]
    congr 1
    apply ih hr
    intro c hc
    have hcn : c ≠ n := fun h => hn (h ▸ hc)
    rw [get_set_ne _ _ _ _ hcn]
    exact hf c (by simp [hc])

/-- C06 (first use is the specification): in a state where a class and the classes nested in it have been defined
but not used, a dump shows exactly the specified fingerprint — own Meta for the root, merge(own, root config) for every
nested class. -/
theorem C06_first_use_is_spec (ds : Defs) (st : St) (r : Nat) (hnd : (ds.get r).nested.Nodup)
    (hr : r ∉ (ds.get r).nested) (hf : FreshOn ds st (r :: (ds.get r).nested)) :
    (step ds st (.dump r)).2 = specDump ds r := by
  simp only [step, specDump]
  have hroot := hf r (by simp)
  rw [dumpNested_frame _ _ _ _ r hr, get_set_eq]
  congr 1
  · -- the root occurrence
    rw [hroot]
    have := nestedUpdate_def_spec ds none r
    simpa [nestedUpdate] using this
  · apply dumpNested_fresh ds _ _ hnd
    intro c hc
    have hcr : c ≠ r := fun h => hr (h ▸ hc)
    rw [get_set_ne _ _ _ _ hcr]
    exact hf c (by simp [hc])

/-- C06 / C07 combined: operations on *other* families (disjoint from this dump's family) in between do not matter:
the first dump of a freshly defined family shows the specification after any such history. -/
theorem C06_transparent_partial (ds : Defs) (st : St) (ops : List Op) (r : Nat) (hnd : (ds.get r).nested.Nodup)
    (hr : r ∉ (ds.get r).nested) (hf : FreshOn ds st (r :: (ds.get r).nested))
    (hdisj : ∀ op ∈ ops, ∀ c ∈ family ds (.dump r), c ∉ family ds op) :
    (step ds (run ds st ops).1 (.dump r)).2 = specDump ds r := by
  rw [C07_disjoint ds st ops r hdisj]
  exact C06_first_use_is_spec ds st r hnd hr hf

/-! ### the load side: the per-class key cache -/

/-- **C06 (load side, any history).** The generated loader looks JSON keys up in a per-class cache that every call
extends. For any class, any effective Meta, any per-field loaders and **any sequence of earlier documents** loaded by
that class: every call returns exactly what the same call returns in a fresh process (the loop without a cache,
`loadClassWith`). Invariant by induction over the history: every cached entry is what the slow path computes for its
key; a class that rejects unknown keys rejects them whether it finds them cached or not. -/
theorem C06_load_history_independent (FL : S → JVal → LRes) (eff : MetaCfg) (ci : ClassInfo)
    (docs : List (List (S × JVal))) :
    (KeyCache.runCalls false FL eff ci [] docs).1 = docs.map (fun d => loadClassWith FL eff ci (.dict d)) :=
  KeyCache.history_eq FL eff ci docs [] (KeyCache.Inv_nil eff ci)

/-- … and the cache a call leaves behind satisfies the invariant again, also when the call fails half way -/
theorem C06_load_cache_invariant (FL : S → JVal → LRes) (eff : MetaCfg) (ci : ClassInfo) (c : KeyCache.Cache)
    (hc : KeyCache.Inv eff ci c) (d : List (S × JVal)) :
    KeyCache.Inv eff ci (KeyCache.loadCall false FL eff ci c d).2 :=
  (KeyCache.call_eq FL eff ci c hc d).2

def isOk : LRes → Bool
  | .ok _ => true
  | .error _ => false

/-- **the same class under several policies.** The functions generated for one class under different unknown-key policies
— the class loaded on its own, nested under a main class whose `raise_on_unknown_json_key` cascades, nested under one
without — share the class's key cache. For any history of such calls (each with the effective Meta of the function it goes
through; they resolve keys alike, `KeyCache.SameKeys`), every call returns what it returns in a fresh process under its
own policy: a key cached as "ignored" by a lenient call is still rejected by a strict one (repair after the finding
`ignored-key-cache-defeats-cascaded-raise`), and a rejection leaves nothing behind that a lenient call could trip over. -/
theorem C06_load_history_independent_across_policies (FL : S → JVal → LRes) (ci : ClassInfo) (eff0 : MetaCfg)
    (calls : List (MetaCfg × List (S × JVal))) (hs : ∀ p ∈ calls, KeyCache.SameKeys ci eff0 p.1) :
    (KeyCache.runCallsP FL ci [] calls).1 = calls.map (fun p => loadClassWith FL p.1 ci (.dict p.2)) :=
  KeyCache.history_policies_eq FL ci eff0 calls [] (KeyCache.Inv_nil eff0 ci) hs

/-- the hypothesis is met by policies that differ in `raise_on_unknown_json_key` only; and the concrete history "lenient,
then strict, then lenient" on `K(a)` with the unknown key `zzz` gives accepted / rejected / accepted -/
theorem C06_across_policies_witness :
    let ci : ClassInfo := { name := "K".toList, fields := [{ name := "a".toList }] }
    let lenient : MetaCfg := {}
    let strict : MetaCfg := { raiseOnUnknown := some true }
    let doc : List (S × JVal) := [("a".toList, .int 1), ("zzz".toList, .int 2)]
    KeyCache.SameKeys ci lenient strict ∧
    ((KeyCache.runCallsP (fun _ v => pure v.toPy) ci [] [(lenient, doc), (strict, doc), (lenient, doc)]).1.map isOk
      = [true, false, true]) := by
  exact ⟨KeyCache.sameKeys_raise _ _ _, by rfl⟩

/-- caching an unknown key although the class rejects unknown keys (the behaviour before repair 4bdd4a1, `quirk`) no longer
changes an outcome either: the strict function rejects a cached unknown key too -/
theorem C06_negative_cache_witness :
    let ci : ClassInfo := { name := "K".toList, fields := [{ name := "a".toList }] }
    let eff : MetaCfg := { raiseOnUnknown := some true }
    let doc : List (S × JVal) := [("a".toList, .int 1), ("zzz".toList, .int 2)]
    ((KeyCache.runCalls true (fun _ v => pure v.toPy) eff ci [] [doc, doc]).1.map isOk = [false, false]) ∧
    ((KeyCache.runCalls false (fun _ v => pure v.toPy) eff ci [] [doc, doc]).1.map isOk = [false, false]) := by
  constructor <;> rfl

end DW.Props.C06
