/-
C16 — field properties get their declared default through the setter, in every style.

Model: DW/Model/C16.lean (class-body shadowing `classDict`, the metaclass `propertyWizard`, `@dataclass`, `__init__`,
the wrapped setter).  All theorems quantify over ARBITRARY member lists / annotation terms / argument lists; the
metaclass-level ones are proved by induction over the namespace fold, the instance-level ones by induction over the
field list of `__init__`.
-/
import DW.Model.C16
import DW.Lemmas.C16

namespace DW.Props.C16
open DW.C16

/-! ## constructor parameters and field order -/

/-- Field order is preserved: after the metaclass the annotation names are those of the class body, each underscored
annotation that is paired with a settable property (`exposed`) replaced by its public name, first occurrences kept,
order unchanged — for every member list. -/
theorem C16_field_order (q : Quirks) (ms : List Member) :
    (dataclassFields (propertyWizard q ms)).map (·.name)
      = dedup [] ((keys (classDict ms).anns).map (expose (classDict ms))) :=
  fieldNames_eq q ms

/-- Constructor parameters: when `@dataclass` accepts the class, (1) its fields are the annotation names under their
public names in declaration order, the constructor parameters being those with `init=True` in that order; (2) every
settable property paired with a field is a constructor parameter under its PUBLIC name whose default is the
property object itself; (3) an exposed underscored annotation name is no longer a field. -/
theorem C16_ctor_params (q : Quirks) (ms : List Member) (fs : List DField)
    (hd : dataclass (propertyWizard q ms) = .ok fs) :
    fs.map (·.name) = dedup [] ((keys (classDict ms).anns).map (expose (classDict ms)))
    ∧ ctorParams fs = fs.filter (·.init)
    ∧ (∀ f ∈ settableNames (classDict ms).ns, paired (classDict ms).anns f = true →
        ({ name := pubOf f, dflt := .value .propObj, init := true } : DField) ∈ ctorParams fs)
    ∧ (∀ n, exposed (classDict ms) n = true → n ∉ fs.map (·.name)) := by
  have hfs : fs = dataclassFields (propertyWizard q ms) := by
    unfold dataclass at hd
    simp only at hd
    split at hd
    · cases hd
    · split at hd
      · cases hd
      · split at hd
        · cases hd
        · simp only [Except.ok.injEq] at hd; exact hd.symm
  refine ⟨by rw [hfs]; exact C16_field_order q ms, rfl, ?_, ?_⟩
  · intro f hf hp
    obtain ⟨o, fv, hw⟩ := foldl_wrapped q (classDict ms).anns f hp (classDict ms).ns { attrs := (classDict ms).ns } hf
    have hmem := pubOf_mem_fields q ms f hf hp
    unfold ctorParams
    rw [List.mem_filter]
    refine ⟨?_, rfl⟩
    rw [hfs]
    unfold dataclassFields at hmem ⊢
    rw [List.mem_map] at hmem ⊢
    obtain ⟨fd, hfd, hname⟩ := hmem
    rw [List.mem_map] at hfd
    obtain ⟨n, hn, hfdn⟩ := hfd
    have hnp : n = pubOf f := by
      rw [← hname, ← hfdn, dfieldOf_name]
    refine ⟨n, hn, ?_⟩
    rw [hnp]
    unfold dfieldOf
    have : get (pubOf f) (propertyWizard q ms).attrs = some (.prop o true (some fv)) := hw
    rw [this]
    simp [toVal]
  · intro n he hmem
    rw [hfs, C16_field_order, mem_dedup] at hmem
    rcases hmem with hmem | hmem
    · cases hmem
    · rw [List.mem_map] at hmem
      obtain ⟨m, _, hm⟩ := hmem
      have hun : isUnder n = true := by
        unfold exposed at he
        simp only [Bool.and_eq_true] at he
        exact he.1.1
      unfold expose at hm
      by_cases hem : exposed (classDict ms) m = true
      · simp only [hem, if_true] at hm
        have := isUnder_lstrip m
        rw [hm, hun] at this
        cases this
      · simp only [hem, Bool.false_eq_true, if_false] at hm
        subst hm
        exact hem he

/-! ## which default the setter is wrapped with -/

/-- Under independence (no two settable properties write the same class attribute) every paired settable property
`f` ends up under its public name as a property whose setter is wrapped with exactly the declared default
(`declaredDefault`, stated style by style: explicit value / field(default) / field(default_factory) of the partner
field, else what the surviving annotation carries in `Annotated[..., field(..)]` or implies by its type, else
None) — for every member list, by induction over the namespace fold. -/
theorem C16_default_chosen (q : Quirks) (ms : List Member) (f : Name)
    (hind : independent (settableNames (classDict ms).ns) = true)
    (hf : f ∈ settableNames (classDict ms).ns) (hp : paired (classDict ms).anns f = true) :
    get (pubOf f) (propertyWizard q ms).attrs
      = some (.prop f true (some (declaredDefault q (classDict ms) f))) := by
  unfold propertyWizard wizardState declaredDefault
  exact foldl_default_chosen q (classDict ms).anns (classDict ms).ns f hp (classDict ms).ns
    { attrs := (classDict ms).ns } hind hf rfl

/-- the IDE style of docs/using_field_properties.rst: a helper `_x: T = field(init=False)` without a default does not
hide the default carried by the public annotation -/
theorem C16_public_annotation_beats_empty_helper (q : Quirks) (anns : List (Name × Ty)) (f : Name) (fs : FieldSpec)
    (i : Bool) (hf : isUnder f = false) (hu : (get ('_' :: f) anns).isSome = true) (hpub : (get f anns).isSome = true)
    (hfs : fs.isSet = false) :
    declaredDefaultWith q anns f (some (.field fs i)) = defaultFromAnnotation anns f := by
  unfold declaredDefaultWith
  simp [hf, hu, hpub, explicitDefault, hfs]

/-- when field and property share one name only the annotation survives: the default is the one the annotation
carries or implies, whatever value the shadowed assignment had -/
theorem C16_same_name_uses_annotation (q : Quirks) (anns : List (Name × Ty)) (f : Name) (pv : Option NsVal)
    (h : (get (partner f) anns).isSome = false) :
    declaredDefaultWith q anns f pv = defaultFromAnnotation anns f := by
  unfold declaredDefaultWith
  unfold partner at h
  by_cases hf : isUnder f = true
  · simp only [hf, if_true] at h ⊢; simp [h]
  · have hf' : isUnder f = false := by simpa using hf
    simp only [hf', Bool.false_eq_true, if_false] at h ⊢; simp [h]

/-- a zero value that is a list, dict or set (or an instance of a subclass: defaultdict, OrderedDict, Counter, list
subclasses) is never stored as a shared default: the type itself becomes the factory -/
theorem C16_mutable_zero_is_factory (t : Ty) (a : Atom) (h : callZero t = some a) (hl : a.isLDS = true) :
    fromType t = { dflt := none, factory := some (.atom a) } := by
  simp [fromType, h, hl]

/-! ## routing through the setter -/

/-- Omitted argument, any class: if slot `p` holds a property wrapped with `fv`, is an `init` field whose
default is the property object, and the call does not pass `p`, then the constructor calls the user's setter for `p`
exactly once, with a new product of the factory (allocation number `n` inside this construction's range), else the
default, else None; and the getter returns that value. -/
theorem C16_wrapped_default_routed (c0 : Cls) (fs : List DField) (args : List (Name × Val)) (c c' : Nat) (i : Inst)
    (p o : Name) (fv : FieldSpec)
    (hnd : (fs.map (·.name)).Nodup)
    (hp : get p c0.attrs = some (.prop o true (some fv)))
    (hfd : ({ name := p, dflt := .value .propObj, init := true } : DField) ∈ fs)
    (harg : get p args = none)
    (h : construct c0 fs args c = .ok (i, c')) :
    ∃ n, c ≤ n ∧ n ≤ c' ∧ (fv.factory.isSome = true → n < c')
      ∧ logOf p i = [(p, routedDefault fv n)] ∧ get p i.store = some (routedDefault fv n) := by
  obtain ⟨n, h1, h2, h3, h4⟩ := initLoop_field c0.attrs args p o (some fv) hp .propObj fs {} c i c' hnd (construct_ok h)
    ⟨_, hfd, rfl, by intro c1; simp [bindField, harg]⟩
  have hw := wrapW_omitted fv n
  rw [hw.1] at h3 h4
  rw [hw.2] at h2
  refine ⟨n, h1, ?_, ?_, by simpa [logOf] using h3, h4⟩
  · by_cases hfac : fv.factory.isSome = true
    · simp only [hfac, if_true] at h2; exact Nat.le_of_succ_le h2
    · simp only [hfac, Bool.false_eq_true, if_false] at h2; exact h2
  · intro hfac
    simp only [hfac, if_true] at h2
    exact h2

/-- Omitted argument, end to end: for every member list whose settable properties are independent, every paired
settable property `f`, every accepted construction that does not pass its public name: the user's setter is called
exactly once with the DECLARED default — a fresh factory product, the declared / carried / implied value, or None —
and the getter returns it. -/
theorem C16_default_routed (q : Quirks) (ms : List Member) (fs : List DField) (f : Name)
    (args : List (Name × Val)) (c c' : Nat) (i : Inst)
    (hind : independent (settableNames (classDict ms).ns) = true)
    (hf : f ∈ settableNames (classDict ms).ns) (hp : paired (classDict ms).anns f = true)
    (hd : dataclass (propertyWizard q ms) = .ok fs)
    (harg : get (pubOf f) args = none)
    (h : construct (propertyWizard q ms) fs args c = .ok (i, c')) :
    ∃ n, c ≤ n ∧ n ≤ c' ∧ ((declaredDefault q (classDict ms) f).factory.isSome = true → n < c')
      ∧ logOf (pubOf f) i = [(pubOf f, routedDefault (declaredDefault q (classDict ms) f) n)]
      ∧ get (pubOf f) i.store = some (routedDefault (declaredDefault q (classDict ms) f) n) := by
  have hcp := C16_ctor_params q ms fs hd
  have hmem := hcp.2.2.1 f hf hp
  unfold ctorParams at hmem
  have hnd : (fs.map (·.name)).Nodup := by
    rw [hcp.1, ← keys_propertyWizard_anns q ms]
    exact nodup_keys_propertyWizard_anns q ms
  exact C16_wrapped_default_routed (propertyWizard q ms) fs args c c' i (pubOf f) f _ hnd
    (C16_default_chosen q ms f hind hf hp) (List.mem_filter.mp hmem).1 harg h

/-- Supplied argument: whatever the property slot `p` is wrapped with (or not wrapped at all), a value that is not
itself a property object goes to the user's setter unchanged, exactly once, and the getter returns it. -/
theorem C16_value_routed (c0 : Cls) (fs : List DField) (args : List (Name × Val)) (c c' : Nat) (i : Inst)
    (p o : Name) (w : Option FieldSpec) (d : DDefault) (v : Val)
    (hnd : (fs.map (·.name)).Nodup)
    (hp : get p c0.attrs = some (.prop o true w))
    (hfd : ({ name := p, dflt := d, init := true } : DField) ∈ fs)
    (harg : get p args = some v) (hv : v ≠ .propObj)
    (h : construct c0 fs args c = .ok (i, c')) :
    logOf p i = [(p, v)] ∧ get p i.store = some v := by
  obtain ⟨n, _, _, h3, h4⟩ := initLoop_field c0.attrs args p o w hp v fs {} c i c' hnd (construct_ok h)
    ⟨_, hfd, rfl, by intro c1; simp [bindField, harg]⟩
  have hw : (wrapW w v n).1 = v := by
    cases w with
    | none => rfl
    | some fv =>
      unfold wrapW wrapSet
      cases v <;> first | rfl | exact absurd rfl hv
  rw [hw] at h3 h4
  exact ⟨by simpa [logOf] using h3, h4⟩

/-- Later assignment `inst.p = v` goes through the user's setter as well: one more call, with `v`. -/
theorem C16_assignment_routed (c0 : Cls) (i : Inst) (c : Nat) (p o : Name) (w : Option FieldSpec) (v : Val)
    (hp : get p c0.attrs = some (.prop o true w)) (hv : v ≠ .propObj) :
    ∃ i2, assign c0 i c p v = .ok (i2, c) ∧ i2.log = i.log ++ [(p, v)] ∧ get p i2.store = some v := by
  have hw : wrapW w v c = (v, c) := by
    cases w with
    | none => rfl
    | some fv =>
      unfold wrapW wrapSet
      cases v <;> first | rfl | exact absurd rfl hv
  refine ⟨{ log := i.log ++ [(p, v)], store := put p v i.store }, ?_, rfl, by simp [get_put_self]⟩
  unfold assign
  rw [setAttr_prop c0.attrs i c p o w v hp, hw]

/-- Factory freshness: two constructions of the same class, the second started at or after the allocation count
where the first ended, both omitting `p` whose setter is wrapped with a `default_factory`: the two setter calls
receive products with DIFFERENT allocation numbers (distinct objects), each made by that factory. -/
theorem C16_factory_fresh (c0 : Cls) (fs : List DField) (args1 args2 : List (Name × Val)) (c1 c1' c2 c2' : Nat)
    (i1 i2 : Inst) (p o : Name) (fv : FieldSpec) (fac : Factory)
    (hnd : (fs.map (·.name)).Nodup)
    (hp : get p c0.attrs = some (.prop o true (some fv))) (hfac : fv.factory = some fac)
    (hfd : ({ name := p, dflt := .value .propObj, init := true } : DField) ∈ fs)
    (ha1 : get p args1 = none) (ha2 : get p args2 = none)
    (h1 : construct c0 fs args1 c1 = .ok (i1, c1')) (hseq : c1' ≤ c2)
    (h2 : construct c0 fs args2 c2 = .ok (i2, c2')) :
    ∃ n1 n2, logOf p i1 = [(p, .product fac n1)] ∧ logOf p i2 = [(p, .product fac n2)] ∧ n1 ≠ n2 := by
  obtain ⟨n1, _, _, hlt1, hl1, _⟩ := C16_wrapped_default_routed c0 fs args1 c1 c1' i1 p o fv hnd hp hfd ha1 h1
  obtain ⟨n2, hge2, _, _, hl2, _⟩ := C16_wrapped_default_routed c0 fs args2 c2 c2' i2 p o fv hnd hp hfd ha2 h2
  have hr : ∀ n, routedDefault fv n = .product fac n := by intro n; simp [routedDefault, hfac]
  refine ⟨n1, n2, by rw [hl1, hr], by rw [hl2, hr], ?_⟩
  have : n1 < c1' := hlt1 (by simp [hfac])
  exact Nat.ne_of_lt (Nat.lt_of_lt_of_le this (Nat.le_trans hseq hge2))

/-! ## what is left untouched -/

/-- Frame: a class attribute that no PAIRED settable property touches (neither its own name nor its partner name)
is bound after the metaclass to exactly what the class body bound it to — read-only properties, ordinary
properties, plain attributes, methods, ordinary fields — for every member list. -/
theorem C16_untouched (q : Quirks) (ms : List Member) (k : Name)
    (h : ∀ f ∈ settableNames (classDict ms).ns, paired (classDict ms).anns f = true → f ≠ k ∧ partner f ≠ k) :
    get k (propertyWizard q ms).attrs = get k (classDict ms).ns := by
  unfold propertyWizard wizardState
  exact foldl_frame q (classDict ms).anns k (classDict ms).ns { attrs := (classDict ms).ns } h

/-- read-only properties are skipped outright: a read-only property never changes the state of the metaclass -/
theorem C16_readonly_skipped (q : Quirks) (anns : List (Name × Ty)) (st : WState) (f o : Name) (w : Option FieldSpec) :
    stepNs q anns st (f, .prop o false w) = st := rfl

/-- an ordinary settable property (neither its name nor its partner annotated) is skipped as well -/
theorem C16_unpaired_skipped (q : Quirks) (anns : List (Name × Ty)) (st : WState) (f o : Name) (w : Option FieldSpec)
    (h : paired anns f = false) : stepNs q anns st (f, .prop o true w) = st :=
  stepNs_unpaired q anns st f o w h

/-- a class without paired settable properties comes out exactly as its body declared it: same annotations in the
same order, same attributes -/
theorem C16_untouched_class (q : Quirks) (ms : List Member)
    (h : ∀ f ∈ settableNames (classDict ms).ns, paired (classDict ms).anns f = false) :
    (propertyWizard q ms).anns = (classDict ms).anns ∧ (propertyWizard q ms).attrs = (classDict ms).ns := by
  have hfold : ∀ (es : List (Name × NsVal)) (st : WState),
      (∀ f ∈ settableNames es, paired (classDict ms).anns f = false) →
      es.foldl (stepNs q (classDict ms).anns) st = st := by
    intro es
    induction es with
    | nil => intro st _; rfl
    | cons e r ih =>
      intro st hh
      obtain ⟨g, v⟩ := e
      simp only [List.foldl_cons]
      by_cases hv : ∃ o w, v = .prop o true w
      · obtain ⟨o, w, hv⟩ := hv
        subst hv
        rw [mem_settableNames_cons_prop] at hh
        rw [stepNs_unpaired q _ st g o w (hh g (by simp))]
        exact ih st (fun f hf => hh f (List.mem_cons_of_mem _ hf))
      · have hv' : ∀ o w, v ≠ .prop o true w := fun o w e => hv ⟨o, w, e⟩
        rw [settableNames_cons_other g v r hv'] at hh
        have : stepNs q (classDict ms).anns st (g, v) = st := by
          cases v with
          | prop o s w =>
            cases s with
            | true => exact absurd rfl (hv' o w)
            | false => rfl
          | _ => rfl
        rw [this]
        exact ih st hh
  have hst : wizardState q (classDict ms) = { attrs := (classDict ms).ns } := by
    unfold wizardState
    exact hfold (classDict ms).ns { attrs := (classDict ms).ns } h
  unfold propertyWizard
  simp only [hst]
  simp

/-! ## the known deviation: a plain default next to an underscored property -/

/-- Without the deviation (`Quirks.clean`), a default declared by plain value next to an underscored property IS the
default, whatever the annotation implies. -/
theorem C16_plain_default_wins_clean (anns : List (Name × Ty)) (f : Name) (l : Lit)
    (hf : isUnder f = true) (hpub : (get (lstrip f) anns).isSome = true) :
    declaredDefaultWith Quirks.clean anns f (some (.lit l)) = { dflt := some (.lit l), factory := none } := by
  unfold declaredDefaultWith
  simp [hf, hpub, Quirks.clean, toVal]

/-- With the deviation the same holds only when the public annotation neither carries nor implies a factory. -/
theorem C16_plain_default_partial (q : Quirks) (anns : List (Name × Ty)) (f : Name) (l : Lit)
    (hf : isUnder f = true) (hpub : (get (lstrip f) anns).isSome = true)
    (hnf : (defaultFromAnnotation anns (lstrip f)).factory = none) :
    routedDefault (declaredDefaultWith q anns f (some (.lit l))) 0 = .lit l := by
  unfold declaredDefaultWith
  simp only [hf, if_true, hpub]
  by_cases hq : q.underPlainKeepsFactory = true
  · simp [hq, routedDefault, hnf, toVal]
  · simp [hq, routedDefault, toVal]

/-- Witness (the code as it stands, probed by the harness): `wheels: list = None` with a property `_wheels` — the
declared default None is ignored and a fresh list goes through the setter. -/
theorem C16_plain_default_witness :
    let ms : List Member := [.annAssign "wheels".toList (.atom .list) (.lit .none), .prop "_wheels".toList true]
    let q : Quirks := { underPlainKeepsFactory := true }
    ∃ fs i c', dataclass (propertyWizard q ms) = .ok fs
      ∧ construct (propertyWizard q ms) fs [] 0 = .ok (i, c')
      ∧ i.log = [("wheels".toList, .product (.atom .list) 0)]
      ∧ (∀ fs' i' c'', dataclass (propertyWizard Quirks.clean ms) = .ok fs' →
          construct (propertyWizard Quirks.clean ms) fs' [] 0 = .ok (i', c'') →
          i'.log = [("wheels".toList, .lit .none)]) := by
  refine ⟨[{ name := "wheels".toList, dflt := .value .propObj, init := true }],
          { log := [("wheels".toList, .product (.atom .list) 0)], store := [("wheels".toList, .product (.atom .list) 0)] },
          1, by rfl, by rfl, rfl, ?_⟩
  intro fs' i' c'' h1 h2
  have e1 : dataclass (propertyWizard Quirks.clean
      [.annAssign "wheels".toList (.atom .list) (.lit .none), .prop "_wheels".toList true])
      = .ok [{ name := "wheels".toList, dflt := .value .propObj, init := true }] := by rfl
  rw [e1] at h1
  simp only [Except.ok.injEq] at h1
  subst h1
  have e2 : construct (propertyWizard Quirks.clean
      [.annAssign "wheels".toList (.atom .list) (.lit .none), .prop "_wheels".toList true])
      [{ name := "wheels".toList, dflt := .value .propObj, init := true }] [] 0
      = .ok ({ log := [("wheels".toList, .lit .none)], store := [("wheels".toList, .lit .none)] }, 0) := by rfl
  rw [e2] at h2
  simp only [Except.ok.injEq, Prod.mk.injEq] at h2
  rw [← h2.1]

/-! ## non-vacuity -/

/-- the IDE style of the documentation, end to end: `wheels: Annotated[int, field(default=4)]`, helper
`_wheels: int = field(init=False)`, public property: one constructor parameter `wheels`, the setter receives 4 -/
theorem C16_ide_style_example :
    let ms : List Member :=
      [.ann "wheels".toList (.annotated (.atom .int) [.field { dflt := some (.lit (.int 4)) }]),
       .annAssign "_wheels".toList (.atom .int) (.field {} false),
       .prop "wheels".toList true]
    ∃ fs i c', dataclass (propertyWizard Quirks.clean ms) = .ok fs
      ∧ fs.map (·.name) = ["wheels".toList]
      ∧ construct (propertyWizard Quirks.clean ms) fs [] 0 = .ok (i, c')
      ∧ i.log = [("wheels".toList, .lit (.int 4))] := by
  refine ⟨[{ name := "wheels".toList, dflt := .value .propObj, init := true }],
          { log := [("wheels".toList, .lit (.int 4))], store := [("wheels".toList, .lit (.int 4))] }, 0,
          by rfl, by rfl, by rfl, rfl⟩

/-- a dict subclass annotation (DefaultDict[str, int]) gives each instance its own object -/
theorem C16_defaultdict_fresh_example :
    defaultFromTy (.generic .defaultdict true) = { dflt := none, factory := some (.atom .defaultdict) } := by decide

/-! ## the default implied by an annotation depends on the ORDER of its members

Python's typing objects compare equal across member order (`Union[int, str] == Union[str, int] == (str | int)`,
`Literal['r', 'w'] == Literal['w', 'r']`); the implied default does not: it is read off the first member / first value of
the very annotation the class wrote.  (The correspondence stream "histories of equal-comparing annotations" checks the
implementation against exactly this, for several classes declared in one process.) -/

/-- a Union without None: the default implied is that of its FIRST member, whatever follows -/
theorem C16_union_default_is_first_member (a : Ty) (rest : List Ty) (h : (a :: rest).any Ty.isNoneT = false) :
    defaultFromTy (.union (a :: rest)) = fromType a := by
  simp only [defaultFromTy, h, Bool.false_eq_true, if_false]

/-- a Union with None among its members (every spelling of Optional, None in any position): no default value, the setter
receives None — in particular for every order of the members -/
theorem C16_optional_default_none (args args' : List Ty) (hp : args.Perm args') (h : args.any Ty.isNoneT = true) :
    defaultFromTy (.union args') = {} := by
  have h' : args'.any Ty.isNoneT = true := by
    rw [List.any_eq_true] at h ⊢
    obtain ⟨x, hx, hn⟩ := h
    exact ⟨x, hp.mem_iff.mp hx, hn⟩
  simp only [defaultFromTy, h', if_true]

/-- a Literal: the default implied is its FIRST value, whatever follows -/
theorem C16_literal_default_is_first_value (v : Lit) (vs : List Lit) :
    defaultFromTy (.literal (v :: vs)) = { dflt := some (.lit v) } := by
  simp only [defaultFromTy]

/-- the same members in another order imply ANOTHER default: an implementation may not identify the two annotations
(as Python's `==` / `hash` on typing objects do) when it works out the default -/
theorem C16_member_order_matters_example :
    defaultFromTy (.union [.atom .int, .atom .str]) = { dflt := some (.zero .int) }
    ∧ defaultFromTy (.union [.atom .str, .atom .int]) = { dflt := some (.zero .str) }
    ∧ defaultFromTy (.literal [.str "r".toList, .str "w".toList]) = { dflt := some (.lit (.str "r".toList)) }
    ∧ defaultFromTy (.literal [.str "w".toList, .str "r".toList]) = { dflt := some (.lit (.str "w".toList)) }
    ∧ defaultFromTy (.literal [.int 0, .str "r".toList]) ≠ defaultFromTy (.literal [.bool false, .str "r".toList]) := by
  refine ⟨by decide, by decide, by decide, by decide, by decide⟩

/-- the default implied for a field is a function of what the class's own annotations say about that field — of nothing
else (no other field, no other class, nothing that happened before) -/
theorem C16_implied_default_own_annotation (anns anns' : List (Name × Ty)) (n : Name) (h : get n anns = get n anns') :
    defaultFromAnnotation anns n = defaultFromAnnotation anns' n := by
  simp only [defaultFromAnnotation, h]

/-! ## the public name of an underscored property: only LEADING underscores are dropped -/

/-- The public partner of the underscored name `_n` is `n` itself whenever `n` does not start with an underscore —
whatever `n` ends with: `_id_` is paired with `id_`, `_type_` with `type_` (PEP 8 spells a name that clashes with a
keyword or builtin with a trailing underscore). -/
theorem C16_public_name_keeps_suffix (n : Name) (h : isUnder n = false) : lstrip ('_' :: n) = n := by
  match n, h with
  | [], _ => rfl
  | c :: r, h =>
    by_cases hc : c = '_'
    · subst hc; simp [isUnder] at h
    · simp only [lstrip]
      unfold lstrip
      split
      · rename_i heq; simp only [List.cons.injEq] at heq; exact absurd heq.1 hc
      · rfl

/-- underscored property `_id_` over the public field `id_: int = 3`: one constructor parameter `id_`, the setter
receives the declared default 3 -/
theorem C16_trailing_underscore_example :
    let ms : List Member :=
      [.annAssign "id_".toList (.atom .int) (.lit (.int 3)),
       .prop "_id_".toList true]
    ∃ fs i c', dataclass (propertyWizard Quirks.clean ms) = .ok fs
      ∧ fs.map (·.name) = ["id_".toList]
      ∧ construct (propertyWizard Quirks.clean ms) fs [] 0 = .ok (i, c')
      ∧ i.log = [("id_".toList, .lit (.int 3))] := by
  refine ⟨[{ name := "id_".toList, dflt := .value .propObj, init := true }],
          { log := [("id_".toList, .lit (.int 3))], store := [("id_".toList, .lit (.int 3))] }, 0,
          by rfl, by rfl, by rfl, rfl⟩

end DW.Props.C16
