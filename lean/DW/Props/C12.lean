/-
C12 — Meta cascades to nested classes with documented priority unless recursive=False.
-/
import DW.Generated.Tables
import DW.Model.Dump
import DW.Model.Load
import DW.Model.LoadV1

namespace DW.Props.C12
open DW

/-- the attribute sets in the source (regenerated on every run): the four special attributes are never merged,
everything else annotated on AbstractMeta is -/
theorem C12_attribute_sets :
    Generated.metaSpecial = ["json_key_to_field", "recursive", "tag", "v1_field_to_alias"] ∧
    Generated.metaToMerge = ["auto_assign_tags", "debug_enabled", "key_transform_with_dump", "key_transform_with_load",
      "marshal_date_time_as", "raise_on_unknown_json_key", "recursive_classes", "skip_defaults", "skip_defaults_if",
      "skip_if", "tag_key", "v1", "v1_debug", "v1_key_case", "v1_on_unknown_key", "v1_unsafe_parse_dataclass_in_union"] ∧
    (∀ a ∈ Generated.metaToMerge, Generated.metaSpecial.contains a = false) ∧
    (∀ a ∈ Generated.metaFields, (Generated.metaToMerge.contains a || Generated.metaSpecial.contains a) = true) := by
  refine ⟨by decide, by decide, by decide, by decide⟩

/-- merge specification: every setting the nested class sets itself wins, every other mergeable setting comes from
the root -/
theorem C12_merge_spec (n r : MetaCfg) :
    (n.orElse r).keyTransformDump = (n.keyTransformDump <|> r.keyTransformDump) ∧
    (n.orElse r).keyTransformLoad = (n.keyTransformLoad <|> r.keyTransformLoad) ∧
    (n.orElse r).marshalTimestamp = (n.marshalTimestamp <|> r.marshalTimestamp) ∧
    (n.orElse r).skipDefaults = (n.skipDefaults <|> r.skipDefaults) ∧
    (n.orElse r).skipIf = (n.skipIf <|> r.skipIf) ∧
    (n.orElse r).skipDefaultsIf = (n.skipDefaultsIf <|> r.skipDefaultsIf) ∧
    (n.orElse r).raiseOnUnknown = (n.raiseOnUnknown <|> r.raiseOnUnknown) ∧
    (n.orElse r).tagKey = (n.tagKey <|> r.tagKey) ∧
    (n.orElse r).autoAssignTags = (n.autoAssignTags <|> r.autoAssignTags) ∧
    (n.orElse r).v1KeyCase = (n.v1KeyCase <|> r.v1KeyCase) ∧
    (n.orElse r).v1OnUnknown = (n.v1OnUnknown <|> r.v1OnUnknown) := by
  simp [MetaCfg.orElse]

/-- `tag` and `recursive` are never inherited -/
theorem C12_special_never_inherited (n r : MetaCfg) :
    (n.orElse r).tag = n.tag ∧ (n.orElse r).recursive = n.recursive := ⟨rfl, rfl⟩

theorem C12_special_never_inherited_no_meta (r : MetaCfg) :
    (effMeta none (some r)).tag = none ∧ (effMeta none (some r)).recursive = none := ⟨rfl, rfl⟩

/-- a nested class without Meta behaves under the root's mergeable settings; one with a Meta keeps its own choices -/
theorem C12_effective (own r : MetaCfg) :
    effMeta (some own) (some r) = own.orElse r ∧ effMeta none (some r) = ({} : MetaCfg).orElse r ∧
    effMeta (some own) none = own := ⟨rfl, rfl, rfl⟩

/-- with recursive=False on the root nothing is handed down: nested classes behave as on their own -/
theorem C12_recursive_false (r : MetaCfg) (h : r.recursive = some false) (own : Option MetaCfg) :
    rootConfig (some r) = none ∧ effMeta own (rootConfig (some r)) = effMeta own none := by
  have : rootConfig (some r) = none := by simp [rootConfig, h]
  exact ⟨this, by rw [this]⟩

/-- ... and is handed down otherwise -/
theorem C12_recursive_default (r : MetaCfg) (h : r.recursive ≠ some false) : rootConfig (some r) = some r := by
  cases hr : r.recursive with
  | none => simp [rootConfig, hr]
  | some b => cases b <;> simp_all [rootConfig]

/-- The cascade reaches nested values at any depth and inside any container: the travelling config is passed on
*unchanged* through lists / tuples / sets / deques, dict keys and values, named tuples — every element is dumped under
the same root config as its container. -/
theorem C12_config_travels_list (std : Std) (ts : Bool) (cfg : Option MetaCfg) (x : PyVal) (xs : List PyVal) :
    dumpList std ts cfg (x :: xs) = (do
      let y ← dumpV std ts cfg x
      let ys ← dumpList std ts cfg xs
      pure (y :: ys)) := by
  simp [dumpList]

theorem C12_config_travels_pairs (std : Std) (ts : Bool) (cfg : Option MetaCfg) (k v : PyVal) (r : List (PyVal × PyVal)) :
    dumpPairs std ts cfg ((k, v) :: r) = (do
      let k' ← dumpV std ts cfg k
      let v' ← dumpV std ts cfg v
      let r' ← dumpPairs std ts cfg r
      pure ((k', v') :: r')) := by
  simp [dumpPairs]

/-- a nested instance is dumped under merge(own, root) — and its own fields again see the *root* config (not the
merge), so the cascade does not compound through intermediate classes -/
theorem C12_nested_instance (std : Std) (ts : Bool) (cfg : Option MetaCfg) (ci : ClassInfo) (fields : List (S × PyVal)) :
    dumpV std ts cfg (.inst ci fields) = (do
      let body ← dumpFields std ((effMeta ci.cmeta cfg).marshalTimestamp.getD false) cfg (effMeta ci.cmeta cfg) {} ci fields
      pure (finishInst (effMeta ci.cmeta cfg) body)) := by
  simp [dumpV]

/-- load side: a nested dataclass is loaded under merge(own, root) with the same travelling config -/
theorem C12_nested_load (std : Std) (cfg : Option MetaCfg) (ci : ClassInfo) (ftys : List (S × Ty)) (o : JVal) :
    loadD std cfg (.cls ci ftys) o
      = loadClassWith (fun f v => loadField std cfg f v ftys) (effMeta ci.cmeta cfg) ci o := by
  simp [loadD]

/-! ### v1 engine

`load_func_for_dataclass` (v1) keeps the root's config in `extras['config']` for the whole generation; a nested class does
`meta = meta | config` for *itself* and hands `extras` on unchanged. -/

/-- the main class of a v1 load runs under its own Meta and hands down `rootConfig` (nothing with recursive=False) -/
theorem C12_v1_root (std : Std) (ci : ClassInfo) (ftys : List (S × Ty)) (o : JVal) :
    fromdictV1 std (.cls ci ftys) o
      = v1ClassWith (fun f v => v1Field std (rootConfig ci.cmeta) f v ftys) (effMeta ci.cmeta none) ci o := by
  simp [fromdictV1]

/-- a nested dataclass reached with travelling config `cfg` is loaded under merge(own, cfg) — and its own fields are again
converted under `cfg` itself, not under the merge: what a class sets for itself stops at that class -/
theorem C12_v1_nested_load (std : Std) (cfg : Option MetaCfg) (ci : ClassInfo) (ftys : List (S × Ty)) (o : JVal) :
    loadV1 std cfg (.cls ci ftys) o
      = v1ClassWith (fun f v => v1Field std cfg f v ftys) (effMeta ci.cmeta cfg) ci o := by
  simp [loadV1]

/-- the config travels unchanged through Optional, lists / sets / deques, variadic tuples and dict keys / values -/
theorem C12_v1_config_travels (std : Std) (cfg : Option MetaCfg) (t kt vt : Ty) (k : SeqKind) (mk : MapKind)
    (o : JVal) (xs : List JVal) (kvs : List (S × JVal)) (hnn : o.kind ≠ .null) :
    loadV1 std cfg (.optional t) o = loadV1 std cfg t o ∧
    loadV1 std cfg (.seq k t) (.list xs) = (do
      let ys ← mapME (fun x => loadV1 std cfg t x) xs
      (mkSeq k ys).mapError v1Wrap) ∧
    loadV1 std cfg (.vtuple t) (.list xs) = (do
      let ys ← mapME (fun x => loadV1 std cfg t x) xs
      pure (.tuple ys)) ∧
    loadV1 std cfg (.map mk kt vt) (.dict kvs) = (do
      let ps ← mapME (fun (kv : S × JVal) => do
          let k' ← loadV1 std cfg kt (.str kv.1)
          let v' ← loadV1 std cfg vt kv.2
          pure (k', v')) kvs
      (mkMap mk ps).mapError v1Wrap) := by
  refine ⟨?_, by simp [loadV1, jIter], by simp [loadV1, jIter], by simp [loadV1]⟩
  cases o <;> simp [loadV1, JVal.kind] at hnn ⊢

/-- Two levels down (root → mid → leaf): the function generated for the leaf field of `mid` runs under
merge(leaf's own Meta, the ROOT's config). `mid`'s Meta does not occur in it — whatever `mid` sets for itself
(unknown-key policy, key case, tag key, …) never reaches the leaf. -/
theorem C12_v1_two_levels_down (std : Std) (root mid leaf : ClassInfo) (g : S) (lf : List (S × Ty)) (kvs : List (S × JVal)) :
    loadV1 std (rootConfig root.cmeta) (.cls mid [(g, .cls leaf lf)]) (.dict kvs)
      = v1ClassWith (fun f v => if g == f then
            v1ClassWith (fun f' v' => v1Field std (rootConfig root.cmeta) f' v' lf)
              (effMeta leaf.cmeta (rootConfig root.cmeta)) leaf v
          else .error (.unsupported "field without type".toList))
        (effMeta mid.cmeta (rootConfig root.cmeta)) mid (.dict kvs) := by
  simp only [loadV1]
  congr 1

/-- the v1 settings a class ends up with under a recursive root: its own, else the root's — in closed form -/
theorem C12_v1_effective_settings (own : Option MetaCfg) (r : MetaCfg) (h : r.recursive ≠ some false) :
    (effMeta own (rootConfig (some r))).v1OnUnknown = ((own.bind (·.v1OnUnknown)) <|> r.v1OnUnknown) ∧
    (effMeta own (rootConfig (some r))).v1KeyCase = ((own.bind (·.v1KeyCase)) <|> r.v1KeyCase) ∧
    (effMeta own (rootConfig (some r))).tagKey = ((own.bind (·.tagKey)) <|> r.tagKey) ∧
    (effMeta own (rootConfig (some r))).tag = own.bind (·.tag) := by
  rw [C12_recursive_default r h]
  cases own <;> simp [effMeta, MetaCfg.orElse]

/-- ... and with recursive=False on the root: its own only -/
theorem C12_v1_effective_settings_nonrecursive (own : Option MetaCfg) (r : MetaCfg) (h : r.recursive = some false) :
    (effMeta own (rootConfig (some r))).v1OnUnknown = own.bind (·.v1OnUnknown) ∧
    (effMeta own (rootConfig (some r))).v1KeyCase = own.bind (·.v1KeyCase) := by
  rw [(C12_recursive_false r h own).1]
  cases own <;> simp [effMeta]

/-- Example (the shape of a two-level regression): root without policy, `mid` with v1_on_unknown_key = RAISE for itself, leaf
without Meta. An unknown key inside the leaf is ignored; the same key inside `mid` is rejected, naming `mid`. -/
theorem C12_v1_mid_policy_stops_at_mid (std : Std) :
    let leaf : Ty := .cls { name := ['L'], fields := [{ name := ['a'] }] } [(['a'], .any)]
    let mid : Ty := .cls { name := ['M'], fields := [{ name := ['l'] }], cmeta := some { v1OnUnknown := some .raise } } [(['l'], leaf)]
    let root : Ty := .cls { name := ['R'], fields := [{ name := ['m'] }], cmeta := some { v1 := some true } } [(['m'], mid)]
    (∃ y, fromdictV1 std root (.dict [(['m'], .dict [(['l'], .dict [(['a'], .int 1), (['z'], .int 2)])])]) = .ok y) ∧
    fromdictV1 std root (.dict [(['m'], .dict [(['l'], .dict [(['a'], .int 1)]), (['z'], .int 2)])])
      = .error (.unknownKeys ['M'] [['z']]) := by
  refine ⟨⟨_, rfl⟩, rfl⟩

/-- Example (the tag key a nested class tolerates is the one of its EFFECTIVE Meta): the leaf declares `tag = t` and
`tag_key = k` itself, the root cascades `v1_on_unknown_key = RAISE` and another `tag_key = r`. Inside the leaf the
key `k` is the (known) tag key; the root's key `r` is an unknown key there and is rejected, naming the leaf. -/
theorem C12_v1_own_tag_key_wins (std : Std) :
    let leaf : Ty := .cls { name := ['L'], fields := [{ name := ['a'] }], cmeta := some { tag := some ['t'], tagKey := some ['k'] } }
      [(['a'], .any)]
    let rmeta : MetaCfg := { v1 := some true, v1OnUnknown := some .raise, tagKey := some ['r'] }
    let root : Ty := .cls { name := ['R'], fields := [{ name := ['m'] }], cmeta := some rmeta } [(['m'], leaf)]
    (∃ y, fromdictV1 std root (.dict [(['m'], .dict [(['a'], .int 1), (['k'], .str ['t'])])]) = .ok y) ∧
    fromdictV1 std root (.dict [(['m'], .dict [(['a'], .int 1), (['r'], .str ['t'])])])
      = .error (.unknownKeys ['L'] [['r']]) := by
  refine ⟨⟨_, rfl⟩, rfl⟩

end DW.Props.C12
