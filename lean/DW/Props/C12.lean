/-
C12 — Meta cascades to nested classes with documented priority unless recursive=False.
-/
import DW.Generated.Tables
import DW.Model.Dump
import DW.Model.Load

namespace DW.Props.C12
open DW

/-- the attribute sets in the source (regenerated on every run): the four special attributes are never merged,
everything else annotated on AbstractMeta is -/
theorem C12_attribute_sets :
    Generated.metaSpecial = ["json_key_to_field", "recursive", "tag", "v1_field_to_alias"] ∧
    Generated.metaToMerge = ["auto_assign_tags", "debug_enabled", "key_transform_with_dump", "key_transform_with_load",
      "marshal_date_time_as", "raise_on_unknown_json_key", "recursive_classes", "skip_defaults", "skip_defaults_if",
      "skip_if", "tag_key", "v1", "v1_debug", "v1_key_case", "v1_on_unknown_key", "v1_unsafe_parse_dataclass_in_union"] ∧
    (∀ a ∈ Generated.metaToMerge, Generated.metaSpecial.contains a = false) ∧
    (∀ a ∈ Generated.metaFields, (Generated.metaToMerge.contains a || Generated.metaSpecial.contains a) = true) := by
  refine ⟨by decide, by decide, by decide, by decide⟩

/-- merge specification: every setting the nested class sets itself wins, every other mergeable setting comes from
the root -/
theorem C12_merge_spec (n r : MetaCfg) :
    (n.orElse r).keyTransformDump = (n.keyTransformDump <|> r.keyTransformDump) ∧
    (n.orElse r).keyTransformLoad = (n.keyTransformLoad <|> r.keyTransformLoad) ∧
    (n.orElse r).marshalTimestamp = (n.marshalTimestamp <|> r.marshalTimestamp) ∧
    (n.orElse r).skipDefaults = (n.skipDefaults <|> r.skipDefaults) ∧
    (n.orElse r).skipIf = (n.skipIf <|> r.skipIf) ∧
    (n.orElse r).skipDefaultsIf = (n.skipDefaultsIf <|> r.skipDefaultsIf) ∧
    (n.orElse r).raiseOnUnknown = (n.raiseOnUnknown <|> r.raiseOnUnknown) ∧
    (n.orElse r).tagKey = (n.tagKey <|> r.tagKey) ∧
    (n.orElse r).autoAssignTags = (n.autoAssignTags <|> r.autoAssignTags) ∧
    (n.orElse r).v1KeyCase = (n.v1KeyCase <|> r.v1KeyCase) ∧
    (n.orElse r).v1OnUnknown = (n.v1OnUnknown <|> r.v1OnUnknown) := by
  simp [MetaCfg.orElse]

/-- `tag` and `recursive` are never inherited -/
theorem C12_special_never_inherited (n r : MetaCfg) :
    (n.orElse r).tag = n.tag ∧ (n.orElse r).recursive = n.recursive := ⟨rfl, rfl⟩

theorem C12_special_never_inherited_no_meta (r : MetaCfg) :
    (effMeta none (some r)).tag = none ∧ (effMeta none (some r)).recursive = none := ⟨rfl, rfl⟩

/-- a nested class without Meta behaves under the root's mergeable settings; one with a Meta keeps its own choices -/
theorem C12_effective (own r : MetaCfg) :
    effMeta (some own) (some r) = own.orElse r ∧ effMeta none (some r) = ({} : MetaCfg).orElse r ∧
    effMeta (some own) none = own := ⟨rfl, rfl, rfl⟩

/-- with recursive=False on the root nothing is handed down: nested classes behave as on their own -/
theorem C12_recursive_false (r : MetaCfg) (h : r.recursive = some false) (own : Option MetaCfg) :
    rootConfig (some r) = none ∧ effMeta own (rootConfig (some r)) = effMeta own none := by
  have : rootConfig (some r) = none := by simp [rootConfig, h]
  exact ⟨this, by rw [this]⟩

/-- ... and is handed down otherwise -/
theorem C12_recursive_default (r : MetaCfg) (h : r.recursive ≠ some false) : rootConfig (some r) = some r := by
  cases hr : r.recursive with
  | none => simp [rootConfig, hr]
  | some b => cases b <;> simp_all [rootConfig]

/-- The cascade reaches nested values at any depth and inside any container: the travelling config is passed on
*unchanged* through lists / tuples / sets / deques, dict keys and values, named tuples — every element is dumped under
the same root config as its container. -/
theorem C12_config_travels_list (std : Std) (ts : Bool) (cfg : Option MetaCfg) (x : PyVal) (xs : List PyVal) :
    dumpList std ts cfg (x :: xs) = (do
      let y ← dumpV std ts cfg x
      let ys ← dumpList std ts cfg xs
      pure (y :: ys)) := by
  simp [dumpList]

theorem C12_config_travels_pairs (std : Std) (ts : Bool) (cfg : Option MetaCfg) (k v : PyVal) (r : List (PyVal × PyVal)) :
    dumpPairs std ts cfg ((k, v) :: r) = (do
      let k' ← dumpV std ts cfg k
      let v' ← dumpV std ts cfg v
      let r' ← dumpPairs std ts cfg r
      pure ((k', v') :: r')) := by
  simp [dumpPairs]

/-- a nested instance is dumped under merge(own, root) — and its own fields again see the *root* config (not the
merge), so the cascade does not compound through intermediate classes -/
theorem C12_nested_instance (std : Std) (ts : Bool) (cfg : Option MetaCfg) (ci : ClassInfo) (fields : List (S × PyVal)) :
    dumpV std ts cfg (.inst ci fields) = (do
      let body ← dumpFields std ((effMeta ci.cmeta cfg).marshalTimestamp.getD false) cfg (effMeta ci.cmeta cfg) {} ci fields
      pure (finishInst (effMeta ci.cmeta cfg) body)) := by
  simp [dumpV]

/-- load side: a nested dataclass is loaded under merge(own, root) with the same travelling config -/
theorem C12_nested_load (std : Std) (cfg : Option MetaCfg) (ci : ClassInfo) (ftys : List (S × Ty)) (o : JVal) :
    loadD std cfg (.cls ci ftys) o
      = loadClassWith (fun f v => loadField std cfg f v ftys) (effMeta ci.cmeta cfg) ci o := by
  simp [loadD]

end DW.Props.C12
