/-
C20 — concurrent first use and concurrent calls give the sequential results.
Theorems over `DW.Conc`: for every number of threads and every schedule, each finished call returns the one value a
sequential call returns; the subtype scan of a hook table gives the same hook whatever other threads have cached in
the meantime, and never fails when it iterates a snapshot.  The two broken disciplines have failing schedules.
-/
import DW.Model.Conc
import DW.Generated.Tables

namespace DW.Props.C20
open DW DW.Conc

/-- the entry table is complete -/
def Filled (c : Cfg) (s : Sh) : Prop := ∀ j, j < c.n → s.ent j = some (c.a j)

def ThrOk (c : Cfg) (s : Sh) : Pc → Prop
  | .start => True
  | .fill i => i < c.n ∧ ∀ j, j < i → s.ent j = some (c.a j)
  | .publish => Filled c s
  | .lookup => Filled c s
  | .gather j acc => j < c.n ∧ Filled c s ∧ acc = (List.range j).map (fun i => some (c.a i))
  | .store acc => acc = full c
  | .store2 acc => acc = full c
  | .done r => r = c.g (full c)

structure Inv (c : Cfg) (g : G) : Prop where
  entOk : ∀ i v, g.sh.ent i = some v → v = c.a i
  flagOk : g.sh.flag = true → Filled c g.sh
  fnOk : ∀ v, g.sh.fn = some v → v = c.g (full c)
  thrOk : ∀ t, ThrOk c g.sh (g.thr t)

/-- entries only ever gain correct values -/
def Mono (c : Cfg) (s s' : Sh) : Prop := ∀ j, s.ent j = some (c.a j) → s'.ent j = some (c.a j)

theorem ThrOk_mono (c : Cfg) (s s' : Sh) (h : Mono c s s') (p : Pc) (hp : ThrOk c s p) : ThrOk c s' p := by
  cases p with
  | start => trivial
  | fill i => exact ⟨hp.1, fun j hj => h j (hp.2 j hj)⟩
  | publish => exact fun j hj => h j (hp j hj)
  | lookup => exact fun j hj => h j (hp j hj)
  | gather j acc => exact ⟨hp.1, fun k hk => h k (hp.2.1 k hk), hp.2.2⟩
  | store acc => exact hp
  | store2 acc => exact hp
  | done r => exact hp

theorem Inv_init (c : Cfg) : Inv c G.init := by
  refine ⟨?_, ?_, ?_, ?_⟩ <;> simp [G.init, ThrOk]

theorem Mono_setEnt (c : Cfg) (s : Sh) (i : Nat) : Mono c s (s.setEnt i (c.a i)) := by
  intro j hj
  simp only [Sh.setEnt]
  split
  · subst_vars; rfl
  · exact hj

theorem range_succ_map (c : Cfg) (j : Nat) :
    (List.range j).map (fun i => some (c.a i)) ++ [some (c.a j)] = (List.range (j + 1)).map (fun i => some (c.a i)) := by
  simp [List.range_succ]

/-- one step of any thread preserves the invariant (sound discipline: flag last, single-store publish) -/
theorem Inv_step (c : Cfg) (hf : c.flagFirst = false) (hp : c.placeholder = false) (g : G) (t : Nat)
    (h : Inv c g) : Inv c (stepG c g t) := by
  have key : ∀ (s' : Sh) (p' : Pc), stepT c g.sh (g.thr t) = (s', p') →
      Mono c g.sh s' → (∀ i v, s'.ent i = some v → v = c.a i) → (s'.flag = true → Filled c s') →
      (∀ v, s'.fn = some v → v = c.g (full c)) → ThrOk c s' p' → Inv c (stepG c g t) := by
    intro s' p' hs hm he hfl hfn hthr
    refine ⟨?_, ?_, ?_, ?_⟩
    · simpa [stepG, hs] using he
    · simpa [stepG, hs] using hfl
    · simpa [stepG, hs] using hfn
    · intro x
      simp only [stepG, hs]
      split
      · exact hthr
      · exact ThrOk_mono c g.sh s' hm _ (h.thrOk x)
  have hth := h.thrOk t
  have mrefl : Mono c g.sh g.sh := fun _ hj => hj
  cases hpc : g.thr t with
  | start =>
    by_cases hflag : g.sh.flag = true
    · exact key g.sh .lookup (by simp [stepT, hpc, hflag]) mrefl h.entOk h.flagOk h.fnOk (h.flagOk hflag)
    · by_cases hn : c.n = 0
      · refine key g.sh .publish (by simp [stepT, hpc, hflag, hf, hn]) mrefl h.entOk h.flagOk h.fnOk ?_
        intro j hj; omega
      · refine key g.sh (.fill 0) (by simp [stepT, hpc, hflag, hf, hn]) mrefl h.entOk h.flagOk h.fnOk ?_
        exact ⟨by omega, fun j hj => by omega⟩
  | fill i =>
    rw [hpc] at hth
    have hm := Mono_setEnt c g.sh i
    have he : ∀ k v, (g.sh.setEnt i (c.a i)).ent k = some v → v = c.a k := by
      intro k v hk
      simp only [Sh.setEnt] at hk
      split at hk
      · subst_vars; simpa using hk.symm
      · exact h.entOk k v hk
    have hfl : (g.sh.setEnt i (c.a i)).flag = true → Filled c (g.sh.setEnt i (c.a i)) := by
      intro hflag j hj
      exact hm j (h.flagOk (by simpa [Sh.setEnt] using hflag) j hj)
    have hfn : ∀ v, (g.sh.setEnt i (c.a i)).fn = some v → v = c.g (full c) := by
      intro v hv; exact h.fnOk v (by simpa [Sh.setEnt] using hv)
    have hup : ∀ j, j < i + 1 → (g.sh.setEnt i (c.a i)).ent j = some (c.a j) := by
      intro j hj
      by_cases hji : j = i
      · subst hji; simp [Sh.setEnt]
      · exact hm j (hth.2 j (by omega))
    by_cases hlt : i + 1 < c.n
    · exact key _ (.fill (i + 1)) (by simp [stepT, hpc, hlt]) hm he hfl hfn ⟨hlt, hup⟩
    · refine key _ .publish (by simp [stepT, hpc, hlt, hf]) hm he hfl hfn ?_
      intro j hj; exact hup j (by have := hth.1; omega)
  | publish =>
    rw [hpc] at hth
    refine key { g.sh with flag := true } .lookup (by simp [stepT, hpc]) (fun _ hj => hj) h.entOk (fun _ => hth) h.fnOk hth
  | lookup =>
    rw [hpc] at hth
    cases hfn : g.sh.fn with
    | some v =>
      exact key g.sh (.done v) (by simp [stepT, hpc, hfn]) mrefl h.entOk h.flagOk h.fnOk (h.fnOk v hfn)
    | none =>
      by_cases hn : c.n = 0
      · refine key g.sh (.store []) (by simp [stepT, hpc, hfn, hn]) mrefl h.entOk h.flagOk h.fnOk ?_
        simp [ThrOk, full, hn]
      · refine key g.sh (.gather 0 []) (by simp [stepT, hpc, hfn, hn]) mrefl h.entOk h.flagOk h.fnOk ?_
        exact ⟨by omega, hth, by simp⟩
  | gather j acc =>
    rw [hpc] at hth
    obtain ⟨hj, hfill, hacc⟩ := hth
    have hacc' : acc ++ [g.sh.ent j] = (List.range (j + 1)).map (fun i => some (c.a i)) := by
      rw [hfill j hj, hacc, range_succ_map]
    by_cases hlt : j + 1 < c.n
    · exact key g.sh (.gather (j + 1) (acc ++ [g.sh.ent j])) (by simp [stepT, hpc, hlt]) mrefl h.entOk h.flagOk h.fnOk
        ⟨hlt, hfill, hacc'⟩
    · refine key g.sh (.store (acc ++ [g.sh.ent j])) (by simp [stepT, hpc, hlt]) mrefl h.entOk h.flagOk h.fnOk ?_
      have : j + 1 = c.n := by omega
      simp only [ThrOk, full, hacc', this]
  | store acc =>
    rw [hpc] at hth
    refine key { g.sh with fn := some (c.g acc) } (.done (c.g acc)) (by simp [stepT, hpc, hp]) (fun _ hj => hj)
      h.entOk h.flagOk ?_ ?_
    · intro v hv
      have : v = c.g acc := by simpa using hv.symm
      rw [this, show acc = full c from hth]
    · show c.g acc = c.g (full c)
      rw [show acc = full c from hth]
  | store2 acc =>
    rw [hpc] at hth
    refine key { g.sh with fn := some (c.g acc) } (.done (c.g acc)) (by simp [stepT, hpc]) (fun _ hj => hj)
      h.entOk h.flagOk ?_ ?_
    · intro v hv
      have : v = c.g acc := by simpa using hv.symm
      rw [this, show acc = full c from hth]
    · show c.g acc = c.g (full c)
      rw [show acc = full c from hth]
  | done r =>
    rw [hpc] at hth
    exact key g.sh (.done r) (by simp [stepT, hpc]) mrefl h.entOk h.flagOk h.fnOk hth

theorem Inv_run (c : Cfg) (hf : c.flagFirst = false) (hp : c.placeholder = false) (sched : List Nat) (g : G)
    (h : Inv c g) : Inv c (runG c g sched) := by
  induction sched generalizing g with
  | nil => exact h
  | cons t r ih => exact ih _ (Inv_step c hf hp g t h)

/-- **C20 (first use, any number of threads, any schedule).**  Under the discipline "fill, then publish the flag; build,
then publish with one store", every call that has finished returned exactly what a call returns when it runs alone:
`g` applied to the complete table.  Nothing depends on the schedule. -/
theorem C20_first_use_linearizable (c : Cfg) (hf : c.flagFirst = false) (hp : c.placeholder = false)
    (sched : List Nat) (t r : Nat) (h : (runG c G.init sched).result t = some r) : r = c.g (full c) := by
  have inv := (Inv_run c hf hp sched G.init (Inv_init c)).thrOk t
  unfold G.result at h
  split at h
  · next r' hr => rw [hr] at inv; simp at h; subst h; exact inv
  · simp at h

/-- … and the shared tables never hold a wrong entry, so calls made after the race see what sequential calls see. -/
theorem C20_tables_correct (c : Cfg) (hf : c.flagFirst = false) (hp : c.placeholder = false) (sched : List Nat) :
    let g := runG c G.init sched
    (∀ i v, g.sh.ent i = some v → v = c.a i) ∧ (g.sh.flag = true → Filled c g.sh) ∧
      (∀ v, g.sh.fn = some v → v = c.g (full c)) :=
  let inv := Inv_run c hf hp sched G.init (Inv_init c)
  ⟨inv.entOk, inv.flagOk, inv.fnOk⟩

def demo : Cfg := { n := 3, a := fun i => i + 10, g := fun acc => acc.foldl (fun h x => 31 * h + x.getD 7) 1 }

/-- a thread running alone does finish, with the sequential result (the theorem above is not vacuous) -/
theorem C20_sequential_witness :
    (runG demo G.init (List.replicate 10 0)).result 0 = some (demo.g (full demo)) ∧
    (runG demo G.init [0, 1, 0, 1, 1, 0, 0, 1, 1, 0, 0, 0, 1, 1, 1, 1, 0, 0, 1, 0]).result 1 = some (demo.g (full demo)) := by
  decide

/-- the flag-first discipline is broken: thread 1 sees the flag, skips the fill and builds from a half-filled table -/
theorem C20_flag_first_witness :
    (runG { demo with flagFirst := true } G.init [0, 0, 1, 1, 1, 1, 1, 1]).result 1 = some 39625 ∧
    demo.g (full demo) = 39754 := by
  decide

/-- the provisional-store discipline is broken: thread 1 reads the placeholder -/
theorem C20_placeholder_witness :
    (runG { demo with placeholder := true, provisional := 0 } G.init [0, 0, 0, 0, 0, 0, 0, 0, 0, 0, 1, 1, 1, 1, 1, 1]).result 1 = some 0 := by
  decide

/-! ### the subtype scan -/

/-- tables reachable from `t0` by any sequence of subtype cachings (by any threads, in any order) -/
inductive Reach (sub : Nat → Nat → Bool) (t0 : Hooks) : Hooks → Prop
  | base : Reach sub t0 t0
  | cache (tbl : Hooks) (v : Nat) : Reach sub t0 tbl → Reach sub t0 (cacheInsert sub tbl v)

theorem scanFind_append (sub : Nat → Nat → Bool) (tbl : Hooks) (e : Nat × Nat) (v : Nat) :
    scanFind sub (tbl ++ [e]) v = match scanFind sub tbl v with
      | some h => some h
      | none => if sub v e.1 then some e.2 else none := by
  unfold scanFind
  rw [List.find?_append]
  cases h : tbl.find? (fun e => sub v e.1) with
  | some x => simp
  | none => by_cases hs : sub v e.1 = true <;> simp [hs]

theorem scanFind_none_iff (sub : Nat → Nat → Bool) (tbl : Hooks) (v : Nat) :
    scanFind sub tbl v = none ↔ ∀ e ∈ tbl, sub v e.1 = false := by
  unfold scanFind
  simp [List.find?_eq_none]

/-- **C20 (subtype scan).**  Whatever other threads have cached in the meantime, a scan of the table for `v` finds the
hook a scan of the original table finds: a snapshot taken at any moment is as good as any other. -/
theorem C20_scan_schedule_independent (sub : Nat → Nat → Bool)
    (trans : ∀ a b c, sub a b = true → sub b c = true → sub a c = true)
    (t0 tbl : Hooks) (h : Reach sub t0 tbl) (v : Nat) : scanFind sub tbl v = scanFind sub t0 v := by
  induction h with
  | base => rfl
  | cache tbl' w _ ih =>
    unfold cacheInsert
    cases hw : scanFind sub tbl' w with
    | none => simpa using ih
    | some hk =>
      simp only
      rw [scanFind_append, ← ih]
      cases hv : scanFind sub tbl' v with
      | some x => rfl
      | none =>
        simp only
        by_cases hs : sub v w = true
        · -- `w` has a base in `tbl'`, so `v` has too: contradiction with `hv`
          exfalso
          have hnone := (scanFind_none_iff sub tbl' v).1 hv
          unfold scanFind at hw
          cases hfind : tbl'.find? (fun e => sub w e.1) with
          | none => simp [hfind] at hw
          | some e =>
            have hmem := List.mem_of_find?_eq_some hfind
            have hsub : sub w e.1 = true := by simpa using List.find?_some hfind
            have := trans v w e.1 hs hsub
            rw [hnone e hmem] at this
            exact Bool.noConfusion this
        · simp [hs]

/-- a scan over a snapshot cannot fail: it is a pure function of the snapshot (stated for completeness — `scanFind` is
total); a scan over the live table fails as soon as another thread's caching lands during the iteration -/
theorem C20_live_scan_witness :
    let sub : Nat → Nat → Bool := fun a b => a == b || (a == 5 && b == 2) || (a == 6 && b == 2)
    let t0 : Hooks := [(0, 100), (1, 101), (2, 102)]
    -- thread B caches subtype 6 after thread A (scanning for 5) has looked at one entry
    liveScan sub t0.length 5 0 10 (fun pos => if pos = 0 then t0 else cacheInsert sub t0 6) = none ∧
    scanFind sub t0 5 = some 102 ∧ scanFind sub (cacheInsert sub t0 6) 5 = some 102 := by
  decide

/-! ### the discipline, read off the source (regenerated on every run) -/

/-- `setup_dump_config_for_cls_if_needed` / `_setup_v1_load_config_for_cls` publish their flag as their last store;
`Env.load_environ` publishes the snapshot with one assignment; the hook scans iterate snapshots. -/
theorem C20_code_discipline :
    DW.Generated.concDiscipline.all (fun e => e.2 = "ok") = true := by
  decide

end DW.Props.C20
