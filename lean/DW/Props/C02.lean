/-
C02 — dump-then-load is the identity (v1 engine).
-/
import DW.Generated.Tables
import DW.Model.LoadV1
import DW.Model.StdLaws
import DW.Lemmas.Dump
import DW.Lemmas.RoundTripV1

namespace DW.Props.C02
open DW DW.Str

/-- bytes / bytearray: base64 text written by dump is decoded back (v1 only). -/
theorem C02_bytes_roundtrip (std : Std) (laws : StdLaws std) (cfg : Option MetaCfg) (m : Bool) (b : List Nat) :
    dumpScalar std false (.bytes m b) = .ok (.str (std.b64encode b)) ∧
    loadV1 std cfg (if m then .bytearray else .bytes) (.str (std.b64encode b)) = .ok (.bytes m b) := by
  constructor
  · simp [dumpScalar, pure, Except.pure]
  · cases m <;> simp [loadV1, v1Bytes, laws.b64_rt b, pure, Except.pure]

theorem C02_datetime_roundtrip (std : Std) (laws : StdLaws std) (cfg : Option MetaCfg) (t : S)
    (ht : std.validTok .datetime t = true) :
    dumpScalar std false (.leaf .datetime false t) = .ok (.str (isoZ t)) ∧
    loadV1 std cfg (.leaf .datetime) (.str (isoZ t)) = .ok (.leaf .datetime false t) := by
  constructor
  · simp [dumpScalar, pure, Except.pure]
  · simp [loadV1, v1Datetime, laws.datetime_rt_z t ht, pure, Except.pure]

theorem C02_time_roundtrip (std : Std) (laws : StdLaws std) (cfg : Option MetaCfg) (t : S)
    (ht : std.validTok .time t = true) :
    dumpScalar std false (.leaf .time false t) = .ok (.str (isoZ t)) ∧
    loadV1 std cfg (.leaf .time) (.str (isoZ t)) = .ok (.leaf .time false t) := by
  constructor
  · simp [dumpScalar, pure, Except.pure]
  · simp [loadV1, v1Time, laws.time_rt_z t ht, pure, Except.pure]

theorem C02_date_roundtrip (std : Std) (laws : StdLaws std) (cfg : Option MetaCfg) (t : S)
    (ht : std.validTok .date t = true) :
    loadV1 std cfg (.leaf .date) (.str t) = .ok (.leaf .date false t) := by
  simp [loadV1, v1Date, laws.date_rt t ht, pure, Except.pure]

theorem C02_decimal_roundtrip (std : Std) (laws : StdLaws std) (cfg : Option MetaCfg) (t : S)
    (ht : std.validTok .decimal t = true) :
    loadV1 std cfg (.leaf .decimal) (.str t) = .ok (.leaf .decimal false t) := by
  simp [loadV1, v1Decimal, laws.decimal_rt t ht, pure, Except.pure]

theorem C02_uuid_roundtrip (std : Std) (laws : StdLaws std) (cfg : Option MetaCfg) (t : S)
    (ht : std.validTok .uuid t = true) :
    loadV1 std cfg (.leaf .uuid) (.str t) = .ok (.leaf .uuid false t) := by
  simp [loadV1, v1Uuid, laws.uuid_rt t ht, pure, Except.pure]

theorem C02_path_roundtrip (std : Std) (laws : StdLaws std) (cfg : Option MetaCfg) (t : S)
    (ht : std.validTok .path t = true) :
    loadV1 std cfg (.leaf .path) (.str t) = .ok (.leaf .path false t) := by
  simp [loadV1, v1Path, laws.path_rt t ht, pure, Except.pure]

theorem C02_plain_scalars (std : Std) (cfg : Option MetaCfg) (i : Int) (b : Bool) (s : S) (f : PyFloat) :
    loadV1 std cfg .int (.int i) = .ok (.int i) ∧ loadV1 std cfg .bool (.bool b) = .ok (.bool b) ∧
    loadV1 std cfg .str (.str s) = .ok (.str s) ∧ loadV1 std cfg .float (.float f) = .ok (.float f) := by
  refine ⟨?_, ?_, ?_, ?_⟩ <;>
    simp [loadV1, v1Int, v1Bool, v1Str, v1Float, asStr, asFloat, Except.mapError, pure, Except.pure]

/-- Consistent (v1_key_case, dump transform) pairs: the key dump writes for a field is the key v1 looks it up
under (first candidate), for every field name. -/
theorem C02_keys_consistent (fi : FieldInfo) (eff : MetaCfg) (hk : fi.loadKeys = []) (hd : fi.dumpAll = false) :
    (eff.v1KeyCase = none → eff.keyTransformDump = some .none → dumpKey eff fi = .ok fi.name ∧ v1Keys eff fi = [fi.name]) ∧
    (eff.v1KeyCase = some .camel → eff.keyTransformDump = some .camel →
        ∃ k, dumpKey eff fi = .ok k ∧ v1Keys eff fi = [k]) ∧
    (eff.v1KeyCase = some .pascal → eff.keyTransformDump = some .pascal →
        ∃ k, dumpKey eff fi = .ok k ∧ v1Keys eff fi = [k]) ∧
    (eff.v1KeyCase = some .kebab → eff.keyTransformDump = some .lisp →
        ∃ k, dumpKey eff fi = .ok k ∧ v1Keys eff fi = [k]) ∧
    (eff.v1KeyCase = some .snake → eff.keyTransformDump = some .snake →
        ∃ k, dumpKey eff fi = .ok k ∧ v1Keys eff fi = [k]) := by
  refine ⟨?_, ?_, ?_, ?_, ?_⟩
  · intro h1 h2
    simp [dumpKey, v1Keys, hk, hd, h1, h2, LetterCaseOpt.toLC, LetterCase.apply]
  · intro h1 h2
    cases hc : toCamel fi.name with
    | none => simp [toCamel] at hc; split at hc <;> simp at hc
    | some k => exact ⟨k, by simp [dumpKey, hd, h2, LetterCaseOpt.toLC, LetterCase.apply, hc],
                        by simp [v1Keys, hk, h1, hc]⟩
  · intro h1 h2
    cases hc : toPascal fi.name with
    | none => simp [toPascal] at hc; split at hc <;> simp at hc
    | some k => exact ⟨k, by simp [dumpKey, hd, h2, LetterCaseOpt.toLC, LetterCase.apply, hc],
                        by simp [v1Keys, hk, h1, hc]⟩
  · intro h1 h2
    exact ⟨toLisp fi.name, by simp [dumpKey, hd, h2, LetterCaseOpt.toLC, LetterCase.apply],
            by simp [v1Keys, hk, h1]⟩
  · intro h1 h2
    exact ⟨toSnake fi.name, by simp [dumpKey, hd, h2, LetterCaseOpt.toLC, LetterCase.apply],
            by simp [v1Keys, hk, h1]⟩

/-- AUTO looks a field up under its own name first, so any dump transform that leaves the name unchanged
(NONE, or SNAKE on a snake_case name) is consistent with it. -/
theorem C02_auto_own_name_first (fi : FieldInfo) (eff : MetaCfg) (hk : fi.loadKeys = []) (h : eff.v1KeyCase = some .auto) :
    (v1Keys eff fi).head? = some fi.name := by
  simp [v1Keys, hk, h]

/-- KNOWN FINDING (witness): inside a Union a `list[...]` member listed before `str` try-parses a string by
iterating it. -/
theorem C02_union_container_first_witness (std : Std) :
    loadV1 std none (.union [.seq .list .str, .str]) (.str "ab".toList)
      = .ok (.seq .list [.str ['a'], .str ['b']]) := by
  simp [loadV1, JVal.kind, v1UnionExact, isSimpleTy, jIter, mapME, v1Str, asStr, mkSeq, Except.mapError,
        pure, Except.pure, bind, Except.bind]

/-! ### the structural round trip -/

/-- **C02 (structure).** Below a main class whose v1 Meta makes the load key case match the dump key transform — described
by an `RTV1.Setup`: the Meta `su.m` and the key function `su.kf` both sides agree on; instances below for
`v1_key_case = 'CAMEL'` with the default dump transform, keys as they are, AUTO, KEBAB / LISP, SNAKE and PASCAL — for every
type of the fragment int / float / str / bool / Decimal / Path / UUID / date / time / datetime /
non-negative timedelta (canonical tokens, under the named `StdLaws`, incl. the `Z` spelling read back by `fromisoformat`) /
Enum (pairwise different values) / Literal[...] / bytes / bytearray (base64 law) / Optional[·] / list[·] / deque[·] /
set[·] / frozenset[·] (hashable, pairwise different elements) / tuple[·, ...] / fixed tuples (also nested in one another:
the generated `v1[k]` indexing, `RTV1.v1Tuple_ok`) / NamedTuple classes / TypedDict classes (distinct keys, every Required key present, NotRequired keys present or
absent, entries in declaration order) / dict[str, ·] / defaultdict[str, ·] /
OrderedDict[str, ·] / Unions holding a tagged dataclass next to any other members that do not answer to its tag, and None /
dataclass whose only customisation of its own is a tag (each field is dumped under `su.kf name`, that key is
the first one its loader tries, and the keys — and the tag key — are pairwise distinct: `RTV1.ClsOK su`), nested
to any depth, and every conforming value: whatever the dump produces, its JSON image loads back to exactly the value
through the v1 loader. By induction over the conformance derivation; the dataclass case determines the shape of the
dumped dict (`RTV1.dumpFields_shape`), shows that the generated field loop finds every field in it (`RTV1.v1Fields_ok`)
and runs the finish step (`RTV1.v1Finish_ok`). -/
theorem C02_roundtrip_struct (su : RTV1.Setup) (std : Std) (laws : StdLaws std) (t : Ty) (v : PyVal)
    (hc : RTV1.Conf su std t v) (d : DVal)
    (h : dumpV std false (some su.m) v = .ok d) : loadV1 std (some su.m) t (RT.toJ d) = .ok v :=
  RTV1.roundtrip std laws t v hc d h

/-- … and at the top level: `fromdict(cls, json.loads(json.dumps(asdict(x)))) == x` for every instance of a main class
that declares that Meta. -/
theorem C02_roundtrip_root (su : RTV1.Setup) (std : Std) (laws : StdLaws std) (ci : ClassInfo) (ftys : List (S × Ty))
    (v : PyVal) (hm : ci.cmeta = some su.m) (hc : RTV1.Conf su std (.cls ci ftys) v) (d : DVal)
    (h : asdict std {} v = .ok d) : fromdictV1 std (.cls ci ftys) (RT.toJ d) = .ok v :=
  RTV1.roundtrip_root std laws ci ftys v hm hc d h

/-- **the configurations the property names.** Each is a `Setup` (its side conditions are checked by evaluation), and for
each of them an unaliased class (`RTV1.Unaliased`: plain constructor fields, distinct names) meets `RTV1.PlainCls` under
the stated, purely syntactic condition on its field names: none for keys as they are and for AUTO (which tries the field's
own name first); pairwise distinct transformed names for KEBAB and SNAKE; additionally a defined transform for CAMEL and
PASCAL. -/
theorem C02_key_cases (ci : ClassInfo) (ftys : List (S × Ty)) (hu : RTV1.Unaliased ci ftys) (hm : ci.cmeta = none) :
    RTV1.PlainCls RTV1.asIsSetup ci ftys ∧ RTV1.PlainCls RTV1.autoSetup ci ftys ∧
    ((ci.fields.map (fun f => toLisp f.name)).Nodup → RTV1.PlainCls RTV1.kebabSetup ci ftys) ∧
    ((ci.fields.map (fun f => toSnake f.name)).Nodup → RTV1.PlainCls RTV1.snakeSetup ci ftys) ∧
    ((∀ f ∈ ci.fields, ∃ k, toCamel f.name = some k) → (ci.fields.map (fun f => (toCamel f.name).getD f.name)).Nodup →
      RTV1.PlainCls RTV1.camelSetup ci ftys) ∧
    ((∀ f ∈ ci.fields, ∃ k, toPascal f.name = some k) → (ci.fields.map (fun f => (toPascal f.name).getD f.name)).Nodup →
      RTV1.PlainCls RTV1.pascalSetup ci ftys) :=
  ⟨RTV1.plain_asIs ci ftys hu (Or.inl hm), RTV1.plain_auto ci ftys hu (Or.inl hm),
   fun hk => RTV1.plain_kebab ci ftys hu (Or.inl hm) hk, fun hk => RTV1.plain_snake ci ftys hu (Or.inl hm) hk,
   fun hc hk => RTV1.plain_camel ci ftys hu (Or.inl hm) hc hk, fun hc hk => RTV1.plain_pascal ci ftys hu (Or.inl hm) hc hk⟩

/-- the Metas of the six configurations, spelled out -/
theorem C02_key_case_metas :
    RTV1.camelSetup.m = { v1 := some true, v1KeyCase := some .camel } ∧
    RTV1.asIsSetup.m = { v1 := some true, keyTransformDump := some .none } ∧
    RTV1.autoSetup.m = { v1 := some true, v1KeyCase := some .auto, keyTransformDump := some .none } ∧
    RTV1.kebabSetup.m = { v1 := some true, v1KeyCase := some .kebab, keyTransformDump := some .lisp } ∧
    RTV1.snakeSetup.m = { v1 := some true, v1KeyCase := some .snake, keyTransformDump := some .snake } ∧
    RTV1.pascalSetup.m = { v1 := some true, v1KeyCase := some .pascal, keyTransformDump := some .pascal } :=
  ⟨rfl, rfl, rfl, rfl, rfl, rfl⟩

/-- the hypotheses are satisfiable: `Root(inner_obj: Inner, by_name: dict[str, Inner], when_at: Optional[datetime])` with
the v1 CAMEL Meta and `Inner(val_one: int, tags: list[str])` are both `RTV1.PlainCls`; `Inner` also under AUTO and with
keys as they are -/
theorem C02_roundtrip_example :
    RTV1.PlainCls RTV1.camelSetup RTV1.exRoot RTV1.exRootTys ∧ RTV1.PlainCls RTV1.camelSetup RTV1.exInner RTV1.exInnerTys ∧
    RTV1.exRoot.cmeta = some RTV1.camelSetup.m ∧
    RTV1.PlainCls RTV1.autoSetup RTV1.exInner RTV1.exInnerTys ∧ RTV1.PlainCls RTV1.asIsSetup RTV1.exInner RTV1.exInnerTys :=
  ⟨RTV1.exRoot_plain, RTV1.exInner_plain, rfl, RTV1.exInner_plain_auto, RTV1.exInner_plain_asIs⟩

/-- the kinds added to the fragment are inhabited: a `tuple[int, tuple[str, bool]]` (a fixed tuple nested in a fixed
tuple: the shape repaired by f3aedfc), a `bytes`, a `frozenset[str]` and a `Literal[1, 'a']` value conform. -/
theorem C02_roundtrip_example_containers (su : RTV1.Setup) (std : Std) :
    RTV1.Conf su std (.tuple [.int, .tuple [.str, .bool]]) (.tuple [.int 1, .tuple [.str "a".toList, .bool true]]) ∧
    RTV1.Conf su std .bytes (.bytes false [1, 2, 255]) ∧
    RTV1.Conf su std (.seq .frozenset .str) (.seq .frozenset [.str "a".toList, .str "b".toList]) ∧
    RTV1.Conf su std (.literal [.int 1, .str "a".toList]) (Lit.toPy (.str "a".toList)) := by
  refine ⟨RTV1.Conf.tuple _ _ (by simp) rfl ?_, RTV1.Conf.bytes _, RTV1.Conf.frozenset _ _ (by rfl) (by rfl) ?_,
    RTV1.Conf.literal _ (.str "a".toList) (by simp) (by rfl)⟩
  · intro p hp
    simp only [List.zip_cons_cons, List.zip_nil_right, List.mem_cons, List.not_mem_nil, or_false] at hp
    rcases hp with rfl | rfl
    · exact RTV1.Conf.int 1
    · refine RTV1.Conf.tuple _ _ (by simp) rfl ?_
      intro q hq
      simp only [List.zip_cons_cons, List.zip_nil_right, List.mem_cons, List.not_mem_nil, or_false] at hq
      rcases hq with rfl | rfl
      · exact RTV1.Conf.str _
      · exact RTV1.Conf.bool _
  · intro x hx
    simp only [List.mem_cons, List.not_mem_nil, or_false] at hx
    rcases hx with rfl | rfl <;> exact RTV1.Conf.str _

/-- TypedDict values of the v1 fragment exist: for `class TD(TypedDict): a: int; b: NotRequired[str]` the value
`{'a': 1}` conforms below every setup. -/
theorem C02_roundtrip_example_typeddict (su : RTV1.Setup) (std : Std) :
    RTV1.Conf su std (.typeddict "TD".toList [("a".toList, .int, true), ("b".toList, .str, false)])
      (.map .dict [(.str "a".toList, .int 1)]) := by
  refine RTV1.Conf.typeddict "TD".toList [("a".toList, .int, true), ("b".toList, .str, false)] [some (.int 1), none] (by decide) rfl ?_ ?_
  · intro p hp hn
    simp only [List.zip_cons_cons, List.zip_nil_right, List.mem_cons, List.not_mem_nil, or_false] at hp
    rcases hp with rfl | rfl
    · cases hn
    · rfl
  · intro p hp v hv
    simp only [List.zip_cons_cons, List.zip_nil_right, List.mem_cons, List.not_mem_nil, or_false] at hp
    rcases hp with rfl | rfl
    · cases hv; exact RTV1.Conf.int 1
    · cases hv

end DW.Props.C02
