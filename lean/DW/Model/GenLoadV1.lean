/-
Model of a fourth generator as the text it writes: the skeleton of `v1/loaders.py: load_func_for_dataclass` ->
`__dataclass_wizard_from_dict_<Class>__` (the region the property's anchor points at: field names, aliases, paths and tag keys
interpolated into source text).

What the skeleton takes from the class: `_pre_from_dict`, whether any field has a default, a catch-all field (required at a
constructor position / defaulted), `v1_on_unknown_key` (warn / raise), a tag key that is expected as an unknown key, and per
constructor field its name, whether it has a default, how its value is looked up (one key - the variable `field` or a literal -,
several keys tried in order, one path, several paths) and the *value expression* `generate_field_code` returns for its type.  That
expression is an input of this model: its text, the names it reads before binding them, the names it surely binds and all names it
binds (`x := …`) are read off the generated line on every run; the skeleton theorem is stated for every expression that reads only
`v1` and outside names.

The template nests to a fixed depth (`try` -> `if` -> line), so the statement type is layered and the checker is not recursive.  An
`if` condition may bind (`(v1 := o.get(..)) is not MISSING or …` surely binds `v1`).  The final
`try: return cls(__a__v, …) / except UnboundLocalError:` reads variables that are bound only when their key was present - by
design; for those the checker asks that they are *locals* of the function (so that the failure is the UnboundLocalError the handler
catches, never a NameError).  Scoping is Python's rule taken literally: a name bound anywhere in the body is local.
-/
import DW.Model.GenLoad

namespace DW.GenLoadV1
open DW.Names
open DW.GenLoad (Part Scope Flow t joinWith indent asNames)
open DW.GenDump (PathPart)

inductive S0
  | line (parts : List Part)
  | exit (text : S) (reads : List S)
  deriving Repr, Inhabited

inductive S1
  | s0 (s : S0)
  | ifc (cond : S) (cr cw cb : List S) (body : List S0)   -- `if cond:`; cw = names the condition surely binds, cb = all it binds
  deriving Repr, Inhabited

inductive S2
  | s1 (s : S1)
  | try_ (body : List S1) (exc : S) (er : List S) (asName : Option S) (handler : List S0)
  | tryUnbound (text : S) (reads soft : List S) (handler : List S0)   -- `try: <text> / except UnboundLocalError: handler`
  deriving Repr, Inhabited

/-! ### printing -/

def S0.render (lvl : Nat) : S0 → S
  | .line parts => indent lvl ++ joinWith "; ".toList (parts.map (·.text))
  | .exit tx _ => indent lvl ++ tx

def S1.render (lvl : Nat) : S1 → List S
  | .s0 s => [s.render lvl]
  | .ifc c _ _ _ body => (indent lvl ++ "if ".toList ++ c ++ [':']) :: body.map (S0.render (lvl + 1))

def S2.render (lvl : Nat) : S2 → List S
  | .s1 s => s.render lvl
  | .try_ body exc _ asName handler =>
      (indent lvl ++ "try:".toList) :: body.flatMap (S1.render (lvl + 1)) ++
        ((indent lvl ++ "except ".toList ++ exc ++ (match asName with | some n => " as ".toList ++ n | none => []) ++ [':'])
          :: handler.map (S0.render (lvl + 1)))
  | .tryUnbound tx _ _ handler =>
      [indent lvl ++ "try:".toList, indent (lvl + 1) ++ tx, indent lvl ++ "except UnboundLocalError:".toList]
        ++ handler.map (S0.render (lvl + 1))

/-! ### what a statement binds (anywhere, on any path) -/

def partsBinds (ps : List Part) : List S := ps.flatMap (·.writes)

def S0.binds : S0 → List S
  | .line parts => partsBinds parts
  | .exit _ _ => []

def S1.binds : S1 → List S
  | .s0 s => s.binds
  | .ifc _ _ _ cb body => cb ++ body.flatMap S0.binds

def S2.binds : S2 → List S
  | .s1 s => s.binds
  | .try_ body _ _ asName handler => body.flatMap S1.binds ++ asNames asName ++ handler.flatMap S0.binds
  | .tryUnbound _ _ _ handler => handler.flatMap S0.binds

/-! ### scoping: Python's rule -/

/-- a name bound anywhere in the body is local and must be definitely assigned; any other name must come from outside -/
def rd (sc : Scope) (asg : List S) (n : S) : Bool :=
  if sc.locals.contains n then asg.contains n else sc.outer.contains n

def rds (sc : Scope) (asg : List S) (ns : List S) : Bool := ns.all (rd sc asg)

def checkParts (sc : Scope) : List S → List Part → Option (List S)
  | asg, [] => some asg
  | asg, p :: r => if rds sc asg p.reads then checkParts sc (p.writes ++ asg) r else none

def S0.check (sc : Scope) (asg : List S) : S0 → Option Flow
  | .line parts => (checkParts sc asg parts).map some
  | .exit _ rs => if rds sc asg rs then some none else none

def checkL0 (sc : Scope) : List S → List S0 → Option Flow
  | asg, [] => some (some asg)
  | asg, s :: r =>
    match s.check sc asg with
    | none => none
    | some none => some none
    | some (some a) => checkL0 sc a r

def S1.check (sc : Scope) (asg : List S) : S1 → Option Flow
  | .s0 s => s.check sc asg
  | .ifc _ cr cw _ body =>
      if rds sc asg cr then
        match checkL0 sc (cw ++ asg) body with
        | none => none
        | some f => some (Flow.meet f (some (cw ++ asg)))
      else none

def checkL1 (sc : Scope) : List S → List S1 → Option Flow
  | asg, [] => some (some asg)
  | asg, s :: r =>
    match s.check sc asg with
    | none => none
    | some none => some none
    | some (some a) => checkL1 sc a r

/-- what is certainly bound when the first exception of a `try` body can be raised -/
def safePrefix : List S1 → List S
  | .s0 (.line parts) :: _ => (parts.takeWhile (·.safe)).flatMap (·.writes)
  | _ => []

def S2.check (sc : Scope) (asg : List S) : S2 → Option Flow
  | .s1 s => s.check sc asg
  | .try_ body _ er asName handler =>
      if rds sc asg er then
        match checkL1 sc asg body, checkL0 sc (safePrefix body ++ asNames asName ++ asg) handler with
        | some a, some b => some (a.meet b)
        | _, _ => none
      else none
  | .tryUnbound _ rs soft handler =>
      if rds sc asg rs && soft.all (fun n => sc.locals.contains n) then
        match checkL0 sc asg handler with
        | some b => some b          -- the body returns
        | none => none
      else none

def checkL2 (sc : Scope) : List S → List S2 → Option Flow
  | asg, [] => some (some asg)
  | asg, s :: r =>
    match s.check sc asg with
    | none => none
    | some none => some none
    | some (some a) => checkL2 sc a r

/-! ### the generator -/

inductive Key
  | field                -- the variable `field`
  | lit (s : S)          -- a string literal
  deriving Repr, DecidableEq, Inhabited

inductive Lookup
  | assign (k : Key)                            -- `field='n'; v1=o.get(<k>, MISSING)`
  | anyOf (ks : List Key)                       -- `field='n'` / `if ((v1 := o.get(<k>, MISSING)) is not MISSING\n     or …):`
  | pathAssign (p : List PathPart)              -- `field='n'; v1=safe_get(o, <p>, <required>)`
  | pathAnyOf (ps : List (List PathPart))
  deriving Repr, DecidableEq, Inhabited

structure VField where
  name : S
  hasDefault : Bool := false
  lookup : Lookup := .assign .field
  expr : S := []                    -- the value expression `generate_field_code` returned
  exprReads : List S := []          -- names it reads before binding them
  exprWrites : List S := []         -- names it surely binds
  exprBinds : List S := []          -- all names it binds
  deriving Repr, Inhabited

inductive CatchAll
  | none
  | dflt (name : S)                 -- `init_kwargs['<name>'] = {…}` when there are unknown keys
  | required (name : S) (idx : Nat) -- `__<name>__v = …`, passed at constructor position `idx`
  deriving Repr, DecidableEq, Inhabited

inductive Unknown | none | raise | warn
  deriving Repr, DecidableEq, Inhabited

structure VIn where
  preFromDict : Bool := false
  otherDefaults : Bool := false     -- a default on a field that is not a constructor field of the loop
  catchAll : CatchAll := .none
  unknown : Unknown := .none        -- `v1_on_unknown_key` = RAISE / WARN
  tagKey : Option S := none         -- the tag key is expected as an unknown key
  fields : List VField := []
  deriving Repr, Inhabited

def VIn.hasDefaults (g : VIn) : Bool :=
  g.otherDefaults || g.fields.any (·.hasDefault) || (match g.catchAll with | .dflt _ => true | _ => false)

def VIn.hasCatchAll (g : VIn) : Bool := match g.catchAll with | .none => false | _ => true

/-- `i+=1; ` is written in front of every assignment when keys are counted -/
def VIn.preAssign (g : VIn) : Bool := g.hasCatchAll || g.unknown != .none

def Key.text (p : Char → Bool) : Key → S
  | .field => t "field"
  | .lit s => pyRepr p s

def Key.reads : Key → List S
  | .field => [t "field"]
  | .lit _ => []

def pathRepr (p : Char → Bool) (ps : List PathPart) : S :=
  '[' :: joinWith (t ", ") (ps.map (fun x => x.lit.text p)) ++ [']']

def pyBool (b : Bool) : S := if b then t "True" else t "False"

def orJoin : List S → S
  | [] => []
  | [x] => x
  | x :: r => x ++ t "\n     or " ++ orJoin r

def getCond (p : Char → Bool) (k : Key) : S := t "(v1 := o.get(" ++ k.text p ++ t ", MISSING)) is not MISSING"

def pathCond (p : Char → Bool) (required : Bool) (ps : List PathPart) : S :=
  t "(v1 := safe_get(o, " ++ pathRepr p ps ++ t ", " ++ pyBool required ++ t ")) is not MISSING"

/-- the required flag of the paths tried in order: only the last one may raise -/
def pathConds (p : Char → Bool) (required : Bool) : List (List PathPart) → List S
  | [] => []
  | [x] => [pathCond p required x]
  | x :: r => pathCond p false x :: pathConds p required r

def usesPath (f : VField) : Bool := match f.lookup with | .pathAssign _ => true | .pathAnyOf _ => true | _ => false

def fieldLit (p : Char → Bool) (f : VField) : Part :=
  { text := t "field=" ++ pyRepr p f.name, writes := [t "field"], safe := true }

/-- `v1=o.get(<key>, MISSING)` -/
def getPart (p : Char → Bool) (k : Key) : Part :=
  { text := t "v1=o.get(" ++ k.text p ++ t ", MISSING)", reads := [t "o"] ++ k.reads ++ [t "MISSING"], writes := [t "v1"] }

/-- `v1=safe_get(o, <path>, <required>)` -/
def pathPart (p : Char → Bool) (required : Bool) (ps : List PathPart) : Part :=
  { text := t "v1=safe_get(o, " ++ pathRepr p ps ++ t ", " ++ pyBool required ++ t ")", reads := [t "safe_get", t "o"], writes := [t "v1"] }

/-- the statement in front of a field's `if` -/
def lookupLine (p : Char → Bool) (f : VField) : S0 :=
  match f.lookup with
  | .assign k => .line [fieldLit p f, getPart p k]
  | .pathAssign ps => .line [fieldLit p f, pathPart p (!f.hasDefault) ps]
  | .anyOf _ => .line [fieldLit p f]
  | .pathAnyOf _ => .line [fieldLit p f]

def condText (p : Char → Bool) (f : VField) : S :=
  match f.lookup with
  | .assign _ => t "v1 is not MISSING"
  | .pathAssign _ => t "v1 is not MISSING"
  | .anyOf ks => t "(" ++ orJoin (ks.map (getCond p)) ++ t ")"
  | .pathAnyOf ps => t "(" ++ orJoin (pathConds p (!f.hasDefault) ps) ++ t ")"

def condReads (f : VField) : List S :=
  match f.lookup with
  | .assign _ => [t "v1", t "MISSING"]
  | .pathAssign _ => [t "v1", t "MISSING"]
  | .anyOf ks => [t "o"] ++ ks.flatMap Key.reads ++ [t "MISSING"]
  | .pathAnyOf _ => [t "safe_get", t "o", t "MISSING"]

/-- a non-empty chain of `(v1 := …) is not MISSING or …` surely binds `v1` (its first member is always evaluated) -/
def condWrites (f : VField) : List S :=
  match f.lookup with
  | .anyOf (_ :: _) => [t "v1"]
  | .pathAnyOf (_ :: _) => [t "v1"]
  | _ => []

def target (f : VField) : S := if f.hasDefault then t "init_kwargs[field]" else fieldVar f.name

def incPart : Part := { text := t "i+=1", reads := [t "i"], writes := [t "i"] }

/-- `<target> = <expr>` -/
def exprPart (f : VField) : Part :=
  { text := target f ++ t " = " ++ f.expr,
    reads := f.exprReads ++ (if f.hasDefault then [t "init_kwargs", t "field"] else []),
    writes := f.exprWrites ++ (if f.hasDefault then [] else [fieldVar f.name]) }

/-- `[i+=1; ]<target> = <expr>` -/
def assignParts (g : VIn) (f : VField) : List Part := (if g.preAssign then [incPart] else []) ++ [exprPart f]

def assignLine (g : VIn) (f : VField) : S0 := .line (assignParts g f)

def fieldStmts (p : Char → Bool) (g : VIn) (f : VField) : List S1 :=
  [.s0 (lookupLine p f),
   .ifc (condText p f) (condReads f) (condWrites f) (condWrites f ++ f.exprBinds) [assignLine g f]]

def allFieldStmts (p : Char → Bool) (g : VIn) : List VField → List S1
  | [] => []
  | f :: r => fieldStmts p g f ++ allFieldStmts p g r

def fieldNone : Part := { text := t "field = None", writes := [t "field"], safe := true }

/-- `field = None` / `if '<tag key>' in o: i+=1` -/
def tagStmts (p : Char → Bool) (g : VIn) : List S1 :=
  match g.tagKey with
  | some k => if g.preAssign then [.s0 (.line [fieldNone]), .ifc (pyRepr p k ++ t " in o") [t "o"] [] [] [.line [incPart]]] else []
  | none => []

def handlerPart : Part :=
  { text := t "re_raise(e, cls, o, fields, field, locals().get('v1'))",
    reads := [t "re_raise", t "e", t "cls", t "o", t "fields", t "field", t "locals"] }

def handlerStmts : List S0 := [.line [handlerPart]]

def prePart : Part := { text := t "o = __pre_from_dict__(o)", reads := [t "__pre_from_dict__", t "o"], writes := [t "o"] }
def kwPart : Part := { text := t "init_kwargs = {}", writes := [t "init_kwargs"] }
def iPart : Part := { text := t "i = 0", writes := [t "i"] }

def headStmts (g : VIn) : List S2 :=
  (if g.preFromDict then [.s1 (.s0 (.line [prePart]))] else [])
  ++ (if g.hasDefaults then [.s1 (.s0 (.line [kwPart]))] else [])
  ++ (if g.preAssign then [.s1 (.s0 (.line [iPart]))] else [])

def fieldBlock (p : Char → Bool) (g : VIn) : List S2 :=
  match g.fields with
  | [] => []
  | fs => [.try_ (tagStmts p g ++ allFieldStmts p g fs) (t "Exception") [t "Exception"] (some (t "e")) handlerStmts]

def catchAllDef : S := t "{k: o[k] for k in o if k not in aliases}"

def catchDfltPart (p : Char → Bool) (n : S) : Part :=
  { text := t "init_kwargs[" ++ pyRepr p n ++ t "] = " ++ catchAllDef, reads := [t "o", t "o", t "aliases", t "init_kwargs"] }

def catchReqPart (n : S) : Part :=
  { text := fieldVar n ++ t " = {} if len(o) == i else " ++ catchAllDef,
    reads := [t "len", t "o", t "i", t "o", t "o", t "aliases"], writes := [fieldVar n] }

def extraKeysPart : Part := { text := t "extra_keys = set(o) - aliases", reads := [t "set", t "o", t "aliases"], writes := [t "extra_keys"] }

def raiseUnknown : S0 :=
  .exit (t "raise UnknownKeysError(extra_keys, o, cls, fields) from None") [t "UnknownKeysError", t "extra_keys", t "o", t "cls", t "fields"]

def warnPart : Part :=
  { text := t "LOG.warning('Found %d unknown keys %r not mapped to the dataclass schema.\\n  Class: %r\\n  Dataclass fields: %r', len(extra_keys), extra_keys, cls.__qualname__, [f.name for f in fields])",
    reads := [t "LOG", t "len", t "extra_keys", t "extra_keys", t "cls", t "fields"] }

def countCond : S := t "len(o) != i"
def countReads : List S := [t "len", t "o", t "i"]

/-- the catch-all entry, else the unknown-key block -/
def afterStmts (p : Char → Bool) (g : VIn) : List S2 :=
  match g.catchAll with
  | .dflt n => [.s1 (.ifc countCond countReads [] [] [.line [catchDfltPart p n]])]
  | .required n _ => [.s1 (.s0 (.line [catchReqPart n]))]
  | .none =>
    match g.unknown with
    | .none => []
    | .raise => [.s1 (.ifc countCond countReads [] [] [.line [extraKeysPart], raiseUnknown])]
    | .warn => [.s1 (.ifc countCond countReads [] [] [.line [extraKeysPart], .line [warnPart]])]

def insertAt (l : List S) (i : Nat) (x : S) : List S := l.take i ++ x :: l.drop i

/-- the variables passed to the constructor: required fields in order, the required catch-all at its position -/
def ctorVars (g : VIn) : List S :=
  let req := (g.fields.filter (fun f => !f.hasDefault)).map (fun f => fieldVar f.name)
  match g.catchAll with
  | .required n idx => insertAt req idx (fieldVar n)
  | _ => req

def ctorText (g : VIn) : S :=
  t "return cls(" ++ joinWith (t ", ") (ctorVars g ++ (if g.hasDefaults then [t "**init_kwargs"] else [])) ++ t ")"

def ctorReads (g : VIn) : List S := [t "cls"] ++ (if g.hasDefaults then [t "init_kwargs"] else [])

def missingPart : Part :=
  { text := t "raise_missing_fields(locals(), o, cls, fields)", reads := [t "raise_missing_fields", t "locals", t "o", t "cls", t "fields"] }

def tailStmts (g : VIn) : List S2 := [.tryUnbound (ctorText g) (ctorReads g) (ctorVars g) [.line [missingPart]]]

def genBody (p : Char → Bool) (g : VIn) : List S2 := headStmts g ++ (fieldBlock p g ++ (afterStmts p g ++ tailStmts g))

def genCode (p : Char → Bool) (g : VIn) : S := joinWith ['\n'] ((genBody p g).flatMap (S2.render 1))

/-- the names the skeleton itself takes from outside -/
def skeletonOuter (g : VIn) : List S :=
  [t "cls", t "fields", t "MISSING", t "re_raise", t "raise_missing_fields", t "locals", t "Exception"]
  ++ (if g.preFromDict then [t "__pre_from_dict__"] else [])
  ++ (if g.hasCatchAll || g.unknown != .none then [t "aliases", t "len"] else [])
  ++ (match g.catchAll, g.unknown with
      | .none, .raise => [t "set", t "UnknownKeysError"]
      | .none, .warn => [t "set", t "LOG"]
      | _, _ => [])
  ++ (if g.fields.any usesPath then [t "safe_get"] else [])

def bindsAll (p : Char → Bool) (g : VIn) : List S := (genBody p g).flatMap S2.binds

/-- the scope of the generated function: `outer` = what the closure, the globals and the builtins hold (given by the caller) -/
def genScope (p : Char → Bool) (g : VIn) (outer : List S) : Scope :=
  { locals := t "o" :: bindsAll p g, outer := outer }

def wellScoped (p : Char → Bool) (g : VIn) (outer : List S) : Bool :=
  (checkL2 (genScope p g outer) [t "o"] (genBody p g)).isSome

/-! ### the premises of the scoping theorem, executable -/

def fixedLocals : List S := [t "o", t "init_kwargs", t "i", t "field", t "v1", t "e", t "extra_keys"]

/-- every outside name the skeleton can use, whatever the class -/
def allOuter : List S :=
  [t "cls", t "fields", t "MISSING", t "re_raise", t "raise_missing_fields", t "locals", t "Exception", t "__pre_from_dict__",
   t "aliases", t "len", t "set", t "UnknownKeysError", t "LOG", t "safe_get"]

/-- the shape of a field variable `__<f>__v` -/
def shaped (n : S) : Bool := (t "__").isPrefixOf n && (t "__v").isSuffixOf n

/-- may the body bind `n`?  (a fixed local, something shaped like a field variable, a name a value expression binds) -/
def bindableB (g : VIn) (n : S) : Bool :=
  fixedLocals.contains n || shaped n || g.fields.any (fun f => f.exprWrites.contains n || f.exprBinds.contains n)

def lookupOkB (f : VField) : Bool := f.lookup != .anyOf [] && f.lookup != .pathAnyOf []

/-- the premises of `C15_genloadv1_well_scoped_inputs`, as a test on the inputs -/
def premisesB (g : VIn) (outer : List S) : Bool :=
  g.fields.all lookupOkB &&
  (skeletonOuter g).all (fun n => outer.contains n) &&
  g.fields.all (fun f => (f.exprWrites ++ f.exprBinds).all (fun n => !allOuter.contains n)) &&
  g.fields.all (fun f => f.exprReads.all (fun n => n == t "v1" || (outer.contains n && !bindableB g n)))

end DW.GenLoadV1
