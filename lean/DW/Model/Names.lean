/-
How the code generators put user-controlled text into Python source (C15).

  * strings (aliases, tags, tag keys, dict keys of paths …) are spliced as `repr(s)` (`{s!r}` in the templates);
    `pyRepr` is CPython's `unicode_repr`, `pyUnquote` the lexer's reading of a short string literal;
  * user *types* are bound in the generated function's closure under `<__name__>_<field index>` (and a further `_<n>`
    when that name is already taken by another type), the generator's own variables never have that form;
  * field names appear as attribute names, keyword names and string literals only.
-/
namespace DW.Names

abbrev S := List Char

def hexDigit (n : Nat) : Char :=
  if n < 10 then Char.ofNat (48 + n) else Char.ofNat (87 + n)      -- 0-9, a-f

def hexVal (c : Char) : Option Nat :=
  let n := c.toNat
  if 48 ≤ n ∧ n ≤ 57 then some (n - 48)
  else if 97 ≤ n ∧ n ≤ 102 then some (n - 87)
  else if 65 ≤ n ∧ n ≤ 70 then some (n - 55)
  else none

/-- `k` lower-case hex digits of `n`, most significant first -/
def toHex : Nat → Nat → S
  | 0, _ => []
  | k + 1, n => toHex k (n / 16) ++ [hexDigit (n % 16)]

/-- value of a hex digit string, `acc` the value read so far -/
def ofHex (acc : Nat) : S → Option Nat
  | [] => some acc
  | c :: r => match hexVal c with
    | some d => ofHex (acc * 16 + d) r
    | none => none

/-- the quote `repr` chooses: `"` when the text contains `'` and no `"`, else `'` -/
def quoteOf (s : S) : Char :=
  if s.contains '\'' && !s.contains '"' then '"' else '\''

/-- one character of `repr`; `printable` is `str.isprintable` for non-ASCII characters -/
def esc (printable : Char → Bool) (q : Char) (c : Char) : S :=
  if c = q ∨ c = '\\' then ['\\', c]
  else if c = '\t' then ['\\', 't']
  else if c = '\n' then ['\\', 'n']
  else if c = '\r' then ['\\', 'r']
  else if c.toNat < 32 ∨ c.toNat = 127 then '\\' :: 'x' :: toHex 2 c.toNat
  else if c.toNat < 127 then [c]
  else if printable c then [c]
  else if c.toNat < 256 then '\\' :: 'x' :: toHex 2 c.toNat
  else if c.toNat < 65536 then '\\' :: 'u' :: toHex 4 c.toNat
  else '\\' :: 'U' :: toHex 8 c.toNat

def escAll (printable : Char → Bool) (q : Char) : S → S
  | [] => []
  | c :: r => esc printable q c ++ escAll printable q r

/-- CPython `repr(str)` -/
def pyRepr (printable : Char → Bool) (s : S) : S :=
  let q := quoteOf s
  q :: (escAll printable q s ++ [q])

def hexCons (n : Option Nat) (t : Option S) : Option S :=
  match n, t with
  | some n, some t => some (Char.ofNat n :: t)
  | _, _ => none

def chCons (c : Option Char) (t : Option S) : Option S :=
  match c, t with
  | some c, some t => some (c :: t)
  | _, _ => none

/-- the one-character escapes `repr` produces -/
def simpleEsc (x : Char) : Option Char :=
  if x = 't' then some '\t' else if x = 'n' then some '\n' else if x = 'r' then some '\r'
  else if x = '\\' ∨ x = '\'' ∨ x = '"' then some x else none

/-- body of a short string literal opened with quote `q`, up to and including the closing quote; `none` = not a
well-formed literal (or trailing text after the closing quote) -/
def unq (q : Char) : S → Option S
  | [] => none
  | '\\' :: 'x' :: a :: b :: r => hexCons (ofHex 0 [a, b]) (unq q r)
  | '\\' :: 'u' :: a :: b :: c :: d :: r => hexCons (ofHex 0 [a, b, c, d]) (unq q r)
  | '\\' :: 'U' :: a :: b :: c :: d :: e :: f :: g :: h :: r => hexCons (ofHex 0 [a, b, c, d, e, f, g, h]) (unq q r)
  | '\\' :: x :: r => chCons (simpleEsc x) (unq q r)
  | c :: r =>
    if c = q then (if r = [] then some [] else none)
    else if c = '\n' then none
    else chCons (some c) (unq q r)

/-- reading a literal produced by `repr` -/
def pyUnquote : S → Option S
  | [] => none
  | q :: r => if q = '\'' ∨ q = '"' then unq q r else none

/-! ### names -/

def isDigit (c : Char) : Bool := 48 ≤ c.toNat && c.toNat ≤ 57

/-- decimal digits of a natural number, `fuel` ≥ number of digits -/
def decAux : Nat → Nat → S → S
  | 0, _, acc => acc
  | fuel + 1, n, acc =>
    let acc' := Char.ofNat (48 + n % 10) :: acc
    if n / 10 = 0 then acc' else decAux fuel (n / 10) acc'

def dec (n : Nat) : S := decAux (n + 1) n []

/-- `<name>_<i>`: the closure name of a user type in field `i` (v1/models.py `_wrap_inner`) -/
def typeLocal (name : S) (i : Nat) : S := name ++ '_' :: dec i

/-- does the identifier end in `_<digits>` ? (the shape of every type local) -/
def endsIndexed (s : S) : Bool :=
  let r := s.reverse
  let ds := r.takeWhile isDigit
  !ds.isEmpty && (r.drop ds.length).head? == some '_'

/-- the local holding the parsed value of field `name` in a generated v1 `from_dict` (v1/loaders.py `_field_var`) -/
def fieldVar (name : S) : S := '_' :: '_' :: (name ++ ['_', '_', 'v'])

/-- closure helpers of the same function -/
def isoHelper (tn : S) : S := '_' :: '_' :: (tn ++ "_fromisoformat".toList)
def tsHelper (tn : S) : S := '_' :: '_' :: (tn ++ "_fromtimestamp".toList)
def fromDictHelper (cls : S) : S := "__dataclass_wizard_from_dict_".toList ++ cls ++ ['_', '_']
def asDatetimeHelper : S := "__as_datetime".toList
def tzHelper : S := "__tz".toList

/-- the numbered variant used when `<name>_<i>` is already bound to another type -/
def typeLocalN (name : S) (i n : Nat) : S := typeLocal name i ++ '_' :: dec n

end DW.Names
