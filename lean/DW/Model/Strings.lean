/-
Model of `dataclass_wizard/utils/string_conv.py` (key-casing transforms) over `List Char`.

Python `str` methods are modelled on their ASCII behaviour (`lower`, `upper`, `title`,
`islower`, `replace`); the two `re.sub` calls of `to_snake_case` / `to_lisp_case` /
`to_camel_case` are hand-written scanners.  The correspondence check
(`harness/props/c08.py`) compares every function here with the real one, exhaustively
over a small alphabet and on random longer strings.
-/
namespace DW.Str

abbrev S := List Char

def isUp (c : Char) : Bool := c.isUpper
def isLo (c : Char) : Bool := c.isLower
def isDig (c : Char) : Bool := c.isDigit
def isAl (c : Char) : Bool := c.isUpper || c.isLower
def isLoOrDig (c : Char) : Bool := c.isLower || c.isDigit

def lowerS (s : S) : S := s.map Char.toLower
def upperS (s : S) : S := s.map Char.toUpper

/-- Python `str.islower()` (ASCII): at least one cased character and no uppercase one. -/
def pyIsLower (s : S) : Bool := s.any isLo && !s.any isUp

/-- `s.replace(a, b)` for single characters. -/
def replaceChar (a b : Char) (s : S) : S := s.map (fun c => if c = a then b else c)

/-- `s.replace(a, '')` for a single character. -/
def removeChar (a : Char) (s : S) : S := s.filter (fun c => c != a)

/-- `replace_multi_with_single(s, ch)`: collapse runs of `ch` into one. -/
def collapse (ch : Char) : S → S
  | [] => []
  | c :: rest =>
    match rest with
    | [] => [c]
    | d :: _ => if c = ch ∧ d = ch then collapse ch rest else c :: collapse ch rest

/-- Python `str.title()` on ASCII. -/
def titleAux : Bool → S → S
  | _, [] => []
  | prev, c :: r =>
    (if isAl c then (if prev then c.toLower else c.toUpper) else c) :: titleAux (isAl c) r

def pyTitle (s : S) : S := titleAux false s

/-- `normalize(s)`: drop `-` and `_`, upper-case. -/
def normalize (s : S) : S := upperS (removeChar '_' (removeChar '-' s))

/-- `re.sub(r"(?:_)(.)", lambda m: m.group(1).upper(), s)` -/
def camelTail : S → S
  | [] => []
  | [c] => [c]
  | c :: d :: r' =>
    if c = '_' then
      if d = '\n' then '_' :: camelTail (d :: r') else d.toUpper :: camelTail r'
    else c :: camelTail (d :: r')

/-- common prefix of to_camel_case / to_pascal_case -/
def normSep (s : S) : S := collapse '_' (replaceChar ' ' '_' (replaceChar '-' '_' s))

/-- `to_camel_case` (total since fix 475dbb1: the empty string is returned unchanged; `Option` is kept so
that a transform that raises stays expressible). -/
def toCamel (s : S) : Option S :=
  match normSep s with
  | [] => some []
  | c :: r => some (c.toLower :: camelTail r)

def toPascal (s : S) : Option S :=
  match normSep s with
  | [] => some []
  | c :: r => some (c.toUpper :: camelTail r)

/-- `re.sub(r'((?!^)(?<!SEP)[A-Z][a-z]+|(?<=[a-z0-9])[A-Z])', r'SEP\1', s)` as a one-pass
scanner: `prev` is the previous character of the original string. A separator is
inserted before an upper-case letter `c` iff the first alternative matches at `c`
(not at start, previous char is not `sep`, next char is lower-case) or the second does
(previous char in `[a-z0-9]`). -/
def snakeSub (sep : Char) : Option Char → S → S
  | _, [] => []
  | prev, c :: r =>
    let alt1 := match prev with
      | none => false
      | some p => p != sep && (match r with | [] => false | d :: _ => isLo d)
    let alt2 := match prev with
      | none => false
      | some p => isLoOrDig p
    if isUp c && (alt1 || alt2) then sep :: c :: snakeSub sep (some c) r
    else c :: snakeSub sep (some c) r

def toSepCase (sep other : Char) (s : S) : S :=
  let t := replaceChar ' ' sep (replaceChar other sep s)
  if pyIsLower t then collapse sep t
  else collapse sep (lowerS (snakeSub sep none t))

def toSnake (s : S) : S := toSepCase '_' '-' s
def toLisp (s : S) : S := toSepCase '-' '_' s

def eraseFirst (x : S) : List S → List S
  | [] => []
  | y :: ys => if x = y then ys else y :: eraseFirst x ys

/-- `possible_json_keys(field)`; `none` = IndexError (empty field). -/
def possibleJsonKeys (field : S) : Option (List S) :=
  match toCamel field with
  | none => none
  | some camel =>
    match camel with
    | [] => none
    | c0 :: crest =>
      let pascal := c0.toUpper :: crest
      let lisp := toLisp field
      let upperKebab := pyTitle lisp
      let upperSnake := replaceChar '-' '_' upperKebab
      let snake := lowerS upperSnake
      let keys := [camel, pascal, lisp, upperKebab, upperSnake, snake]
      some (if keys.contains field then eraseFirst field keys else keys)

/-- the five `LetterCase` members, by name -/
inductive LetterCase | camel | pascal | lisp | snake | none
  deriving Repr, DecidableEq

def LetterCase.apply : LetterCase → S → Option S
  | .camel, s => toCamel s
  | .pascal, s => toPascal s
  | .lisp, s => some (toLisp s)
  | .snake, s => some (toSnake s)
  | .none, s => some s

/-- Default-engine key resolution (generated `cls_fromdict`):
exact field name, else `py_case(key)` then the case-insensitive `get_key`
(the *last* field whose lower-cased name equals the lower-cased transformed key).
`none` = unknown key. `pyCase` returning `none` models an exception from the transform. -/
def lastLowerMatch (fields : List S) (k : S) : Option S :=
  (fields.reverse.find? (fun f => lowerS f = lowerS k))

def resolveKeyD (pyCase : S → Option S) (fields : List S) (key : S) : Option S :=
  if fields.contains key then some key
  else match pyCase key with
    | none => none
    | some k => lastLowerMatch fields k

end DW.Str
