/-
State machine of the dump-side per-class state that survives a call (C06 / C07):
  * `DATACLASS_FIELD_TO_ALIAS[cls]`   — the dump keys of a class, computed once (under whatever transform the
                                         class's dumper has at that moment) and then reused for every later
                                         generation of a dump function for that class, as main *or* nested class;
  * the class's private dumper         — `transform_dataclass_field` and the TIMESTAMP hooks, (re)bound by
                                         `Meta.bind_to(cls)` at definition and by `bind_to(cls, is_default=False)`
                                         whenever the class is reached as a nested class of a root with a recursive Meta.
A class is abstracted to what matters for the *fingerprint* of a dump: which key style its dict uses and whether its
datetime fields are written as timestamps.
-/
import DW.Model.Dump

namespace DW.Caches
open DW

structure MetaL where
  kt : Option LetterCaseOpt := none      -- key_transform_with_dump
  ts : Option Bool := none               -- marshal_date_time_as == TIMESTAMP
  recursive : Option Bool := none
  deriving Repr, DecidableEq, Inhabited

structure ClsDef where
  id : Nat
  own : Option MetaL := none
  nested : List Nat := []                -- dataclasses reached through this class's fields (transitively, in order)
  deriving Repr, DecidableEq, Inhabited

structure ClsSt where
  aliasStyle : Option LetterCaseOpt := none   -- style of the cached dump keys (none = cache empty)
  dumperKt : Option LetterCaseOpt := none     -- the dumper's transform (none = default camelCase)
  dumperTs : Bool := false                    -- TIMESTAMP hooks registered on the dumper
  deriving Repr, DecidableEq, Inhabited

/-- per-class state, as a total map (the default entry is the state of a class that was never touched) -/
abbrev St := Nat → ClsSt

def St.init : St := fun _ => {}

def St.get (st : St) (c : Nat) : ClsSt := st c

def St.set (st : St) (c : Nat) (v : ClsSt) : St := fun x => if x = c then v else st x

inductive Op
  | define (c : Nat)
  | dump (root : Nat)
  deriving Repr, DecidableEq, Inhabited

/-- what is observable of one class occurrence in a dump: (class, key style, datetimes as timestamps) -/
abbrev Occ := Nat × LetterCaseOpt × Bool

abbrev Defs := List ClsDef

def Defs.get (ds : Defs) (c : Nat) : ClsDef := (ds.find? (fun d => d.id == c)).getD { id := c }

def mergeL (own : Option MetaL) (cfg : Option MetaL) : MetaL :=
  match own, cfg with
  | none, none => {}
  | some o, none => o
  | none, some c => { kt := c.kt, ts := c.ts, recursive := none }
  | some o, some c => { kt := o.kt <|> c.kt, ts := o.ts <|> c.ts, recursive := o.recursive }

def rootCfg (own : Option MetaL) : Option MetaL :=
  match own with
  | none => none
  | some o => if o.recursive.getD true then some o else none

/-- `Meta.bind_to(cls)` as far as the dumper is concerned: the transform is set when the Meta has one; the TIMESTAMP
hooks are only ever *added* (ISO_FORMAT is a no-op) -/
def bindDumper (s : ClsSt) (m : MetaL) : ClsSt :=
  { s with dumperKt := m.kt <|> s.dumperKt, dumperTs := s.dumperTs || m.ts == some true }

/-- key lookup of a dump-function generation: cached keys win, else the dumper's current transform (and cache it) -/
def genKeys (s : ClsSt) : ClsSt :=
  match s.aliasStyle with
  | some _ => s
  | none => { s with aliasStyle := some (s.dumperKt.getD .camel) }

def occOf (c : Nat) (s : ClsSt) : Occ := (c, s.aliasStyle.getD .camel, s.dumperTs)

/-- state of a nested class after it has been reached through a root with travelling config `cfg`:
`bind_to(n, is_default=False)` under merge(own, cfg) (only when there is a config), then the key lookup -/
def nestedUpdate (ds : Defs) (cfg : Option MetaL) (n : Nat) (s0 : ClsSt) : ClsSt :=
  genKeys (match cfg with
    | none => s0
    | some _ => bindDumper s0 (mergeL (ds.get n).own cfg))

/-- nested classes of a dump, left to right -/
def dumpNested (ds : Defs) (cfg : Option MetaL) : St → List Nat → St × List Occ
  | st, [] => (st, [])
  | st, n :: r =>
    let s2 := nestedUpdate ds cfg n (st.get n)
    let st' := st.set n s2
    let (st'', occs) := dumpNested ds cfg st' r
    (st'', occOf n s2 :: occs)

/-- the faithful step function -/
def step (ds : Defs) (st : St) : Op → St × List Occ
  | .define c =>
    let d := ds.get c
    match d.own with
    | none => (st.set c (st.get c), [])
    | some m => (st.set c (bindDumper (st.get c) m), [])
  | .dump r =>
    let d := ds.get r
    let s := genKeys (st.get r)
    let st1 := st.set r s
    let (st2, occs) := dumpNested ds (rootCfg d.own) st1 d.nested
    -- the root's own datetime fields are converted by its dumper's hooks *now* (nested binds may have touched it only if it nests itself)
    (st2, occOf r (st2.get r) :: occs)

def run (ds : Defs) : St → List Op → St × List (List Occ)
  | st, [] => (st, [])
  | st, op :: ops =>
    let (st1, o) := step ds st op
    let (st2, os) := run ds st1 ops
    (st2, o :: os)

/-! ### specification: what a dump shows in a fresh process -/

def specOcc (c : Nat) (m : MetaL) : Occ := (c, m.kt.getD .camel, m.ts.getD false)

def specDump (ds : Defs) (r : Nat) : List Occ :=
  let d := ds.get r
  specOcc r (mergeL d.own none) :: d.nested.map (fun n => specOcc n (mergeL (ds.get n).own (rootCfg d.own)))

end DW.Caches
