/-
C19 — model of `dataclass_wizard/wizard_cli/schema.py` (`wiz gen-schema`).

`gsInfer` transcribes `JSONRootParser` / `PyDataclassGenerator.__post_init__` / `PyListGenerator.__post_init__`
and the three `__or__` merges (`TypeContainer`, `PyDataclassGenerator`, `PyListGenerator`) as pure functions
(the Python objects are mutated in place, but the right operand of every merge is discarded afterwards, so
no aliasing is observable; the one alias that is — `PyListGenerator.model` is also an element of its
`parsed_types` — is represented by *deriving* the model as the first class element).
`gsModule` transcribes `get_lines` / `__repr__` / the two `__str__` styles and `ModuleImporter`.

String tests that hit the stdlib and `English.singularize` are a record of functions (`GsStd`), instantiated
by the driver from tables the harness computes with the stdlib / by recording the real calls.
-/
import DW.Generated.Tables
import DW.Model.Values

namespace DW.Gs
open DW DW.Str

/-- `PyDataType` members that can end up inside a `TypeContainer` (NULL sets a flag; LIST / DICT are
replaced by generators before they are appended). -/
inductive Prim | str | float | int | bool | date | datetime | time
  deriving DecidableEq, Repr, Inhabited

def Prim.pyName : Prim → S
  | .str => "str".toList | .float => "float".toList | .int => "int".toList | .bool => "bool".toList
  | .date => "date".toList | .datetime => "datetime".toList | .time => "time".toList

/-- stdlib string tests and the inflector, as functions (table-backed in the driver) -/
structure GsStd where
  /-- `date.fromisoformat(s)` succeeds -/
  isDate : S → Bool
  /-- `time.fromisoformat(s.replace('Z', '+00:00', 1))` succeeds -/
  isTime : S → Bool
  /-- `datetime.fromisoformat(s.replace('Z', '+00:00', 1))` succeeds -/
  isDatetime : S → Bool
  /-- `s.isnumeric()` -/
  isNumeric : S → Bool
  /-- `float(s)` succeeds -/
  isFloat : S → Bool
  /-- `s.lower()` -/
  lower : S → S
  /-- `English.singularize(word)` — only assumed to be a function of the word -/
  singularize : S → S

/-- command-line flags, plus the one deviation switch of the inference:
`dedupByEq` — `TypeContainer.append` drops a generator object that is `==` to a present one, and the
dataclass-generated `__eq__` of `TypeContainer` makes all containers equal, so two class generators with the
same name and the same field *names* (two list generators with equal data) are "equal". `false` = identity
comparison (nothing is ever dropped). The unchanged code has `true`. -/
structure Flags where
  experimental : Bool := false
  forceStrings : Bool := false
  dedupByEq : Bool := true
  deriving Repr, DecidableEq

/-! ### string inference (`possible_types_for_string_value`, `json_to_python_type`) -/

def canBeBool (std : GsStd) (s : S) : Bool :=
  (Generated.schemaBoolValues.map String.toList).contains (std.lower s)

def numericGuess (std : GsStd) (s : S) : List Prim :=
  if std.isNumeric s then [.int]
  else if std.isFloat s then [.float]
  else if canBeBool std s then [.bool]
  else []

def possibleTypes (std : GsStd) (force : Bool) (s : S) : List Prim :=
  if std.isDate s then [.date]
  else if !s.contains ':' then
    let p := numericGuess std s
    if force && !p.isEmpty then p else p ++ [.str]
  else if std.isTime s then [.time]
  else if std.isDatetime s then [.datetime]
  else [.str]

/-- type of a JSON scalar: `none` = `PyDataType.NULL`; containers are handled by the callers -/
def scalarPrims (std : GsStd) (force : Bool) : JVal → Option (List Prim)
  | .null => none
  | .str s => some (possibleTypes std force s)
  | .bool _ => some [.bool]
  | .int _ => some [.int]
  | .float _ => some [.float]
  | .list _ => some []
  | .dict _ => some []

/-! ### the generator objects -/

mutual
/-- an element of a `TypeContainer` -/
inductive Elem
  | prim (p : Prim)
  | cls (d : DGen)
  | lst (l : LGen)
/-- `PyDataclassGenerator`: name, `is_root`, `parsed_types` (insertion ordered; container = elements + `is_optional`) -/
inductive DGen
  | mk (name : S) (isRoot : Bool) (fields : List (S × List Elem × Bool))
/-- `PyListGenerator`: `data` (only compared by `==`), `container_name`, `name`, `parsed_types` -/
inductive LGen
  | mk (data : List JVal) (cname : S) (name : S) (elems : List Elem) (opt : Bool)
end

/-- a `TypeContainer`: elements and `is_optional` -/
abbrev TC := List Elem × Bool
abbrev Fields := List (S × TC)

instance : Inhabited Elem := ⟨.prim .str⟩
instance : Inhabited DGen := ⟨.mk [] false []⟩
instance : Inhabited LGen := ⟨.mk [] [] [] [] false⟩

def DGen.name : DGen → S | .mk n _ _ => n
def DGen.isRoot : DGen → Bool | .mk _ r _ => r
def DGen.fields : DGen → Fields | .mk _ _ f => f
def LGen.data : LGen → List JVal | .mk d _ _ _ _ => d
def LGen.cname : LGen → S | .mk _ c _ _ _ => c
def LGen.name : LGen → S | .mk _ _ n _ _ => n
def LGen.elems : LGen → List Elem | .mk _ _ _ e _ => e
def LGen.opt : LGen → Bool | .mk _ _ _ _ o => o

/-- `PyListGenerator.model`: the (only) class generator among the list's parsed types -/
def firstCls : List Elem → Option DGen
  | [] => none
  | .cls d :: _ => some d
  | _ :: r => firstCls r

def LGen.model (l : LGen) : Option DGen := firstCls l.elems

def replaceFirstCls (d : DGen) : List Elem → List Elem
  | [] => []
  | .cls _ :: r => .cls d :: r
  | e :: r => e :: replaceFirstCls d r

/-! ### Python `==` on what `json.loads` returns (for the `data` field of list generators) -/

def floatEq : PyFloat → PyFloat → Bool
  | .fin n m e _, .fin n' m' e' _ => (m == 0 && m' == 0) || (n == n' && m == m' && e == e')
  | .inf, .inf => true
  | .ninf, .ninf => true
  | _, _ => false

def numOf : JVal → Option (Sum Int PyFloat)
  | .bool b => some (.inl (if b then 1 else 0))
  | .int i => some (.inl i)
  | .float f => some (.inr f)
  | _ => none

def numEq : Sum Int PyFloat → Sum Int PyFloat → Bool
  | .inl a, .inl b => a == b
  | .inl a, .inr f => f.eqInt a
  | .inr f, .inl a => f.eqInt a
  | .inr f, .inr g => floatEq f g

def lookupKey (k : S) : List (S × JVal) → Option JVal
  | [] => none
  | (k', v) :: r => if k' == k then some v else lookupKey k r

mutual
def pyEqJ : JVal → JVal → Bool
  | .null, b => match b with | .null => true | _ => false
  | .str a, b => match b with | .str b' => a == b' | _ => false
  | .list a, b => match b with | .list b' => pyEqJL a b' | _ => false
  | .dict a, b => match b with | .dict b' => a.length == b'.length && pyEqJD a b' | _ => false
  | .bool x, b => match numOf b with | some n => numEq (.inl (if x then 1 else 0)) n | none => false
  | .int x, b => match numOf b with | some n => numEq (.inl x) n | none => false
  | .float x, b => match numOf b with | some n => numEq (.inr x) n | none => false
def pyEqJL : List JVal → List JVal → Bool
  | [], b => b.isEmpty
  | x :: xs, b => match b with
    | [] => false
    | y :: ys => pyEqJ x y && pyEqJL xs ys
def pyEqJD : List (S × JVal) → List (S × JVal) → Bool
  | [], _ => true
  | (k, v) :: r, b =>
    (match lookupKey k b with
     | some v' => pyEqJ v v'
     | none => false) && pyEqJD r b
end

/-! ### `o in self` of `TypeContainer.append` -/

/-- dict `==` on `parsed_types` of two class generators: same key set (all containers are equal) -/
def keySetEq (a b : Fields) : Bool :=
  a.length == b.length && a.all (fun f => b.any (fun g => g.1 == f.1))

/-- dataclass `__eq__` of `PyDataclassGenerator`: (name, indent, is_root, parsed_types) -/
def eqD (a b : DGen) : Bool :=
  a.name == b.name && a.isRoot == b.isRoot && keySetEq a.fields b.fields

def eqOptD : Option DGen → Option DGen → Bool
  | none, none => true
  | some a, some b => eqD a b
  | _, _ => false

/-- dataclass `__eq__` of `PyListGenerator`: (data, container_name, name, indent, root, parsed_types, model) -/
def eqL (a b : LGen) : Bool :=
  pyEqJL a.data b.data && a.cname == b.cname && a.name == b.name && eqOptD a.model b.model

def elemEq (dedup : Bool) : Elem → Elem → Bool
  | .prim p, .prim q => p == q
  | .cls a, .cls b => dedup && eqD a b
  | .lst a, .lst b => dedup && eqL a b
  | _, _ => false

def elemIn (dedup : Bool) (e : Elem) (es : List Elem) : Bool := es.any (fun x => elemEq dedup x e)

/-- `TypeContainer.append(o)` for a non-null, non-iterable `o` -/
def tcAppend (dedup : Bool) (tc : TC) (e : Elem) : TC :=
  if elemIn dedup e tc.1 then tc else (tc.1 ++ [e], tc.2)

def tcAppendAll (dedup : Bool) (tc : TC) : List Elem → TC
  | [] => tc
  | e :: r => tcAppendAll dedup (tcAppend dedup tc e) r

/-- `TypeContainer.append` of what `json_to_python_type` returned for a scalar -/
def tcAppendScalar (tc : TC) : Option (List Prim) → TC
  | none => (tc.1, true)
  | some ps => tcAppendAll true tc (ps.map .prim)

/-! ### fields (`defaultdict(TypeContainer)`) -/

def fieldsLookup (k : S) : Fields → Option TC
  | [] => none
  | (k', tc) :: r => if k' == k then some tc else fieldsLookup k r

def fieldsSet (k : S) (tc : TC) : Fields → Fields
  | [] => [(k, tc)]
  | (k', tc') :: r => if k' == k then (k', tc) :: r else (k', tc') :: fieldsSet k tc r

/-- `self.parsed_types[k]` then `f` on it (the defaultdict creates an empty container on first access) -/
def fieldsUpdate (k : S) (f : TC → TC) (fs : Fields) : Fields :=
  fieldsSet k (f ((fieldsLookup k fs).getD ([], false))) fs

/-! ### the three merges (`__or__`) — recursion on the right operand -/

/-- the container holds exactly one element and it is a class generator -/
def soleCls : List Elem → Option DGen
  | [.cls a] => some a
  | _ => none

/-- the container holds exactly one element and it is a list generator -/
def soleLst : List Elem → Option LGen
  | [.lst a] => some a
  | _ => none

mutual
/-- `TypeContainer.__or__`: the flag is or-ed; two single generators of the same kind are merged, everything else
is appended element by element -/
def mergeTC (dedup : Bool) (s : TC) : List Elem → Bool → TC
  | [], oopt => (s.1, s.2 || oopt)
  | [e], oopt => mergeOne dedup (s.1, s.2 || oopt) e
  | e :: e' :: r, oopt => tcAppendAll dedup (s.1, s.2 || oopt) (e :: e' :: r)
/-- the right operand holds the single element `e` -/
def mergeOne (dedup : Bool) (s : TC) : Elem → TC
  | .prim p => tcAppend dedup s (.prim p)
  | .cls b =>
    match soleCls s.1 with
    | some a => ([.cls (mergeD dedup a b)], s.2)
    | none => tcAppend dedup s (.cls b)
  | .lst b =>
    match soleLst s.1 with
    | some a => ([.lst (mergeL dedup a b)], s.2)
    | none => tcAppend dedup s (.lst b)
/-- `PyDataclassGenerator.__or__` -/
def mergeD (dedup : Bool) (a : DGen) : DGen → DGen
  | .mk _ _ bfs => .mk a.name a.isRoot (mergeFields dedup a.fields bfs)
def mergeFields (dedup : Bool) (afs : Fields) : List (S × List Elem × Bool) → Fields
  | [] => afs
  | (k, oes, oopt) :: rest =>
    mergeFields dedup
      (match fieldsLookup k afs with
       | some tc => fieldsSet k (mergeTC dedup tc oes oopt) afs
       | none => afs ++ [(k, (oes, oopt))])
      rest
/-- `PyListGenerator.__or__` (carries the right operand's `is_optional` over, since repair c45a418) -/
def mergeL (dedup : Bool) (a : LGen) : LGen → LGen
  | .mk _ _ _ bes bopt => .mk a.data a.cname a.name (mergeLElems dedup a.elems bes) (a.opt || bopt)
def mergeLElems (dedup : Bool) (aes : List Elem) : List Elem → List Elem
  | [] => aes
  | t :: rest => mergeLElems dedup (mergeLStep dedup aes t) rest
/-- one iteration of the loop of `PyListGenerator.__or__` -/
def mergeLStep (dedup : Bool) (aes : List Elem) : Elem → List Elem
  | .cls b =>
    match firstCls aes with
    | some m => replaceFirstCls (mergeD dedup m b) aes
    | none => (tcAppend dedup (aes, false) (.cls b)).1
  | .lst l => (tcAppend dedup (aes, false) (.lst l)).1
  | .prim p => (tcAppend dedup (aes, false) (.prim p)).1
end

/-! ### naming -/

def pascal (s : S) : S := (toPascal s).getD s

/-- `English.humanize` -/
def humanize (s : S) : S := pyTitle (replaceChar '_' ' ' (toSnake s))

/-- the `name` setter of `PyListGenerator` for a truthy name -/
def lgNameOf (std : GsStd) (k : S) : S := removeChar ' ' (std.singularize (humanize k))

/-- `PyListGenerator.name` after `__post_init__`: the given name if it survives as non-empty, else `data{lvl}` -/
def lgName (std : GsStd) (name : Option S) (lvl : Nat) : S :=
  let n := match name with
    | none => []
    | some k => if k.isEmpty then [] else lgNameOf std k
  if n.isEmpty then lgNameOf std ("data".toList ++ (if lvl = 0 then [] else (Nat.repr lvl).toList)) else n

/-! ### inference (`__post_init__`) -/

/-- `self.parsed_types[field].append(typ)` for a scalar `typ` -/
def fieldScalar (std : GsStd) (fl : Flags) (k : S) (v : JVal) (acc : Fields) : Fields :=
  fieldsUpdate (toSnake k) (fun tc => tcAppendScalar tc (scalarPrims std fl.forceStrings v)) acc

/-- the step of `PyListGenerator.__post_init__` for a dict element, given its class generator: merged into the
model when there is one, else it becomes the model and is appended (the same two cases as in `__or__`) -/
def elemsAddCls (dedup : Bool) (acc : TC) (d : DGen) : TC := (mergeLStep dedup acc.1 (.cls d), acc.2)

mutual
/-- `PyDataclassGenerator.__post_init__(data, nested_lvl)`: returns `parsed_types` -/
def inferFields (std : GsStd) (fl : Flags) : Nat → List (S × JVal) → Fields → Fields
  | _, [], acc => acc
  | lvl, (k, v) :: rest, acc =>
    match v with
    | .dict kvs =>
      let d := DGen.mk (pascal k) false (inferFields std fl lvl kvs [])
      inferFields std fl lvl rest (fieldsUpdate (toSnake k) (fun tc => tcAppend fl.dedupByEq tc (.cls d)) acc)
    | .list xs =>
      let nm := lgName std (some k) (lvl + 1)
      let tc := inferElems std fl nm false (lvl + 1) xs ([], false)
      let l := LGen.mk xs k nm tc.1 tc.2
      inferFields std fl (lvl + 1) rest (fieldsUpdate (toSnake k) (fun tc => tcAppend fl.dedupByEq tc (.lst l)) acc)
    | .null => inferFields std fl lvl rest (fieldScalar std fl k .null acc)
    | .bool b => inferFields std fl lvl rest (fieldScalar std fl k (.bool b) acc)
    | .int i => inferFields std fl lvl rest (fieldScalar std fl k (.int i) acc)
    | .float f => inferFields std fl lvl rest (fieldScalar std fl k (.float f) acc)
    | .str s => inferFields std fl lvl rest (fieldScalar std fl k (.str s) acc)
/-- the element loop of `PyListGenerator.__post_init__`: returns `parsed_types` -/
def inferElems (std : GsStd) (fl : Flags) (name : S) (isRoot : Bool) : Nat → List JVal → TC → TC
  | _, [], acc => acc
  | lvl, x :: rest, acc =>
    match x with
    | .dict kvs =>
      let d := DGen.mk (pascal name) isRoot (inferFields std fl lvl kvs [])
      inferElems std fl name isRoot lvl rest (elemsAddCls fl.dedupByEq acc d)
    | .list ys =>
      let nm := lgName std none (lvl + 1)
      let tc := inferElems std fl nm false (lvl + 1) ys ([], false)
      let l := LGen.mk ys "container".toList nm tc.1 tc.2
      inferElems std fl name isRoot (lvl + 1) rest (tcAppend fl.dedupByEq acc (.lst l))
    | .null => inferElems std fl name isRoot lvl rest (tcAppendScalar acc (scalarPrims std fl.forceStrings .null))
    | .bool b => inferElems std fl name isRoot lvl rest (tcAppendScalar acc (scalarPrims std fl.forceStrings (.bool b)))
    | .int i => inferElems std fl name isRoot lvl rest (tcAppendScalar acc (scalarPrims std fl.forceStrings (.int i)))
    | .float f => inferElems std fl name isRoot lvl rest (tcAppendScalar acc (scalarPrims std fl.forceStrings (.float f)))
    | .str s => inferElems std fl name isRoot lvl rest (tcAppendScalar acc (scalarPrims std fl.forceStrings (.str s)))
end

/-- `data_list` of a root list: the type of every non-dict element, in order, each appended to a fresh
container by `load_parsed` -/
def rootExtras (std : GsStd) (fl : Flags) : Nat → List JVal → List TC
  | _, [] => []
  | lvl, x :: rest =>
    match x with
    | .dict _ => rootExtras std fl lvl rest
    | .list ys =>
      let nm := lgName std none (lvl + 1)
      let tc := inferElems std fl nm false (lvl + 1) ys ([], false)
      ([Elem.lst (LGen.mk ys "container".toList nm tc.1 tc.2)], false) :: rootExtras std fl (lvl + 1) rest
    | .null => tcAppendScalar ([], false) (scalarPrims std fl.forceStrings .null) :: rootExtras std fl lvl rest
    | .bool b => tcAppendScalar ([], false) (scalarPrims std fl.forceStrings (.bool b)) :: rootExtras std fl lvl rest
    | .int i => tcAppendScalar ([], false) (scalarPrims std fl.forceStrings (.int i)) :: rootExtras std fl lvl rest
    | .float f => tcAppendScalar ([], false) (scalarPrims std fl.forceStrings (.float f)) :: rootExtras std fl lvl rest
    | .str s => tcAppendScalar ([], false) (scalarPrims std fl.forceStrings (.str s)) :: rootExtras std fl lvl rest

def fieldIName (i : Nat) : S := "field_".toList ++ (Nat.repr i).toList

def numberFields : Nat → List TC → Fields
  | _, [] => []
  | i, tc :: r => (toSnake (fieldIName i), tc) :: numberFields (i + 1) r

/-- what `JSONRootParser` builds -/
inductive Schema
  /-- object root: the root class -/
  | obj (d : DGen)
  /-- array root: the list generator and its `root` container class -/
  | arr (l : LGen) (container : DGen)

/-- `None` = `TypeError` (scalar root) -/
def gsInfer (std : GsStd) (fl : Flags) : JVal → Option Schema
  | .dict kvs => some (.obj (.mk (pascal "data".toList) true (inferFields std fl 0 kvs [])))
  | .list xs =>
    let nm := lgName std none 0
    let tc := inferElems std fl nm true 0 xs ([], false)
    let l := LGen.mk xs "container".toList nm tc.1 tc.2
    let first : Fields := match firstCls tc.1 with
      | some m => [(toSnake nm, ([.cls m], false))]
      | none => []
    -- load_parsed: `obj.parsed_types[to_snake_case(k)].append(typ)` (the keys are pairwise distinct)
    let extras := numberFields 1 (rootExtras std fl 0 xs)
    some (.arr l (.mk (pascal "container".toList) false (first ++ extras)))
  | _ => none

/-! ### rendering: annotations, classes, imports -/

inductive Imp | future | dataclass | date | datetime | time | any | list | optional | union | jsonWizard
  deriving DecidableEq, Repr, Inhabited

/-- annotation expressions of the generated module -/
inductive TyExpr
  /-- a builtin or imported name: `int`, `date`, `Any`, bare `List` / `list` -/
  | nm (n : S)
  /-- a reference to a generated class (a quoted forward reference in the default style) -/
  | ref (n : S)
  /-- `head[args]`: `List[T]`, `list[T]`, `Optional[T]`, `Union[T1, ..]` -/
  | app (head : S) (args : List TyExpr)
  /-- `T1 | T2 | ..` (PEP 604) -/
  | bor (alts : List TyExpr)
  /-- `None` inside a PEP 604 union -/
  | none
  deriving Repr, Inhabited

def Prim.imps : Prim → List Imp
  | .date => [.date] | .datetime => [.datetime] | .time => [.time] | _ => []

mutual
/-- `str(TypeContainer)` in the style selected by `experimental`; also returns the imports it registers -/
def strTC (exp : Bool) : List Elem → Bool → TyExpr × List Imp
  | [], _ => (.nm "Any".toList, [.any])
  | e :: es, opt =>
    let a := strElem exp e
    let b := strElems exp es
    let parts : List TyExpr × List Imp := (a.1 :: b.1, a.2 ++ b.2)
    if exp then
      let alts := parts.1 ++ (if opt then [TyExpr.none] else [])
      (match alts with
       | [t] => t
       | _ => .bor alts, parts.2)
    else
      let t1 : TyExpr × List Imp := match parts.1 with
        | [t] => (t, [])
        | ts => (.app "Union".toList ts, [.union])
      if opt then (.app "Optional".toList [t1.1], parts.2 ++ t1.2 ++ [.optional]) else (t1.1, parts.2 ++ t1.2)
def strElems (exp : Bool) : List Elem → List TyExpr × List Imp
  | [] => ([], [])
  | e :: es =>
    let a := strElem exp e
    let b := strElems exp es
    (a.1 :: b.1, a.2 ++ b.2)
def strElem (exp : Bool) : Elem → TyExpr × List Imp
  | .prim p => (.nm p.pyName, [])
  | .cls (.mk n _ _) => (.ref n, [])
  | .lst (.mk _ _ _ es opt) =>
    match es with
    | [] => if exp then (.nm "list".toList, []) else (.nm "List".toList, [.list])
    | _ =>
      let inner := strTC exp es opt
      if exp then (.app "list".toList [inner.1], inner.2) else (.app "List".toList [inner.1], inner.2 ++ [.list])
end

structure ClassAst where
  name : S
  isRoot : Bool
  fields : List (S × TyExpr)
  deriving Repr, Inhabited

mutual
/-- the classes `repr(PyDataclassGenerator)` emits, in text order, with the imports registered on the way -/
def classesD (exp : Bool) : DGen → List ClassAst × List Imp
  | .mk n r fs =>
    let body := classFields exp fs
    ({ name := n, isRoot := r, fields := body.1 } :: body.2.1, (if r then [Imp.jsonWizard] else []) ++ body.2.2)
/-- field lines, nested classes, imports -/
def classFields (exp : Bool) : List (S × List Elem × Bool) → List (S × TyExpr) × List ClassAst × List Imp
  | [] => ([], [], [])
  | (k, es, opt) :: rest =>
    let t := strTC exp es opt
    let nested := classesElems exp es
    let r := classFields exp rest
    ((k, t.1) :: r.1, nested.1 ++ r.2.1, t.2 ++ nested.2 ++ r.2.2)
/-- `repr(TypeContainer)`: every generator element in order -/
def classesElems (exp : Bool) : List Elem → List ClassAst × List Imp
  | [] => ([], [])
  | .prim _ :: es => classesElems exp es
  | .cls d :: es =>
    let a := classesD exp d
    let b := classesElems exp es
    (a.1 ++ b.1, a.2 ++ b.2)
  | .lst l :: es =>
    let a := classesL exp l
    let b := classesElems exp es
    (a.1 ++ b.1, a.2 ++ b.2)
/-- `repr(PyListGenerator)` without `root`: the model class first, then the nested list generators.
(`model` is the only class generator among the parsed types in every reachable state; all class elements are
rendered here so that no reference is left undefined in unreachable ones either.) -/
def classesL (exp : Bool) : LGen → List ClassAst × List Imp
  | .mk _ _ _ es _ =>
    let a := classesLModel exp es
    let b := classesLLists exp es
    (a.1 ++ b.1, a.2 ++ b.2)
def classesLModel (exp : Bool) : List Elem → List ClassAst × List Imp
  | [] => ([], [])
  | .cls d :: es =>
    let a := classesD exp d
    let b := classesLModel exp es
    (a.1 ++ b.1, a.2 ++ b.2)
  | .lst _ :: es => classesLModel exp es
  | .prim _ :: es => classesLModel exp es
def classesLLists (exp : Bool) : List Elem → List ClassAst × List Imp
  | [] => ([], [])
  | .lst l :: es =>
    let a := classesL exp l
    let b := classesLLists exp es
    (a.1 ++ b.1, a.2 ++ b.2)
  | .cls _ :: es => classesLLists exp es
  | .prim _ :: es => classesLLists exp es
end

mutual
/-- every string of the document is typed once and appended to some container: the date-like kinds are
registered as imports at that moment (`TypeContainer.append`) -/
def docImps (std : GsStd) (force : Bool) : JVal → List Imp
  | .str s => (possibleTypes std force s).flatMap Prim.imps
  | .list xs => docImpsL std force xs
  | .dict kvs => docImpsD std force kvs
  | .null => []
  | .bool _ => []
  | .int _ => []
  | .float _ => []
def docImpsL (std : GsStd) (force : Bool) : List JVal → List Imp
  | [] => []
  | x :: xs => docImps std force x ++ docImpsL std force xs
def docImpsD (std : GsStd) (force : Bool) : List (S × JVal) → List Imp
  | [] => []
  | (_, v) :: r => docImps std force v ++ docImpsD std force r
end

structure ModuleAst where
  /-- `(level, module, names)` in output order -/
  imports : List (S × List S)
  classes : List ClassAst
  deriving Repr, Inhabited

def Imp.pyName : Imp → S
  | .future => "annotations".toList | .dataclass => "dataclass".toList | .date => "date".toList
  | .datetime => "datetime".toList | .time => "time".toList | .any => "Any".toList | .list => "List".toList
  | .optional => "Optional".toList | .union => "Union".toList | .jsonWizard => "JSONWizard".toList

/-- `ModuleImporter.imports`: levels ascending, modules sorted, names sorted (the universe is fixed, so the
sorted order is a fixed order) -/
def importGroup (reg : List Imp) (m : String) (xs : List Imp) : List (S × List S) :=
  match xs.filter (fun i => reg.contains i) with
  | [] => []
  | ys => [(m.toList, ys.map Imp.pyName)]

def importLines (reg : List Imp) : List (S × List S) :=
  importGroup reg "__future__" [.future] ++ importGroup reg "dataclasses" [.dataclass] ++
    importGroup reg "datetime" [.date, .datetime, .time] ++ importGroup reg "typing" [.any, .list, .optional, .union] ++
    importGroup reg "dataclass_wizard" [.jsonWizard]

/-- the root `repr`: for an array root only the container class (and what it nests) is rendered -/
def Schema.rootD : Schema → DGen
  | .obj d => d
  | .arr _ c => c

/-! ### the run as a state machine over the process-global state -/

/-- module-level state of `schema.py`: the import registry (`ModuleImporter._MOD_IMPORTS`) and `Globals`
(which also decides which `__str__` the generator classes carry) -/
structure GsSt where
  registry : List Imp := []
  experimental : Bool := false
  forceStrings : Bool := false
  deriving Repr

def GsSt.init : GsSt := {}

/-- one generation (`PyCodeGenerator(...)`, then `.py_code`) started in an arbitrary earlier state `st`.
Every step reads and writes the state the way the code does; `none` = `TypeError` (scalar root). -/
def gsRun (std : GsStd) (st : GsSt) (fl : Flags) (doc : JVal) : GsSt × Option ModuleAst :=
  -- PyCodeGenerator.__post_init__: `Globals = _Globals(force_strings, experimental)`
  let st : GsSt := { st with experimental := fl.experimental, forceStrings := fl.forceStrings }
  -- JSONRootParser.__post_init__: clear_imports(); __future__ import and `__str__` by Globals.experimental; dataclass
  let st : GsSt := { st with registry := [] }
  let st : GsSt := { st with registry := st.registry ++ (if st.experimental then [Imp.future] else []) ++ [Imp.dataclass] }
  match gsInfer std { experimental := st.experimental, forceStrings := st.forceStrings, dedupByEq := fl.dedupByEq } doc with
  | none => (st, none)
  | some s =>
    -- TypeContainer.append registered the date-like types while the generators were built
    let st : GsSt := { st with registry := st.registry ++ docImps std st.forceStrings doc }
    -- `repr(parser)`: every `str()` registers what it wraps with
    let cs := classesD st.experimental s.rootD
    let st : GsSt := { st with registry := st.registry ++ cs.2 }
    -- `ModuleImporter.imports` is read after the repr
    (st, some { imports := importLines st.registry, classes := cs.1 })

/-- `PyCodeGenerator(...).py_code` in a fresh process, as an AST -/
def gsModule (std : GsStd) (fl : Flags) (doc : JVal) : Option ModuleAst := (gsRun std GsSt.init fl doc).2

/-! ### names -/

def pyKeywords : List String :=
  ["False", "None", "True", "and", "as", "assert", "async", "await", "break", "class", "continue", "def", "del",
   "elif", "else", "except", "finally", "for", "from", "global", "if", "import", "in", "is", "lambda", "nonlocal",
   "not", "or", "pass", "raise", "return", "try", "while", "with", "yield"]

def isIdentStart (c : Char) : Bool := isAl c || c == '_'
def isIdentCont (c : Char) : Bool := isAl c || isDig c || c == '_'

/-- an ASCII Python identifier that is not a keyword and is not name-mangled inside a class body -/
def identOK (s : S) : Bool :=
  match s with
  | [] => false
  | c :: r =>
    isIdentStart c && r.all isIdentCont && !(pyKeywords.map String.toList).contains s &&
      !(("__".toList).isPrefixOf s && !("__".toList).isSuffixOf s)

def reservedNames : List S :=
  ["annotations", "dataclass", "date", "datetime", "time", "Any", "List", "Optional", "Union", "JSONWizard",
   "int", "str", "float", "bool", "list"].map String.toList

def nodupB : List S → Bool
  | [] => true
  | x :: r => !r.contains x && nodupB r

/-- decidable well-formedness of the generated names: identifiers everywhere, class names pairwise distinct and
distinct from every name the module imports or uses as a builtin -/
def NamesOK (m : ModuleAst) : Bool :=
  m.classes.all (fun c => identOK c.name && !reservedNames.contains c.name && c.fields.all (fun f => identOK f.1)) &&
    nodupB (m.classes.map (·.name))

/-! ### text of an annotation (for comparing unparsable output line by line) -/

def joinS (sep : S) : List S → S
  | [] => []
  | [x] => x
  | x :: r => x ++ sep ++ joinS sep r

mutual
def TyExpr.text (exp : Bool) : TyExpr → S
  | .nm n => n
  | .ref n => if exp then n else "'".toList ++ n ++ "'".toList
  | .app h args => h ++ "[".toList ++ joinS ", ".toList (TyExpr.texts exp args) ++ "]".toList
  | .bor alts => joinS " | ".toList (TyExpr.texts exp alts)
  | .none => "None".toList
def TyExpr.texts (exp : Bool) : List TyExpr → List S
  | [] => []
  | t :: r => TyExpr.text exp t :: TyExpr.texts exp r
end

end DW.Gs
