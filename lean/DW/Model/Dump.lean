/-
Model of the dump side: `dumpers._asdict_inner` (runtime-type dispatch) and the generated
`cls_asdict` (field loop: exclude, skip_defaults, skip_if, aliases, key transform, catch-all, tag).
-/
import DW.Generated.Tables
import DW.Model.Std

namespace DW
open DW.Str

/-! ### Meta merge (`ABCOrAndMeta.__or__`) -/

/-- `own | cfg` for a nested class: every mergeable attribute the nested class sets itself wins,
otherwise the root's; `tag` / `recursive` (special attributes) are never inherited. -/
def MetaCfg.orElse (own cfg : MetaCfg) : MetaCfg :=
  { keyTransformLoad := own.keyTransformLoad <|> cfg.keyTransformLoad
    keyTransformDump := own.keyTransformDump <|> cfg.keyTransformDump
    marshalTimestamp := own.marshalTimestamp <|> cfg.marshalTimestamp
    skipDefaults := own.skipDefaults <|> cfg.skipDefaults
    skipIf := own.skipIf <|> cfg.skipIf
    skipDefaultsIf := own.skipDefaultsIf <|> cfg.skipDefaultsIf
    raiseOnUnknown := own.raiseOnUnknown <|> cfg.raiseOnUnknown
    tagKey := own.tagKey <|> cfg.tagKey
    autoAssignTags := own.autoAssignTags <|> cfg.autoAssignTags
    recursiveClasses := own.recursiveClasses <|> cfg.recursiveClasses
    v1 := own.v1 <|> cfg.v1
    v1KeyCase := own.v1KeyCase <|> cfg.v1KeyCase
    v1OnUnknown := own.v1OnUnknown <|> cfg.v1OnUnknown
    v1Unsafe := own.v1Unsafe <|> cfg.v1Unsafe
    tag := own.tag
    recursive := own.recursive }

/-- effective Meta of a nested class given the travelling root config -/
def effMeta (own : Option MetaCfg) (cfg : Option MetaCfg) : MetaCfg :=
  match own, cfg with
  | none, none => {}
  | some o, none => o
  | none, some c => ({} : MetaCfg).orElse c
  | some o, some c => o.orElse c

/-- config a *main* class hands down: its own Meta when it has one and `recursive` is not False -/
def rootConfig (own : Option MetaCfg) : Option MetaCfg :=
  match own with
  | none => none
  | some o => if o.recursive.getD true then some o else none

/-! ### Conditions -/

inductive NumV | i (i : Int) | f (f : PyFloat)

def PyVal.num? : PyVal → Option NumV
  | .bool b => some (.i (if b then 1 else 0))
  | .int i => some (.i i)
  | .float f => some (.f f)
  | _ => Option.none

def Lit.num? : Lit → Option NumV
  | .bool b => some (.i (if b then 1 else 0))
  | .int i => some (.i i)
  | .float f => some (.f f)
  | _ => Option.none

/-- exact rational comparison of two finite decimals: compare `a·10^ea` with `b·10^eb` (signed) -/
def cmpDec (a : Int) (ea : Int) (b : Int) (eb : Int) : Ordering :=
  let m := min ea eb
  let a' := a * (10 : Int) ^ (ea - m).toNat
  let b' := b * (10 : Int) ^ (eb - m).toNat
  compare a' b'

/-- Python comparison of two numbers; `none` = unordered (nan) -/
def NumV.cmp : NumV → NumV → Option Ordering
  | .i a, .i b => some (compare a b)
  | .f .nan, _ => none
  | _, .f .nan => none
  | .f .inf, .f .inf => some .eq
  | .f .inf, _ => some .gt
  | _, .f .inf => some .lt
  | .f .ninf, .f .ninf => some .eq
  | .f .ninf, _ => some .lt
  | _, .f .ninf => some .gt
  | .i a, .f (.fin n m e _) => some (cmpDec a 0 (PyFloat.sign n m) e)
  | .f (.fin n m e _), .i b => some (cmpDec (PyFloat.sign n m) e b 0)
  | .f (.fin n m e _), .f (.fin n2 m2 e2 _) => some (cmpDec (PyFloat.sign n m) e (PyFloat.sign n2 m2) e2)

/-- Python `v == l` for a field value and a literal -/
def pyEqLit (v : PyVal) (l : Lit) : Bool :=
  match v.num?, l.num? with
  | some a, some b => a.cmp b == some .eq
  | _, _ =>
    match v, l with
    | .none, .none => true
    | .str a, .str b => a == b
    | _, _ => false

/-- Python ordering `v < l` etc.; `none` = TypeError (unorderable types) -/
def pyCmpLit (v : PyVal) (l : Lit) : Option (Option Ordering) :=
  match v.num?, l.num? with
  | some a, some b => some (a.cmp b)
  | _, _ =>
    match v, l with
    | .str a, .str b => some (some (compare (String.ofList a) (String.ofList b)))
    | _, _ => none

/-- Python truthiness of a field value -/
def PyVal.truthy : PyVal → Bool
  | .none => false
  | .bool b => b
  | .int i => i != 0
  | .float f => !f.isZero
  | .str s => !s.isEmpty
  | .bytes _ b => !b.isEmpty
  | .leaf _ _ _ => true
  | .timedelta us => us != 0
  | .enum _ _ _ => true
  | .seq _ xs => !xs.isEmpty
  | .tuple xs => !xs.isEmpty
  | .map _ kvs => !kvs.isEmpty
  | .ntuple _ _ xs => !xs.isEmpty
  | .inst _ _ => true

/-- `is` against the singletons None / True / False (other operands are outside the model) -/
def pyIsLit (v : PyVal) (l : Lit) : Bool :=
  match v, l with
  | .none, .none => true
  | .bool a, .bool b => a == b
  | _, _ => false

/-- Reference semantics of a condition: `Condition.evaluate` (operator table T7).
`none` = the comparison raises TypeError. -/
def evalCond (c : Cond) (v : PyVal) : Option Bool :=
  match c.op with
  | .eq => some (pyEqLit v c.val)
  | .ne => some (!pyEqLit v c.val)
  | .lt => (pyCmpLit v c.val).map (fun o => o == some .lt)
  | .le => (pyCmpLit v c.val).map (fun o => o == some .lt || o == some .eq)
  | .gt => (pyCmpLit v c.val).map (fun o => o == some .gt)
  | .ge => (pyCmpLit v c.val).map (fun o => o == some .gt || o == some .eq)
  | .is_ => some (pyIsLit v c.val)
  | .isNot => some (!pyIsLit v c.val)
  | .truthy => some v.truthy
  | .falsy => some (!v.truthy)

/-- `o.f == default` (skip_defaults) -/
def pyEqDflt (v : PyVal) : Dflt → Bool
  | .lit l => pyEqLit v l
  | .emptyList => match v with | .seq .list [] => true | _ => false
  | .emptyDict => match v with | .map _ [] => true | _ => false
  | .emptySet => match v with | .seq .set [] => true | .seq .frozenset [] => true | _ => false
  | .emptyTuple => match v with | .tuple [] => true | _ => false

/-! ### Runtime dispatch -/

inductive DErr
  | condTypeError            -- a skip condition compared unorderable values
  | condGenError (what : S)  -- the generated condition source is not valid for this value (quirk)
  | transformError           -- key transform raised (empty field name)
  | stdError (what : S)      -- a stdlib primitive raised (e.g. timestamp out of range)
  deriving Repr, DecidableEq

/-- name of the dump hook `_asdict_inner` selects for a runtime type given the registration table:
exact type first, else the first registered type (in table order) the value is an instance of. -/
def chooseHook (table : List (String × String)) (mro : List String) : String :=
  match mro with
  | [] => "default_dump_with"
  | exact :: _ =>
    match table.find? (fun p => p.1 == exact) with
    | some p => p.2
    | none =>
      match table.find? (fun p => mro.contains p.1) with
      | some p => p.2
      | none => "default_dump_with"

/-- hookable classes in the MRO of a value's runtime type (most specific first) -/
def PyVal.mro : PyVal → List String
  | .none => ["NoneType"]
  | .bool _ => ["bool", "int"]
  | .int _ => ["int"]
  | .float _ => ["float"]
  | .str _ => ["str"]
  | .bytes false _ => ["bytes"]
  | .bytes true _ => ["bytearray"]
  | .leaf .decimal false _ => ["Decimal"]
  | .leaf .path false _ => ["PosixPath", "Path", "PurePosixPath", "PurePath"]
  | .leaf .uuid false _ => ["UUID"]
  | .leaf .date false _ => ["date"]
  | .leaf .time false _ => ["time"]
  | .leaf .datetime false _ => ["datetime", "date"]
  | .leaf .decimal true _ => ["<sub>", "Decimal"]
  | .leaf .path true _ => ["<sub>", "PosixPath", "Path", "PurePosixPath", "PurePath"]
  | .leaf .uuid true _ => ["<sub>", "UUID"]
  | .leaf .date true _ => ["<sub>", "date"]
  | .leaf .time true _ => ["<sub>", "time"]
  | .leaf .datetime true _ => ["<sub>", "datetime", "date"]
  | .timedelta _ => ["timedelta"]
  | .enum _ _ _ => ["<user>", "Enum"]
  | .seq .list _ => ["list"]
  | .seq .set _ => ["set"]
  | .seq .frozenset _ => ["frozenset"]
  | .seq .deque _ => ["deque"]
  | .tuple _ => ["tuple"]
  | .map .dict _ => ["dict"]
  | .map .defaultdict _ => ["defaultdict", "dict"]
  | .map .ordereddict _ => ["OrderedDict", "dict"]
  | .ntuple _ _ _ => ["<user>", "tuple"]
  | .inst _ _ => ["<user>"]

/-- the DumpMixin hooks, as data -/
inductive DumpHook
  | null | bool | int | float | str | bytes | enum | uuid | decimal | datetime | date | time | timedelta
  | iterable | listOrTuple | namedTuple | defaultdict | dict | default | unknown
  deriving Repr, DecidableEq, Inhabited

def DumpHook.ofName (n : String) : DumpHook :=
  if n = "dump_with_null" then .null else if n = "dump_with_bool" then .bool
  else if n = "dump_with_int" then .int else if n = "dump_with_float" then .float
  else if n = "dump_with_str" then .str else if n = "dump_with_bytes" then .bytes
  else if n = "dump_with_enum" then .enum else if n = "dump_with_uuid" then .uuid
  else if n = "dump_with_decimal" then .decimal else if n = "dump_with_datetime" then .datetime
  else if n = "dump_with_date" then .date else if n = "dump_with_time" then .time
  else if n = "dump_with_timedelta" then .timedelta else if n = "dump_with_iterable" then .iterable
  else if n = "dump_with_list_or_tuple" then .listOrTuple else if n = "dump_with_named_tuple" then .namedTuple
  else if n = "dump_with_defaultdict" then .defaultdict else if n = "dump_with_dict" then .dict
  else if n = "default_dump_with" then .default else .unknown

/-- the hook `_asdict_inner` selects for a value, given the registration table extracted from the source -/
def hookFor (v : PyVal) : DumpHook := DumpHook.ofName (chooseHook Generated.dumpHooks v.mro)

/-- `s[:-6] + 'Z' if s.endswith('+00:00') else s` (since fix 15b2b6f: only a *trailing* UTC offset is written as Z) -/
def isoZ (tok : S) : S :=
  if "+00:00".toList.isSuffixOf tok then tok.take (tok.length - 6) ++ ['Z'] else tok

/-- the dump key of a field: explicit alias when `all=True`, else the class's key transform -/
def dumpKey (eff : MetaCfg) (fi : FieldInfo) : Except DErr S :=
  if fi.dumpAll then
    match fi.loadKeys with
    | k :: _ => .ok k
    | [] => .ok fi.name
  else
    match ((eff.keyTransformDump.getD .camel).toLC).apply fi.name with
    | some k => .ok k
    | none => .error .transformError

def evalCondE (c : Cond) (v : PyVal) : Except DErr Bool :=
  match evalCond c v with
  | some b => .ok b
  | none => .error .condTypeError

structure DumpArgs where
  exclude : Option (List S) := none
  skipDefaults : Option Bool := none      -- the `skip_defaults=` argument (none = not passed)

def excluded (args : DumpArgs) (fi : FieldInfo) : Bool :=
  match args.exclude with | none => false | some e => e.contains fi.name

/-- is skip_defaults in force: the `skip_defaults=` argument wins over Meta (skip_defaults or a skip_defaults_if) -/
def skipDefaultsOn (eff : MetaCfg) (args : DumpArgs) : Bool :=
  args.skipDefaults.getD ((eff.skipDefaults.getD false) || eff.skipDefaultsIf.isSome)

/-- the skip-defaults test of a defaulted field: `Meta.skip_defaults_if`, or equality with the default -/
def defaultTest (eff : MetaCfg) (fi : FieldInfo) (v : PyVal) : Except DErr Bool :=
  match fi.dflt with
  | none => pure false
  | some d =>
    match eff.skipDefaultsIf with
    | some c => evalCondE c v
    | none => pure (pyEqDflt v d)

/-- the field's own SkipIf condition, or else `Meta.skip_if` -/
def ownCond (eff : MetaCfg) (fi : FieldInfo) (v : PyVal) : Except DErr Bool :=
  match fi.skipIf with
  | some c => evalCondE c v
  | none =>
    match eff.skipIf with
    | some c => evalCondE c v
    | none => pure false

/-- decide whether field `fi` holding `v` is omitted.  Mirrors the generated `_skip_i` bookkeeping, including its
short-circuit order: `exclude` first, then (for defaulted fields, even `dump=False` ones) the skip-defaults test,
then the field's own condition or else `Meta.skip_if`. -/
def fieldSkipped (eff : MetaCfg) (args : DumpArgs) (fi : FieldInfo) (v : PyVal) : Except DErr Bool :=
  if excluded args fi then pure true
  else do
    let bydef ← if skipDefaultsOn eff args then defaultTest eff fi v else pure false
    if fi.dumpSkip then pure true
    else if bydef then pure true
    else ownCond eff fi v

/-- last lines of `cls_asdict`: add the tag entry when the class has a tag -/
def finishInst (eff : MetaCfg) (body : List (DVal × DVal)) : DVal :=
  match eff.tag with
  | some t => .dict false (body ++ [(.str (eff.tagKey.getD Generated.tagKey.toList), .str t)])
  | none => .dict false body

mutual
/-- `_asdict_inner(obj, dict_factory=dict, hooks, meta, …)`; `ts` = the enclosing class dumper is in
TIMESTAMP mode; `cfg` = the travelling root config. -/
def dumpV (std : Std) (ts : Bool) (cfg : Option MetaCfg) : PyVal → Except DErr DVal
  | .inst ci fields => do
      let eff := effMeta ci.cmeta cfg
      let body ← dumpFields std (eff.marshalTimestamp.getD false) cfg eff {} ci fields
      pure (finishInst eff body)
  | .ntuple c _ xs => do
      let ys ← dumpList std ts cfg xs
      pure (.ntuple c ys)
  | .seq k xs => do
      let ys ← dumpList std ts cfg xs
      match hookFor (.seq k []) with
      | .listOrTuple => pure (.list ys)
      | .iterable => pure (.list ys)
      | _ => pure (.bad "seq".toList)
  | .tuple xs => do
      let ys ← dumpList std ts cfg xs
      match hookFor (.tuple []) with
      | .listOrTuple => pure (.tuple ys)
      | .iterable => pure (.list ys)
      | _ => pure (.bad "tuple".toList)
  | .map k kvs => do
      let ys ← dumpPairs std ts cfg kvs
      match hookFor (.map k []) with
      | .dict => pure (.dict (k == .ordereddict) ys)
      | .defaultdict => pure (.dict false ys)
      | _ => pure (.bad "map".toList)
  | v => dumpScalar std ts v

def dumpList (std : Std) (ts : Bool) (cfg : Option MetaCfg) : List PyVal → Except DErr (List DVal)
  | [] => pure []
  | x :: xs => do
      let y ← dumpV std ts cfg x
      let ys ← dumpList std ts cfg xs
      pure (y :: ys)

def dumpPairs (std : Std) (ts : Bool) (cfg : Option MetaCfg) : List (PyVal × PyVal) → Except DErr (List (DVal × DVal))
  | [] => pure []
  | (k, v) :: r => do
      let k' ← dumpV std ts cfg k
      let v' ← dumpV std ts cfg v
      let r' ← dumpPairs std ts cfg r
      pure ((k', v') :: r')

/-- the field loop of the generated `cls_asdict(o, dict_factory, exclude, skip_defaults)` for a class
with effective Meta `eff`; `cfg` travels to nested values unchanged. -/
def dumpFields (std : Std) (ts : Bool) (cfg : Option MetaCfg) (eff : MetaCfg) (args : DumpArgs)
    (ci : ClassInfo) : List (S × PyVal) → Except DErr (List (DVal × DVal))
  | [] => pure []
  | (name, v) :: rest => do
      let fi := (ci.fields.find? (fun f => f.name == name)).getD { name := name }
      let here ←
        if fi.isCatchAll then
          -- catch-all: items re-emitted at top level unless the field is excluded, skipped as a default (a defaulted catch-all
          -- takes part in the skip-defaults bookkeeping like any defaulted field), or equal to its default
          let isDefault := match fi.dflt with | some d => pyEqDflt v d | none => false
          if excluded args fi then pure []
          else do
            let bydef ← if skipDefaultsOn eff args then defaultTest eff fi v else pure false
            if bydef || isDefault then pure []
            else
              match v with
              | .map _ kvs => dumpCatchAll std ts cfg kvs
              | _ => pure []
        else do
          let skipped ← fieldSkipped eff args fi v
          if skipped then pure []
          else do
            let k ← dumpKey eff fi
            let d ← dumpV std ts cfg v
            pure [(DVal.str k, d)]
      let more ← dumpFields std ts cfg eff args ci rest
      pure (here ++ more)

def dumpCatchAll (std : Std) (ts : Bool) (cfg : Option MetaCfg) : List (PyVal × PyVal) → Except DErr (List (DVal × DVal))
  | [] => pure []
  | (k, v) :: r => do
      let v' ← dumpV std ts cfg v
      let r' ← dumpCatchAll std ts cfg r
      let k' := match k with | .str s => DVal.str s | .int i => DVal.int i | .bool b => DVal.bool b | .none => DVal.null | _ => DVal.bad "key".toList
      pure ((k', v') :: r')

/-- scalar hooks -/
def dumpScalar (std : Std) (ts : Bool) (v : PyVal) : Except DErr DVal :=
  match hookFor v, v with
  | .null, .none => pure .null
  | .bool, .bool b => pure (.bool b)
  | .int, .int i => pure (.int i)
  | .int, .bool b => pure (.bool b)
  | .float, .float f => pure (.float f)
  | .str, .str s => pure (.str s)
  | .bytes, .bytes _ b => pure (.str (std.b64encode b))
  | .decimal, .leaf .decimal _ t => pure (.str t)
  | .uuid, .leaf .uuid _ t => pure (.str t)
  | .enum, .enum _ _ val => pure val.toD
  | .timedelta, .timedelta us => pure (.str (tdStr us))
  | .time, .leaf .time _ t => pure (.str (isoZ t))
  | .datetime, .leaf .datetime _ t =>
      if ts then
        match std.datetimeTimestamp t with
        | some i => pure (.int i)
        | none => .error (.stdError "timestamp".toList)
      else pure (.str (isoZ t))
  | .date, .leaf .date _ t =>
      if ts then
        match std.dateTimestamp t with
        | some i => pure (.int i)
        | none => .error (.stdError "timestamp".toList)
      else pure (.str t)
  | .date, .leaf .datetime _ t =>      -- a datetime sent through the date hook keeps its own isoformat()
      if ts then
        match std.dateTimestamp t with
        | some i => pure (.int i)
        | none => .error (.stdError "timestamp".toList)
      else pure (.str t)
  | .default, .leaf _ _ t => pure (.str t)         -- str(o): Path (no hook registered)
  | .default, .str s => pure (.str s)
  | _, _ => pure (.bad "unmodelled-hook".toList)
end

/-- top-level `asdict(o, exclude=…, skip_defaults=…)` on an instance of a *main* class -/
def asdict (std : Std) (args : DumpArgs) : PyVal → Except DErr DVal
  | .inst ci fields => do
      let eff := effMeta ci.cmeta none
      let body ← dumpFields std (eff.marshalTimestamp.getD false) (rootConfig ci.cmeta) eff args ci fields
      pure (finishInst eff body)
  | _ => pure (.bad "not-a-dataclass".toList)

end DW
