/-
What the generated `cls_asdict` *does*: an interpreter for the statement forms of `DW/Model/GenDump.lean`, at the level the
property C11 speaks about — which fields are emitted, under which key, in which order.

  * Boolean context only: the `_skip_<i>` locals are tracked by their truth value (the generated code never uses them in any
    other way: `_skip_i or …`, `not _skip_i`, `… and not _skip_i`), `or` / `and` short-circuit as in Python, so a comparison
    that would raise is only evaluated when Python evaluates it.
  * Comparisons are the reference semantics of the dump model (`evalCond`, `pyEqDflt` of `DW/Model/Dump.lean`); a comparison
    that raises makes the call raise (`SErr.raised`).
  * `result.append((<key>,asdict(o.<f>,…)))`, `paths[…] = asdict(o.<f>,…)`, the catch-all loop and the tag assignment are
    recorded as emissions (`Emit`); what `asdict` returns for the value is the business of `dumpV`.
  * A form the interpreter does not know is `SErr.stuck`; `DW/Props/C11.lean` shows that the body generated for any class
    never gets stuck.
-/
import DW.Model.Dump
import DW.Model.GenDump

namespace DW.GenDump
open DW

/-- values the closure of the generated function holds -/
inductive CV | dflt (d : Dflt) | lit (l : Lit)
  deriving Repr, DecidableEq

/-- what a call `cls_asdict(o, dict_factory, exclude, skip_defaults)` sees -/
structure Env where
  field : S → Option PyVal          -- `o.<name>`
  exclude : Option (List S)         -- the `exclude` argument (`None` / a list of field names)
  skipDefaults : Bool               -- the `skip_defaults` parameter (argument, or the default written into the signature)
  closure : S → Option CV           -- `_default_<i>`, `_skip_if_<i>`, `_skip_value`, `_skip_defaults_value`

inductive V | val (v : PyVal) | lit (l : Lit) | dflt (d : Dflt) | excl (e : Option (List S))

def LitV.toLit : LitV → Lit
  | .none => .none | .true_ => .bool true | .false_ => .bool false | .int i => .int i | .str s => .str s

def COp.toCondOp : COp → CondOp
  | .eq => .eq | .ne => .ne | .lt => .lt | .le => .le | .gt => .gt | .ge => .ge
  | .is_ => .is_ | .isNot => .isNot | .truthy => .truthy | .falsy => .falsy

inductive SErr
  | raised (e : DErr)   -- the Python code raises (a comparison of unorderable values)
  | stuck               -- a form outside the interpreter
  deriving Repr, DecidableEq

/-- a value-denoting operand -/
def operand (ρ : Env) : Expr → Option V
  | .attr (.name n) f => if n = "o".toList then (ρ.field f).map V.val else none
  | .lit v => some (.lit v.toLit)
  | .name n =>
    if n = "exclude".toList then some (.excl ρ.exclude)
    else match ρ.closure n with
      | some (.dflt d) => some (.dflt d)
      | some (.lit l) => some (.lit l)
      | none => none
  | _ => none

/-- `l <c> r` -/
def cmpOp (ρ : Env) (l : Expr) (c : COp) (r : Expr) : Except SErr Bool :=
  match operand ρ l, operand ρ r with
  | some (.val v), some (.lit x) =>
    match evalCond ⟨c.toCondOp, x⟩ v with
    | some b => .ok b
    | none => .error (.raised .condTypeError)
  | some (.val v), some (.dflt d) =>
    match c with
    | .eq => .ok (pyEqDflt v d)
    | .ne => .ok (!pyEqDflt v d)
    | _ => .error .stuck
  | some (.excl e), some (.lit .none) =>
    match c with
    | .is_ => .ok e.isNone
    | _ => .error .stuck
  | _, _ => .error .stuck

/-- truth value of an expression in Boolean context -/
def evalB (ρ : Env) (vars : S → Option Bool) : Expr → Except SErr Bool
  | .name n =>
    if n = "skip_defaults".toList then .ok ρ.skipDefaults        -- a parameter, never reassigned
    else match vars n with
      | some b => .ok b
      | none => .error .stuck
  | .lit .false_ => .ok false
  | .lit .true_ => .ok true
  | .not_ e => do
    let b ← evalB ρ vars e
    pure (!b)
  | .paren e => evalB ρ vars e
  | .bin l .or_ r => do
    let a ← evalB ρ vars l
    if a then pure true else evalB ρ vars r
  | .bin l .and_ r => do
    let a ← evalB ρ vars l
    if a then evalB ρ vars r else pure false
  | .bin l (.cmp c) r => cmpOp ρ l c r
  | .bin l .in_ r =>
    match operand ρ l, operand ρ r with
    | some (.lit (.str s)), some (.excl (some es)) => .ok (es.contains s)
    | _, _ => .error .stuck
  | .attr (.name n) f =>
    match operand ρ (.attr (.name n) f) with
    | some (.val v) => .ok v.truthy
    | _ => .error .stuck
  | _ => .error .stuck

/-- what the call writes into its result -/
inductive Emit
  | entry (key : S) (field : S)             -- `result.append((key, asdict(o.field, …)))`
  | path (idx : List LitV) (field : S)      -- `paths[…]… = asdict(o.field, …)`
  | catchAll (field : S)                    -- every item of the mapping `o.field`, re-emitted at top level
  | tag (key tag : S)                       -- `result[key] = tag`
  deriving Repr, DecidableEq

structure St where
  vars : List (S × Bool) := []
  out : List Emit := []

def St.get (σ : St) (n : S) : Option Bool := σ.vars.lookup n
def St.set (σ : St) (n : S) (b : Bool) : St := { σ with vars := (n, b) :: σ.vars }
def St.emit (σ : St) (e : Emit) : St := { σ with out := σ.out ++ [e] }

def setAll (σ : St) (b : Bool) : List Target → Option St
  | [] => some σ
  | .name n :: r => setAll (σ.set n b) b r
  | .item _ _ :: _ => none

/-- the field read by `asdict(o.<f>,dict_factory,hooks,config,cls_to_asdict)` -/
def asdictField : Expr → Option S
  | .call5 (.name a) (.attr (.name o) f) _ _ _ _ => if a = "asdict".toList ∧ o = "o".toList then some f else none
  | _ => none

def execSimple (ρ : Env) (σ : St) : Simple → Except SErr St
  | .assign _ [.item base idx] v =>
    if base = "paths".toList then
      match asdictField v with
      | some f => .ok (σ.emit (.path idx f))
      | none => .error .stuck
    else if base = "result".toList then
      match idx, v with
      | [.str k], .lit (.str t) => .ok (σ.emit (.tag k t))
      | _, _ => .error .stuck
    else .error .stuck
  | .assign _ ts v =>
    match v with
    | .emptyList => .ok σ                              -- result = []
    | .call0 _ => .ok σ                                -- paths = NestedDict()
    | .call1 _ _ => .ok σ                              -- result = dict_factory(result)
    | .name n => if n = "paths".toList then .ok σ      -- result = paths
                 else match σ.get n with
                   | some b => (match setAll σ b ts with | some σ' => .ok σ' | none => .error .stuck)
                   | none => .error .stuck
    | e => do
      let b ← evalB ρ σ.get e
      match setAll σ b ts with
      | some σ' => .ok σ'
      | none => .error .stuck
  | .expr (.call1 (.attr (.name r) a) (.pair (.lit (.str key)) v)) =>
    if r = "result".toList ∧ a = "append".toList then
      match asdictField v with
      | some f => .ok (σ.emit (.entry key f))
      | none => .error .stuck
    else .error .stuck
  | .expr (.call1 (.name _) (.name _)) => .ok σ         -- __pre_dict__(o)
  | .expr (.bin (.name _) .and_ (.call1 _ _)) => .ok σ  -- result and paths.update(result)
  | .expr _ => .error .stuck
  | .ret _ => .ok σ

def execSimples (ρ : Env) : St → List Simple → Except SErr St
  | σ, [] => .ok σ
  | σ, s :: r => do
    let σ' ← execSimple ρ σ s
    execSimples ρ σ' r

def L0.exec (ρ : Env) (σ : St) (l : L0) : Except SErr St := execSimples ρ σ l.parts

/-- `for k, v in o.<f>.items(): result.append((k,asdict(v,…)))` -/
def forField : L1 → Option S
  | .for_ _ (.call0 (.attr (.attr (.name o) f) i)) _ => if o = "o".toList ∧ i = "items".toList then some f else none
  | _ => none

def L1.exec (ρ : Env) (σ : St) : L1 → Except SErr St
  | .line l => l.exec ρ σ
  | .for_ ts it body =>
    match forField (.for_ ts it body) with
    | some f => .ok (σ.emit (.catchAll f))
    | none => .error .stuck

def execL1s (ρ : Env) : St → List L1 → Except SErr St
  | σ, [] => .ok σ
  | σ, x :: r => do
    let σ' ← x.exec ρ σ
    execL1s ρ σ' r

def L2.exec (ρ : Env) (σ : St) : L2 → Except SErr St
  | .s x => x.exec ρ σ
  | .if_ c thn els => do
    let b ← evalB ρ σ.get c
    if b then execL1s ρ σ thn
    else match els with
      | some e => execL1s ρ σ e
      | none => pure σ

def execL2s (ρ : Env) : St → List L2 → Except SErr St
  | σ, [] => .ok σ
  | σ, x :: r => do
    let σ' ← x.exec ρ σ
    execL2s ρ σ' r

/-- run the generated body -/
def run (ρ : Env) (body : List L2) : Except SErr (List Emit) := do
  let σ ← execL2s ρ {} body
  pure σ.out

/-! ### from the class model to the generator's input -/

def CondOp.toCOp : CondOp → COp
  | .eq => .eq | .ne => .ne | .lt => .lt | .le => .le | .gt => .gt | .ge => .ge
  | .is_ => .is_ | .isNot => .isNot | .truthy => .truthy | .falsy => .falsy

/-- how the generator sees a comparison value: `None` / `True` / `False` / plain ints and strs can be written into the
source, anything else (here: floats) is bound in the closure -/
def cvalOf : Lit → CVal
  | .none => .none | .bool true => .true_ | .bool false => .false_ | .int i => .int i | .str s => .str s | .float _ => .other

def condOf (c : Cond) : GCond := { op := CondOp.toCOp c.op, val := cvalOf c.val }

/-- the generator's view of a field of the class model (`k` = its resolved dump key) -/
def gfieldOf (fi : FieldInfo) (k : S) : GField :=
  { name := fi.name, hasDefault := fi.dflt.isSome,
    key := if fi.isCatchAll || fi.dumpSkip then .null else .key k,
    skipIf := fi.skipIf.map condOf, isCatchAll := fi.isCatchAll }

/-- the generator's input for a class with effective Meta `eff` whose fields resolve to the dump keys given -/
def ginOf (eff : MetaCfg) (fks : List (FieldInfo × S)) : GIn :=
  { fields := fks.map (fun q => gfieldOf q.1 q.2), skipDefaults := eff.skipDefaults.getD false,
    skipIf := eff.skipIf.map condOf, skipDefaultsIf := eff.skipDefaultsIf.map condOf,
    tag := eff.tag, tagKey := eff.tagKey.getD [] }

/-- the call environment of `asdict(o, exclude=…, skip_defaults=…)` for an instance whose attribute `n` holds `vals n`:
the closure holds what `dump_func_for_dataclass` put into `_locals` -/
structure World (p : Char → Bool) (eff : MetaCfg) (args : DumpArgs) (fks : List (FieldInfo × S)) (vals : S → PyVal)
    (ρ : Env) : Prop where
  field : ∀ n, ρ.field n = some (vals n)
  exclude : ρ.exclude = args.exclude
  skipDefaults : ρ.skipDefaults = skipDefaultsOn eff args
  dflt : ∀ i fi k d, fks[i]? = some (fi, k) → fi.dflt = some d → ρ.closure (defaultName i) = some (.dflt d)
  skipIf : ∀ i fi k c, fks[i]? = some (fi, k) → fi.skipIf = some c → (condOf c).binds p = true →
    ρ.closure (skipIfName i) = some (.lit c.val)
  skipValue : ∀ c, eff.skipIf = some c → (condOf c).binds p = true → ρ.closure skipValue = some (.lit c.val)
  skipDefaultsValue : ∀ c, eff.skipDefaultsIf = some c → (condOf c).binds p = true →
    ρ.closure skipDefaultsValue = some (.lit c.val)

end DW.GenDump
