/-
Stdlib / third-party primitives as a *record of functions* (no axioms).  The driver instantiates
it from tables the harness computes by calling CPython's stdlib itself; theorems take an arbitrary
`std : Std` plus the `StdLaws` they need as hypotheses.
-/
import DW.Model.Values

namespace DW

inductive Num
  | int (i : Int)
  | float (f : PyFloat)
  deriving Repr, DecidableEq, Inhabited

structure Std where
  /-- `float(s)`; `none` = ValueError -/
  floatOfStr : S → Option PyFloat
  /-- `float(i)`; `none` = OverflowError -/
  floatOfInt : Int → Option PyFloat
  /-- `str(Decimal(s))`; `none` = InvalidOperation -/
  decimalOfStr : S → Option S
  /-- `str(Path(s))` -/
  pathOfStr : S → S
  /-- `UUID(s).hex`; `none` = ValueError -/
  uuidOfStr : S → Option S
  /-- `date.fromisoformat(s).isoformat()` -/
  dateFromIso : S → Option S
  timeFromIso : S → Option S
  datetimeFromIso : S → Option S
  /-- `date.fromtimestamp(x).isoformat()` (process TZ is UTC) ; `none` = OverflowError/OSError/ValueError -/
  dateFromTs : Num → Option S
  /-- `datetime.fromtimestamp(x, tz=timezone.utc).isoformat()` -/
  datetimeFromTsUtc : Num → Option S
  /-- `datetime.fromtimestamp(x)` (naive local) -/
  datetimeFromTsLocal : Num → Option S
  /-- `pytimeparse.parse(s)`; `none` = returned None -/
  timeparse : S → Option Num
  /-- `timedelta(seconds=x)` as total microseconds; `none` = OverflowError / ValueError (nan) -/
  tdOfSeconds : Num → Option Int
  /-- `base64.b64encode(b).decode()` -/
  b64encode : List Nat → S
  /-- `base64.b64decode(s)`; `none` = binascii.Error -/
  b64decode : S → Option (List Nat)
  /-- `round(datetime.fromisoformat(tok).timestamp())` -/
  datetimeTimestamp : S → Option Int
  /-- `date_to_timestamp(date.fromisoformat(tok))` -/
  dateTimestamp : S → Option Int
  /-- which texts are canonical tokens of a leaf kind (the image of `str(Decimal)`, `str(Path)`, `UUID.hex`,
  `isoformat()`); only used in hypotheses, never evaluated by the model -/
  validTok : LeafKind → S → Bool := fun _ _ => true

/-- decimal text of an `Int` (Python `str(i)`) -/
def natDigits (n : Nat) : S := (Nat.repr n).toList
def intRepr (i : Int) : S :=
  match i with
  | Int.ofNat n => natDigits n
  | Int.negSucc n => '-' :: natDigits (n + 1)

/-- first-occurrence `s.replace(old, new, 1)` -/
def replaceFirst (old new : S) : S → S
  | [] => if old.isEmpty then new else []
  | c :: r =>
    if old.isPrefixOf (c :: r) then new ++ (c :: r).drop old.length
    else c :: replaceFirst old new r

/-- `str(timedelta)` (concrete transcription of `timedelta.__str__`). -/
def pad2 (n : Nat) : S := if n < 10 then '0' :: natDigits n else natDigits n
def pad6 (n : Nat) : S := (List.replicate (6 - (natDigits n).length) '0') ++ natDigits n

def tdStr (us : Int) : S :=
  let day : Int := 86400 * 1000000
  let days := us.fdiv day
  let rem := (us.fmod day).toNat            -- 0 ≤ rem < day
  let secs := rem / 1000000
  let micro := rem % 1000000
  let mm := secs / 60
  let ss := secs % 60
  let hh := mm / 60
  let mm := mm % 60
  let base := natDigits hh ++ [':'] ++ pad2 mm ++ [':'] ++ pad2 ss
  let withDays :=
    if days = 0 then base
    else intRepr days ++ " day".toList ++ (if days.natAbs != 1 then ['s'] else []) ++ ", ".toList ++ base
  if micro = 0 then withDays else withDays ++ ['.'] ++ pad6 micro

end DW
