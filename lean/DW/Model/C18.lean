/-
C18 — model of `dataclass_wizard/environ/lookups.py` (the process-wide `Env` cache) and of the `__init__`
that `EnvWizard._create_methods` generates (`dataclass_wizard/environ/wizard.py`), as a state machine.

What is modelled, and how literally:
* `environ` (module global, a copy of `os.environ` plus overlays), `Env.var_names` and `Env.cleaned_to_env`
  (both `cached_class_property`: `none` = the descriptor has not fired yet; `_accessed_cleaned_to_env` is
  true exactly when `cleaned` is `some`).  Every function below follows the statement order of the Python
  code, including WHEN a cache is computed, replaced, filtered or only patched.
* dicts are association lists maintained with `dset` (replace in place, else append), sets are lists.
* the one thing Python leaves open — the iteration order of a `set` of names, which decides which spelling
  wins a `cleaned_to_env` collision — is an explicit input `rank` of every operation (`iterOrder`).
* value conversion is NOT part of this model: a field's result is the chosen raw string.
* `Quirks`: one switch per known deviation of the shipped code from the C18 statement.
-/
import DW.Model.Strings

namespace DW.Env
open DW.Str

abbrev Dict := List (S × S)

/-- `d.get(k)` -/
def dget (k : S) : Dict → Option S
  | [] => none
  | p :: r => if p.1 = k then some p.2 else dget k r

/-- `d[k] = v` (insertion-ordered dict: replace in place, else append) -/
def dset (k v : S) : Dict → Dict
  | [] => [(k, v)]
  | p :: r => if p.1 = k then (k, v) :: r else p :: dset k v r

/-- `del d[k]` / `d.pop(k, None)` -/
def ddel (k : S) (d : Dict) : Dict := d.filter (fun p => p.1 ≠ k)

/-- `d.update(ov)` where `ov` is read in order (a later pair for the same key wins) -/
def dupdate (d ov : Dict) : Dict := ov.foldl (fun acc p => dset p.1 p.2 acc) d

def keys (d : Dict) : List S := d.map Prod.fst

/-- `lookups.clean`: `s.replace('-', '').replace('_', '').lower()` -/
def clean (s : S) : S := lowerS (removeChar '_' (removeChar '-' s))

/-- One switch per known deviation of the shipped code (all `false` = the documented behaviour). -/
structure Quirks where
  /-- F1: a forced `load_environ` only *filters* `cleaned_to_env` (entries whose variable vanished are dropped,
  surviving spellings of the same cleaned key are not re-added). `false`: the cache is rebuilt from `var_names`. -/
  staleCleaned : Bool
  /-- F2: with a prefix, a *tuple* of explicit names is spliced into the f-string as its `repr`. `false`: every
  explicit name is prefixed. -/
  multiExplicitRaw : Bool
  /-- F3: a field with an explicit mapping never reaches the letter-case lookup. `false`: it falls through. -/
  explicitNoFallback : Bool
  deriving Repr, DecidableEq

def Quirks.clean : Quirks := ⟨false, false, false⟩
def Quirks.shipped : Quirks := ⟨true, true, true⟩

/-- the library's process-wide state -/
structure EnvSt where
  environ : Option Dict := none
  varNames : Option (List S) := none
  cleaned : Option Dict := none
  deriving Repr, DecidableEq

/-- what `Env.var_names` evaluates to if read now -/
def EnvSt.virtVN (st : EnvSt) : List S :=
  match st.varNames with
  | some vn => vn
  | none => match st.environ with
    | some e => keys e
    | none => []

/-- read `Env.var_names` (fires the cached property if needed) -/
def forceVN (st : EnvSt) : EnvSt := { st with varNames := some st.virtVN }

/-- iteration order of a set holding `xs`, as dictated by `rank` (names outside `rank` first) -/
def iterOrder (rank xs : List S) : List S :=
  xs.filter (fun x => decide (x ∉ rank)) ++ rank.filter (fun r => decide (r ∈ xs))

/-- `cl.update((clean(var), var) for var in vars)` — later in iteration order wins -/
def patch (rank : List S) (cl : Dict) (vars : List S) : Dict :=
  (iterOrder rank vars).foldl (fun d v => dset (clean v) v d) cl

/-- `{clean(var): var for var in var_names}` -/
def buildCleaned (rank : List S) (vn : List S) : Dict := patch rank [] vn

/-- `Env.load_environ(force_reload)` against the current `os.environ` -/
def loadEnviron (q : Quirks) (rank : List S) (os : Dict) (force : Bool) (st : EnvSt) : EnvSt :=
  match st.environ with
  | none => { st with environ := some os }
  | some _ =>
    if force then
      { environ := some os
        varNames := some (keys os)
        cleaned := st.cleaned.map (fun cl =>
          if q.staleCleaned then cl.filter (fun p => decide (p.2 ∈ keys os)) else buildCleaned rank (keys os)) }
    else st

/-- `Env.reload(env)` with an overlay dict (`env is not None`) -/
def reloadWith (rank : List S) (ov : Dict) (st : EnvSt) : EnvSt :=
  let vn := st.virtVN
  let newVars := (keys ov).filter (fun n => decide (n ∉ vn))
  { st with varNames := some (vn ++ newVars), cleaned := st.cleaned.map (fun cl => patch rank cl newVars) }

/-- `Env.reload()`.  `env_vars` is the set object read *before* `load_environ(True)`; that call replaces
`cls.var_names` by a fresh set unless this is the very first load, so `env_vars.update(new_vars)` reaches the
cached set only in that first case. -/
def reloadOs (q : Quirks) (rank : List S) (os : Dict) (st : EnvSt) : EnvSt :=
  let vn0 := st.virtVN
  let first := st.environ.isNone
  let st2 := loadEnviron q rank os true (forceVN st)
  let newVars := (keys os).filter (fun n => decide (n ∉ vn0))
  { st2 with varNames := some (if first then vn0 ++ newVars else keys os),
             cleaned := st2.cleaned.map (fun cl => patch rank cl newVars) }

/-- `Env.update_with_secret_values` / `Env.update_with_dotenv`: `reload(values)` then `environ.update(values)` -/
def updateWith (rank : List S) (ov : Dict) (st : EnvSt) : EnvSt :=
  let st1 := reloadWith rank ov st
  { st1 with environ := some (dupdate (st1.environ.getD []) ov) }

/-- read `Env.cleaned_to_env` (fires the cached property if needed) -/
def forceCleaned (rank : List S) (st : EnvSt) : EnvSt :=
  match st.cleaned with
  | some _ => st
  | none => { forceVN st with cleaned := some (buildCleaned rank st.virtVN) }

inductive Priority | screamingSnake | snake | camel | pascal
  deriving Repr, DecidableEq

/-- result of one lookup function: a string, `MISSING`, or a `KeyError` from `environ[name]` -/
inductive Got | val (v : S) | unset | keyError
  deriving Repr, DecidableEq

def envVal (st : EnvSt) (n : S) : Got :=
  match dget n (st.environ.getD []) with
  | some v => .val v
  | none => .keyError

/-- the exact spellings a `with_*` function tries, in order, before `try_cleaned` -/
def tiers : Priority → S → List S
  | .screamingSnake, n => [upperS n, n]
  | .snake, n => [n, upperS n]
  | .camel, n => [n, upperS (toSnake n), toSnake n]
  | .pascal, n => [n, upperS (toSnake n), toSnake n]

def tryCleaned (rank : List S) (key : S) (st : EnvSt) : Got × EnvSt :=
  let st1 := forceCleaned rank st
  match dget (clean key) (st1.cleaned.getD []) with
  | some v => (envVal st1 v, st1)
  | none => (.unset, st1)

/-- `meta.key_lookup_with_load(key)` -/
def getEnv (rank : List S) (prio : Priority) (key : S) (st : EnvSt) : Got × EnvSt :=
  let st1 := forceVN st
  match (tiers prio key).find? (fun n => decide (n ∈ st1.virtVN)) with
  | some n => (envVal st1 n, st1)
  | none => tryCleaned rank key st1

/-- `lookup_exact(names)` (non-Windows branch) -/
def lookupExact (names : List S) (st : EnvSt) : Got × EnvSt :=
  let st1 := forceVN st
  match names.find? (fun n => decide (n ∈ st1.virtVN)) with
  | some n => (envVal st1 n, st1)
  | none => (.unset, st1)

structure FieldDef where
  name : S
  /-- `env_field`/`json_field` keys or the `Meta.field_to_env_var` entry; `[]` = no explicit mapping -/
  explicit : List S
  hasDefault : Bool
  deriving Repr, DecidableEq

structure ClassDef where
  fields : List FieldDef
  pfx : S
  prio : Priority
  /-- contents of the `Meta.env_file` files (read once, when the class is created); `[]` = not set -/
  metaDotenv : List Dict
  /-- contents of the `Meta.secrets_dir` directories; `[]` = not set -/
  metaSecrets : List Dict
  deriving Repr, DecidableEq

structure InstArgs where
  kw : Dict
  reload : Bool
  /-- `_env_prefix=` when passed (`some []` = a falsy value) -/
  pfx : Option S
  /-- `_env_file=` when passed and not None (`some []` = a falsy value such as `False`) -/
  envFile : Option (List Dict)
  /-- `_secrets_dir=` when passed (`some []` = None / a falsy value) -/
  secrets : Option (List Dict)
  rank : List S
  deriving Repr, DecidableEq

def effSecrets (c : ClassDef) (a : InstArgs) : List Dict := a.secrets.getD c.metaSecrets
def effDotenv (c : ClassDef) (a : InstArgs) : List Dict := a.envFile.getD c.metaDotenv
def effPrefix (c : ClassDef) (a : InstArgs) : S := a.pfx.getD c.pfx

/-- `Env.secret_values(dirs)` / `Env.dotenv_values(files)`: one dict, later sources overriding earlier -/
def mergeFiles (fs : List Dict) : Dict := fs.foldl dupdate []

/-- `repr` of a tuple of plain names, as the f-string of wizard.py:290 splices it -/
def tupleRepr (names : List S) : S :=
  ['('] ++ (", ".toList).intercalate (names.map (fun n => ['\''] ++ n ++ ['\''])) ++ [')']

/-- the argument `lookup_exact` receives for a field with explicit names -/
def explicitArg (q : Quirks) (pfx : S) (names : List S) : List S :=
  if pfx = [] then names
  else if q.multiExplicitRaw && decide (2 ≤ names.length) then [pfx ++ tupleRepr names]
  else names.map (pfx ++ ·)

/-- `(name := lookup_exact(_var_name))` or `(name := get_env(_var_name))` -/
def lookupField (q : Quirks) (rank : List S) (prio : Priority) (pfx : S) (f : FieldDef) (st : EnvSt) : Got × EnvSt :=
  if f.explicit = [] then getEnv rank prio (pfx ++ f.name) st
  else
    let r := lookupExact (explicitArg q pfx f.explicit) st
    match r.1 with
    | .unset => if q.explicitNoFallback then r else getEnv rank prio (pfx ++ f.name) r.2
    | _ => r

inductive FieldRes | val (v : S) | dflt | missing | keyError
  deriving Repr, DecidableEq

/-- one field of the generated `__init__` -/
def resolveField (q : Quirks) (rank : List S) (prio : Priority) (pfx : S) (kw : Dict) (f : FieldDef) (st : EnvSt) :
    FieldRes × EnvSt :=
  match dget f.name kw with
  | some v => (.val v, st)
  | none =>
    let r := lookupField q rank prio pfx f st
    match r.1 with
    | .val v => (.val v, r.2)
    | .keyError => (.keyError, r.2)
    | .unset =>
      if f.hasDefault then (.dflt, r.2)
      else (.missing, if f.explicit = [] then forceCleaned rank r.2 else r.2)   -- `_get_var_name` reads the cache

def resolveAll (q : Quirks) (rank : List S) (prio : Priority) (pfx : S) (kw : Dict) :
    List FieldDef → EnvSt → List (S × FieldRes) × EnvSt
  | [], st => ([], st)
  | f :: r, st =>
    let x := resolveField q rank prio pfx kw f st
    let xs := resolveAll q rank prio pfx kw r x.2
    ((f.name, x.1) :: xs.1, xs.2)

inductive Outcome
  | ok (vals : List (S × FieldRes))
  | missing (names : List S)      -- MissingVars
  | raised                        -- KeyError out of a lookup
  deriving Repr, DecidableEq

def missingNames (rs : List (S × FieldRes)) : List S :=
  rs.filterMap (fun p => if p.2 = .missing then some p.1 else none)

def outcomeOf (rs : List (S × FieldRes)) : Outcome :=
  if rs.any (fun p => decide (p.2 = .keyError)) then .raised
  else if missingNames rs = [] then .ok rs else .missing (missingNames rs)

/-- the part of `__init__` before the field loop -/
def prepare (q : Quirks) (os : Dict) (c : ClassDef) (a : InstArgs) (st : EnvSt) : EnvSt :=
  let st1 := if a.reload then reloadOs q a.rank os st else loadEnviron q a.rank os false st
  let st2 := if effSecrets c a = [] then st1 else updateWith a.rank (mergeFiles (effSecrets c a)) st1
  if effDotenv c a = [] then st2 else updateWith a.rank (mergeFiles (effDotenv c a)) st2

def instantiate (q : Quirks) (os : Dict) (c : ClassDef) (a : InstArgs) (st : EnvSt) : Outcome × EnvSt :=
  let r := resolveAll q a.rank c.prio (effPrefix c a) a.kw c.fields (prepare q os c a st)
  (outcomeOf r.1, r.2)

/-- the machine: the real `os.environ` next to the library's copy -/
structure World where
  os : Dict
  env : EnvSt := {}
  deriving Repr, DecidableEq

inductive Op
  | setOs (k v : S)                       -- os.environ[k] = v
  | delOs (k : S)                         -- os.environ.pop(k, None)
  | reload (rank : List S)                -- Env.reload()  (also: class creation with reload_env=True)
  | inst (c : ClassDef) (a : InstArgs)    -- C(**kw, _reload=…, _env_file=…, …)

def step (q : Quirks) (w : World) : Op → World × Option Outcome
  | .setOs k v => ({ w with os := dset k v w.os }, none)
  | .delOs k => ({ w with os := ddel k w.os }, none)
  | .reload rank => ({ w with env := reloadOs q rank w.os w.env }, none)
  | .inst c a =>
    let r := instantiate q w.os c a w.env
    ({ w with env := r.2 }, some r.1)

def run (q : Quirks) (w : World) : List Op → World
  | [] => w
  | op :: r => run q (step q w op).1 r

/-! ### the specification, stated outright -/

/-- last binding of `n` in a file / directory listing -/
def dgetLast (n : S) : Dict → Option S
  | [] => none
  | p :: r => match dgetLast n r with
    | some v => some v
    | none => if p.1 = n then some p.2 else none

/-- a stack of files: a later file overrides an earlier one -/
def layersGet : List Dict → S → Option S
  | [], _ => none
  | f :: r, n => match layersGet r n with
    | some v => some v
    | none => dgetLast n f

/-- the effective environment: dotenv files over secrets directories over the process environment -/
def refLookup (os : Dict) (secs dots : List Dict) (n : S) : Option S :=
  match layersGet dots n with
  | some v => some v
  | none => match layersGet secs n with
    | some v => some v
    | none => dget n os

def refNames (os : Dict) (secs dots : List Dict) : List S :=
  keys os ++ secs.flatMap keys ++ dots.flatMap keys

inductive Expect
  | oneOf (vs : List S)     -- any of these strings (one element unless several spellings share a cleaned key)
  | dflt
  | missing
  deriving Repr, DecidableEq

/-- tiered letter-case lookup of `key`: the exact spellings in priority order, then ANY variable equal to the key
after removing `_`/`-` and lowering case; `none` = no variable matches -/
def refImplicit (look : S → Option S) (dom : List S) (prio : Priority) (key : S) : Option (List S) :=
  match (tiers prio key).findSome? look with
  | some v => some [v]
  | none =>
    match (dom.filter (fun n => decide (clean n = clean key))).filterMap look with
    | [] => none
    | vs => some vs

def refField (look : S → Option S) (dom : List S) (prio : Priority) (pfx : S) (kw : Dict) (f : FieldDef) : Expect :=
  match dget f.name kw with
  | some v => .oneOf [v]                                              -- the keyword argument
  | none =>
    match (f.explicit.map (pfx ++ ·)).findSome? look with
    | some v => .oneOf [v]                                            -- first present explicit name, prefixed
    | none =>
      match refImplicit look dom prio (pfx ++ f.name) with
      | some vs => .oneOf vs                                          -- letter-case priority
      | none => if f.hasDefault then .dflt else .missing

def refResolve (os : Dict) (c : ClassDef) (a : InstArgs) : List (S × Expect) :=
  c.fields.map (fun f =>
    (f.name, refField (refLookup os (effSecrets c a) (effDotenv c a)) (refNames os (effSecrets c a) (effDotenv c a))
                c.prio (effPrefix c a) a.kw f))

def FieldRes.meets : FieldRes → Expect → Bool
  | .val v, .oneOf vs => decide (v ∈ vs)
  | .dflt, .dflt => true
  | .missing, .missing => true
  | _, _ => false

def refMissing (es : List (S × Expect)) : List S :=
  es.filterMap (fun p => if p.2 = .missing then some p.1 else none)

def meetsAll : List (S × FieldRes) → List (S × Expect) → Bool
  | [], [] => true
  | r :: rs, e :: es => decide (r.1 = e.1) && r.2.meets e.2 && meetsAll rs es
  | _, _ => false

/-- an outcome conforms to the reference: MissingVars naming exactly ALL the fields the reference leaves without a
source, or else an instance whose every field meets its expectation -/
def Outcome.meets : Outcome → List (S × Expect) → Bool
  | .missing ns, es => decide (ns ≠ []) && decide (ns = refMissing es)
  | .ok rs, es => decide (refMissing es = []) && meetsAll rs es
  | .raised, _ => false

/-! ### reachability and the hypotheses of the partial theorems -/

/-- plain reachability (no side conditions) -/
inductive Reach (q : Quirks) : World → Prop
  | init (os : Dict) : Reach q { os := os }
  | step {w : World} (op : Op) (hw : Reach q w) : Reach q (step q w op).1

/-- names an operation brings into play (the os variable it sets, the variables of its overlay files) -/
def Op.names : Op → List S
  | .setOs k _ => [k]
  | .inst c a => (effSecrets c a).flatMap keys ++ (effDotenv c a).flatMap keys
  | _ => []

/-- no two distinct names of `U` share a cleaned key -/
def CleanInj (U : List S) : Prop := ∀ a ∈ U, ∀ b ∈ U, clean a = clean b → a = b

instance (U : List S) : Decidable (CleanInj U) := by unfold CleanInj; infer_instance

/-- worlds reachable from a pristine process; while the stale-cache quirk is on, every name brought into play lies in `U` -/
inductive Reachable (q : Quirks) (U : List S) : World → Prop
  | init (os : Dict) (h : q.staleCleaned = true → ∀ n ∈ keys os, n ∈ U) : Reachable q U { os := os }
  | step {w : World} (op : Op) (hw : Reachable q U w) (h : q.staleCleaned = true → ∀ n ∈ op.names, n ∈ U) :
      Reachable q U (step q w op).1

/-- the hypotheses under which a field is outside the reach of the switched-on quirks F2 / F3 -/
def FieldOK (q : Quirks) (look : S → Option S) (dom : List S) (prio : Priority) (pfx : S) (kw : Dict) (f : FieldDef) : Prop :=
  (q.multiExplicitRaw = true → f.explicit.length ≤ 1 ∨ pfx = []) ∧
  (q.explicitNoFallback = true →
    f.explicit = [] ∨ (dget f.name kw).isSome = true ∨ ((f.explicit.map (pfx ++ ·)).findSome? look).isSome = true ∨
      refImplicit look dom prio (pfx ++ f.name) = none)

instance (q : Quirks) (look : S → Option S) (dom : List S) (prio : Priority) (pfx : S) (kw : Dict) (f : FieldDef) :
    Decidable (FieldOK q look dom prio pfx kw f) := by unfold FieldOK; infer_instance

end DW.Env
