/-
C19 — specification vocabulary over the model of `DW/Model/C19.lean`:
* `CoversV` / `CoversObj` / `CoversElems`: the schema accommodates a document (every key of every object at
  every path has a field named `toSnake key` in the class for that path; a null value makes the field
  Optional; a scalar finds its inferred types among the alternatives);
* name scoping of the generated module (`usedNames`, `refs`, `WellScoped`);
* the command line as a small state machine over the output file (`cliRun`).
-/
import DW.Model.C19

namespace DW.Gs
open DW DW.Str

/-! ### a schema accommodates a document -/

/-- the inferred types of a scalar are among the alternatives `es` -/
def ScalarCov (std : GsStd) (force : Bool) (es : List Elem) (v : JVal) : Prop :=
  ∀ ps, scalarPrims std force v = some ps → ∀ p ∈ ps, Elem.prim p ∈ es

mutual
/-- the container `tc` of a field accommodates the value `v` found under the field's key -/
def CoversV (std : GsStd) (force : Bool) (tc : TC) : JVal → Prop
  | .null => tc.2 = true
  | .dict kvs => ∃ d, Elem.cls d ∈ tc.1 ∧ CoversObj std force d.fields kvs
  | .list xs => ∃ l, Elem.lst l ∈ tc.1 ∧ CoversElems std force l.elems xs
  | .bool b => ScalarCov std force tc.1 (.bool b)
  | .int i => ScalarCov std force tc.1 (.int i)
  | .float f => ScalarCov std force tc.1 (.float f)
  | .str s => ScalarCov std force tc.1 (.str s)
/-- the class with fields `fs` has, for every key of the object, the field `toSnake key`, and that field
accommodates the key's value -/
def CoversObj (std : GsStd) (force : Bool) (fs : Fields) : List (S × JVal) → Prop
  | [] => True
  | (k, v) :: r => (∃ tc, fieldsLookup (toSnake k) fs = some tc ∧ CoversV std force tc v) ∧ CoversObj std force fs r
/-- the parsed types `es` of a list generator accommodate every element -/
def CoversElems (std : GsStd) (force : Bool) (es : List Elem) : List JVal → Prop
  | [] => True
  | x :: r => CoversElem std force es x ∧ CoversElems std force es r
/-- one list element: an object is accommodated by the list's model class, a nested list by one of the nested
list generators, a scalar by its types (a null element asks for nothing: see `C19_null_element_witness`) -/
def CoversElem (std : GsStd) (force : Bool) (es : List Elem) : JVal → Prop
  | .null => True
  | .dict kvs => ∃ m, firstCls es = some m ∧ CoversObj std force m.fields kvs
  | .list ys => ∃ l, Elem.lst l ∈ es ∧ CoversElems std force l.elems ys
  | .bool b => ScalarCov std force es (.bool b)
  | .int i => ScalarCov std force es (.int i)
  | .float f => ScalarCov std force es (.float f)
  | .str s => ScalarCov std force es (.str s)
end

/-- the schema built for a document accommodates that document -/
def Schema.Covers (std : GsStd) (force : Bool) : Schema → JVal → Prop
  | .obj d, .dict kvs => CoversObj std force d.fields kvs
  | .arr l _, .list xs => CoversElems std force l.elems xs
  | _, _ => False

/-! ### names of the generated module -/

mutual
/-- names an annotation evaluates as plain names (`int`, `List`, `Optional`, ...) -/
def TyExpr.usedNames : TyExpr → List S
  | .nm n => [n]
  | .ref _ => []
  | .app h args => h :: TyExpr.usedNamesL args
  | .bor alts => TyExpr.usedNamesL alts
  | .none => []
def TyExpr.usedNamesL : List TyExpr → List S
  | [] => []
  | t :: r => t.usedNames ++ TyExpr.usedNamesL r
end

mutual
/-- generated classes an annotation refers to -/
def TyExpr.refs : TyExpr → List S
  | .nm _ => []
  | .ref n => [n]
  | .app _ args => TyExpr.refsL args
  | .bor alts => TyExpr.refsL alts
  | .none => []
def TyExpr.refsL : List TyExpr → List S
  | [] => []
  | t :: r => t.refs ++ TyExpr.refsL r
end

def builtinNames : List S := ["int", "str", "float", "bool", "list"].map String.toList

def ModuleAst.importedNames (m : ModuleAst) : List S := m.imports.flatMap (·.2)
def ModuleAst.classNames (m : ModuleAst) : List S := m.classes.map (·.name)

/-- name resolution at module level after the whole module ran: the last definition of a name wins -/
def ModuleAst.resolve (m : ModuleAst) (n : S) : Option ClassAst := m.classes.reverse.find? (fun c => c.name == n)

/-- every name the module uses is bound: plain names are builtins or imported, class references are defined,
the decorator and (when a class is the JSON root) the base class are imported -/
def WellScoped (m : ModuleAst) : Prop :=
  (∀ c ∈ m.classes, ∀ f ∈ c.fields,
      (∀ n ∈ f.2.usedNames, n ∈ builtinNames ∨ n ∈ m.importedNames) ∧
      (∀ n ∈ f.2.refs, n ∈ m.classNames)) ∧
  "dataclass".toList ∈ m.importedNames ∧
  (∀ c ∈ m.classes, c.isRoot = true → "JSONWizard".toList ∈ m.importedNames)

/-- an annotation is well scoped relative to the registered imports `G` and the defined class names `N` -/
def TyOK (G : List Imp) (N : List S) (t : TyExpr) : Prop :=
  (∀ n ∈ t.usedNames, n ∈ builtinNames ∨ ∃ i ∈ G, i.pyName = n) ∧ (∀ n ∈ t.refs, n ∈ N)

def ClassOK (G : List Imp) (N : List S) (c : ClassAst) : Prop :=
  (∀ f ∈ c.fields, TyOK G N f.2) ∧ (c.isRoot = true → Imp.jsonWizard ∈ G)

/-- the date-like types of a type need their import -/
def PrimOK (G : List Imp) (p : Prim) : Prop := ∀ i ∈ p.imps, i ∈ G

mutual
/-- every date-like type anywhere in the generator tree has its import registered in `G` -/
def PrimsE (G : List Imp) : Elem → Prop
  | .prim p => PrimOK G p
  | .cls d => PrimsD G d
  | .lst l => PrimsL G l
def PrimsEs (G : List Imp) : List Elem → Prop
  | [] => True
  | e :: r => PrimsE G e ∧ PrimsEs G r
def PrimsFs (G : List Imp) : List (S × List Elem × Bool) → Prop
  | [] => True
  | (_, es, _) :: r => PrimsEs G es ∧ PrimsFs G r
def PrimsD (G : List Imp) : DGen → Prop
  | .mk _ _ fs => PrimsFs G fs
def PrimsL (G : List Imp) : LGen → Prop
  | .mk _ _ _ es _ => PrimsEs G es
end

/-- what `repr` emits for one container element -/
def elemClasses (exp : Bool) : Elem → List ClassAst × List Imp
  | .prim _ => ([], [])
  | .cls d => classesD exp d
  | .lst l => classesL exp l

/-! ### a concrete instance for witnesses -/

/-- no string looks like a date / number / bool word, nothing is singularised: enough for counterexamples whose
strings are plain -/
def plainStd : GsStd :=
  { isDate := fun _ => false, isTime := fun _ => false, isDatetime := fun _ => false, isNumeric := fun _ => false,
    isFloat := fun _ => false, lower := id, singularize := id }

/-- the module as (class name, [(field name, annotation text)]) -/
def ModuleAst.summary (exp : Bool) (m : ModuleAst) : List (S × List (S × S)) :=
  m.classes.map (fun c => (c.name, c.fields.map (fun f => (f.1, TyExpr.text exp f.2))))

/-! ### the command line: `wiz gs <in-file> <out-file>` with an existing output file -/

/-- what the input path holds -/
inductive CliInput
  /-- `open(in, 'r')` fails (missing / unreadable) -/
  | unreadable
  /-- not JSON (`JSONDecodeError`) -/
  | syntaxError
  /-- JSON whose root is neither an object nor an array (`TypeError` from `JSONRootParser`) -/
  | scalarRoot
  /-- an object / array root; `code` is the generated text -/
  | valid (code : List Char)
  deriving Repr, DecidableEq

/-- contents of the output path (`none` = absent) -/
abbrev OutFile := Option (List Char)

structure CliResult where
  exit : Nat
  out : OutFile
  deriving Repr, DecidableEq

/-- `truncEarly`: argparse's `FileType('w')` opens (and truncates) the output while parsing the arguments, i.e.
after the input was opened but before it is read and validated (the unchanged code). `false` = the output is
opened only when there is code to write. -/
def cliRun (truncEarly : Bool) (inp : CliInput) (out0 : OutFile) : CliResult :=
  match inp with
  -- argparse converts the positionals in order: the input fails first, `parser.error` exits with status 2
  | .unreadable => { exit := 2, out := out0 }
  | .syntaxError => { exit := 1, out := if truncEarly then some [] else out0 }    -- `_exit_with_error` -> `sys.exit(text)`
  | .scalarRoot => { exit := 1, out := if truncEarly then some [] else out0 }
  | .valid code => { exit := 0, out := some code }

def CliInput.isValid : CliInput → Bool
  | .valid _ => true
  | _ => false

end DW.Gs
