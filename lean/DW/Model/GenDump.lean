/-
Model of a *code generator*: the text `dumpers.dump_func_for_dataclass` produces for the function `cls_asdict`
of one dataclass (C15, C11).

The generator is modelled at the level of the source it writes:

  * `Expr` / `Simple` / `L0 ‥ L2` — a small structured representation of exactly the Python statement forms the
    template uses (a three-layer block structure: line, `for` over lines, `if / else` over those);
  * `render` — the printer; `genCode` is the text of the function body, `genArgs` its parameter list and
    `genLocals` the ordered key list of the `_locals` mapping that becomes the closure of the function
    (`def __create_cls_asdict_fn__(<locals>): def cls_asdict(<args>): <code>`).  The correspondence check compares all
    three, byte for byte, with what the library generates for the same class;
  * `check` — Python's scoping rule for a function body (a name assigned anywhere in the body is local and must be
    definitely assigned on every path before it is read; any other name must come from the closure or the builtins).

`DW/Props/C15.lean` proves that the body generated for *every* input is well scoped.
-/
import DW.Model.Names

namespace DW.GenDump
open DW.Names

/-! ### the statement forms of the template -/

/-- literals the template writes into the source -/
inductive LitV | none | true_ | false_ | int (i : Int) | str (s : S)
  deriving Repr, DecidableEq, Inhabited

/-- comparison operators of `Condition` (`+` / `!` are the truthiness tests and never printed as operators) -/
inductive COp | eq | ne | lt | le | gt | ge | is_ | isNot | truthy | falsy
  deriving Repr, DecidableEq, Inhabited

def COp.text : COp → S
  | .eq => "==".toList | .ne => "!=".toList | .lt => "<".toList | .le => "<=".toList | .gt => ">".toList
  | .ge => ">=".toList | .is_ => "is".toList | .isNot => "is not".toList | .truthy => "+".toList | .falsy => "!".toList

/-- binary operators of the template -/
inductive Op | cmp (c : COp) | or_ | and_ | in_
  deriving Repr, DecidableEq, Inhabited

def Op.text : Op → S
  | .cmp c => c.text | .or_ => "or".toList | .and_ => "and".toList | .in_ => "in".toList

inductive Expr
  | name (n : S)                       -- a variable
  | lit (v : LitV)                     -- a literal: `None`, `True`, `False`, `repr` of an int / str
  | attr (e : Expr) (a : S)            -- e.a
  | call0 (f : Expr)                   -- f()
  | call1 (f a : Expr)                 -- f(a)
  | call5 (f a b c d e : Expr)         -- f(a,b,c,d,e)
  | pair (a b : Expr)                  -- (a,b)
  | bin (l : Expr) (op : Op) (r : Expr) -- l op r
  | not_ (e : Expr)                    -- not e
  | paren (e : Expr)                   -- (e)
  | emptyList                          -- []
  deriving Repr, DecidableEq, Inhabited

def intRepr (i : Int) : S := if i < 0 then '-' :: dec i.natAbs else dec i.natAbs

def LitV.text (p : Char → Bool) : LitV → S
  | .none => "None".toList | .true_ => "True".toList | .false_ => "False".toList
  | .int i => intRepr i | .str s => pyRepr p s

def Expr.text (p : Char → Bool) : Expr → S
  | .name n => n
  | .lit v => v.text p
  | .attr e a => e.text p ++ '.' :: a
  | .call0 f => f.text p ++ "()".toList
  | .call1 f a => f.text p ++ '(' :: a.text p ++ [')']
  | .call5 f a b c d e =>
      f.text p ++ '(' :: a.text p ++ ',' :: b.text p ++ ',' :: c.text p ++ ',' :: d.text p ++ ',' :: e.text p ++ [')']
  | .pair a b => '(' :: a.text p ++ ',' :: b.text p ++ [')']
  | .bin l op r => l.text p ++ ' ' :: op.text ++ ' ' :: r.text p
  | .not_ e => "not ".toList ++ e.text p
  | .paren e => '(' :: e.text p ++ [')']
  | .emptyList => "[]".toList

/-- the variables an expression reads (attribute names and literal text are not variables) -/
def Expr.reads : Expr → List S
  | .name n => [n]
  | .lit _ => []
  | .attr e _ => e.reads
  | .call0 f => f.reads
  | .call1 f a => f.reads ++ a.reads
  | .call5 f a b c d e => f.reads ++ a.reads ++ b.reads ++ c.reads ++ d.reads ++ e.reads
  | .pair a b => a.reads ++ b.reads
  | .bin l _ r => l.reads ++ r.reads
  | .not_ e => e.reads
  | .paren e => e.reads
  | .emptyList => []

/-- assignment targets: a plain name, or `base[i1][i2]…` (reads `base`) -/
inductive Target
  | name (n : S)
  | item (base : S) (idx : List LitV)   -- indexes are literals (path parts, the tag key)
  deriving Repr, DecidableEq, Inhabited

def idxText (p : Char → Bool) : List LitV → S
  | [] => []
  | i :: r => '[' :: i.text p ++ ']' :: idxText p r

def Target.text (p : Char → Bool) : Target → S
  | .name n => n
  | .item b idx => b ++ idxText p idx

def Target.reads : Target → List S
  | .name _ => []
  | .item b _ => [b]

def Target.writes : Target → List S
  | .name n => [n]
  | .item _ _ => []

/-- a simple statement -/
inductive Simple
  | expr (e : Expr)
  | assign (tight : Bool) (targets : List Target) (v : Expr)   -- `a=b=v` (tight) or `a = v`
  | ret (e : Expr)
  deriving Repr, DecidableEq, Inhabited

def joinWith (sep : S) : List S → S
  | [] => []
  | [x] => x
  | x :: r => x ++ sep ++ joinWith sep r

def Simple.text (p : Char → Bool) : Simple → S
  | .expr e => e.text p
  | .assign tight ts v =>
      let eq : S := if tight then ['='] else " = ".toList
      joinWith eq (ts.map (Target.text p) ++ [v.text p])
  | .ret e => "return ".toList ++ e.text p

def Simple.reads : Simple → List S
  | .expr e => e.reads
  | .assign _ ts v => v.reads ++ ts.flatMap Target.reads
  | .ret e => e.reads

def Simple.writes : Simple → List S
  | .assign _ ts _ => ts.flatMap Target.writes
  | _ => []

/-- layer 0: one physical line holding simple statements separated by `sep` -/
structure L0 where
  parts : List Simple
  sep : S := "; ".toList
  deriving Repr, DecidableEq, Inhabited

/-- layer 1: a line, or a `for` over lines -/
inductive L1
  | line (l : L0)
  | for_ (targets : List S) (iter : Expr) (body : List L0)
  deriving Repr, DecidableEq, Inhabited

/-- layer 2: a layer-1 statement, or `if c: … [else: …]` over layer-1 statements -/
inductive L2
  | s (x : L1)
  | if_ (c : Expr) (thn : List L1) (els : Option (List L1))
  deriving Repr, DecidableEq, Inhabited

def indent (lvl : Nat) : S := List.replicate (2 * lvl) ' '

def L0.render (p : Char → Bool) (lvl : Nat) (l : L0) : S := indent lvl ++ joinWith l.sep (l.parts.map (Simple.text p))

def L1.render (p : Char → Bool) (lvl : Nat) : L1 → List S
  | .line l => [l.render p lvl]
  | .for_ ts it body =>
      (indent lvl ++ "for ".toList ++ joinWith ", ".toList ts ++ " in ".toList ++ it.text p ++ [':'])
        :: body.map (L0.render p (lvl + 1))

def L2.render (p : Char → Bool) (lvl : Nat) : L2 → List S
  | .s x => x.render p lvl
  | .if_ c thn els =>
      (indent lvl ++ "if ".toList ++ c.text p ++ [':']) :: thn.flatMap (L1.render p (lvl + 1))
        ++ (match els with
            | none => []
            | some e => (indent lvl ++ "else:".toList) :: e.flatMap (L1.render p (lvl + 1)))

/-- the body text (`FunctionBuilder` joins the lines with a newline; the function body sits at level 1) -/
def renderBody (p : Char → Bool) (b : List L2) : S := joinWith ['\n'] (b.flatMap (L2.render p 1))

/-! ### scoping -/

def L0.writes (l : L0) : List S := l.parts.flatMap Simple.writes

def L1.writes : L1 → List S
  | .line l => l.writes
  | .for_ ts _ body => ts ++ body.flatMap L0.writes

def L2.writes : L2 → List S
  | .s x => x.writes
  | .if_ _ thn els => thn.flatMap L1.writes ++ (els.getD []).flatMap L1.writes

structure Scope where
  locals : List S       -- parameters and every name assigned anywhere in the body
  outer : List S        -- closure names and builtins

/-- Python's rule: a name assigned anywhere in the body is local and must be definitely assigned before it is read;
any other name must come from the closure or the builtins -/
def Scope.readOkPy (sc : Scope) (asg : List S) (n : S) : Bool :=
  if sc.locals.contains n then asg.contains n else sc.outer.contains n

/-- may `n` be read when `asg` is definitely assigned?  (Equal to `readOkPy` whenever `asg ⊆ locals` — which the checker
maintains, since it only ever adds names the body writes: `readOk_eq_py`.) -/
def Scope.readOk (sc : Scope) (asg : List S) (n : S) : Bool :=
  asg.contains n || (!sc.locals.contains n && sc.outer.contains n)

def Scope.readsOk (sc : Scope) (asg : List S) (ns : List S) : Bool := ns.all (sc.readOk asg)

/-- simple statements run left to right; `none` = a name is read that is not (yet) bound -/
def checkSimples (sc : Scope) : List S → List Simple → Option (List S)
  | asg, [] => some asg
  | asg, s :: r => if sc.readsOk asg s.reads then checkSimples sc (s.writes ++ asg) r else none

def L0.check (sc : Scope) (asg : List S) (l : L0) : Option (List S) := checkSimples sc asg l.parts

def checkL0s (sc : Scope) : List S → List L0 → Option (List S)
  | asg, [] => some asg
  | asg, l :: r => match l.check sc asg with
    | some a => checkL0s sc a r
    | none => none

/-- a `for` body may run zero times: nothing it assigns is definitely assigned afterwards -/
def L1.check (sc : Scope) (asg : List S) : L1 → Option (List S)
  | .line l => l.check sc asg
  | .for_ ts it body =>
      if sc.readsOk asg it.reads then
        match checkL0s sc (ts ++ asg) body with
        | some _ => some asg
        | none => none
      else none

def checkL1s (sc : Scope) : List S → List L1 → Option (List S)
  | asg, [] => some asg
  | asg, l :: r => match l.check sc asg with
    | some a => checkL1s sc a r
    | none => none

/-- after `if / else` a name is definitely assigned when both branches assign it -/
def L2.check (sc : Scope) (asg : List S) : L2 → Option (List S)
  | .s x => x.check sc asg
  | .if_ c thn els =>
      if sc.readsOk asg c.reads then
        match checkL1s sc asg thn, (match els with | none => some asg | some e => checkL1s sc asg e) with
        | some a, some b => some (a.filter b.contains)
        | _, _ => none
      else none

def checkL2s (sc : Scope) : List S → List L2 → Option (List S)
  | asg, [] => some asg
  | asg, l :: r => match l.check sc asg with
    | some a => checkL2s sc a r
    | none => none

/-! ### the same checker with Python's rule taken literally (`readOkPy`); `DW/Lemmas/GenDump.lean` shows the two agree on
every body whose scope lists its written names as locals -/

def Scope.readsOkPy (sc : Scope) (asg : List S) (ns : List S) : Bool := ns.all (sc.readOkPy asg)

def checkSimplesPy (sc : Scope) : List S → List Simple → Option (List S)
  | asg, [] => some asg
  | asg, s :: r => if sc.readsOkPy asg s.reads then checkSimplesPy sc (s.writes ++ asg) r else none

def checkL0sPy (sc : Scope) : List S → List L0 → Option (List S)
  | asg, [] => some asg
  | asg, l :: r => match checkSimplesPy sc asg l.parts with
    | some a => checkL0sPy sc a r
    | none => none

def L1.checkPy (sc : Scope) (asg : List S) : L1 → Option (List S)
  | .line l => checkSimplesPy sc asg l.parts
  | .for_ ts it body =>
      if sc.readsOkPy asg it.reads then
        match checkL0sPy sc (ts ++ asg) body with
        | some _ => some asg
        | none => none
      else none

def checkL1sPy (sc : Scope) : List S → List L1 → Option (List S)
  | asg, [] => some asg
  | asg, l :: r => match l.checkPy sc asg with
    | some a => checkL1sPy sc a r
    | none => none

def L2.checkPy (sc : Scope) (asg : List S) : L2 → Option (List S)
  | .s x => x.checkPy sc asg
  | .if_ c thn els =>
      if sc.readsOkPy asg c.reads then
        match checkL1sPy sc asg thn, (match els with | none => some asg | some e => checkL1sPy sc asg e) with
        | some a, some b => some (a.filter b.contains)
        | _, _ => none
      else none

def checkL2sPy (sc : Scope) : List S → List L2 → Option (List S)
  | asg, [] => some asg
  | asg, l :: r => match l.checkPy sc asg with
    | some a => checkL2sPy sc a r
    | none => none

/-! ### the generator -/

/-- a component of a JSON path (`split_object_path`): spliced as `[{p!r}]` -/
inductive PathPart | str (s : S) | int (i : Int) | bool (b : Bool)
  deriving Repr, DecidableEq, Inhabited

/-- the resolved dump key of a field in `dataclass_field_to_json_field`: `ExplicitNull` (not dumped), a key, or `''`
with a registered path -/
inductive GKey | null | key (k : S) | path (ps : List PathPart)
  deriving Repr, DecidableEq, Inhabited

/-- the comparison value of a `Condition`, as far as the generator looks at it -/
inductive CVal | none | true_ | false_ | ellipsis | int (i : Int) | str (s : S) | other
  deriving Repr, DecidableEq, Inhabited

structure GCond where
  op : COp
  val : CVal
  deriving Repr, DecidableEq, Inhabited

structure GField where
  name : S
  hasDefault : Bool := false
  key : GKey
  skipIf : Option GCond := none
  isCatchAll : Bool := false          -- `has_catch_all and catch_all_field == field`
  deriving Repr, DecidableEq, Inhabited

/-- everything `dump_func_for_dataclass` reads before it writes the function -/
structure GIn where
  fields : List GField
  skipDefaults : Bool := false        -- `meta.skip_defaults`
  skipIf : Option GCond := none       -- `meta.skip_if`
  skipDefaultsIf : Option GCond := none
  tag : Option S := none
  tagKey : S := "__tag__".toList
  preDict : Bool := false             -- the class defines `_pre_dict`
  extraPaths : Bool := false          -- a path is registered for a field that is not dumped under it
  deriving Repr, DecidableEq, Inhabited

def PathPart.lit : PathPart → LitV
  | .str s => .str s
  | .int i => .int i
  | .bool b => if b then .true_ else .false_

def COp.tOrF : COp → Bool
  | .truthy => true | .falsy => true | _ => false

def COp.identity : COp → Bool
  | .is_ => true | .isNot => true | _ => false

/-- `get_skip_if_condition`: is the comparison value written into the source (its text), or bound in the closure? -/
def GCond.inlineText (printable : Char → Bool) (c : GCond) : Option S :=
  match c.val with
  | .none => some "None".toList
  | .true_ => some "True".toList
  | .false_ => some "False".toList
  | .ellipsis => some "Ellipsis".toList
  | .int i => if c.op.identity then Option.none else some (intRepr i)
  | .str s => if c.op.identity then Option.none else some (pyRepr printable s)
  | .other => Option.none

/-- the inlined comparison value as an expression (`Ellipsis` is a builtin *name*, the rest are literals) -/
def GCond.inlineExpr (c : GCond) : Option Expr :=
  match c.val with
  | .none => some (.lit .none)
  | .true_ => some (.lit .true_)
  | .false_ => some (.lit .false_)
  | .ellipsis => some (.name "Ellipsis".toList)
  | .int i => if c.op.identity then Option.none else some (.lit (.int i))
  | .str s => if c.op.identity then Option.none else some (.lit (.str s))
  | .other => Option.none

/-- does `get_skip_if_condition(c, _locals, operand2)` bind `operand2` in the closure? -/
def GCond.binds (printable : Char → Bool) (c : GCond) : Bool :=
  !c.op.tOrF && c.inlineExpr.isNone

/-- `finalize_skip_if(c, operand1, get_skip_if_condition(c, _locals, operand2))` -/
def GCond.final (printable : Char → Bool) (c : GCond) (operand1 : Expr) (operand2 : S) : Expr :=
  match c.op with
  | .truthy => operand1
  | .falsy => .not_ operand1
  | op =>
    match c.inlineExpr with
    | some e => .bin operand1 (.cmp op) e
    | Option.none => .bin operand1 (.cmp op) (.name operand2)

def skipName (i : Nat) : S := "_skip_".toList ++ dec i
def skipIfName (i : Nat) : S := "_skip_if_".toList ++ dec i
def defaultName (i : Nat) : S := "_default_".toList ++ dec i
def skipValue : S := "_skip_value".toList
def skipDefaultsValue : S := "_skip_defaults_value".toList

def nm (s : String) : Expr := .name s.toList
def oAttr (f : S) : Expr := .attr (nm "o") f

/-- `asdict(<e>,dict_factory,hooks,config,cls_to_asdict)` -/
def asdictOf (e : Expr) : Expr := .call5 (nm "asdict") e (nm "dict_factory") (nm "hooks") (nm "config") (nm "cls_to_asdict")

/-- the condition in front of field `i`'s entry: `exclude` / skip-defaults bookkeeping, then the field's own `SkipIf`
or else `Meta.skip_if` -/
def fieldCond (printable : Char → Bool) (g : GIn) (i : Nat) (f : GField) : Expr :=
  let sk : Expr := .name (skipName i)
  match f.skipIf with
  | some c => .not_ (.paren (.bin sk .or_ (c.final printable (oAttr f.name) (skipIfName i))))
  | none =>
    match g.skipIf with
    | some c => .not_ (.paren (.bin sk .or_ (c.final printable (oAttr f.name) skipValue)))
    | none => .not_ sk

/-- `result.append((<k>,asdict(<v>,…)))` -/
def appendStmt (k v : Expr) : Simple :=
  .expr (.call1 (.attr (nm "result") "append".toList) (.pair k (asdictOf v)))

/-- the `if …:` block of field `i` (`field_assignments`) -/
def fieldStmt (printable : Char → Bool) (g : GIn) (i : Nat) (f : GField) : List L2 :=
  match f.key with
  | .null =>
    if f.isCatchAll then
      let sk : Expr := .name (skipName i)
      let c : Expr := if f.hasDefault
        then .bin (.bin (oAttr f.name) (.cmp .ne) (.name (defaultName i))) .and_ (.not_ sk)
        else .not_ sk
      [.if_ c [.for_ ["k".toList, "v".toList] (.call0 (.attr (oAttr f.name) "items".toList))
                [{ parts := [appendStmt (nm "k") (nm "v")] }]] none]
    else []
  | .key key =>
    [.if_ (fieldCond printable g i f) [.line { parts := [appendStmt (.lit (.str key)) (oAttr f.name)] }] none]
  | .path ps =>
    [.if_ (fieldCond printable g i f)
      [.line { parts := [.assign false [.item "paths".toList (ps.map PathPart.lit)] (asdictOf (oAttr f.name))] }] none]

def fieldStmts (printable : Char → Bool) (g : GIn) : Nat → List GField → List L2
  | _, [] => []
  | i, f :: r => fieldStmt printable g i f ++ fieldStmts printable g (i + 1) r

/-- the test of a skip-defaults line: `Meta.skip_defaults_if` on the value, or equality with the default -/
def sdRhs (printable : Char → Bool) (g : GIn) (i : Nat) (f : GField) : Expr :=
  match g.skipDefaultsIf with
  | some c => c.final printable (oAttr f.name) skipDefaultsValue
  | none => .bin (oAttr f.name) (.cmp .eq) (.name (defaultName i))

/-- `skip_default_assignments` -/
def skipDefaultLines (printable : Char → Bool) (g : GIn) : Nat → List GField → List L1
  | _, [] => []
  | i, f :: r =>
    (if f.hasDefault then
      [L1.line { parts := [.assign false [.name (skipName i)] (.bin (.name (skipName i)) .or_ (sdRhs printable g i f))] }]
    else []) ++ skipDefaultLines printable g (i + 1) r

def skipTargets : Nat → List GField → List Target
  | _, [] => []
  | i, _ :: r => .name (skipName i) :: skipTargets (i + 1) r

def excludeAssigns (printable : Char → Bool) : Nat → List GField → List Simple
  | _, [] => []
  | i, f :: r => .assign true [.name (skipName i)] (.bin (.lit (.str f.name)) .in_ (nm "exclude"))
      :: excludeAssigns printable (i + 1) r

def isPath : GKey → Bool
  | .path _ => true | _ => false

/-- `if meta.tag:` — an empty tag is no tag -/
def GIn.tagOn (g : GIn) : Option S := match g.tag with | some t => if t.isEmpty then none else some t | none => none

/-- `meta.tag_key or TAG` -/
def GIn.effTagKey (g : GIn) : S := if g.tagKey.isEmpty then "__tag__".toList else g.tagKey

def GIn.hasPaths (g : GIn) : Bool := g.extraPaths || g.fields.any (fun f => isPath f.key)

/-- `if skip_defaults:` with the skip-defaults lines (nothing when no field has a default) -/
def sdBlock (printable : Char → Bool) (g : GIn) : List L2 :=
  match skipDefaultLines printable g 0 g.fields with
  | [] => []
  | ls => [L2.if_ (nm "skip_defaults") ls none]

/-- the last lines: the tag entry when the class has a tag, and the `return` -/
def tailStmts (g : GIn) : List L2 :=
  match g.tagOn with
  | some t =>
    [L2.s (.line { parts := [.assign false [.name "result".toList] (.call1 (nm "dict_factory") (nm "result"))] }),
     L2.s (.line { parts := [.assign false [.item "result".toList [.str g.effTagKey]] (.lit (.str t))] }),
     L2.s (.line { parts := [.ret (nm "result")] })]
  | none => [L2.s (.line { parts := [.ret (.call1 (nm "dict_factory") (nm "result"))] })]

/-- the body of `cls_asdict` -/
def genBody (printable : Char → Bool) (g : GIn) : List L2 :=
  (if g.preDict then [L2.s (.line { parts := [.expr (.call1 (nm "__pre_dict__") (nm "o"))] })] else [])
  ++ [L2.s (.line { parts := [.assign false [.name "result".toList] .emptyList] })]
  ++ (if g.hasPaths then [L2.s (.line { parts := [.assign false [.name "paths".toList] (.call0 (nm "NestedDict"))] })] else [])
  ++ (if g.fields.isEmpty then [] else
      [L2.if_ (.bin (nm "exclude") (.cmp .is_) (.lit .none))
          [.line { parts := [.assign true (skipTargets 0 g.fields) (.lit .false_)] }]
          (some [.line { parts := excludeAssigns printable 0 g.fields, sep := [';'] }])]
      ++ sdBlock printable g
      ++ fieldStmts printable g 0 g.fields)
  ++ (if g.hasPaths then
        [L2.s (.line { parts := [.expr (.bin (nm "result") .and_ (.call1 (.attr (nm "paths") "update".toList) (nm "result"))),
                                 .assign false [.name "result".toList] (nm "paths")] })]
      else [])
  ++ tailStmts g

def genCode (printable : Char → Bool) (g : GIn) : S := renderBody printable (genBody printable g)

/-- `skip_defaults = True if meta.skip_defaults or meta.skip_defaults_if else False` -/
def GIn.skipDefaultsFlag (g : GIn) : Bool := g.skipDefaults || g.skipDefaultsIf.isSome

def genArgs (g : GIn) : List S :=
  ["o".toList, "dict_factory=dict".toList, "exclude:'list[str]|None'=None".toList,
   "skip_defaults:bool=".toList ++ (if g.skipDefaultsFlag then "True".toList else "False".toList)]

def params : List S := ["o".toList, "dict_factory".toList, "exclude".toList, "skip_defaults".toList]

/-- closure entries a field adds, in the order the generator adds them.  `catchAllDefaultBound` is the repair of the
defect the scope theorem exposed (a catch-all field with a default is compared with `_default_i`, which the
generator bound only on the path without `Meta.skip_defaults_if`). -/
def fieldLocals (printable : Char → Bool) (catchAllDefaultBound : Bool) (g : GIn) (i : Nat) (f : GField) : List S :=
  (if f.hasDefault && (g.skipDefaultsIf.isNone || (catchAllDefaultBound && f.isCatchAll && f.key == .null))
    then [defaultName i] else [])
  ++ (match f.key, f.skipIf with
      | .null, _ => []
      | _, some c => if c.binds printable then [skipIfName i] else []
      | _, none => [])

def fieldsLocals (printable : Char → Bool) (fix : Bool) (g : GIn) : Nat → List GField → List S
  | _, [] => []
  | i, f :: r => fieldLocals printable fix g i f ++ fieldsLocals printable fix g (i + 1) r

/-- the closure entry of a Meta-level condition: bound under `name` unless the value is written into the source -/
def condLocals (printable : Char → Bool) (c : Option GCond) (name : S) : List S :=
  match c with
  | some c => if c.binds printable then [name] else []
  | none => []

/-- the ordered keys of `_locals` when `create_functions` runs = the parameters of `__create_cls_asdict_fn__` -/
def genLocalsQ (printable : Char → Bool) (fix : Bool) (g : GIn) : List S :=
  ["config".toList, "asdict".toList, "hooks".toList, "cls_to_asdict".toList]
  ++ condLocals printable g.skipIf skipValue
  ++ condLocals printable g.skipDefaultsIf skipDefaultsValue
  ++ (if g.preDict then ["__pre_dict__".toList] else [])
  ++ (if g.hasPaths then ["NestedDict".toList] else [])
  ++ fieldsLocals printable fix g 0 g.fields
  ++ ["__dataclass_cls_asdict_return_type__".toList]

/-- the closure of the function the current library generates -/
def genLocals (printable : Char → Bool) (g : GIn) : List S := genLocalsQ printable true g

/-- the only builtin the template can read (the inlined comparison value `...`) -/
def builtinsRead : List S := ["Ellipsis".toList]

/-- the scope `cls_asdict` is compiled in (its globals are empty) -/
def genScopeQ (printable : Char → Bool) (fix : Bool) (g : GIn) : Scope :=
  { locals := params ++ (genBody printable g).flatMap L2.writes
    outer := genLocalsQ printable fix g ++ builtinsRead }

def genScope (printable : Char → Bool) (g : GIn) : Scope := genScopeQ printable true g

/-- is the generated function well scoped? -/
def wellScopedQ (printable : Char → Bool) (fix : Bool) (g : GIn) : Bool :=
  (checkL2s (genScopeQ printable fix g) params (genBody printable g)).isSome

def wellScoped (printable : Char → Bool) (g : GIn) : Bool := wellScopedQ printable true g

/-- is the generated function well scoped under Python's rule taken literally? -/
def wellScopedPy (printable : Char → Bool) (g : GIn) : Bool :=
  (checkL2sPy (genScope printable g) params (genBody printable g)).isSome

/-- all names read / written anywhere (compared with Python's `symtable` analysis of the real source) -/
def L0.allReads (l : L0) : List S := l.parts.flatMap Simple.reads
def L1.allReads : L1 → List S
  | .line l => l.allReads
  | .for_ _ it body => it.reads ++ body.flatMap L0.allReads
def L2.allReads : L2 → List S
  | .s x => x.allReads
  | .if_ c thn els => c.reads ++ thn.flatMap L1.allReads ++ (els.getD []).flatMap L1.allReads

end DW.GenDump
