/-
Value universe of the model: what a caller hands to `from_dict` (`JVal`), what a dataclass field
holds (`PyVal`), what `asdict` returns (`DVal`), and the type grammar (`Ty`).

Strings are `List Char` (abbrev `S`).  Finite floats are carried *exactly* as `±m·10^e`
(every IEEE double has a finite decimal expansion; the harness computes it with
`decimal.Decimal(x)`), together with their `repr`.
-/
import DW.Model.Strings

namespace DW
open DW.Str

abbrev S := List Char

/-- A Python `float`. `fin neg m e r` is the double whose exact value is `(-1)^neg · m · 10^e`
and whose `repr()` is `r`. -/
inductive PyFloat
  | nan | inf | ninf
  | fin (neg : Bool) (m : Nat) (e : Int) (repr : S)
  deriving Repr, DecidableEq, Inhabited

namespace PyFloat

/-- `m · 10^e` is an integer -/
def finIsInteger (m : Nat) (e : Int) : Bool :=
  if e ≥ 0 then true else m % (10 ^ e.natAbs) = 0

def isInteger : PyFloat → Bool
  | fin _ m e _ => finIsInteger m e
  | _ => false

/-- truncation toward zero of `m·10^e` (the magnitude) -/
def finTrunc (m : Nat) (e : Int) : Nat :=
  if e ≥ 0 then m * 10 ^ e.toNat else m / (10 ^ e.natAbs)

/-- round-half-even of the magnitude `m·10^e` -/
def finRoundHalfEven (m : Nat) (e : Int) : Nat :=
  if e ≥ 0 then m * 10 ^ e.toNat
  else
    let d := 10 ^ e.natAbs
    let q := m / d
    let r := m % d
    if 2 * r < d then q
    else if 2 * r > d then q + 1
    else if q % 2 = 0 then q else q + 1

def sign (neg : Bool) (n : Nat) : Int := if neg then - (Int.ofNat n) else Int.ofNat n

/-- Python `int(f)`; `none` = OverflowError / ValueError (inf, nan). -/
def toInt : PyFloat → Option Int
  | fin neg m e _ => some (sign neg (finTrunc m e))
  | _ => none

/-- Python `round(f)`; `none` = OverflowError / ValueError. -/
def round : PyFloat → Option Int
  | fin neg m e _ => some (sign neg (finRoundHalfEven m e))
  | _ => none

/-- Python `f == 1` -/
def eqOne : PyFloat → Bool
  | fin false m e _ => finIsInteger m e && finTrunc m e = 1
  | _ => false

def isZero : PyFloat → Bool
  | fin _ m _ _ => m = 0
  | _ => false

/-- Python `f == i` for an int `i` -/
def eqInt (f : PyFloat) (i : Int) : Bool :=
  match f with
  | fin neg m e _ => finIsInteger m e && sign neg (finTrunc m e) = i
  | _ => false

def reprOf : PyFloat → S
  | nan => "nan".toList
  | inf => "inf".toList
  | ninf => "-inf".toList
  | fin _ _ _ r => r

end PyFloat

/-- literal-like simple values (Enum member values, `Literal[...]` members, simple defaults) -/
inductive Lit
  | none | bool (b : Bool) | int (i : Int) | float (f : PyFloat) | str (s : S)
  deriving Repr, DecidableEq, Inhabited

/-- What `json.loads` / a Python caller hands to `from_dict`. Dict keys are strings, unique,
insertion-ordered. -/
inductive JVal
  | null
  | bool (b : Bool)
  | int (i : Int)
  | float (f : PyFloat)
  | str (s : S)
  | list (xs : List JVal)
  | dict (kvs : List (S × JVal))
  deriving Repr, Inhabited

inductive LeafKind | decimal | path | uuid | date | time | datetime
  deriving Repr, DecidableEq, Inhabited

inductive SeqKind | list | set | frozenset | deque
  deriving Repr, DecidableEq, Inhabited

inductive MapKind | dict | defaultdict | ordereddict
  deriving Repr, DecidableEq, Inhabited

inductive LetterCaseOpt | camel | pascal | lisp | snake | none
  deriving Repr, DecidableEq, Inhabited

def LetterCaseOpt.toLC : LetterCaseOpt → LetterCase
  | .camel => .camel | .pascal => .pascal | .lisp => .lisp | .snake => .snake | .none => .none

/-- comparison operators of `models.Condition` -/
inductive CondOp | eq | ne | lt | le | gt | ge | is_ | isNot | truthy | falsy
  deriving Repr, DecidableEq, Inhabited

structure Cond where
  op : CondOp
  val : Lit
  deriving Repr, DecidableEq, Inhabited

/-- `v1_key_case` -/
inductive KeyCaseOpt | camel | pascal | kebab | snake | auto
  deriving Repr, DecidableEq, Inhabited

/-- `v1_on_unknown_key` -/
inductive KeyAct | ignore | raise | warn
  deriving Repr, DecidableEq, Inhabited

/-- Own attributes of a `Meta` (unset = `none`), restricted to what the model interprets. -/
structure MetaCfg where
  keyTransformLoad : Option LetterCaseOpt := none
  keyTransformDump : Option LetterCaseOpt := none
  marshalTimestamp : Option Bool := none       -- marshal_date_time_as: some true = TIMESTAMP, some false = ISO_FORMAT
  skipDefaults : Option Bool := none
  skipIf : Option Cond := none
  skipDefaultsIf : Option Cond := none
  raiseOnUnknown : Option Bool := none
  tagKey : Option S := none
  autoAssignTags : Option Bool := none
  recursiveClasses : Option Bool := none
  v1 : Option Bool := none
  v1KeyCase : Option KeyCaseOpt := none
  v1OnUnknown : Option KeyAct := none
  v1Unsafe : Option Bool := none
  -- special (never merged)
  tag : Option S := none
  recursive : Option Bool := none
  deriving Repr, DecidableEq, Inhabited

/-- simple default values (`default=` or the product of `default_factory`) -/
inductive Dflt
  | lit (l : Lit)
  | emptyList | emptyDict | emptySet | emptyTuple
  deriving Repr, DecidableEq, Inhabited

/-- everything the library knows about one dataclass field apart from its type -/
structure FieldInfo where
  name : S
  dflt : Option Dflt := none          -- default / default_factory product
  isFactory : Bool := false
  init : Bool := true
  loadKeys : List S := []             -- json_field/json_key keys (load aliases)
  dumpAll : Bool := false             -- all=True: first key is also the dump key
  dumpSkip : Bool := false            -- dump=False
  skipIf : Option Cond := none        -- SkipIf / skip_if_field
  isCatchAll : Bool := false
  postInit : Option Lit := none       -- value assigned by `__post_init__` (init=False fields without default)
  deriving Repr, DecidableEq, Inhabited

/-- Non-type description of a dataclass: carried by `Ty.cls` *and* by every instance
(`PyVal.inst`), the way a Python object carries its class. -/
structure ClassInfo where
  name : S
  fields : List FieldInfo
  cmeta : Option MetaCfg := none      -- the class's own Meta (none = no Meta declared)
  isWizard : Bool := true             -- JSONWizard subclass (dump default CAMEL via DumpMixin either way)
  deriving Repr, DecidableEq, Inhabited

/-- Python-side values (field values of instances; results of load). -/
inductive PyVal
  | none
  | bool (b : Bool)
  | int (i : Int)
  | float (f : PyFloat)
  | str (s : S)
  | bytes (mutable : Bool) (b : List Nat)            -- bytes / bytearray
  | leaf (k : LeafKind) (sub : Bool) (tok : S)       -- Decimal / Path / UUID / date / time / datetime by canonical text;
                                                     -- `sub`: the runtime type is a proper subclass of the stdlib class
  | timedelta (us : Int)                             -- total microseconds
  | enum (cls : S) (member : S) (value : Lit)
  | seq (k : SeqKind) (xs : List PyVal)
  | tuple (xs : List PyVal)
  | map (k : MapKind) (kvs : List (PyVal × PyVal))
  | ntuple (cls : S) (names : List S) (xs : List PyVal)
  | inst (ci : ClassInfo) (fields : List (S × PyVal))
  deriving Repr, Inhabited

/-- What `asdict` returns. -/
inductive DVal
  | null
  | bool (b : Bool)
  | int (i : Int)
  | float (f : PyFloat)
  | str (s : S)
  | list (xs : List DVal)
  | tuple (xs : List DVal)
  | ntuple (cls : S) (xs : List DVal)
  | dict (ordered : Bool) (kvs : List (DVal × DVal))     -- ordered = OrderedDict
  | bad (tag : S)                                         -- an object json.dumps would refuse
  deriving Repr, Inhabited

/-- The type grammar. Dataclasses are inline (finite trees): a recursive dataclass is
represented by its finite unfoldings, one of which contains any given finite value. -/
inductive Ty
  | any | none | bool | int | float | str | bytes | bytearray
  | leaf (k : LeafKind)
  | timedelta
  | enum (name : S) (members : List (S × Lit))
  | literal (vs : List Lit)
  | optional (t : Ty)
  | union (ts : List Ty)
  | seq (k : SeqKind) (t : Ty)
  | tuple (ts : List Ty)
  | vtuple (t : Ty)
  | map (k : MapKind) (kt vt : Ty)
  | ntuple (name : S) (fields : List (S × Ty × Option Dflt))
  | typeddict (name : S) (fields : List (S × Ty × Bool))        -- (key, type, required)
  | cls (ci : ClassInfo) (ftys : List (S × Ty))
  deriving Repr, Inhabited

def Lit.toPy : Lit → PyVal
  | .none => .none | .bool b => .bool b | .int i => .int i | .float f => .float f | .str s => .str s

def Lit.toJ : Lit → JVal
  | .none => .null | .bool b => .bool b | .int i => .int i | .float f => .float f | .str s => .str s

def Lit.toD : Lit → DVal
  | .none => .null | .bool b => .bool b | .int i => .int i | .float f => .float f | .str s => .str s

def Dflt.toPy : Dflt → PyVal
  | .lit l => l.toPy
  | .emptyList => .seq .list []
  | .emptyDict => .map .dict []
  | .emptySet => .seq .set []
  | .emptyTuple => .tuple []

end DW
