/-
Semantic model of the v1 load engine (`v1/loaders.py`): what the generated expressions and helper
functions compute, per annotation; the generated per-class function (key lookup by alias / key case / AUTO,
unknown-key accounting, MissingFields) and the `re_raise` error conversion.
Recursion is structural on the type expression.
-/
import DW.Generated.Tables
import DW.Model.Load

namespace DW
open DW.Str

/-- every exception raised while converting a field value is turned into a ParseError by `re_raise`;
library errors (MissingFields, UnknownKeysError, ParseError, MissingData) pass through -/
def v1Wrap (e : LErr) : LErr :=
  match e with
  | .raw _ => .parse none none
  | e => e

def perr {α} : Except LErr α := .error (.parse none none)

/-! ### scalar templates -/

def v1Str : JVal → LRes
  | .null => pure (.str [])
  | o => asStr o

/-- `load_to_int` template + `as_int_v1` -/
def v1Int (std : Std) : JVal → LRes
  | .int i => pure (.int i)
  | .str s =>
    if s.contains '.' then
      match std.floatOfStr s with
      | none => perr
      | some f => if f.isInteger then (match f.toInt with | some i => pure (.int i) | none => perr) else perr
    else match ObjPath.pyIntOfStr s with
      | some i => pure (.int i)
      | none => perr
  | .float f => if f.isInteger then (match f.toInt with | some i => pure (.int i) | none => perr) else perr
  | _ => perr

def v1Float (std : Std) (o : JVal) : LRes := (asFloat std o).mapError v1Wrap

def v1Bool : JVal → LRes
  | .str s => pure (.bool (isTruthyStr s))
  | .bool b => pure (.bool b)
  | .int i => pure (.bool (i == 1))
  | .float f => pure (.bool f.eqOne)
  | _ => pure (.bool false)

def v1Bytes (std : Std) (mutable : Bool) : JVal → LRes
  | .str s => match std.b64decode s with
    | some b => pure (.bytes mutable b)
    | none => perr
  | _ => perr

def v1Decimal (std : Std) : JVal → LRes
  | .str s => match std.decimalOfStr s with | some t => pure (.leaf .decimal false t) | none => perr
  | .int i => match std.decimalOfStr (intRepr i) with | some t => pure (.leaf .decimal false t) | none => perr
  | .float f => match std.decimalOfStr f.reprOf with | some t => pure (.leaf .decimal false t) | none => perr
  | .bool b => match std.decimalOfStr (if b then ['1'] else ['0']) with | some t => pure (.leaf .decimal false t) | none => perr
  | _ => perr

def v1Path (std : Std) : JVal → LRes
  | .str s => pure (.leaf .path false (std.pathOfStr s))
  | _ => perr

def v1Uuid (std : Std) : JVal → LRes
  | .str s => match std.uuidOfStr s with | some t => pure (.leaf .uuid false t) | none => perr
  | _ => perr

/-- numbers accepted by `fromtimestamp` (a bool is an int here) -/
def jNumLoose? : JVal → Option Num
  | .int i => some (.int i)
  | .float f => some (.float f)
  | .bool b => some (.int (if b then 1 else 0))
  | _ => none

def v1Date (std : Std) : JVal → LRes
  | .str s => match std.dateFromIso s with | some t => pure (.leaf .date false t) | none => perr
  | o => match jNumLoose? o with
    | some n => match std.dateFromTs n with | some t => pure (.leaf .date false t) | none => perr
    | none => perr

/-- a numeric timestamp is read with `fromtimestamp(o, None)`: naive local time -/
def v1Datetime (std : Std) : JVal → LRes
  | .str s => match std.datetimeFromIso s with | some t => pure (.leaf .datetime false t) | none => perr
  | o => match jNumLoose? o with
    | some n => match std.datetimeFromTsLocal n with | some t => pure (.leaf .datetime false t) | none => perr
    | none => perr

def v1Time (std : Std) : JVal → LRes
  | .str s => match std.timeFromIso s with | some t => pure (.leaf .time false t) | none => perr
  | _ => perr

def v1Timedelta (std : Std) (o : JVal) : LRes := (asTimedelta std o).mapError v1Wrap

def v1Enum (name : S) (members : List (S × Lit)) (o : JVal) : LRes := (asEnum name members o).mapError v1Wrap

/-- the JSON value has the Python type of the Literal member -/
def jSameType : JVal → Lit → Bool
  | .null, .none => true
  | .bool _, .bool _ => true
  | .int _, .int _ => true
  | .float _, .float _ => true
  | .str _, .str _ => true
  | _, _ => false

/-- `if (v1, type(v1)) in typed_fields: return v1` (since fix af98f53 members match by value *and* type; the *input* value
is returned) -/
def v1Literal (vs : List Lit) (o : JVal) : LRes :=
  if !o.hashable then perr
  else if vs.any (fun l => jEqLit o l && jSameType o l) then pure o.toPy else perr

/-- `v1[k]` -/
def jIndex (o : JVal) (k : Nat) : Option JVal :=
  match o with
  | .list xs => xs[k]?
  | .str s => (s[k]?).map (fun c => JVal.str [c])
  | _ => none

/-- is the member one of `_SIMPLE_TYPES` (exact-type fast path inside a Union) -/
def isSimpleTy : Ty → Bool
  | .none | .bool | .int | .float | .str | .bytes => true
  | _ => false

def exactKind : Ty → Option JKind
  | .bool => some .bool | .int => some .int | .float => some .float | .str => some .str
  | _ => none

/-- the v1 key a field is looked up under, in order of preference -/
def v1Keys (eff : MetaCfg) (fi : FieldInfo) : List S :=
  if !fi.loadKeys.isEmpty then fi.loadKeys
  else match eff.v1KeyCase with
    | none => [fi.name]
    | some .auto => fi.name :: (possibleJsonKeys fi.name).getD []
    | some .camel => [(toCamel fi.name).getD fi.name]
    | some .pascal => [(toPascal fi.name).getD fi.name]
    | some .kebab => [toLisp fi.name]
    | some .snake => [toSnake fi.name]

def lookupFirst (kvs : List (S × JVal)) : List S → Option JVal
  | [] => none
  | k :: r => match kvs.find? (fun kv => kv.1 == k) with
    | some kv => some kv.2
    | none => lookupFirst kvs r

def v1SetAttr (cls field : S) : LErr → LErr
  | .raw _ => .parse (some cls) (some field)
  | .parse c f => .parse (c <|> some cls) (f <|> some field)
  | .missingData c f n => .missingData (c <|> some cls) (f <|> some field) n
  | e => e

/-- per-field results of the generated class function, in field order -/
def v1Fields (fieldLoader : S → JVal → LRes) (eff : MetaCfg) (ci : ClassInfo) (kvs : List (S × JVal)) :
    List FieldInfo → Except LErr (List (S × PyVal) × Nat)
  | [] => pure ([], 0)
  | fi :: r =>
    if !fi.init || fi.isCatchAll then v1Fields fieldLoader eff ci kvs r
    else
      match lookupFirst kvs (v1Keys eff fi) with
      | none => v1Fields fieldLoader eff ci kvs r
      | some v => do
          let y ← (fieldLoader fi.name v).mapError (v1SetAttr ci.name fi.name)
          let (kw, n) ← v1Fields fieldLoader eff ci kvs r
          pure ((fi.name, y) :: kw, n + 1)

/-! ### unknown-key accounting of the generated class function

`i` counts the constructor fields found in the document (plus the tag key of a tagged class when it is present);
`len(o) != i` is the fast-path test for "the document holds a key I do not know". -/

/-- the constructor fields the generated function loops over (`cls_init_fields` minus the catch-all field) -/
def v1InitFields (ci : ClassInfo) : List FieldInfo := ci.fields.filter (fun f => f.init && !f.isCatchAll)

def v1TagKey (eff : MetaCfg) : S := eff.tagKey.getD Generated.tagKey.toList

/-- `expect_tag_as_unknown_key`: the class carries a tag and no *constructor* field is named like the tag key
(an `init=False` attribute of that name does not count) -/
def v1ExpectTag (eff : MetaCfg) (ci : ClassInfo) : Bool := eff.tag.isSome && !(initFieldNames ci).contains (v1TagKey eff)

/-- all keys the generated function knows about (`aliases`): the whitelisted tag key and every key a constructor
field is looked up under -/
def v1KnownKeys (eff : MetaCfg) (ci : ClassInfo) : List S :=
  (if v1ExpectTag eff ci then [v1TagKey eff] else []) ++ (v1InitFields ci).flatMap (v1Keys eff)

def v1HasCatchAll (ci : ClassInfo) : Bool := ci.fields.any (·.isCatchAll)

/-- does the generated function count matched keys at all (`pre_assign`) -/
def v1Counting (eff : MetaCfg) (ci : ClassInfo) : Bool :=
  v1HasCatchAll ci || eff.v1OnUnknown == some .raise || eff.v1OnUnknown == some .warn

/-- `i` after the field loop, given the number of constructor fields found. The `if tag_key in o: i += 1` line sits inside
the `if cls_init_fields:` block: a class without constructor fields never counts its tag key. -/
def v1Matched (eff : MetaCfg) (ci : ClassInfo) (kvs : List (S × JVal)) (found : Nat) : Nat :=
  found + (if v1ExpectTag eff ci && v1Counting eff ci && !(v1InitFields ci).isEmpty
              && kvs.any (fun kv => kv.1 == v1TagKey eff) then 1 else 0)

/-- the pairs of the document whose key is not known, in document order -/
def v1Extra (eff : MetaCfg) (ci : ClassInfo) (kvs : List (S × JVal)) : List (S × JVal) :=
  kvs.filter (fun kv => !(v1KnownKeys eff ci).contains kv.1)

/-- `cls(**kw)` and the MissingFields conversion, for constructor arguments that already include the catch-all field -/
def finishKw (ci : ClassInfo) (kw : List (S × PyVal)) : LRes :=
  match missingInit ci (kw.map (·.1)) with
  | [] => do
      let fs ← buildFields kw ci.fields
      pure (.inst ci fs)
  | m :: ms => .error (.missingFields ci.name ((m :: ms).map (·.name)))

/-- the catch-all argument of the v1 function: a catch-all field without a plain default (none, or a default_factory) is
always passed (`{}` when `len(o) == i`); one with a plain default is assigned only when `len(o) != i` — then whatever the
comprehension yields, even `{}` -/
def v1WithCatchAll (ci : ClassInfo) (kwargs : List (S × PyVal)) (lenDiffers : Bool) (ca : List (PyVal × PyVal)) : List (S × PyVal) :=
  match ci.fields.find? (·.isCatchAll) with
  | none => kwargs
  | some cf =>
    if cf.dflt.isNone || cf.isFactory || lenDiffers then kwargs ++ [(cf.name, PyVal.map .dict (if lenDiffers then ca else []))]
    else kwargs

/-- what follows the field loop: UnknownKeysError under RAISE, else the catch-all comprehension and `cls(...)` -/
def v1Finish (eff : MetaCfg) (ci : ClassInfo) (kvs : List (S × JVal)) (kwargs : List (S × PyVal)) (found : Nat) : LRes :=
  if !v1HasCatchAll ci && eff.v1OnUnknown == some .raise && kvs.length != v1Matched eff ci kvs found then
    .error (.unknownKeys ci.name ((v1Extra eff ci kvs).map (·.1)))
  else
    finishKw ci (v1WithCatchAll ci kwargs (kvs.length != v1Matched eff ci kvs found)
      ((v1Extra eff ci kvs).map (fun kv => (PyVal.str kv.1, kv.2.toPy))))

/-- generated `__dataclass_wizard_from_dict_X__(o)` -/
def v1ClassWith (fieldLoader : S → JVal → LRes) (eff : MetaCfg) (ci : ClassInfo) : JVal → LRes
  | .null => .error (.missingData none none ci.name)
  | .dict kvs => do
      let (kwargs, found) ← v1Fields fieldLoader eff ci kvs ci.fields
      v1Finish eff ci kvs kwargs found
  | _ =>
    -- `o.get(...)` fails on the first field's lookup: `field` already names that field when `re_raise` runs
    .error (.parse (some ci.name) (((v1InitFields ci).head?).map (·.name)))

/-- a Union member that is a dataclass carrying a tag (explicit or auto-assigned) -/
def isTaggedMember (cfg : Option MetaCfg) : Ty → Bool
  | .cls ci _ => (memberTag cfg ci).isSome
  | _ => false

/-- at least one member dataclass of the Union carries a tag: the generated helper then reads `v1[tag_key]` first -/
def v1AnyTagged (cfg : Option MetaCfg) (ts : List Ty) : Bool := ts.any (isTaggedMember cfg)

mutual
/-- the value of the expression v1 generates for annotation `t`, applied to `o` -/
def loadV1 (std : Std) (cfg : Option MetaCfg) : Ty → JVal → LRes
  | .any, o => pure o.toPy
  | .none, _ => pure .none
  | .str, o => v1Str o
  | .int, o => v1Int std o
  | .float, o => v1Float std o
  | .bool, o => v1Bool o
  | .bytes, o => v1Bytes std false o
  | .bytearray, o => v1Bytes std true o
  | .leaf .decimal, o => v1Decimal std o
  | .leaf .path, o => v1Path std o
  | .leaf .uuid, o => v1Uuid std o
  | .leaf .date, o => v1Date std o
  | .leaf .time, o => v1Time std o
  | .leaf .datetime, o => v1Datetime std o
  | .timedelta, o => v1Timedelta std o
  | .enum name members, o => v1Enum name members o
  | .literal vs, o => v1Literal vs o
  | .optional t, o =>
      match o with
      | .null => pure .none
      | _ => loadV1 std cfg t o
  | .union ts, o =>
      if o.kind == .null && ts.any (fun t => match t with | .none => true | _ => false) then pure .none
      else
        -- tag block
        let tagKey := (cfg.bind (·.tagKey)).getD Generated.tagKey.toList
        let tagged := v1AnyTagged cfg ts
        let tagv : Option JVal := match o with
          | .dict kvs => (kvs.find? (fun kv => kv.1 == tagKey)).map (·.2)
          | _ => none
        match (if tagged then tagv else none) with
        | some tv =>
          match tv with
          | .str tg => v1Tagged std cfg tg ts o
          | _ => perr
        | none =>
          match v1UnionExact std cfg ts o with
          | some r => r
          | none =>
            match v1UnionCoerce std cfg ts o with
            | some r => r
            | none => perr
  | .seq k t, o =>
      match jIter o with
      | none => perr
      | some xs => do
          let ys ← mapME (fun x => loadV1 std cfg t x) xs
          (mkSeq k ys).mapError v1Wrap
  | .vtuple t, o =>
      match jIter o with
      | none => perr
      | some xs => do
          let ys ← mapME (fun x => loadV1 std cfg t x) xs
          pure (.tuple ys)
  | .tuple ts, o =>
      if ts.isEmpty then
        match jIter o with
        | some xs => pure (.tuple (xs.map JVal.toPy))
        | none => perr
      else do
        let ys ← v1Tuple std cfg ts 0 o
        pure (.tuple ys)
  | .map k kt vt, o =>
      match o with
      | .dict kvs => do
          let ps ← mapME (fun (kv : S × JVal) => do
              let k' ← loadV1 std cfg kt (.str kv.1)
              let v' ← loadV1 std cfg vt kv.2
              pure (k', v')) kvs
          (mkMap k ps).mapError v1Wrap
      | _ => perr
  | .ntuple name fields, o =>
      let names := fields.map (·.1)
      match o with
      | .dict _ => if fields.any (fun f => f.2.2.isNone) then perr else
          -- no required field: `len(v1)` decides; a non-empty dict then fails on `v1[k]`
          (match o with | .dict [] => pure (.ntuple name names (fields.filterMap (fun f => f.2.2.map Dflt.toPy))) | _ => perr)
      | _ =>
        match jLen o with
        | none => perr
        | some n => do
            let ys ← v1NtSeq std cfg name fields 0 n o
            let rest := fields.drop ys.length
            pure (.ntuple name names (ys ++ rest.filterMap (fun f => f.2.2.map Dflt.toPy)))
  | .typeddict _ fields, o =>
      match o with
      | .dict kvs =>
          -- library errors of nested values pass through unchanged (fix fc44b9d); a missing required key -> ParseError
          match v1Td std cfg fields kvs with
          | .ok ps => pure (.map .dict ps)
          | .error e => .error e
      | _ => perr
  | .cls ci ftys, o =>
      v1ClassWith (fun f v => v1Field std cfg f v ftys) (effMeta ci.cmeta cfg) ci o

/-- tag dispatch: `if tag == 'X': return load_X(v1)` in declaration order; no match -> ParseError -/
def v1Tagged (std : Std) (cfg : Option MetaCfg) (tg : S) : List Ty → JVal → LRes
  | [], _ => perr
  | t :: ts, o =>
      match t with
      | .cls ci ftys =>
        -- later members with the same tag replace earlier ones (dict of tag -> lines)
        if memberTag cfg ci == some tg && !(ts.any (tyHasTag cfg tg)) then
          v1ClassWith (fun f v => v1Field std cfg f v ftys) (effMeta ci.cmeta cfg) ci o
        else v1Tagged std cfg tg ts o
      | _ => v1Tagged std cfg tg ts o

/-- first pass over the members in order: exact-type return for simple types, try-parse for the others -/
def v1UnionExact (std : Std) (cfg : Option MetaCfg) : List Ty → JVal → Option LRes
  | [], _ => none
  | t :: ts, o =>
      match t with
      | .none => v1UnionExact std cfg ts o
      | .cls ci _ =>
        if (memberTag cfg ci).isSome then v1UnionExact std cfg ts o
        else
          -- untagged dataclass (v1_unsafe_parse_dataclass_in_union): try-parse
          match loadV1 std cfg t o with
          | .ok y => some (.ok y)
          | .error (.unsupported w) => some (.error (.unsupported w))
          | .error _ => v1UnionExact std cfg ts o
      | _ =>
        if isSimpleTy t then
          if exactKind t == some o.kind then some (pure o.toPy) else v1UnionExact std cfg ts o
        else
          match loadV1 std cfg t o with
          | .ok y => some (.ok y)
          | .error (.unsupported w) => some (.error (.unsupported w))
          | .error _ => v1UnionExact std cfg ts o

/-- second pass: try-parse (coercion) of the simple members in order -/
def v1UnionCoerce (std : Std) (cfg : Option MetaCfg) : List Ty → JVal → Option LRes
  | [], _ => none
  | t :: ts, o =>
      if isSimpleTy t && (match t with | .none => false | _ => true) then
        match loadV1 std cfg t o with
        | .ok y => some (.ok y)
        | .error (.unsupported w) => some (.error (.unsupported w))
        | .error _ => v1UnionCoerce std cfg ts o
      else v1UnionCoerce std cfg ts o

/-- `(e0(v1[0]), e1(v1[1]), )` -/
def v1Tuple (std : Std) (cfg : Option MetaCfg) : List Ty → Nat → JVal → Except LErr (List PyVal)
  | [], _, _ => pure []
  | t :: ts, k, o =>
      match jIndex o k with
      | none =>
        -- `v1[k]` beyond the end raises IndexError: a ParseError once the enclosing class function re-raises it, but an
        -- enclosing NamedTuple loader catches exactly this class first (`v1NtSeq`)
        match o with
        | .list _ => rawE "IndexError"
        | .str _ => rawE "IndexError"
        | _ => perr
      | some x => do
          let y ← loadV1 std cfg t x
          let ys ← v1Tuple std cfg ts (k + 1) o
          pure (y :: ys)

/-- fields of a NamedTuple taken positionally from an indexable value of length `n`: a required field beyond the
end -> MissingFields (required fields not yet assigned); an optional one beyond the end -> stop -/
def v1NtSeq (std : Std) (cfg : Option MetaCfg) (ntName : S) : List (S × Ty × Option Dflt) → Nat → Nat → JVal → Except LErr (List PyVal)
  | [], _, _, _ => pure []
  | (fname, t, d) :: fs, k, n, o =>
      if k < n then
        match jIndex o k with
        | none => perr
        | some x =>
            -- the loader's `except IndexError` also catches the IndexError of a nested fixed-length tuple that is too
            -- short: the field (and every required one after it) is then reported as missing although it is present
            match loadV1 std cfg t x with
            | .error (.raw e) =>
              if e == "IndexError".toList then
                .error (.missingFields ntName (((fname, t, d) :: fs).filterMap (fun f => if f.2.2.isNone then some f.1 else none)))
              else .error (.raw e)
            | .error e => .error e
            | .ok y => do
                let ys ← v1NtSeq std cfg ntName fs (k + 1) n o
                pure (y :: ys)
      else if d.isNone then
        .error (.missingFields ntName (((fname, t, d) :: fs).filterMap (fun f => if f.2.2.isNone then some f.1 else none)))
      else
        -- remaining required fields after an optional gap cannot occur (defaults are trailing)
        pure []

def v1Td (std : Std) (cfg : Option MetaCfg) : List (S × Ty × Bool) → List (S × JVal) → Except LErr (List (PyVal × PyVal))
  | [], _ => pure []
  | (k, t, req) :: r, kvs =>
      match kvs.find? (fun kv => kv.1 == k) with
      | some (_, v) => do
          let y ← loadV1 std cfg t v
          let ys ← v1Td std cfg r kvs
          pure ((.str k, y) :: ys)
      | none => if req then perr else v1Td std cfg r kvs

def v1Field (std : Std) (cfg : Option MetaCfg) (f : S) (v : JVal) : List (S × Ty) → LRes
  | [] => .error (.unsupported "field without type".toList)
  | (n, t) :: r => if n == f then loadV1 std cfg t v else v1Field std cfg f v r
end

/-- `fromdict(cls, o)` on a *main* class bound to the v1 engine -/
def fromdictV1 (std : Std) : Ty → JVal → LRes
  | .cls ci ftys, o =>
      let cfg := rootConfig ci.cmeta
      v1ClassWith (fun f v => v1Field std cfg f v ftys) (effMeta ci.cmeta none) ci o
  | _, _ => .error (.unsupported "not a dataclass".toList)

end DW
