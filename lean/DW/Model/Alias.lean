/-
Model of the alias / nested-path machinery of both engines (C08, end to end):

  * `class_helper._setup_load_config_for_cls` / `setup_dump_config_for_cls_if_needed` / `_process_field` /
    `_setup_v1_load_config_for_cls` and the `bases_meta.bind_to` part for `json_key_to_field` / `v1_field_to_alias`
    (the per-class tables JSON key -> field, field -> dump alias, field -> path),
  * the generated `cls_fromdict` of `loaders.load_func_for_dataclass` (paths first, then a loop over the document's
    keys in document order: exact table entry, exact field name, `py_case` + case-insensitive match),
  * the generated v1 loader of `v1/loaders.load_func_for_dataclass` (per field: listed aliases in order, listed paths
    in order, else the key case / AUTO candidates),
  * the generated `cls_asdict` of `dumpers.dump_func_for_dataclass` (alias / transformed name / path via NestedDict /
    nowhere), `object_path.safe_get` / `v1_safe_get`.

Field values are integers (field type `int`), documents are nested dict / list / int / None values with typed keys.
-/
import DW.Model.ObjPath

namespace DW.Alias
open DW.Str DW.ObjPath

/-- a dict key / path component -/
inductive Key
  | str (s : S)
  | int (i : Int)
  | bool (b : Bool)
  | float (t : S)
  deriving Repr, DecidableEq

/-- Python key equality: `True == 1`, `False == 0` (same hash) -/
def Key.norm : Key → Key
  | .bool true => .int 1
  | .bool false => .int 0
  | k => k

def Key.same (a b : Key) : Bool := decide (a.norm = b.norm)

def Key.ofComp : Comp → Key
  | .str s => .str s
  | .int i => .int i
  | .bool b => .bool b
  | .float t => .float t

inductive Doc
  | val (n : Int)
  | null
  | obj (kvs : List (Key × Doc))
  | arr (xs : List Doc)
  deriving Inhabited

/-- `dict.get(k)` on an association list (the first entry with an equal key) -/
def objGet (kvs : List (Key × Doc)) (k : Key) : Option Doc :=
  match kvs with
  | [] => none
  | (k', d) :: r => if k'.same k then some d else objGet r k

inductive Get
  | found (d : Doc)
  | missing        -- KeyError / IndexError
  | invalid        -- TypeError ("Invalid path")
  deriving Inhabited

/-- `cur[c]` -/
def stepGet (cur : Doc) (c : Key) : Get :=
  match cur with
  | .obj kvs => match objGet kvs c with
    | some d => .found d
    | none => .missing
  | .arr xs =>
    match c.norm with
    | .int i =>
      let n : Int := xs.length
      let j := if i < 0 then n + i else i
      if j < 0 || j ≥ n then .missing
      else match xs[j.toNat]? with
        | some d => .found d
        | none => .missing
    | _ => .invalid
  | _ => .invalid

/-- `safe_get` / `v1_safe_get`: follow the path -/
def pathGet (d : Doc) : List Key → Get
  | [] => .found d
  | c :: r => match stepGet d c with
    | .found d' => pathGet d' r
    | .missing => .missing
    | .invalid => .invalid

/-! ### class models -/

inductive Form
  | plain
  | jsonField | annKey | metaKey | pathField | annPath      -- default engine
  | aliasAll | aliasLd | aliasPath                          -- v1
  deriving Repr, DecidableEq

inductive PathMode | all | load | dump
  deriving Repr, DecidableEq

structure FieldSpec where
  name : S
  dflt : Option Int := none
  form : Form := .plain
  keys : List S := []                 -- json_field / json_key keys; Alias(*all)
  path : List Key := []               -- path_field / KeyPath (already split)
  all : Bool := false                 -- resolved (`path_field` / `KeyPath` default to True)
  dump : Bool := true
  load : Option (List S) := none      -- Alias(load=)
  dumpa : Option S := none            -- Alias(dump=)
  skip : Bool := false
  paths : List (List Key) := []       -- AliasPath
  mode : PathMode := .all

structure ClassSpec where
  v1 : Bool
  fields : List FieldSpec
  loadCase : LetterCase := .snake             -- default engine: key_transform_with_load
  dumpCase : LetterCase := .camel             -- key_transform_with_dump (both engines)
  keyCase : Option LetterCase := none         -- v1_key_case (none = no transform); AUTO is `auto`
  auto : Bool := false
  metaKeys : List (S × S) := []               -- json_key_to_field entries (alias, field), in order
  metaAll : Bool := false
  metaAliases : List (S × List S) := []       -- v1_field_to_alias entries (field, aliases)
  metaLoad : Bool := false
  metaDump : Bool := false

def isPathForm (f : FieldSpec) : Bool := f.form = .pathField || f.form = .annPath

/-! ### dump side -/

/-- where a field's value goes on dump -/
inductive Target
  | key (k : S)
  | path (p : List Key)
  | nowhere
  | broken            -- the empty alias `''` without a registered path: KeyError while generating the dump function
  deriving Repr, DecidableEq

/-- what the dump set-up writes into `DATACLASS_FIELD_TO_ALIAS[cls][f.name]` for the field itself
(`none` = nothing written; `some none` = ExplicitNull; `some (some a)` = alias `a`, `''` meaning "use the path"). -/
def fieldDumpSetting (f : FieldSpec) : Option (Option S) :=
  match f.form with
  | .plain => none
  | .jsonField | .annKey =>
    if !f.dump then some none
    else if f.all then some (some (f.keys.headD [])) else none
  | .metaKey =>
    -- the `__remapping__` branch: `dump=False` first, then `all` (like the other branches, since repair d820e9b)
    if !f.dump then some none
    else if f.all then some (some (f.keys.headD [])) else none
  | .pathField | .annPath =>
    if !f.dump then some none
    else if f.all then some (some []) else none
  | .aliasAll => if f.skip then some none else some (some (f.keys.headD []))
  | .aliasLd =>
    if f.skip then some none
    else match f.dumpa with
      | some a => some (some a)
      | none => none
  | .aliasPath =>
    if f.skip then some none
    else if f.mode = .load then none else some (some [])

/-- the class-level mappings written at `bind_to` time (first key listed for a field wins) -/
def metaDumpAlias (c : ClassSpec) (name : S) : Option S :=
  if c.v1 then
    if c.metaDump then (c.metaAliases.find? (fun e => e.1 = name)).map (fun e => e.2.headD []) else none
  else
    if c.metaAll then (c.metaKeys.find? (fun e => e.2 = name)).map (·.1) else none

/-- does the *dump* set-up register the field's path (`DATACLASS_FIELD_TO_JSON_PATH`)? -/
def dumpRegistersPath (f : FieldSpec) : Bool :=
  match f.form with
  | .pathField | .annPath => f.dump && f.all
  | .aliasPath => !f.skip && f.mode != .load
  | _ => false

def dumpPathOf (f : FieldSpec) : List Key :=
  match f.form with
  | .aliasPath => f.paths.headD []
  | _ => f.path

/-- The shared path table at the time the dump function is generated. Default engine: filled by whichever
set-up ran first, and only while it is empty. -/
def pathTableAtDump (c : ClassSpec) (dumpFirst : Bool) : List (S × List Key) :=
  if c.v1 then (c.fields.filter dumpRegistersPath).map (fun f => (f.name, dumpPathOf f))
  else
    let byDump := (c.fields.filter dumpRegistersPath).map (fun f => (f.name, f.path))
    let byLoad := (c.fields.filter isPathForm).map (fun f => (f.name, f.path))
    if dumpFirst then byDump      -- (if empty the load set-up fills it later, after the dump function exists)
    else if byLoad.isEmpty then byDump else byLoad

def dumpTarget (c : ClassSpec) (dumpFirst : Bool) (f : FieldSpec) : Target :=
  let setting := match fieldDumpSetting f with
    | some x => some x
    | none => (metaDumpAlias c f.name).map some
  match setting with
  | some none => .nowhere
  | some (some []) =>
    match (pathTableAtDump c dumpFirst).find? (fun e => e.1 = f.name) with
    | some e => .path e.2
    | none => .broken
  | some (some a) => .key a
  | none => match c.dumpCase.apply f.name with
    | some [] => .broken
    | some k => .key k
    | none => .broken

/-- `d[k] = v` on an association list (replace in place, else append) -/
def objSet (kvs : List (Key × Doc)) (k : Key) (v : Doc) : List (Key × Doc) :=
  match kvs with
  | [] => [(k, v)]
  | (k', d) :: r => if k'.same k then (k', v) :: r else (k', d) :: objSet r k v

/-- `paths[p0][p1]...[pn] = v` on a NestedDict (`none` = TypeError: an inner value is not a dict) -/
def nestedSet (kvs : List (Key × Doc)) : List Key → Doc → Option (List (Key × Doc))
  | [], _ => none
  | [k], v => some (objSet kvs k v)
  | k :: r, v =>
    match objGet kvs k with
    | none => (nestedSet [] r v).map (fun sub => objSet kvs k (.obj sub))
    | some (.obj sub) => (nestedSet sub r v).map (fun sub' => objSet kvs k (.obj sub'))
    | some _ => none

def valOf (vals : List (S × Int)) (name : S) : Int :=
  ((vals.find? (fun e => e.1 = name)).map (·.2)).getD 0

/-- `cls_asdict`: `none` = an exception -/
def dumpDoc (c : ClassSpec) (dumpFirst : Bool) (vals : List (S × Int)) : Option (List (Key × Doc)) :=
  let step := fun (acc : Option (List (Key × Doc) × List (Key × Doc))) (f : FieldSpec) =>
    match acc with
    | none => none
    | some (paths, result) =>
      match dumpTarget c dumpFirst f with
      | .nowhere => some (paths, result)
      | .broken => none
      | .key k => some (paths, result ++ [(Key.str k, Doc.val (valOf vals f.name))])
      | .path p => (nestedSet paths p (.val (valOf vals f.name))).map (fun ps => (ps, result))
  match c.fields.foldl step (some ([], [])) with
  | none => none
  | some (paths, result) => some (result.foldl (fun d kv => objSet d kv.1 kv.2) paths)

/-! ### load side, default engine -/

/-- `JSON_FIELD_TO_DATACLASS_FIELD[cls]` after `bind_to` and the load set-up (`none` = ExplicitNull) -/
def tableSet (t : List (Key × Option S)) (k : Key) (v : Option S) : List (Key × Option S) :=
  match t with
  | [] => [(k, v)]
  | (k', x) :: r => if k'.same k then (k', v) :: r else (k', x) :: tableSet r k v

def tableGet (t : List (Key × Option S)) (k : Key) : Option (Option S) :=
  match t with
  | [] => none
  | (k', x) :: r => if k'.same k then some x else tableGet r k

def jsonToField (c : ClassSpec) : List (Key × Option S) :=
  let t0 := c.metaKeys.foldl (fun t e => tableSet t (.str e.1) (some e.2)) []
  c.fields.foldl (fun t f =>
    match f.form with
    | .jsonField | .annKey | .metaKey => f.keys.foldl (fun t k => tableSet t (.str k) (some f.name)) t
    | .pathField | .annPath => match f.path with
      | k :: _ => tableSet t k none
      | [] => t
    | _ => t) t0

/-- the path table seen by the generated load function -/
def pathTableAtLoad (c : ClassSpec) (dumpFirst : Bool) : List (S × List Key) :=
  -- since repair 5af972b the load set-up always records its paths, whether or not the dump set-up ran first
  let _ := dumpFirst
  (c.fields.filter isPathForm).map (fun f => (f.name, f.path))

def kwSet (kw : List (S × Int)) (n : S) (v : Int) : List (S × Int) :=
  match kw with
  | [] => [(n, v)]
  | (n', x) :: r => if n' = n then (n', v) :: r else (n', x) :: kwSet r n v

def kwGet (kw : List (S × Int)) (n : S) : Option Int := (kw.find? (fun e => e.1 = n)).map (·.2)

/-- `cls(**init_kwargs)`: `none` = MissingFields -/
def construct (fields : List FieldSpec) (kw : List (S × Int)) : Option (List (S × Int)) :=
  fields.mapM (fun f => match kwGet kw f.name with
    | some v => some (f.name, v)
    | none => f.dflt.map (fun d => (f.name, d)))

def asInt : Doc → Option Int
  | .val n => some n
  | _ => none

/-- resolution of one document key (generated `cls_fromdict`): `none` = exception, `some none` = ignored key -/
def resolveKey (c : ClassSpec) (table : List (Key × Option S)) (k : Key) : Option (Option S) :=
  match tableGet table k with
  | some x => some x
  | none =>
    match k with
    | .str s => some (resolveKeyD c.loadCase.apply (c.fields.map (·.name)) s)
    | _ => none          -- `py_case(<int>)` raises

def loadDefault (c : ClassSpec) (dumpFirst : Bool) (doc : Doc) : Option (List (S × Int)) :=
  match doc with
  | .obj kvs =>
    let ptab := pathTableAtLoad c dumpFirst
    -- 1. the path fields
    let kw1 := ptab.foldl (fun (acc : Option (List (S × Int))) e =>
      match acc with
      | none => none
      | some kw =>
        let dflt := ((c.fields.find? (fun f => f.name = e.1)).map (·.dflt)).getD none
        match pathGet doc e.2 with
        | .found d => (asInt d).map (kwSet kw e.1)
        | .missing => dflt.map (kwSet kw e.1)
        | .invalid => none) (some [])
    -- 2. the loop over the document's keys
    let loopOverO := ptab.isEmpty || ptab.length != c.fields.length
    let table := jsonToField c
    let kw2 := if !loopOverO then kw1 else
      kvs.foldl (fun (acc : Option (List (S × Int))) kv =>
        match acc with
        | none => none
        | some kw =>
          match resolveKey c table kv.1 with
          | none => none
          | some none => some kw
          | some (some f) => (asInt kv.2).map (kwSet kw f)) kw1
    kw2.bind (construct c.fields)
  | _ => none

/-! ### load side, v1 -/

/-- ordered lookup of the listed aliases: the first one present wins -/
def findAlias (get : Key → Option Doc) (aliases : List S) : Option Doc :=
  aliases.findSome? (fun a => get (.str a))

/-- `DATACLASS_FIELD_TO_ALIAS_FOR_LOAD[cls][f.name]` -/
def loadAliasesOf (c : ClassSpec) (f : FieldSpec) : Option (List S) :=
  match f.form with
  | .aliasAll => some f.keys
  | .aliasLd => match f.load with
    | some l => some l
    | none => if c.metaLoad then (c.metaAliases.find? (fun e => e.1 = f.name)).map (·.2) else none
  | .aliasPath => none
  | _ => if c.metaLoad then (c.metaAliases.find? (fun e => e.1 = f.name)).map (·.2) else none

def loadPathsOf (f : FieldSpec) : Option (List (List Key)) :=
  match f.form with
  | .aliasPath => if f.mode = .dump then none else some f.paths
  | _ => none

inductive Found
  | val (d : Doc)
  | absent
  | error
  deriving Inhabited

/-- the `safe_get` chain of a field with several paths: only the last one may raise on a missing key, and only when
the field has no default -/
def findPath (doc : Doc) (hasDefault : Bool) : List (List Key) → Found
  | [] => .absent
  | [p] => match pathGet doc p with
    | .found d => .val d
    | .missing => if hasDefault then .absent else .error
    | .invalid => .error
  | p :: r => match pathGet doc p with
    | .found d => .val d
    | .missing => findPath doc hasDefault r
    | .invalid => .error

/-- the value source of one field in the generated v1 loader, as a function of the top-level lookup -/
def v1FieldValue (c : ClassSpec) (doc : Doc) (get : Key → Option Doc) (f : FieldSpec) : Found :=
  let ofOpt := fun (o : Option Doc) => match o with | some d => Found.val d | none => Found.absent
  match loadAliasesOf c f with
  | some aliases => ofOpt (findAlias get aliases)
  | none =>
    match loadPathsOf f with
    | some ps => findPath doc f.dflt.isSome ps
    | none =>
      if c.auto then
        match get (.str f.name) with
        | some d => .val d
        | none => match possibleJsonKeys f.name with
          | some ks => ofOpt (findAlias get ks)
          | none => .error
      else match c.keyCase with
        | none => ofOpt (get (.str f.name))
        | some kc => match kc.apply f.name with
          | some a => ofOpt (get (.str a))
          | none => .error

def loadV1 (c : ClassSpec) (doc : Doc) : Option (List (S × Int)) :=
  match doc with
  | .obj kvs =>
    c.fields.mapM (fun f =>
      match v1FieldValue c doc (objGet kvs) f with
      | .val d => (asInt d).map (fun v => (f.name, v))
      | .absent => f.dflt.map (fun d => (f.name, d))
      | .error => none)
  | _ => none

def load (c : ClassSpec) (dumpFirst : Bool) (doc : Doc) : Option (List (S × Int)) :=
  if c.v1 then loadV1 c doc else loadDefault c dumpFirst doc

end DW.Alias
