/-
Model of a second generator as the text it writes: `loaders.load_func_for_dataclass` (default engine) -> `cls_fromdict`.

The template is almost entirely fixed text; what depends on the class is a handful of switches (`_pre_from_dict`, a catch-all field
with / without default, `raise_on_unknown_json_key`, whether any field has a JSON path, whether every constructor field has one,
whether the tag key / a path's top-level key must be kept out of the catch-all) and one line per path field.  Statements carry their
text together with the names they read and bind (`Part`); the correspondence check compares the text byte for byte with the
generated source and the declared names with Python's `ast` reading of every line.  `check` is Python's scoping rule over
`if / elif / else`, `for`, `try / except` and statements that do not fall through (`raise`, `return`).
-/
import DW.Model.Names
import DW.Model.GenDump

namespace DW.GenLoad
open DW.Names

/-- one simple statement of a physical line: its text, the variables it reads and the ones it binds -/
structure Part where
  text : S
  reads : List S := []
  writes : List S := []
  safe : Bool := false       -- binding a literal to a name: cannot raise
  deriving Repr, DecidableEq, Inhabited

inductive Stmt
  | line (parts : List Part)                         -- simple statements joined by `; `
  | comment (text : S)                               -- `# …`
  | exit (text : S) (reads : List S)                 -- `raise …` / `return …`: does not fall through
  | if_ (c : S) (cr : List S) (thn : List Stmt) (elifs : List (S × List S × List Stmt)) (els : Option (List Stmt))
  | for_ (target : S) (iter : S) (ir : List S) (body : List Stmt)
  | try_ (body : List Stmt) (exc : S) (er : List S) (asName : Option S) (handler : List Stmt)
  deriving Repr, Inhabited

def joinWith (sep : S) : List S → S
  | [] => []
  | [x] => x
  | x :: r => x ++ sep ++ joinWith sep r

def indent (lvl : Nat) : S := List.replicate (2 * lvl) ' '

mutual
def Stmt.render (lvl : Nat) : Stmt → List S
  | .line parts => [indent lvl ++ joinWith "; ".toList (parts.map (·.text))]
  | .comment t => [indent lvl ++ t]
  | .exit t _ => [indent lvl ++ t]
  | .if_ c _ thn elifs els =>
      (indent lvl ++ "if ".toList ++ c ++ [':']) :: renderList (lvl + 1) thn ++ renderElifs lvl elifs ++ renderElse lvl els
  | .for_ t it _ body => (indent lvl ++ "for ".toList ++ t ++ " in ".toList ++ it ++ [':']) :: renderList (lvl + 1) body
  | .try_ body exc _ asName handler =>
      (indent lvl ++ "try:".toList) :: renderList (lvl + 1) body ++
        ((indent lvl ++ "except ".toList ++ exc ++ (match asName with | some n => " as ".toList ++ n | none => []) ++ [':'])
          :: renderList (lvl + 1) handler)
def renderList (lvl : Nat) : List Stmt → List S
  | [] => []
  | s :: r => s.render lvl ++ renderList lvl r
def renderElifs (lvl : Nat) : List (S × List S × List Stmt) → List S
  | [] => []
  | (c, _, body) :: r => (indent lvl ++ "elif ".toList ++ c ++ [':']) :: renderList (lvl + 1) body ++ renderElifs lvl r
def renderElse (lvl : Nat) : Option (List Stmt) → List S
  | none => []
  | some e => (indent lvl ++ "else:".toList) :: renderList (lvl + 1) e
end

/-! ### scoping -/

/-- `except X as n`: the name the handler binds -/
def asNames : Option S → List S
  | some n => [n]
  | none => []

mutual
def Stmt.writes : Stmt → List S
  | .line parts => parts.flatMap (·.writes)
  | .comment _ => []
  | .exit _ _ => []
  | .if_ _ _ thn elifs els => writesList thn ++ writesElifs elifs ++ writesElse els
  | .for_ t _ _ body => t :: writesList body
  | .try_ body _ _ asName handler => writesList body ++ asNames asName ++ writesList handler
def writesList : List Stmt → List S
  | [] => []
  | s :: r => s.writes ++ writesList r
def writesElifs : List (S × List S × List Stmt) → List S
  | [] => []
  | (_, _, body) :: r => writesList body ++ writesElifs r
def writesElse : Option (List Stmt) → List S
  | none => []
  | some e => writesList e
end

structure Scope where
  locals : List S       -- the parameter and every name bound anywhere in the body
  outer : List S        -- closure names, globals of the generated function, builtins

/-- may `n` be read when `asg` is definitely assigned?  A name assigned anywhere in the body is local and must be definitely assigned;
any other name must come from the closure, the globals or the builtins.  (As in `GenDump`: written with `asg.contains n` first, which
is Python's rule whenever `asg ⊆ locals` — the checker only ever adds names the body binds.) -/
def Scope.readOk (sc : Scope) (asg : List S) (n : S) : Bool :=
  asg.contains n || (!sc.locals.contains n && sc.outer.contains n)

def Scope.readsOk (sc : Scope) (asg : List S) (ns : List S) : Bool := ns.all (sc.readOk asg)

/-- the state of definite assignment after a statement: `none` = the statement does not fall through -/
abbrev Flow := Option (List S)

/-- join of two control-flow paths: a name is definitely assigned when it is on every path that falls through -/
def Flow.meet : Flow → Flow → Flow
  | none, b => b
  | a, none => a
  | some a, some b => some (a.filter b.contains)

/-- what is certainly bound when the first exception of a `try` body can be raised: the names its leading literal bindings bind -/
def safePrefixWrites : List Stmt → List S
  | .line parts :: _ => (parts.takeWhile (·.safe)).flatMap (·.writes)
  | _ => []

def checkParts (sc : Scope) : List S → List Part → Option (List S)
  | asg, [] => some asg
  | asg, p :: r => if sc.readsOk asg p.reads then checkParts sc (p.writes ++ asg) r else none

mutual
/-- `none` = a name is read that is not bound; `some f` = fine, control flow `f` -/
def Stmt.check (sc : Scope) (asg : List S) : Stmt → Option Flow
  | .line parts => (checkParts sc asg parts).map some
  | .comment _ => some (some asg)
  | .exit _ rs => if sc.readsOk asg rs then some none else none
  | .if_ _ cr thn elifs els =>
      if sc.readsOk asg cr then
        match checkList sc asg thn, checkElifs sc asg elifs, checkElse sc asg els with
        | some a, some b, some c => some ((a.meet b).meet c)
        | _, _, _ => none
      else none
  | .for_ t _ ir body =>
      if sc.readsOk asg ir then
        match checkList sc (t :: asg) body with
        | some _ => some (some asg)
        | none => none
      else none
  | .try_ body _ er asName handler =>
      if sc.readsOk asg er then
        match checkList sc asg body,
              checkList sc (safePrefixWrites body ++ asNames asName ++ asg) handler with
        | some a, some b => some (a.meet b)
        | _, _ => none
      else none
/-- a sequence: what follows a statement that does not fall through is unreachable -/
def checkList (sc : Scope) (asg : List S) : List Stmt → Option Flow
  | [] => some (some asg)
  | s :: r =>
    match s.check sc asg with
    | none => none
    | some none => some none
    | some (some a) => checkList sc a r
/-- the `elif` chain: every condition is evaluated with what was assigned before the `if`; `none` flow = no elif falls through
(an empty chain contributes no path) -/
def checkElifs (sc : Scope) (asg : List S) : List (S × List S × List Stmt) → Option Flow
  | [] => some none
  | (_, cr, body) :: r =>
    if sc.readsOk asg cr then
      match checkList sc asg body, checkElifs sc asg r with
      | some a, some b => some (a.meet b)
      | _, _ => none
    else none
/-- no `else`: the path on which no condition holds falls through unchanged -/
def checkElse (sc : Scope) (asg : List S) : Option (List Stmt) → Option Flow
  | none => some (some asg)
  | some e => checkList sc asg e
end

/-! ### the same checker with Python's rule taken literally -/

/-- a name bound anywhere in the body is local: it must be definitely assigned, whatever the closure holds -/
def Scope.readOkPy (sc : Scope) (asg : List S) (n : S) : Bool :=
  if sc.locals.contains n then asg.contains n else sc.outer.contains n

def Scope.readsOkPy (sc : Scope) (asg : List S) (ns : List S) : Bool := ns.all (sc.readOkPy asg)

def checkPartsPy (sc : Scope) : List S → List Part → Option (List S)
  | asg, [] => some asg
  | asg, p :: r => if sc.readsOkPy asg p.reads then checkPartsPy sc (p.writes ++ asg) r else none

mutual
def Stmt.checkPy (sc : Scope) (asg : List S) : Stmt → Option Flow
  | .line parts => (checkPartsPy sc asg parts).map some
  | .comment _ => some (some asg)
  | .exit _ rs => if sc.readsOkPy asg rs then some none else none
  | .if_ _ cr thn elifs els =>
      if sc.readsOkPy asg cr then
        match checkListPy sc asg thn, checkElifsPy sc asg elifs, checkElsePy sc asg els with
        | some a, some b, some c => some ((a.meet b).meet c)
        | _, _, _ => none
      else none
  | .for_ t _ ir body =>
      if sc.readsOkPy asg ir then
        match checkListPy sc (t :: asg) body with
        | some _ => some (some asg)
        | none => none
      else none
  | .try_ body _ er asName handler =>
      if sc.readsOkPy asg er then
        match checkListPy sc asg body, checkListPy sc (safePrefixWrites body ++ asNames asName ++ asg) handler with
        | some a, some b => some (a.meet b)
        | _, _ => none
      else none
def checkListPy (sc : Scope) (asg : List S) : List Stmt → Option Flow
  | [] => some (some asg)
  | s :: r =>
    match s.checkPy sc asg with
    | none => none
    | some none => some none
    | some (some a) => checkListPy sc a r
def checkElifsPy (sc : Scope) (asg : List S) : List (S × List S × List Stmt) → Option Flow
  | [] => some none
  | (_, cr, body) :: r =>
    if sc.readsOkPy asg cr then
      match checkListPy sc asg body, checkElifsPy sc asg r with
      | some a, some b => some (a.meet b)
      | _, _ => none
    else none
def checkElsePy (sc : Scope) (asg : List S) : Option (List Stmt) → Option Flow
  | none => some (some asg)
  | some e => checkListPy sc asg e
end

/-! ### the generator -/

open DW.GenDump (PathPart LitV)

inductive DefaultKind | none | value | factory
  deriving Repr, DecidableEq, Inhabited

/-- a field with a JSON path: one line of the first `try` block -/
structure PathLine where
  field : S
  path : List PathPart
  dflt : DefaultKind := .none
  deriving Repr, DecidableEq, Inhabited

/-- everything `load_func_for_dataclass` looks at when it writes `cls_fromdict` -/
structure LIn where
  preFromDict : Bool := false                 -- the class defines `_pre_from_dict`
  catchAll : Option (S × Bool) := none        -- the catch-all field and whether it has a default
  raiseOnUnknown : Bool := false              -- `Meta.raise_on_unknown_json_key`
  paths : List PathLine := []
  loopOverO : Bool := true                    -- false when every constructor field has a path
  knownKeys : Bool := false                   -- the tag key / a path's top-level key is kept out of the catch-all
  deriving Repr, DecidableEq, Inhabited

def tupleRepr (p : Char → Bool) (ps : List PathPart) : S :=
  match ps with
  | [x] => '(' :: (x.lit.text p) ++ ",)".toList
  | _ => '(' :: joinWith ", ".toList (ps.map (fun x => x.lit.text p)) ++ [')']

def defaultVar (f : S) : S := "_default_".toList ++ f

def t (s : String) : S := s.toList

/-- `field='<f>'; init_kwargs[field] = field_to_parser[field](safe_get(o, <path>[, <default>]))` -/
def pathStmt (p : Char → Bool) (l : PathLine) : Stmt :=
  let extra : S := match l.dflt with
    | .none => []
    | .value => ", ".toList ++ defaultVar l.field
    | .factory => ", ".toList ++ defaultVar l.field ++ "()".toList
  let dr : List S := match l.dflt with | .none => [] | _ => [defaultVar l.field]
  .line [{ text := t "field=" ++ pyRepr p l.field, writes := [t "field"], safe := true },
         { text := t "init_kwargs[field] = field_to_parser[field](safe_get(o, " ++ tupleRepr p l.path ++ extra ++ t "))",
           reads := [t "field_to_parser", t "field", t "safe_get", t "o"] ++ dr ++ [t "init_kwargs", t "field"] }]

def lookupBlock (g : LIn) : List Stmt :=
  [.comment (t "# Lookup Field for JSON Key"),
   .if_ (t "json_key in field_to_parser") [t "json_key", t "field_to_parser"]
     [.line [{ text := t "field = json_to_field[json_key] = json_key", reads := [t "json_key", t "json_to_field", t "json_key"], writes := [t "field"] }]]
     (if g.raiseOnUnknown then [] else
       [(t "json_key in unknown_keys", [t "json_key", t "unknown_keys"],
         [.line [{ text := t "field = ExplicitNull", reads := [t "ExplicitNull"], writes := [t "field"] }]])])
     (some
       [.line [{ text := t "py_field = py_case(json_key)", reads := [t "py_case", t "json_key"], writes := [t "py_field"] }],
        .try_
          [.line [{ text := t "field = json_to_field[json_key] = field_to_parser.get_key(py_field)",
                    reads := [t "field_to_parser", t "py_field", t "json_to_field", t "json_key"], writes := [t "field"] }]]
          (t "KeyError") [t "KeyError"] none
          ([.line [{ text := t "field = ExplicitNull", reads := [t "ExplicitNull"], writes := [t "field"] }]] ++
           (if g.raiseOnUnknown then [] else
             [.line [{ text := t "unknown_keys.add(json_key)", reads := [t "unknown_keys", t "json_key"] }]]) ++
           [.line [{ text := t "LOG.warning('JSON field %r missing from dataclass schema, class=%r, parsed field=%r',json_key,cls,py_field)",
                     reads := [t "LOG", t "json_key", t "cls", t "py_field"] }]] ++
           (if g.raiseOnUnknown then
             [.exit (t "raise UnknownKeysError(json_key, o, cls, cls_fields) from None")
               [t "UnknownKeysError", t "json_key", t "o", t "cls", t "cls_fields"]]
            else []))])]

def loopBlock (g : LIn) : Stmt :=
  .try_
    [.for_ (t "json_key") (t "o") [t "o"]
      [.try_
        [.line [{ text := t "field = json_to_field[json_key]", reads := [t "json_to_field", t "json_key"], writes := [t "field"] }]]
        (t "KeyError") [t "KeyError"] none (lookupBlock g),
       .if_ (t "field is not ExplicitNull") [t "field", t "ExplicitNull"]
        [.try_
          [.line [{ text := t "init_kwargs[field] = field_to_parser[field](o[json_key])",
                    reads := [t "field_to_parser", t "field", t "o", t "json_key", t "init_kwargs", t "field"] }]]
          (t "ParseError") [t "ParseError"] (some (t "e"))
          [.line [{ text := t "e.class_name, e.field_name, e.json_object = cls, field, o",
                    reads := [t "cls", t "field", t "o", t "e", t "e", t "e"] }],
           .exit (t "raise") []]]
        (match g.catchAll with
         | some _ => if g.knownKeys then
             [(t "json_key not in known_keys", [t "json_key", t "known_keys"],
               [.line [{ text := t "catch_all[json_key] = o[json_key]", reads := [t "o", t "json_key", t "catch_all", t "json_key"] }]])]
           else []
         | none => [])
        (match g.catchAll with
         | some _ => if g.knownKeys then none else
             some [.line [{ text := t "catch_all[json_key] = o[json_key]", reads := [t "o", t "json_key", t "catch_all", t "json_key"] }]]
         | none => none)]]
    (t "TypeError") [t "TypeError"] none
    [.if_ (t "o is None") [t "o"] [.exit (t "raise MissingData(cls) from None") [t "MissingData", t "cls"]] [] none,
     .if_ (t "not isinstance(o, dict)") [t "isinstance", t "o", t "dict"]
       [.line [{ text := t "e = TypeError('Incorrect type for field')", reads := [t "TypeError"], writes := [t "e"] }],
        .exit (t "raise ParseError(e, o, dict, cls, desired_type=dict) from None") [t "ParseError", t "e", t "o", t "dict", t "cls", t "dict"]]
       [] none,
     .exit (t "raise") []]

/-- the statements in front of the path block -/
def headStmts (g : LIn) : List Stmt :=
  (if g.preFromDict then [Stmt.line [{ text := t "o = __pre_from_dict__(o)", reads := [t "__pre_from_dict__", t "o"], writes := [t "o"] }]] else [])
  ++ [Stmt.line [{ text := t "init_kwargs = {}", writes := [t "init_kwargs"] }]]
  ++ (match g.catchAll with | some _ => [Stmt.line [{ text := t "catch_all = {}", writes := [t "catch_all"] }]] | none => [])

/-- the path block: one line per field with a JSON path, inside `try … except ParseError as e` -/
def pathBlock (p : Char → Bool) (g : LIn) : List Stmt :=
  if g.paths.isEmpty then [] else
    [Stmt.try_ (g.paths.map (pathStmt p)) (t "ParseError") [t "ParseError"] (some (t "e"))
      [.line [{ text := t "e.class_name, e.field_name, e.json_object, e.fields = cls, field, o, cls_fields",
                reads := [t "cls", t "field", t "o", t "cls_fields", t "e", t "e", t "e", t "e"] }],
       .exit (t "raise") []]]

/-- the statements behind the path block: the key loop, the catch-all entry, the constructor call -/
def tailStmts (p : Char → Bool) (g : LIn) : List Stmt :=
  (if g.loopOverO then [loopBlock g] else [])
  ++ (match g.catchAll with
      | some (f, true) => [Stmt.if_ (t "catch_all") [t "catch_all"]
          [.line [{ text := t "init_kwargs[" ++ pyRepr p f ++ t "] = catch_all", reads := [t "catch_all", t "init_kwargs"] }]] [] none]
      | some (f, false) => [Stmt.line [{ text := t "init_kwargs[" ++ pyRepr p f ++ t "] = catch_all", reads := [t "catch_all", t "init_kwargs"] }]]
      | none => [])
  ++ [Stmt.try_ [.exit (t "return cls(**init_kwargs)") [t "cls", t "init_kwargs"]] (t "TypeError") [t "TypeError"] (some (t "e"))
        [.exit (t "raise MissingFields(e, o, cls, cls_fields, init_kwargs) from None")
          [t "MissingFields", t "e", t "o", t "cls", t "cls_fields", t "init_kwargs"]]]

/-- the body of `cls_fromdict` -/
def genBody (p : Char → Bool) (g : LIn) : List Stmt := headStmts g ++ (pathBlock p g ++ tailStmts p g)

def genCode (p : Char → Bool) (g : LIn) : S := joinWith ['\n'] (renderList 1 (genBody p g))

/-- the ordered keys of `_locals` -/
def genLocals (g : LIn) : List S :=
  [t "cls", t "py_case", t "field_to_parser", t "json_to_field", t "ExplicitNull"]
  ++ (if g.paths.isEmpty then [] else [t "safe_get"])
  ++ (if g.preFromDict then [t "__pre_from_dict__"] else [])
  ++ (g.paths.filterMap (fun l => match l.dflt with | .none => none | _ => some (defaultVar l.field)))
  ++ (if g.loopOverO && !g.raiseOnUnknown then [t "unknown_keys"] else [])
  ++ (if g.loopOverO && g.catchAll.isSome && g.knownKeys then [t "known_keys"] else [])

/-- the globals the function is executed in -/
def genGlobals (g : LIn) : List S :=
  [t "cls_fields", t "LOG", t "MissingData", t "MissingFields"]
  ++ (if !g.paths.isEmpty || g.loopOverO then [t "ParseError"] else [])
  ++ (if g.loopOverO && g.raiseOnUnknown then [t "UnknownKeysError"] else [])

def builtinsRead : List S := [t "KeyError", t "TypeError", t "isinstance", t "dict"]

def genScope (p : Char → Bool) (g : LIn) : Scope :=
  { locals := t "o" :: writesList (genBody p g)
    outer := genLocals g ++ genGlobals g ++ builtinsRead }

/-- … under Python's rule taken literally -/
def wellScopedPy (p : Char → Bool) (g : LIn) : Bool :=
  (checkListPy (genScope p g) [t "o"] (genBody p g)).isSome

/-- is the generated function well scoped? (`some _`: no unbound read on any path) -/
def wellScoped (p : Char → Bool) (g : LIn) : Bool :=
  (checkList (genScope p g) [t "o"] (genBody p g)).isSome

end DW.GenLoad
