/-
C16 — model of `dataclass_wizard/property_wizard.py` (the `property_wizard` metaclass), of the part of CPython it
rests on (class-body shadowing, `dataclasses` field collection and `__init__`), and of the wrapped setter.

Everything is data: a class body is a `List Member`; annotations are a small type grammar `Ty`; values are tokens.
Executable, total, Mathlib-free.  Hand transcription of the Python (see DESIGN.md §3.7); tied to the code by the
correspondence check in harness/props/c16.py.
-/

namespace DW.C16

abbrev Name := List Char

/-! ### insertion-ordered dicts (Python `dict`): association lists, first binding keeps its position -/

def get {α : Type} (k : Name) : List (Name × α) → Option α
  | [] => none
  | (k', v) :: r => if k' = k then some v else get k r

/-- `d[k] = v` -/
def put {α : Type} (k : Name) (v : α) : List (Name × α) → List (Name × α)
  | [] => [(k, v)]
  | (k', v') :: r => if k' = k then (k, v) :: r else (k', v') :: put k v r

/-- `del d[k]` (all bindings of `k`; there is at most one) -/
def del {α : Type} (k : Name) : List (Name × α) → List (Name × α)
  | [] => []
  | (k', v) :: r => if k' = k then del k r else (k', v) :: del k r

def keys {α : Type} (l : List (Name × α)) : List Name := l.map (·.1)

/-! ### classes, values, factories -/

/-- the classes the model knows how to call with no arguments -/
inductive Atom
  | int | str | float | bool | bytes | tuple | frozenset      -- immutable zero values
  | list | dict | set                                          -- the three "known mutable types"
  | defaultdict | ordereddict | counter | userList             -- subclasses of dict / list
  | deque | bytearray | userObj                                -- constructible, mutable, but not list/dict/set
  | datetime | userReq | abcSeq                                -- `T()` raises TypeError
  deriving DecidableEq, Repr, Inhabited

/-- does `T()` return (True) or raise TypeError (False) -/
def Atom.constructible : Atom → Bool
  | .datetime | .userReq | .abcSeq => false
  | _ => true

/-- `isinstance(T(), (list, dict, set))` -/
def Atom.isLDS : Atom → Bool
  | .list | .dict | .set | .defaultdict | .ordereddict | .counter | .userList => true
  | _ => false

/-- literals a class body may mention; `shared k` is a module-level mutable object (identity matters) -/
inductive Lit
  | none | bool (b : Bool) | int (i : Int) | str (s : Name) | shared (k : Nat)
  deriving DecidableEq, Repr, Inhabited

/-- a `default_factory` -/
inductive Factory
  | atom (a : Atom)      -- a class (or a PEP 585 alias of it) used as the factory
  | lam (k : Nat)        -- user lambda number k
  deriving DecidableEq, Repr, Inhabited

inductive Val
  | lit (l : Lit)
  | zero (a : Atom)                    -- `a()` evaluated ONCE, while the class was being created (shared)
  | product (f : Factory) (n : Nat)    -- the object of allocation number n, made at run time by calling f
  | propObj                            -- a `property` object (what dataclasses passes for an omitted argument)
  | other                              -- anything else found in a class namespace (function, Field, ...)
  deriving DecidableEq, Repr, Inhabited

/-- a `dataclasses.Field` as far as the metaclass looks at it: `default` and `default_factory` (none = MISSING) -/
structure FieldSpec where
  dflt : Option Val := none
  factory : Option Factory := none
  deriving DecidableEq, Repr, Inhabited

def FieldSpec.isSet (f : FieldSpec) : Bool := f.dflt.isSome || f.factory.isSome

/-! ### annotations -/

inductive Extra
  | field (f : FieldSpec)
  | other
  deriving Repr, Inhabited

/-- annotation grammar.  `inst` is typing's `_inst` flag of an alias (`List[int]()` raises, `list[int]()` and
`DefaultDict[str, int]()` do not). -/
inductive Ty
  | atom (a : Atom)                            -- a class
  | noneT                                      -- `None` / NoneType
  | any                                        -- typing.Any and every other non-callable, non-generic object
  | bareAlias (a : Atom) (inst : Bool)         -- un-subscripted typing alias (`List`): NOT is_generic
  | generic (a : Atom) (inst : Bool)           -- subscripted alias with origin a (`List[int]`, `dict[str, int]`)
  | union (args : List Ty)                     -- Union[...] / Optional[...] / X | Y  (flattened args)
  | literal (vs : List Lit)                    -- Literal[...]
  | annotated (t : Ty) (extras : List Extra)   -- Annotated[t, extras...]
  | fwd (target : Option Ty)                   -- string / ForwardRef: resolves to `target`, or NameError
  | fwdArg                                     -- an unresolved ForwardRef met where a callable is expected
  deriving Repr, Inhabited

def Ty.isNoneT : Ty → Bool
  | .noneT => true
  | _ => false

/-- `t()`: `some a` = returned the zero value of class a, `none` = TypeError -/
def callZero : Ty → Option Atom
  | .atom a => if a.constructible then some a else none
  | .bareAlias a inst => if inst && a.constructible then some a else none
  | .generic a inst => if inst && a.constructible then some a else none
  | .annotated t _ => callZero t
  | _ => none

/-- `_default_from_type` -/
def fromType (t : Ty) : FieldSpec :=
  match callZero t with
  | none => {}
  | some a => if a.isLDS then { factory := some (.atom a) } else { dflt := some (.zero a) }

def firstField : List Extra → Option FieldSpec
  | [] => none
  | .field f :: _ => some f
  | .other :: r => firstField r

/-- `_default_from_annotation` on an annotation object (forward reference evaluation, `is_generic` dispatch,
`_default_from_generic_type`, `_default_from_typing_args`) -/
def defaultFromTy : Ty → FieldSpec
  | .fwd none => {}                                    -- NameError -> None -> `None()` TypeError -> field()
  | .fwd (some t) => defaultFromTy t
  | .annotated t extras =>
    match firstField extras with
    | some f => if f.isSet then f else defaultFromTy t   -- `_process_field(...)[0]`
    | none => defaultFromTy t
  | .literal vs =>
    match vs with
    | v :: _ => { dflt := some (.lit v) }
    | [] => { dflt := some (.lit .none) }
  | .union args =>
    if args.any Ty.isNoneT then {}
    else match args with
      | a :: _ => fromType a
      | [] => {}
  | .generic a _ => fromType (.atom a)                 -- `_default_from_type(origin)`
  | t => fromType t

/-- `_default_from_annotation(cls, annotations, field)` -/
def defaultFromAnnotation (anns : List (Name × Ty)) (n : Name) : FieldSpec :=
  match get n anns with
  | some t => defaultFromTy t
  | none => {}

/-- `_process_field` -/
def processField (anns : List (Name × Ty)) (n : Name) (f : FieldSpec) : FieldSpec × Bool :=
  if f.isSet then (f, true) else (defaultFromAnnotation anns n, false)

/-! ### class bodies and Python's class-body shadowing -/

/-- right-hand side of an assignment in a class body -/
inductive Rhs
  | lit (l : Lit)
  | field (f : FieldSpec) (init : Bool)      -- dataclasses.field(default=.. | default_factory=.., init=..)
  deriving Repr, Inhabited

inductive Member
  | ann (n : Name) (t : Ty)                    -- `n: t`
  | annAssign (n : Name) (t : Ty) (r : Rhs)    -- `n: t = r`
  | assign (n : Name) (r : Rhs)                -- `n = r`
  | prop (n : Name) (settable : Bool)          -- `@property def n` (+ `@n.setter def n` when settable)
  | method (n : Name)                          -- `def n(self)`
  deriving Repr, Inhabited

/-- what a name is bound to in the class namespace / the class `__dict__` -/
inductive NsVal
  | lit (l : Lit)
  | field (f : FieldSpec) (init : Bool)
  | prop (owner : Name) (settable : Bool) (wrapped : Option FieldSpec)
      -- property declared under `owner`; `wrapped = some fval`: its setter is `_wrapper(fset, fval)`
  | method (n : Name)
  deriving Repr, Inhabited

def Rhs.toNs : Rhs → NsVal
  | .lit l => .lit l
  | .field f i => .field f i

/-- the value `getattr(cls, name)` hands to `fval.default = v` -/
def toVal : NsVal → Val
  | .lit l => .lit l
  | .prop _ _ _ => .propObj
  | _ => .other

structure Body where
  anns : List (Name × Ty) := []         -- `__annotations__`
  ns : List (Name × NsVal) := []        -- the namespace dict handed to the metaclass
  deriving Repr, Inhabited

/-- executing one class-body statement -/
def Body.exec (b : Body) : Member → Body
  | .ann n t => { b with anns := put n t b.anns }
  | .annAssign n t r => { anns := put n t b.anns, ns := put n r.toNs b.ns }
  | .assign n r => { b with ns := put n r.toNs b.ns }
  | .prop n s => { b with ns := put n (.prop n s none) b.ns }
  | .method n => { b with ns := put n (.method n) b.ns }

/-- Python class-body shadowing: a later binding of a name replaces the earlier value (the annotation stays) -/
def classDict (ms : List Member) : Body := ms.foldl Body.exec {}

/-! ### the metaclass -/

/-- known deviation modes of the implementation (probed at run time by the harness) -/
structure Quirks where
  /-- `_process_underscored_property` assigns a plain default with `fval.default = v` on the Field derived
  from the annotation, so a `default_factory` implied by the type survives and wins in `_wrapper` -/
  underPlainKeepsFactory : Bool := false
  deriving DecidableEq, Repr, Inhabited

def Quirks.clean : Quirks := {}

def isUnder : Name → Bool
  | '_' :: _ => true
  | _ => false

/-- `str.lstrip('_')` -/
def lstrip : Name → Name
  | '_' :: r => lstrip r
  | n => n

structure WState where
  attrs : List (Name × NsVal)           -- the class `__dict__` (mutated by setattr / delattr)
  repls : List (Name × Name) := []      -- `annotation_repls`
  deriving Repr, Inhabited

/-- `_process_public_property` -/
def processPublic (anns : List (Name × Ty)) (f : Name) (st : WState) : WState :=
  let under := '_' :: f
  if (get f anns).isNone && (get under anns).isNone then st
  else
    let r : FieldSpec × Bool × WState :=
      if (get under anns).isSome then
        let st1 : WState := { st with repls := put under f st.repls }
        match get under st1.attrs with
        | none => (defaultFromAnnotation anns under, false, st1)          -- AttributeError
        | some (.field fs _) =>
          let p := processField anns under fs
          (p.1, p.2, { st1 with attrs := del under st1.attrs })
        | some v => ({ dflt := some (toVal v) }, true, { st1 with attrs := del under st1.attrs })
      else ({}, false, st)
    let fval := if (get f anns).isSome && !r.2.1 then defaultFromAnnotation anns f else r.1
    { r.2.2 with attrs := put f (.prop f true (some fval)) r.2.2.attrs }

/-- `_process_underscored_property` -/
def processUnder (q : Quirks) (anns : List (Name × Ty)) (f : Name) (st : WState) : WState :=
  let pub := lstrip f
  if (get pub anns).isNone && (get f anns).isNone then st
  else
    let r : FieldSpec × WState :=
      if (get f anns).isSome then
        (defaultFromAnnotation anns f, { st with repls := put f pub st.repls })
      else ({}, st)
    let fval :=
      if (get pub anns).isSome then
        let fv := defaultFromAnnotation anns pub
        match get pub r.2.attrs with                                   -- hasattr / getattr
        | none => fv
        | some (.field fs _) => (processField anns pub fs).1
        | some v => if q.underPlainKeepsFactory then { fv with dflt := some (toVal v) }
                    else { dflt := some (toVal v) }
      else r.1
    { r.2 with attrs := del f (put pub (.prop f true (some fval)) r.2.attrs) }

/-- one iteration of `for f, val in cls_dict.items()` -/
def stepNs (q : Quirks) (anns : List (Name × Ty)) (st : WState) : Name × NsVal → WState
  | (f, .prop _ true _) => if isUnder f then processUnder q anns f st else processPublic anns f st
  | _ => st

/-- the dict comprehension that renames annotations (a repeated key keeps its first position, last value) -/
def renameAnns (repls : List (Name × Name)) (anns : List (Name × Ty)) : List (Name × Ty) :=
  anns.foldl (fun acc e => put ((get e.1 repls).getD e.1) e.2 acc) []

/-- a class after the metaclass ran -/
structure Cls where
  anns : List (Name × Ty)
  attrs : List (Name × NsVal)
  deriving Repr, Inhabited

def wizardState (q : Quirks) (b : Body) : WState :=
  b.ns.foldl (stepNs q b.anns) { attrs := b.ns }

/-- `property_wizard(name, bases, cls_dict)` for a class without bases -/
def propertyWizard (q : Quirks) (ms : List Member) : Cls :=
  let b := classDict ms
  let st := wizardState q b
  { anns := if st.repls.isEmpty then b.anns else renameAnns st.repls b.anns
    attrs := st.attrs }

/-! ### `@dataclass` on the result -/

inductive DDefault
  | required
  | value (v : Val)
  | factory (f : Factory)
  deriving DecidableEq, Repr, Inhabited

structure DField where
  name : Name
  dflt : DDefault
  init : Bool
  deriving DecidableEq, Repr, Inhabited

def dfieldOf (attrs : List (Name × NsVal)) (n : Name) : DField :=
  match get n attrs with
  | none => { name := n, dflt := .required, init := true }
  | some (.field fs i) =>
    { name := n, init := i,
      dflt := match fs.dflt with
        | some v => .value v
        | none => match fs.factory with
          | some f => .factory f
          | none => .required }
  | some v => { name := n, dflt := .value (toVal v), init := true }

def dataclassFields (c : Cls) : List DField := (keys c.anns).map (dfieldOf c.attrs)

inductive ClsErr
  | typeError      -- non-default argument follows default argument
  | valueError     -- mutable default
  deriving DecidableEq, Repr, Inhabited

def DField.mutableDefault (f : DField) : Bool :=
  match f.dflt with
  | .value (.lit (.shared _)) => true
  | _ => false

/-- `True` when a required parameter follows one with a default -/
def badOrder : Bool → List DField → Bool
  | _, [] => false
  | seenDefault, f :: r =>
    if f.dflt = .required then (seenDefault || badOrder seenDefault r) else badOrder true r

/-- the dataclass decorator: the fields, or the error it raises -/
def dataclass (c : Cls) : Except ClsErr (List DField) :=
  let fs := dataclassFields c
  if fs.any DField.mutableDefault then .error .valueError
  else if c.attrs.any (fun e => match e.2 with
      | .field _ _ => (get e.1 c.anns).isNone      -- "is a field but has no type annotation"
      | _ => false) then .error .typeError
  else if badOrder false (fs.filter (·.init)) then .error .typeError
  else .ok fs

/-- the parameters of the generated `__init__` -/
def ctorParams (fs : List DField) : List DField := fs.filter (·.init)

/-! ### instances: `__init__`, attribute assignment, the wrapped setter -/

structure Inst where
  log : List (Name × Val) := []      -- calls of user-written setters: (property owner's public slot, value received)
  store : List (Name × Val) := []    -- what the getter of a property returns / plain instance attributes
  deriving DecidableEq, Repr, Inhabited

inductive CErr
  | typeError        -- missing / unexpected argument
  | attributeError   -- assignment to a read-only property
  deriving DecidableEq, Repr, Inhabited

/-- `_wrapper`'s `new_fset`: the value handed to the user's setter, and the allocation counter afterwards -/
def wrapSet (fv : FieldSpec) (v : Val) (c : Nat) : Val × Nat :=
  match v with
  | .propObj =>
    match fv.factory with
    | some f => (.product f c, c + 1)
    | none => (fv.dflt.getD (.lit .none), c)
  | v => (v, c)

/-- `setattr(instance, n, v)` against the class `__dict__` -/
def setAttr (attrs : List (Name × NsVal)) (i : Inst) (c : Nat) (n : Name) (v : Val) : Except CErr (Inst × Nat) :=
  match get n attrs with
  | some (.prop _ false _) => .error .attributeError
  | some (.prop _ true none) => .ok ({ log := i.log ++ [(n, v)], store := put n v i.store }, c)
  | some (.prop _ true (some fv)) =>
    let r := wrapSet fv v c
    .ok ({ log := i.log ++ [(n, r.1)], store := put n r.1 i.store }, r.2)
  | _ => .ok ({ i with store := put n v i.store }, c)

/-- the value `__init__` assigns to a field (none: nothing is assigned) -/
def bindField (args : List (Name × Val)) (fd : DField) (c : Nat) : Option Val × Nat :=
  let fromDefault : Option Val × Nat :=
    match fd.dflt with
    | .value v => (some v, c)
    | .factory f => (some (.product f c), c + 1)
    | .required => (none, c)
  if fd.init then
    match get fd.name args with
    | some v => (some v, c)
    | none => fromDefault
  else
    -- init=False: only a default_factory is called; a plain default stays a class attribute
    match fd.dflt with
    | .factory f => (some (.product f c), c + 1)
    | _ => (none, c)

def initLoop (attrs : List (Name × NsVal)) (args : List (Name × Val)) :
    List DField → Inst → Nat → Except CErr (Inst × Nat)
  | [], i, c => .ok (i, c)
  | fd :: r, i, c =>
    match bindField args fd c with
    | (none, c1) => initLoop attrs args r i c1
    | (some v, c1) =>
      match setAttr attrs i c1 fd.name v with
      | .error e => .error e
      | .ok (i2, c2) => initLoop attrs args r i2 c2

def argsOk (fs : List DField) (args : List (Name × Val)) : Bool :=
  (keys args).all (fun k => (ctorParams fs).any (fun f => f.name == k)) &&
  (ctorParams fs).all (fun f => !(f.dflt = .required) || (get f.name args).isSome)

/-- `cls(**args)` with the allocation counter at `c` -/
def construct (c0 : Cls) (fs : List DField) (args : List (Name × Val)) (c : Nat) : Except CErr (Inst × Nat) :=
  if argsOk fs args then initLoop c0.attrs args fs {} c else .error .typeError

/-- `inst.n = v` later on -/
def assign (c0 : Cls) (i : Inst) (c : Nat) (n : Name) (v : Val) : Except CErr (Inst × Nat) :=
  setAttr c0.attrs i c n v

/-- the setter calls that concern property `p` -/
def logOf (p : Name) (i : Inst) : List (Name × Val) := i.log.filter (fun e => e.1 == p)

/-! ### the specification side: which default is declared for a property field (stated by style, not by replaying
the metaclass) -/

/-- settable properties of a namespace, in namespace order -/
def settableNames (ns : List (Name × NsVal)) : List Name :=
  ns.filterMap (fun e => match e.2 with
    | .prop _ true _ => some e.1
    | _ => none)

/-- the partner name of a property: `_x` for public `x`, `x` for underscored `_x` -/
def partner (f : Name) : Name := if isUnder f then lstrip f else '_' :: f

/-- the public name a property ends up under -/
def pubOf (f : Name) : Name := if isUnder f then lstrip f else f

/-- names of the class `__dict__` the metaclass may write when it processes property `f` -/
def touch (f : Name) : List Name := [f, partner f]

/-- a settable property is *paired* with a field when its own name or its partner is annotated -/
def paired (anns : List (Name × Ty)) (f : Name) : Bool :=
  (get f anns).isSome || (get (partner f) anns).isSome

/-- a default declared explicitly: by plain value or by `dataclasses.field(default=… | default_factory=…)` -/
def explicitDefault : Option NsVal → Option FieldSpec
  | none => none
  | some (.field fs _) => if fs.isSet then some fs else none
  | some v => some { dflt := some (toVal v) }

/-- The declared default of the field paired with settable property `f`, style by style. `pv` is what the partner
name is bound to in the class body after shadowing. -/
def declaredDefaultWith (q : Quirks) (anns : List (Name × Ty)) (f : Name) (pv : Option NsVal) : FieldSpec :=
  if isUnder f then
    -- underscored property
    let pub := lstrip f
    if (get pub anns).isSome then
      -- ... with a public field: explicit default, else the one carried by / implied by the public annotation
      match pv with
      | none => defaultFromAnnotation anns pub
      | some (.field fs _) => if fs.isSet then fs else defaultFromAnnotation anns pub
      | some v =>
        if q.underPlainKeepsFactory then { defaultFromAnnotation anns pub with dflt := some (toVal v) }
        else { dflt := some (toVal v) }
    else
      -- ... sharing its name with the field: only the annotation survives
      defaultFromAnnotation anns f
  else
    -- public property
    let under := '_' :: f
    if (get under anns).isSome then
      -- ... with an underscored field: explicit default, else the public annotation (when there is one), else
      -- the underscored annotation
      match explicitDefault pv with
      | some fs => fs
      | none => if (get f anns).isSome then defaultFromAnnotation anns f else defaultFromAnnotation anns under
    else
      -- ... sharing its name with the field: only the annotation survives
      defaultFromAnnotation anns f

def declaredDefault (q : Quirks) (b : Body) (f : Name) : FieldSpec :=
  declaredDefaultWith q b.anns f (get (partner f) b.ns)

/-- an annotation is exposed under its public name when it is underscored and a settable property is bound to it or
to the name without its (single) leading underscore -/
def exposed (b : Body) (n : Name) : Bool :=
  isUnder n && (get n b.anns).isSome &&
    ((settableNames b.ns).contains n ||
      (match n with
       | _ :: p => !isUnder p && (settableNames b.ns).contains p
       | [] => false))

def expose (b : Body) (n : Name) : Name := if exposed b n then lstrip n else n

/-- order-preserving removal of repeated names (first occurrence stays) -/
def dedup : List Name → List Name → List Name
  | acc, [] => acc
  | acc, k :: r => if k ∈ acc then dedup acc r else dedup (acc ++ [k]) r

/-- what the wrapped setter hands to the user's setter when the argument is omitted and the allocation counter
stands at `n`: a new product of the factory, else the default, else None -/
def routedDefault (fv : FieldSpec) (n : Nat) : Val :=
  match fv.factory with
  | some f => .product f n
  | none => fv.dflt.getD (.lit .none)

def disjoint (a b : List Name) : Bool := a.all (fun x => !(b.contains x))

/-- no two settable properties write the same class attribute (e.g. not both `x` and `_x` as properties) -/
def independent : List Name → Bool
  | [] => true
  | f :: r => r.all (fun g => disjoint (touch f) (touch g)) && independent r

end DW.C16
