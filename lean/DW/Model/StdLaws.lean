/-
The laws about CPython's stdlib / pytimeparse that theorems take as *hypotheses* (never axioms).
Each is an inverse-pair or typing fact about code outside the repository; the harness samples
them against the real stdlib on the very values in play ("stdlib law check").
-/
import DW.Model.Std
import DW.Model.Dump

namespace DW

structure StdLaws (std : Std) : Prop where
  /-- `Decimal(str(d))` is `d` (same text) -/
  decimal_rt : ∀ t, std.validTok .decimal t = true → std.decimalOfStr t = some t
  /-- `str(Path(str(p))) = str(p)` -/
  path_rt : ∀ t, std.validTok .path t = true → std.pathOfStr t = t
  /-- `UUID(u.hex).hex = u.hex` -/
  uuid_rt : ∀ t, std.validTok .uuid t = true → std.uuidOfStr t = some t
  /-- `date.fromisoformat(d.isoformat()) == d` -/
  date_rt : ∀ t, std.validTok .date t = true → std.dateFromIso t = some t
  /-- `time.fromisoformat(t.isoformat()) == t` -/
  time_rt : ∀ t, std.validTok .time t = true → std.timeFromIso t = some t
  /-- `datetime.fromisoformat(dt.isoformat()) == dt` -/
  datetime_rt : ∀ t, std.validTok .datetime t = true → std.datetimeFromIso t = some t
  /-- `isoformat()` output never contains the letter `Z` -/
  time_noZ : ∀ t, std.validTok .time t = true → 'Z' ∉ t
  datetime_noZ : ∀ t, std.validTok .datetime t = true → 'Z' ∉ t
  /-- Python ≥ 3.11: `fromisoformat` reads a trailing `Z` as UTC, so the dumped text loads back unchanged -/
  datetime_rt_z : ∀ t, std.validTok .datetime t = true → std.datetimeFromIso (isoZ t) = some t
  time_rt_z : ∀ t, std.validTok .time t = true → std.timeFromIso (isoZ t) = some t
  /-- `b64decode(b64encode(b)) == b` -/
  b64_rt : ∀ b, std.b64decode (std.b64encode b) = some b
  /-- `timedelta(seconds=pytimeparse.parse(str(td))) == td` for non-negative `td` -/
  timedelta_rt : ∀ us : Int, 0 ≤ us →
    ∃ n, std.timeparse (tdStr us) = some n ∧ std.tdOfSeconds n = some us

end DW
