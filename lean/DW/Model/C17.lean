/-
C17 — patterned dates / times.

Model of
  * the default engine's `PatternedDT.get_transform_func` (models.py) as used by `PatternedDTParser`
    (parsers.py) for `DatePattern[..]` / `TimePattern[..]` / `DateTimePattern[..]` and for every
    date / time / datetime position under `Annotated[..., Pattern(..)]` (class_helper.py / loaders.py);
  * the v1 engine's code generator `PatternBase.load_to_pattern` (v1/models.py), how a position is bound to a
    generated function (`process_patterned_date_time`, the `recursion_guard`, the function names, the
    `extras['pattern']` entry) and what the generated function computes;
  * the ISO dump of the loaded values.

`strptime`, `fromisoformat`, `isoformat` and `fromtimestamp` are stdlib primitives: a record of functions
(`PatStd`), instantiated by the driver from tables the harness computes by calling the stdlib itself.

Values are structured (fields + tzinfo + "is an instance of the user's subclass"); `fold` is not modelled
(neither `strptime` nor `fromisoformat` ever sets it).  Containers are modelled for well-formed documents only
(a list for `list`/`tuple` of the right length, a dict for `dict`, keys that load to distinct values).
-/
import DW.Model.Std
import DW.Model.Dump
import DW.Model.Load
import DW.Model.LoadV1

namespace DW.C17
open DW

inductive Kind | date | time | datetime
  deriving Repr, DecidableEq, Inhabited

/-- a `tzinfo` -/
inductive TZ
  | fixed (us : Int)        -- `datetime.timezone(timedelta(microseconds=us))` (from `%z` or an ISO offset)
  | zone (key : S)          -- `zoneinfo.ZoneInfo(key)` (the declared zone of an Aware / UTC pattern)
  deriving Repr, DecidableEq, Inhabited

structure DateF where
  y : Nat
  m : Nat
  d : Nat
  deriving Repr, DecidableEq, Inhabited

structure TimeF where
  h : Nat
  mi : Nat
  s : Nat
  us : Nat
  tz : Option TZ
  deriving Repr, DecidableEq, Inhabited

/-- the fields of a `datetime` (its tzinfo lives in `time.tz`) -/
structure DT where
  date : DateF
  time : TimeF
  deriving Repr, DecidableEq, Inhabited

/-- a loaded date / time / datetime: `sub` = the runtime class is the user's subclass of the stdlib class -/
inductive DV
  | date (sub : Bool) (d : DateF)
  | time (sub : Bool) (t : TimeF)
  | datetime (sub : Bool) (dt : DT)
  deriving Repr, DecidableEq, Inhabited

def DV.kind : DV → Kind
  | .date _ _ => .date
  | .time _ _ => .time
  | .datetime _ _ => .datetime

def DV.isSub : DV → Bool
  | .date s _ => s
  | .time s _ => s
  | .datetime s _ => s

/-- the tzinfo of a value (a date has none) -/
def DV.tz : DV → Option TZ
  | .date _ _ => none
  | .time _ t => t.tz
  | .datetime _ dt => dt.time.tz

/-- outcome of a `fromtimestamp` call -/
inductive TsRes (α : Type)
  | ok (a : α)
  | valueError        -- e.g. "year 10000 is out of range"
  | otherError        -- OverflowError / OSError
  deriving Repr, Inhabited

/-- stdlib primitives (no axioms: a record of functions) -/
structure PatStd where
  /-- `datetime.strptime(text, pattern)` as `strptime pattern text`; `none` = it raises -/
  strptime : S → S → Option DT
  /-- `date.fromisoformat(text)`; `none` = ValueError -/
  dateFromIso : S → Option DateF
  timeFromIso : S → Option TimeF
  datetimeFromIso : S → Option DT
  /-- `isoformat()` -/
  dateIso : DateF → S
  timeIso : TimeF → S
  datetimeIso : DT → S
  /-- `date.fromtimestamp(x)` -/
  dateFromTs : Num → TsRes DateF
  /-- `datetime.fromtimestamp(x, tz)` -/
  datetimeFromTs : Num → Option TZ → TsRes DT

/-- Python-side results -/
inductive PV
  | none
  | str (s : S)
  | dv (v : DV)
  | list (xs : List PV)
  | tuple (xs : List PV)
  | dict (kvs : List (PV × PV))
  deriving Repr, Inhabited

inductive PErr
  | noMatch (patterns : List S)   -- the library's "matches neither ISO nor a pattern" error; carries the patterns it names
  | typeError                     -- TypeError (default engine: raw; v1: wrapped in a ParseError)
  | attrError                     -- AttributeError (default engine, raw)
  | valueError                    -- a raw ValueError that is not the "matches neither" error (bad ISO text at a plain position, year out of range)
  | other                         -- any other exception (ValueError of a plain ISO field, OverflowError of a timestamp, …)
  deriving Repr, DecidableEq, Inhabited

abbrev PRes := Except PErr PV

/-- known deviation modes of the implementation (probed by the harness on every run) -/
structure PQuirks where
  /-- default engine, time pattern containing `-`/`+`: the generated function has no final `raise`, so a text
  matching neither yields `None` (plain `time`) or an AttributeError (subclass) -/
  dTimeDashSilent : Bool := false
  /-- v1: the generated pattern function is cached per *pattern object* (`recursion_guard[pb]`), so a pattern
  object met at a second type keeps the function of the first type it was bound to -/
  v1GuardByObject : Bool := false
  /-- v1: the generated function is named after the type (`_load_{cls}_pattern_{date}`), or after base+md5(patterns)
  for the subscripted form, so two pattern objects can share a name; the later definition replaces the earlier -/
  v1NameByType : Bool := false
  /-- v1: `extras['pattern']` stays set for the remaining fields of the class -/
  v1PatternSticky : Bool := false
  deriving Repr, DecidableEq, Inhabited

def PQuirks.clean : PQuirks := {}

/-! ### the default engine: `PatternedDT.get_transform_func` -/

def hasDash (p : S) : Bool := p.contains '-' || p.contains '+'

/-- the special case of `get_transform_func`: a `time` target whose pattern contains `-` or `+` -/
def dashTime (k : Kind) (p : S) : Bool := k == .time && hasDash p

/-- text handed to `fromisoformat` by `as_date` / `as_time` / `as_datetime` -/
def isoTextD (k : Kind) (s : S) : S :=
  match k with
  | .date => s
  | _ => zToOffset s

/-- `cls.fromisoformat(text)` -/
def isoVal (std : PatStd) (k : Kind) (sub : Bool) (s : S) : Option DV :=
  match k with
  | .date => (std.dateFromIso s).map (DV.date sub)
  | .time => (std.timeFromIso s).map (DV.time sub)
  | .datetime => (std.datetimeFromIso s).map (DV.datetime sub)

/-- the default engine's ISO reading of a text: `as_*(s, cls)` on a `str` -/
def isoD (std : PatStd) (k : Kind) (sub : Bool) (s : S) : Option DV := isoVal std k sub (isoTextD k s)

/-- `as_date` / `as_time` / `as_datetime` `(o, cls, raise_=False)`: `ok none` = returned None;
an error = an exception escaped (a `fromtimestamp` failure) -/
def asD (std : PatStd) (k : Kind) (sub : Bool) (o : JVal) : Except PErr (Option DV) :=
  match o with
  | .str s => .ok (isoD std k sub s)
  | o =>
    match jNumExact? o, k with
    | some n, .date =>
      match std.dateFromTs n with
      | .ok d => .ok (some (.date sub d))
      | .valueError => .error .valueError
      | .otherError => .error .other
    | some n, .datetime =>
      match std.datetimeFromTs n (some (.fixed 0)) with
      | .ok dt => .ok (some (.datetime sub dt))
      | .valueError => .error .valueError
      | .otherError => .error .other
    | _, _ => .ok none

/-- what the transform function makes of a `strptime` result: `dt` / `dt.date()` / `dt.time()` /
`cls(y, m, d)` / `cls(h, m, s, us)` -/
def convD (k : Kind) (sub : Bool) (dt : DT) : DV :=
  match k with
  | .datetime => .datetime sub dt
  | .date => .date sub dt.date
  | .time => .time sub { dt.time with tz := none }

/-- end of the `-`/`+` variant when neither `strptime` nor `fromisoformat` accepted the value (`isStr`: the value
was a string, so `strptime` failed with a ValueError and not a TypeError) -/
def dashFallthrough (q : PQuirks) (sub : Bool) (p : S) (isStr : Bool) : PRes :=
  if q.dTimeDashSilent then (if sub then .error .attrError else .ok .none)
  else if isStr then .error (.noMatch [p]) else .error .typeError

/-- `PatternedDTParser.__call__` = the function generated by `get_transform_func` (+ ValueError -> ParseError) -/
def patternTransform (std : PatStd) (q : PQuirks) (k : Kind) (sub : Bool) (p : S) (o : JVal) : PRes :=
  if dashTime k p then
    match o with
    | .str s =>
      match std.strptime p s with
      | some dt => .ok (.dv (convD .time sub dt))
      | none =>
        match isoD std .time sub s with
        | some v => .ok (.dv v)
        | none => dashFallthrough q sub p true
    | _ => dashFallthrough q sub p false
  else
    match asD std k sub o with
    | .error .valueError => .error (.noMatch [p])     -- `except ValueError` of `PatternedDTParser.__call__`
    | .error e => .error e
    | .ok (some v) => .ok (.dv v)
    | .ok none =>
      match o with
      | .str s =>
        match std.strptime p s with
        | some dt => .ok (.dv (convD k sub dt))
        | none => .error (.noMatch [p])
      | _ => .error .typeError

/-- an unpatterned date / time / datetime position, default engine (`as_*` with `raise_=True`) -/
def plainD (std : PatStd) (k : Kind) (sub : Bool) (o : JVal) : PRes :=
  match o with
  | .str s =>
    match isoD std k sub s with
    | some v => .ok (.dv v)
    | none => .error .valueError
  | o =>
    match asD std k sub o with
    | .error e => .error e
    | .ok (some v) => .ok (.dv v)
    | .ok none => .error .typeError

/-! ### the v1 engine: the function generated by `PatternBase.load_to_pattern` -/

/-- what a generated pattern function was generated *for* -/
structure FnSpec where
  k : Kind
  sub : Bool
  patterns : List S
  tz : Option TZ
  deriving Repr, DecidableEq, Inhabited

/-- `.replace(tzinfo=__tz)` when a zone is declared -/
def attachTz (tz : Option TZ) (t : TimeF) : TimeF :=
  match tz with
  | none => t
  | some z => { t with tz := some z }

/-- `strptime(v1, p){.replace(tzinfo=__tz)}{'' | .date() | .time() | .timetz()}` resp. the subclass constructions -/
def convV1 (sp : FnSpec) (dt : DT) : DV :=
  match sp.k with
  | .datetime => .datetime sp.sub { dt with time := attachTz sp.tz dt.time }
  | .date => .date sp.sub dt.date
  | .time => .time sp.sub (attachTz sp.tz dt.time)      -- `.timetz()`: an offset parsed by `%z` is kept (repair of the dropped offset)

/-- the `for p in patterns: try: return … except Exception: pass` chain -/
def tryPatterns (std : PatStd) (sp : FnSpec) (s : S) : List S → Option DV
  | [] => none
  | p :: ps =>
    match std.strptime p s with
    | some dt => some (convV1 sp dt)
    | none => tryPatterns std sp s ps

/-- `__base__.fromisoformat(v1){.replace(tzinfo=__tz)}`: `none` = ValueError; a `date` has no `tzinfo` to replace
(TypeError, after which `as_date_v1` rejects the string with another TypeError) -/
def isoV1 (std : PatStd) (sp : FnSpec) (s : S) : Option (Except PErr DV) :=
  match sp.k with
  | .date =>
    match std.dateFromIso s with
    | none => none
    | some d => if sp.tz.isSome then some (.error .typeError) else some (.ok (.date sp.sub d))
  | .time => (std.timeFromIso s).map (fun t => .ok (.time sp.sub (attachTz sp.tz t)))
  | .datetime => (std.datetimeFromIso s).map (fun dt => .ok (.datetime sp.sub { dt with time := attachTz sp.tz dt.time }))

/-- `as_date_v1` / `as_datetime_v1` / `as_time_v1` on a non-string -/
def asV1 (std : PatStd) (sp : FnSpec) (o : JVal) : Except PErr DV :=
  match sp.k, jNumLoose? o with
  | .date, some n =>
    match std.dateFromTs n with
    | .ok d => .ok (.date sp.sub d)
    | .valueError => .error .valueError
    | .otherError => .error .other
  | .datetime, some n =>
    match std.datetimeFromTs n sp.tz with
    | .ok dt => .ok (.datetime sp.sub dt)
    | .valueError => .error .valueError
    | .otherError => .error .other
  | _, _ => .error .typeError

/-- does the generator take the "strptime first" layout (a time target with a `-`/`+` in some pattern) -/
def dashV1 (sp : FnSpec) : Bool := sp.k == .time && sp.patterns.any hasDash

/-- the generated `_load_{cls}_pattern_{…}(v1)` -/
def loadToPattern (std : PatStd) (sp : FnSpec) (o : JVal) : PRes :=
  match o with
  | .str s =>
    if dashV1 sp then
      match tryPatterns std sp s sp.patterns with
      | some v => .ok (.dv v)
      | none =>
        match isoV1 std sp s with
        | some r => r.map .dv
        | none => .error (.noMatch sp.patterns)
    else
      match isoV1 std sp s with
      | some r => r.map .dv
      | none =>
        match tryPatterns std sp s sp.patterns with
        | some v => .ok (.dv v)
        | none => .error (.noMatch sp.patterns)
  | o => (asV1 std sp o).map .dv

/-- an unpatterned date / time / datetime position, v1 engine -/
def plainV1 (std : PatStd) (k : Kind) (sub : Bool) (o : JVal) : PRes :=
  match o with
  | .str s =>
    match isoVal std k sub s with
    | some v => .ok (.dv v)
    | none => .error .valueError
  | o => (asV1 std { k := k, sub := sub, patterns := [], tz := none } o).map .dv

/-! ### positions: the type grammar of a patterned field -/

/-- a pattern object: `Pattern('%d/%m/%Y')`, `UTCPattern(..)`, `AwarePattern('Europe/London', ..)`, or the object a
subscripted form (`DatePattern['…']`) evaluates to -/
structure PatObj where
  patterns : List S
  tz : Option TZ := none
  /-- built through an Aware… form: `patterns` is then a *list* (else a tuple), which shows in `str(patterns)` -/
  aware : Bool := false
  deriving Repr, DecidableEq, Inhabited

inductive PTy
  | str
  | leaf (k : Kind) (sub : Bool)          -- `date` / `time` / `datetime` or the user's subclass
  | pat (k : Kind) (pid : Nat)            -- subscripted form: the annotation *is* pattern object `pid` (base = stdlib class)
  | optional (t : PTy)
  | list (t : PTy)
  | tuple (ts : List PTy)
  | dict (kt vt : PTy)
  deriving Repr, Inhabited

/-- a dataclass field: `name: ty` or `name: Annotated[ty, <pattern object ann>]` -/
structure Field where
  ty : PTy
  ann : Option Nat := none
  deriving Repr, Inhabited

def patObj (pats : List PatObj) (pid : Nat) : PatObj := (pats[pid]?).getD { patterns := [] }

/-- the default engine's `PatternedDT` carries one pattern -/
def firstPat (pats : List PatObj) (pid : Nat) : S := ((patObj pats pid).patterns.head?).getD []

def mapE {α β} (f : α → Except PErr β) : List α → Except PErr (List β)
  | [] => .ok []
  | x :: xs =>
    match f x with
    | .error e => .error e
    | .ok y =>
      match mapE f xs with
      | .error e => .error e
      | .ok ys => .ok (y :: ys)

/-- `{kf(k): vf(v) for k, v in o.items()}` (keys of a JSON object are strings) -/
def mapPairsE (f g : JVal → PRes) : List (S × JVal) → Except PErr (List (PV × PV))
  | [] => .ok []
  | (k, v) :: r =>
    match f (.str k) with
    | .error e => .error e
    | .ok k' =>
      match g v with
      | .error e => .error e
      | .ok v' =>
        match mapPairsE f g r with
        | .error e => .error e
        | .ok r' => .ok ((k', v') :: r')

mutual
/-- default engine: the Parser built for a field annotation, `ann` = the `Pattern` found in `Annotated[…]`
(`field_extras['pattern']`): it reaches *every* date / time / datetime position below -/
def pLoadD (std : PatStd) (q : PQuirks) (pats : List PatObj) (ann : Option Nat) : PTy → JVal → PRes
  | .str, o =>
    match o with
    | .str s => .ok (.str s)
    | _ => .error .other
  | .leaf k sub, o =>
    match ann with
    | some pid => patternTransform std q k sub (firstPat pats pid) o
    | none => plainD std k sub o
  | .pat k pid, o => patternTransform std q k false (firstPat pats pid) o
  | .optional t, o =>
    match o with
    | .null => .ok .none
    | _ => pLoadD std q pats ann t o
  | .list t, o =>
    match o with
    | .list xs => (mapE (fun x => pLoadD std q pats ann t x) xs).map PV.list
    | _ => .error .other
  | .tuple ts, o =>
    match o with
    | .list xs => (pLoadDTuple std q pats ann ts xs).map PV.tuple
    | _ => .error .other
  | .dict kt vt, o =>
    match o with
    | .dict kvs =>
      (mapPairsE (fun x => pLoadD std q pats ann kt x) (fun x => pLoadD std q pats ann vt x) kvs).map PV.dict
    | _ => .error .other

def pLoadDTuple (std : PatStd) (q : PQuirks) (pats : List PatObj) (ann : Option Nat) : List PTy → List JVal → Except PErr (List PV)
  | [], [] => .ok []
  | t :: ts, x :: xs =>
    match pLoadD std q pats ann t x with
    | .error e => .error e
    | .ok y =>
      match pLoadDTuple std q pats ann ts xs with
      | .error e => .error e
      | .ok ys => .ok (y :: ys)
  | _, _ => .error .other
end

/-! ### v1: binding positions to generated functions (class-level generation state) -/

/-- a date / time / datetime position met by the generator while a pattern object is in force -/
structure Pos where
  pid : Nat
  k : Kind
  sub : Bool
  subscripted : Bool      -- the annotation is the pattern object itself (`DatePattern['…']`), not `Annotated[T, P]`
  deriving Repr, DecidableEq, Inhabited

inductive FnName
  | uniq (pid : Nat) (k : Kind) (sub : Bool)     -- a name no other (pattern object, type) pair gets
  | byType (k : Kind) (sub : Bool)               -- `_load_{cls}_pattern_{type name}` (Annotated form)
  | byRepr (k : Kind) (patterns : List S) (aware : Bool)   -- `_load_{cls}_pattern_{base}_{md5(str(patterns))}` (subscripted form)
  deriving Repr, DecidableEq, Inhabited

mutual
/-- the patterned positions of an annotation in generation order (dict: key type, then value type) -/
def leavesTy (sticky : Option Nat) : PTy → List Pos
  | .str => []
  | .leaf k sub =>
    match sticky with
    | some pid => [{ pid := pid, k := k, sub := sub, subscripted := false }]
    | none => []
  | .pat k pid => [{ pid := pid, k := k, sub := false, subscripted := true }]
  | .optional t => leavesTy sticky t
  | .list t => leavesTy sticky t
  | .tuple ts => leavesTys sticky ts
  | .dict kt vt => leavesTy sticky kt ++ leavesTy sticky vt

def leavesTys (sticky : Option Nat) : List PTy → List Pos
  | [] => []
  | t :: ts => leavesTy sticky t ++ leavesTys sticky ts
end

/-- `extras['pattern']` while field `f` is generated, given its value after the previous field -/
def stickyStep (q : PQuirks) (prev : Option Nat) (f : Field) : Option Nat :=
  match f.ann with
  | some pid => some pid
  | none => if q.v1PatternSticky then prev else none

def classPositions (q : PQuirks) : Option Nat → List Field → List Pos
  | _, [] => []
  | prev, f :: fs => leavesTy (stickyStep q prev f) f.ty ++ classPositions q (stickyStep q prev f) fs

/-- `extras['pattern']` in force while field number `i` is generated -/
def stickyAt (q : PQuirks) : Option Nat → List Field → Nat → Option Nat
  | _, [], _ => none
  | prev, f :: _, 0 => stickyStep q prev f
  | prev, f :: fs, i + 1 => stickyAt q (stickyStep q prev f) fs i

structure GenSt where
  guard : List (Nat × FnName) := []          -- `recursion_guard` restricted to pattern objects
  fns : List (FnName × FnSpec) := []         -- generated functions in definition order (a later one replaces an earlier one of the same name)
  deriving Repr, Inhabited

def mkName (q : PQuirks) (pats : List PatObj) (p : Pos) : FnName :=
  if q.v1NameByType then
    (if p.subscripted then .byRepr p.k (patObj pats p.pid).patterns (patObj pats p.pid).aware else .byType p.k p.sub)
  else .uniq p.pid p.k p.sub

/-- the function the position *should* get: its own type, the patterns and zone of the pattern object in force -/
def ownSpec (pats : List PatObj) (p : Pos) : FnSpec :=
  { k := p.k, sub := p.sub, patterns := (patObj pats p.pid).patterns, tz := (patObj pats p.pid).tz }

def guardLookup (g : List (Nat × FnName)) (pid : Nat) : Option FnName :=
  (g.find? (fun e => e.1 == pid)).map (·.2)

/-- `pb.load_to_pattern(tp, extras)` under `setup_recursive_safe_function`: reuse the cached function, or generate one -/
def genPos (q : PQuirks) (pats : List PatObj) (st : GenSt) (p : Pos) : GenSt :=
  if q.v1GuardByObject then
    match guardLookup st.guard p.pid with
    | some _ => st
    | none => { guard := st.guard ++ [(p.pid, mkName q pats p)], fns := st.fns ++ [(mkName q pats p, ownSpec pats p)] }
  else { st with fns := st.fns ++ [(mkName q pats p, ownSpec pats p)] }

def genPositions (q : PQuirks) (pats : List PatObj) (ps : List Pos) : GenSt := ps.foldl (genPos q pats) {}

/-- generation of the whole class loader -/
def genClass (q : PQuirks) (pats : List PatObj) (fields : List Field) : GenSt :=
  genPositions q pats (classPositions q none fields)

/-- the name the generated expression for position `p` calls (guard entries are never replaced, so the final
table answers for every position) -/
def nameAt (q : PQuirks) (pats : List PatObj) (st : GenSt) (p : Pos) : FnName :=
  if q.v1GuardByObject then (guardLookup st.guard p.pid).getD (mkName q pats p) else mkName q pats p

def lookupLast (fns : List (FnName × FnSpec)) (n : FnName) : Option FnSpec :=
  (fns.reverse.find? (fun e => e.1 == n)).map (·.2)

/-- the function that actually runs for position `p` once the class loader exists.  A `uniq` name is only ever
defined with the spec it names, so it is resolved directly. -/
def resolve (q : PQuirks) (pats : List PatObj) (st : GenSt) (p : Pos) : FnSpec :=
  match nameAt q pats st p with
  | .uniq pid k sub => ownSpec pats { pid := pid, k := k, sub := sub, subscripted := p.subscripted }
  | n => (lookupLast st.fns n).getD (ownSpec pats p)

mutual
/-- v1: value of the generated expression for an annotation, `sticky` = `extras['pattern']` during the field -/
def pLoadV1 (std : PatStd) (q : PQuirks) (pats : List PatObj) (st : GenSt) (sticky : Option Nat) : PTy → JVal → PRes
  | .str, o =>
    match o with
    | .str s => .ok (.str s)
    | _ => .error .other
  | .leaf k sub, o =>
    match sticky with
    | some pid => loadToPattern std (resolve q pats st { pid := pid, k := k, sub := sub, subscripted := false }) o
    | none => plainV1 std k sub o
  | .pat k pid, o => loadToPattern std (resolve q pats st { pid := pid, k := k, sub := false, subscripted := true }) o
  | .optional t, o =>
    match o with
    | .null => .ok .none
    | _ => pLoadV1 std q pats st sticky t o
  | .list t, o =>
    match o with
    | .list xs => (mapE (fun x => pLoadV1 std q pats st sticky t x) xs).map PV.list
    | _ => .error .other
  | .tuple ts, o =>
    match o with
    | .list xs => (pLoadV1Tuple std q pats st sticky ts xs).map PV.tuple
    | _ => .error .other
  | .dict kt vt, o =>
    match o with
    | .dict kvs =>
      (mapPairsE (fun x => pLoadV1 std q pats st sticky kt x) (fun x => pLoadV1 std q pats st sticky vt x) kvs).map PV.dict
    | _ => .error .other

def pLoadV1Tuple (std : PatStd) (q : PQuirks) (pats : List PatObj) (st : GenSt) (sticky : Option Nat) :
    List PTy → List JVal → Except PErr (List PV)
  | [], [] => .ok []
  | t :: ts, x :: xs =>
    match pLoadV1 std q pats st sticky t x with
    | .error e => .error e
    | .ok y =>
      match pLoadV1Tuple std q pats st sticky ts xs with
      | .error e => .error e
      | .ok ys => .ok (y :: ys)
  | _, _ => .error .other
end

inductive Engine | dflt | v1
  deriving Repr, DecidableEq, Inhabited

/-- `Cls.from_dict({name_i: o}).name_i` for field number `i` of a class with the given fields -/
def pLoadField (std : PatStd) (e : Engine) (q : PQuirks) (pats : List PatObj) (fields : List Field) (i : Nat) (o : JVal) : PRes :=
  match fields[i]? with
  | none => .error .other
  | some f =>
    match e with
    | .dflt => pLoadD std q pats f.ann f.ty o
    | .v1 => pLoadV1 std q pats (genClass q pats fields) (stickyAt q none fields i) f.ty o

/-! ### dump -/

/-- `dump_with_date` / `dump_with_time` / `dump_with_datetime`: `isoformat()`, a trailing `+00:00` written `Z` -/
def dumpDV (std : PatStd) : DV → S
  | .date _ d => std.dateIso d
  | .time _ t => isoZ (std.timeIso t)
  | .datetime _ dt => isoZ (std.datetimeIso dt)

mutual
/-- `asdict` on a loaded field value, then through JSON (a tuple becomes a list) -/
def dumpPV (std : PatStd) : PV → JVal
  | .none => .null
  | .str s => .str s
  | .dv v => .str (dumpDV std v)
  | .list xs => .list (dumpPList std xs)
  | .tuple xs => .list (dumpPList std xs)
  | .dict kvs => .dict (dumpPPairs std kvs)

def dumpPList (std : PatStd) : List PV → List JVal
  | [] => []
  | x :: xs => dumpPV std x :: dumpPList std xs

def dumpPPairs (std : PatStd) : List (PV × PV) → List (S × JVal)
  | [] => []
  | (k, v) :: r =>
    ((match dumpPV std k with | .str s => s | .null => "null".toList | _ => []), dumpPV std v) :: dumpPPairs std r
end

/-! ### the stdlib laws the dump/reload theorems take as hypotheses (stated at one value; sampled against CPython by the harness) -/

/-- the stdlib law of the dump/reload theorem at a value: `fromisoformat(v.isoformat()) == v`, and `isoformat()`
never writes the letter `Z` -/
def IsoRT (std : PatStd) : DV → Prop
  | .date _ d => std.dateFromIso (std.dateIso d) = some d
  | .time _ t => std.timeFromIso (std.timeIso t) = some t ∧ 'Z' ∉ std.timeIso t
  | .datetime _ dt => std.datetimeFromIso (std.datetimeIso dt) = some dt ∧ 'Z' ∉ std.datetimeIso dt

/-- the stdlib law of the v1 dump/reload theorem at a value: the dumped text (`isoformat()`, a trailing `+00:00`
written `Z`) is read back by `fromisoformat` as the same fields, up to the tzinfo the declared zone then replaces -/
def IsoRTV1 (std : PatStd) (tz : Option TZ) : DV → Prop
  | .date _ d => std.dateFromIso (std.dateIso d) = some d
  | .time _ t => ∃ t', std.timeFromIso (isoZ (std.timeIso t)) = some t' ∧ attachTz tz t' = t
  | .datetime _ dt => ∃ dt', std.datetimeFromIso (isoZ (std.datetimeIso dt)) = some dt' ∧
      ({ dt' with time := attachTz tz dt'.time } : DT) = dt

end DW.C17
