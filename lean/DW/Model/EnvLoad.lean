/-
Model of the EnvWizard load engine (`environ/loaders.py` `EnvLoader`): the default engine's Parser classes
with the `EnvLoader` overrides — `as_list` / `as_dict` string splitting (comma separated items, `k=v` pairs,
JSON-looking strings handed to `json.loads`), numeric-string timestamps for `date` / `datetime`, utf-8 `bytes`.
A field value arrives as an environment *string*; values nested in a JSON-looking string are JSON values and
go through the same loaders, so the model works on `JVal`.

`json.loads` is a stdlib primitive: a parameter `js : S → Option JVal` (`none` = JSONDecodeError), table-backed
by the harness like the `Std` record.  Recursion is structural on the type expression.
-/
import DW.Model.Load

namespace DW
open DW.Str

/-! ### string splitting (`utils/type_conv.py` `as_list` / `as_dict`) -/

/-- put `c` in front of the first piece -/
def consHead (c : Char) : List S → List S
  | [] => [[c]]
  | p :: ps => (c :: p) :: ps

/-- `s.split(sep)` for a one-character separator: always at least one piece -/
def splitOn (sep : Char) : S → List S
  | [] => [[]]
  | c :: r => if c = sep then [] :: splitOn sep r else consHead c (splitOn sep r)

/-- `sep.join(items)` -/
def joinSep (sep : Char) : List S → S
  | [] => []
  | [x] => x
  | x :: y :: r => x ++ sep :: joinSep sep (y :: r)

/-- `s.split(sep, 1)`: the text before the first `sep` and, when there is one, the text after it -/
def partitionAt (sep : Char) : S → S × Option S
  | [] => ([], none)
  | c :: r =>
    if c = sep then ([], some r)
    else ((c :: (partitionAt sep r).1), (partitionAt sep r).2)

/-- `s.strip()` / `s.lstrip()` (ASCII whitespace) -/
def pyStrip (s : S) : S := ObjPath.stripSpace s
def pyLstrip (s : S) : S := s.dropWhile ObjPath.isPySpace

/-- `s.lstrip().startswith(c)` -/
def looksJson (c : Char) (s : S) : Bool :=
  match pyLstrip s with
  | d :: _ => d == c
  | [] => false

/-- the items of a comma separated string, stripped -/
def commaItems (s : S) : List S := (splitOn ',' s).map pyStrip

/-- `as_list(o)`: a JSON-looking string is parsed, any other string is split on commas, a non-string is returned as is -/
def envAsList (js : S → Option JVal) : JVal → Except LErr JVal
  | .str s =>
    if looksJson '[' s then
      match js s with
      | some v => pure v
      | none => rawE "ValueError"
    else pure (.list ((commaItems s).map JVal.str))
  | o => pure o

/-- `map(str.strip, pair.split('=', 1))` for every pair; `none` = a pair without `=` (`dict()` raises ValueError) -/
def kvPairs : List S → Option (List (S × JVal))
  | [] => some []
  | p :: ps =>
    match (partitionAt '=' p).2, kvPairs ps with
    | some v, some r => some ((pyStrip (partitionAt '=' p).1, JVal.str (pyStrip v)) :: r)
    | _, _ => none

/-- `dict(pairs)` on string keys: a later value wins, the first position is kept -/
def jDictInsert (acc : List (S × JVal)) (k : S) (v : JVal) : List (S × JVal) :=
  if acc.any (fun p => p.1 == k) then acc.map (fun p => if p.1 == k then (p.1, v) else p)
  else acc ++ [(k, v)]

def jDictOf (kvs : List (S × JVal)) : List (S × JVal) :=
  kvs.foldl (fun acc p => jDictInsert acc p.1 p.2) []

/-- `as_dict(o)` -/
def envAsDict (js : S → Option JVal) : JVal → Except LErr JVal
  | .str s =>
    if looksJson '{' s then
      match js s with
      | some v => pure v
      | none => rawE "ValueError"
    else
      match kvPairs (splitOn ',' s) with
      | some kvs => pure (.dict (jDictOf kvs))
      | none => rawE "ValueError"
  | o => pure o

/-! ### scalar overrides -/

/-- `EnvLoader.load_to_datetime`: a string in numeric form is an epoch timestamp (UTC) — tested *before*
any ISO parsing —, any other string goes to `fromisoformat` (`Z` -> `+00:00`); a non-string to `as_datetime` -/
def envDatetime (std : Std) : JVal → LRes
  | .str s =>
    if looksNumeric s then
      match std.floatOfStr s with
      | none => rawE "ValueError"
      | some f => match std.datetimeFromTsUtc (.float f) with
        | some t => pure (.leaf .datetime false t)
        | none => rawE "OverflowError"
    else match std.datetimeFromIso (zToOffset s) with
      | some t => pure (.leaf .datetime false t)
      | none => rawE "ValueError"
  | o => asDatetime std o

/-- `EnvLoader.load_to_date` -/
def envDate (std : Std) : JVal → LRes
  | .str s =>
    if looksNumeric s then
      match std.floatOfStr s with
      | none => rawE "ValueError"
      | some f => match std.dateFromTs (.float f) with
        | some t => pure (.leaf .date false t)
        | none => rawE "OverflowError"
    else match std.dateFromIso s with
      | some t => pure (.leaf .date false t)
      | none => rawE "ValueError"
  | o => asDate std o

/-- `bytes(o, 'utf-8')` / `bytearray(o, 'utf-8')` of a string; other inputs are outside the model -/
def envBytes (mutable : Bool) : JVal → LRes
  | .str s => pure (.bytes mutable ((String.ofList s).toUTF8.toList.map (·.toNat)))
  | _ => .error (.unsupported "bytes(non-str)".toList)

def tyIsNone : Ty → Bool
  | .none => true
  | _ => false

def tyIsCls : Ty → Bool
  | .cls _ _ => true
  | _ => false

/-- `TypedDictParser.__call__`: any exception raised while the *original* value is not a dict is re-raised
as a ParseError ("Incorrect type for object") — under EnvWizard the original value is the unsplit string -/
def tdWrap (orig : JVal) (r : Except LErr PyVal) : LRes :=
  match orig, r with
  | .dict _, r => r
  | _, .ok v => .ok v
  | _, .error (.unsupported w) => .error (.unsupported w)
  | _, .error _ => parseE

mutual
/-- the Parser `EnvLoader` builds for annotation `t`, applied to `o` -/
def loadE (std : Std) (js : S → Option JVal) (cfg : Option MetaCfg) : Ty → JVal → LRes
  | .any, o => pure o.toPy
  | .none, _ => .error (.unsupported "None annotation".toList)
  | .str, o => asStr o
  | .int, o => asInt std o
  | .float, o => asFloat std o
  | .bool, o => pure (.bool (asBool o))
  | .bytes, o => envBytes false o
  | .bytearray, o => envBytes true o
  | .leaf .decimal, o => asDecimal std o
  | .leaf .path, o => asPath std o
  | .leaf .uuid, o => asUuid std o
  | .leaf .date, o => envDate std o
  | .leaf .time, o => asTime std o
  | .leaf .datetime, o => envDatetime std o
  | .timedelta, o => asTimedelta std o
  | .enum name members, o => asEnum name members o
  | .literal vs, o => asLiteral vs o
  | .optional t, o =>
      match o with
      | .null => pure .none
      | _ => loadE std js cfg t o
  | .union ts, o =>
      if o.kind == .null && ts.any tyIsNone then pure .none
      else if ts.any tyIsCls then .error (.unsupported "dataclass in Union".toList)
      else
        match loadUnionTryE std js cfg ts o with
        | some r => r
        | none => parseE
  | .seq k t, o => do
      let o' ← envAsList js o
      match jIter o' with
      | none => rawE "TypeError"
      | some xs => do
          let ys ← mapME (fun x => loadE std js cfg t x) xs
          mkSeq k ys
  | .vtuple t, o =>
      -- `VariadicTupleParser.__call__` makes `len(o)` element parsers from the value it is handed (the *unsplit*
      -- string); `zip` then stops at the shorter of the two
      match jLen o with
      | none => rawE "TypeError"
      | some n => do
          let o' ← envAsList js o
          match jIter o' with
          | none => rawE "TypeError"
          | some xs => do
              let ys ← mapME (fun x => loadE std js cfg t x) (xs.take n)
              pure (.tuple ys)
  | .tuple ts, o =>
      -- `TupleParser.__call__` checks `required_count <= len(o) <= total_count` on the value it is handed
      -- (the *unsplit* string) before the hook splits it
      match jLen o with
      | none => rawE "TypeError"
      | some n =>
          let required := (ts.filter (fun t => !acceptsNone t)).length
          if ts.isEmpty then do
            let o' ← envAsList js o
            match jIter o' with
            | some xs => pure (.tuple (xs.map JVal.toPy))
            | none => rawE "TypeError"
          else if required ≤ n && n ≤ ts.length then do
            let o' ← envAsList js o
            match jIter o' with
            | none => rawE "TypeError"
            | some xs => do
                let ys ← loadZipE std js cfg ts xs
                pure (.tuple ys)
          else parseE
  | .map k kt vt, o => do
      let o' ← envAsDict js o
      match o' with
      | .dict kvs => do
          let ps ← mapME (fun (kv : S × JVal) => do
              let k' ← loadE std js cfg kt (.str kv.1)
              let v' ← loadE std js cfg vt kv.2
              pure (k', v')) kvs
          mkMap k ps
      | _ => rawE "AttributeError"
  | .ntuple name fields, o => do
      let names := fields.map (·.1)
      let o' ← envAsList js o
      match o' with
      | .dict kvs => do
          let vals ← mapME (fun (kv : S × JVal) => do
              let y ← loadNtFieldE std js cfg kv.1 kv.2 fields
              pure (kv.1, y)) kvs
          let xs ← ntFill vals (fields.map (fun f => (f.1, f.2.2)))
          pure (.ntuple name names xs)
      | _ =>
        match jIter o' with
        | none => rawE "TypeError"
        | some xs => do
            let ys ← loadNtListE std js cfg fields xs
            let rest := fields.drop ys.length
            if rest.all (fun f => f.2.2.isSome) then
              pure (.ntuple name names (ys ++ rest.filterMap (fun f => f.2.2.map Dflt.toPy)))
            else rawE "TypeError"
  | .typeddict _ fields, o =>
      tdWrap o (do
        let o' ← envAsDict js o
        match o' with
        | .dict kvs => do
            let ps ← loadTdE std js cfg fields kvs
            pure (.map .dict ps)
        | _ => tdJunk fields o')
  | .cls ci ftys, o => do
      let o' ← envAsDict js o
      loadClassWith (fun f v => loadFieldE std js cfg f v ftys) (effMeta ci.cmeta cfg) ci o'

/-- `UnionParser.__call__` for a non-None value: the first member whose parser claims the value (`o in parser`) -/
def loadUnionTryE (std : Std) (js : S → Option JVal) (cfg : Option MetaCfg) : List Ty → JVal → Option LRes
  | [], _ => none
  | t :: ts, o =>
      match t with
      | .cls _ _ => loadUnionTryE std js cfg ts o
      | .none => loadUnionTryE std js cfg ts o
      | _ =>
        match parserContains t o with
        | none => some (rawE "TypeError")
        | some true => some (loadE std js cfg t o)
        | some false => loadUnionTryE std js cfg ts o

def loadZipE (std : Std) (js : S → Option JVal) (cfg : Option MetaCfg) : List Ty → List JVal → Except LErr (List PyVal)
  | [], _ => pure []
  | _ :: _, [] => pure []
  | t :: ts, x :: xs => do
      let y ← loadE std js cfg t x
      let ys ← loadZipE std js cfg ts xs
      pure (y :: ys)

def loadNtFieldE (std : Std) (js : S → Option JVal) (cfg : Option MetaCfg) (k : S) (v : JVal) :
    List (S × Ty × Option Dflt) → LRes
  | [] => rawE "KeyError"
  | (n, t, _) :: r => if n == k then loadE std js cfg t v else loadNtFieldE std js cfg k v r

def loadNtListE (std : Std) (js : S → Option JVal) (cfg : Option MetaCfg) :
    List (S × Ty × Option Dflt) → List JVal → Except LErr (List PyVal)
  | [], _ => pure []
  | _ :: _, [] => pure []
  | (_, t, _) :: fs, x :: xs => do
      let y ← loadE std js cfg t x
      let ys ← loadNtListE std js cfg fs xs
      pure (y :: ys)

def loadTdE (std : Std) (js : S → Option JVal) (cfg : Option MetaCfg) :
    List (S × Ty × Bool) → List (S × JVal) → Except LErr (List (PyVal × PyVal))
  | [], _ => pure []
  | (k, t, req) :: r, kvs =>
      match kvs.find? (fun kv => kv.1 == k) with
      | some (_, v) => do
          let y ← loadE std js cfg t v
          let ys ← loadTdE std js cfg r kvs
          pure ((.str k, y) :: ys)
      | none => if req then parseE else loadTdE std js cfg r kvs

def loadFieldE (std : Std) (js : S → Option JVal) (cfg : Option MetaCfg) (f : S) (v : JVal) : List (S × Ty) → LRes
  | [] => .error (.unsupported "field without type".toList)
  | (n, t) :: r => if n == f then loadE std js cfg t v else loadFieldE std js cfg f v r
end

/-- the value an `EnvWizard` field annotated `t` gets from the environment string `s`
(`Extras(config=None)`: no travelling config) -/
def envField (std : Std) (js : S → Option JVal) (t : Ty) (s : S) : LRes :=
  loadE std js none t (.str s)

end DW
