/-
Model of a third generator as the text it writes: `EnvWizard._create_methods` (dataclass_wizard/environ/wizard.py) -> the `__init__`
and `dict` methods of an EnvWizard class.

What depends on the class: whether `Meta.env_file` is set (an extra `if _env_file is None` branch), whether `Meta.secrets_dir` is set
(a closure name used as a parameter default), the repr of `Meta.env_prefix`, and per field its name, the explicit variable name(s)
given with `env_field(..)` / `Meta.field_to_env_var` (none, one name, a tuple or a list of names) and its default (none / value /
factory).  The fields of the class are keyword parameters of the generated `__init__`.  Statements, rendering and the scoping
checkers are those of `DW/Model/GenLoad.lean`.  The `x := …` in a field's condition re-binds the parameter `x` itself, so it adds no
name to the function; the comprehension variable `v` lives in the comprehension's own scope.
-/
import DW.Model.GenLoad

namespace DW.GenEnv
open DW.Names
open DW.GenLoad (Part Stmt Scope Flow t joinWith renderList checkList checkListPy writesList DefaultKind)

/-- the explicit environment variable name(s) of a field -/
inductive EVar
  | none
  | one (n : S)
  | tuple (ns : List S)
  | list (ns : List S)
  deriving Repr, DecidableEq, Inhabited

structure EField where
  name : S
  var : EVar := .none
  dflt : DefaultKind := .none
  deriving Repr, DecidableEq, Inhabited

/-- everything `_create_methods` looks at when it writes `__init__` and `dict` -/
structure EIn where
  envFile : Bool := false              -- `Meta.env_file` is truthy
  secretsDir : Bool := false           -- `Meta.secrets_dir` is not None
  envPrefix : Option S := none         -- `Meta.env_prefix`
  fields : List EField := []
  deriving Repr, DecidableEq, Inhabited

/-- `repr` of a tuple / list of strings -/
def tupleRepr (p : Char → Bool) : List S → S
  | [x] => '(' :: pyRepr p x ++ t ",)"
  | ns => '(' :: joinWith (t ", ") (ns.map (pyRepr p)) ++ [')']

def listRepr (p : Char → Bool) (ns : List S) : S := '[' :: joinWith (t ", ") (ns.map (pyRepr p)) ++ [']']

/-- `{env_var!r}` -/
def EVar.repr (p : Char → Bool) : EVar → S
  | .none => t "None"
  | .one n => pyRepr p n
  | .tuple ns => tupleRepr p ns
  | .list ns => listRepr p ns

/-- `{var_name!r}`: the explicit name(s), else the field's own name -/
def varNameRepr (p : Char → Bool) (f : EField) : S :=
  match f.var with
  | .none => pyRepr p f.name
  | v => v.repr p

/-- the prefixed spelling: the name is appended as a string literal; several names are prefixed one by one -/
def prefixed (p : Char → Bool) (f : EField) : S :=
  match f.var with
  | .tuple _ => t "[f\"{_env_prefix}{v}\" for v in " ++ varNameRepr p f ++ t "]"
  | .list _ => t "[f\"{_env_prefix}{v}\" for v in " ++ varNameRepr p f ++ t "]"
  | _ => t "f\"{_env_prefix}\" + " ++ varNameRepr p f

def lookupFn (f : EField) : S :=
  match f.var with
  | .none => t "get_env"
  | _ => t "lookup_exact"

def tpName (n : S) : S := t "_tp_" ++ n
def parserName (n : S) : S := t "_parser_" ++ n
def dfltName (n : S) : S := t "_dflt_" ++ n

/-- the `else` branch of a field: its default, else it is recorded as missing -/
def elsePart (f : EField) : Part :=
  match f.dflt with
  | .value => { text := t "self." ++ f.name ++ t " = " ++ dfltName f.name, reads := [dfltName f.name, t "self"] }
  | .factory => { text := t "self." ++ f.name ++ t " = " ++ dfltName f.name ++ t "()", reads := [dfltName f.name, t "self"] }
  | .none => { text := t "add(_vars, _name, _env_prefix, _env_var, " ++ tpName f.name ++ t ")",
               reads := [t "add", t "_vars", t "_name", t "_env_prefix", t "_env_var", tpName f.name] }

/-- the reads of a field's condition `x is not MISSING or (x := <lookup>(_var_name)) is not MISSING` -/
def condReads (f : EField) : List S := [f.name, t "MISSING", lookupFn f, t "_var_name", t "MISSING"]

/-- the two statements of one field inside the `try` block -/
def fieldStmts (p : Char → Bool) (f : EField) : List Stmt :=
  [.line [{ text := t "_name=" ++ pyRepr p f.name, writes := [t "_name"], safe := true },
          { text := t "_env_var=" ++ f.var.repr p, writes := [t "_env_var"], safe := true },
          { text := t "_var_name=" ++ prefixed p f ++ t " if _env_prefix else " ++ varNameRepr p f,
            reads := [t "_env_prefix", t "_env_prefix"], writes := [t "_var_name"] }],
   .if_ (f.name ++ t " is not MISSING or (" ++ f.name ++ t " := " ++ lookupFn f ++ t "(_var_name)) is not MISSING") (condReads f)
     [.line [{ text := t "self." ++ f.name ++ t " = " ++ parserName f.name ++ t "(" ++ f.name ++ t ")",
               reads := [parserName f.name, f.name, t "self"] }]]
     [] (some [.line [elsePart f]])]

def allFieldStmts (p : Char → Bool) : List EField → List Stmt
  | [] => []
  | f :: r => fieldStmts p f ++ allFieldStmts p r

def envLine (text : String) (reads : List String) : Stmt := .line [{ text := t text, reads := reads.map t }]

/-- reload / secrets / dotenv, then `_vars = []` -/
def headStmts (g : EIn) : List Stmt :=
  [.if_ (t "_reload") [t "_reload"] [envLine "Env.reload()" ["Env"]] [] (some [envLine "Env.load_environ()" ["Env"]]),
   .if_ (t "_secrets_dir") [t "_secrets_dir"] [envLine "Env.update_with_secret_values(_secrets_dir)" ["Env", "_secrets_dir"]] [] none,
   (if g.envFile then
      .if_ (t "_env_file is None") [t "_env_file"] [envLine "Env.update_with_dotenv(dotenv_values=_dotenv_values)" ["Env", "_dotenv_values"]]
        [(t "_env_file", [t "_env_file"], [envLine "Env.update_with_dotenv(_env_file)" ["Env", "_env_file"]])] none
    else
      .if_ (t "_env_file") [t "_env_file"] [envLine "Env.update_with_dotenv(_env_file)" ["Env", "_env_file"]] [] none),
   .line [{ text := t "_vars = []", writes := [t "_vars"] }]]

def handlerStmts : List Stmt :=
  [.line [{ text := t "handle_err(e, cls, _name, _env_prefix, _env_var)",
            reads := [t "handle_err", t "e", t "cls", t "_name", t "_env_prefix", t "_env_var"] }]]

/-- the field block: present when the class has fields -/
def fieldBlock (p : Char → Bool) (g : EIn) : List Stmt :=
  match g.fields with
  | [] => []
  | fs => [.try_ (allFieldStmts p fs) (t "ParseError") [t "ParseError"] (some (t "e")) handlerStmts]

def tailStmts : List Stmt :=
  [.if_ (t "_vars") [t "_vars"] [.exit (t "raise MissingVars(cls, _vars) from None") [t "MissingVars", t "cls", t "_vars"]] [] none]

/-- the body of `__init__` -/
def genBody (p : Char → Bool) (g : EIn) : List Stmt := headStmts g ++ (fieldBlock p g ++ tailStmts)

def genCode (p : Char → Bool) (g : EIn) : S := joinWith ['\n'] (renderList 1 (genBody p g))

def fieldNames (g : EIn) : List S := g.fields.map (·.name)

def fixedParams : List S := [t "self", t "_env_file", t "_reload", t "_env_prefix", t "_secrets_dir"]

/-- the names of the parameters of `__init__` -/
def params (g : EIn) : List S := fixedParams ++ fieldNames g

/-- the parameter list as written -/
def genArgs (p : Char → Bool) (g : EIn) : List S :=
  [t "self", t "_env_file=None", t "_reload=False",
   t "_env_prefix=" ++ (match g.envPrefix with | none => t "None" | some s => pyRepr p s),
   t "_secrets_dir=" ++ (if g.secretsDir then t "_secrets_dir_value" else t "None")]
  ++ g.fields.map (fun f => f.name ++ t ":" ++ tpName f.name ++ t "=MISSING")

/-- the names the parameter list reads when the function is defined (defaults and annotations) -/
def defReads (g : EIn) : List S :=
  (if g.secretsDir then [t "_secrets_dir_value"] else []) ++ g.fields.flatMap (fun f => [tpName f.name, t "MISSING"])

/-- `dict`: `return {'x':self.x,…}` -/
def dictCode (p : Char → Bool) (g : EIn) : S :=
  t "  return {" ++ joinWith [','] (g.fields.map (fun f => pyRepr p f.name ++ t ":self." ++ f.name)) ++ t "}"

/-- the ordered keys of `_locals` (shared by both functions; the last two are added by the function builder) -/
def genLocals (g : EIn) : List S :=
  [t "Env", t "ParseError", t "field_names", t "get_env", t "lookup_exact"]
  ++ (if g.secretsDir then [t "_secrets_dir_value"] else [])
  ++ [t "__dataclass___init___return_type__", t "__dataclass_dict_return_type__"]

def fieldGlobals (f : EField) : List S :=
  [tpName f.name, parserName f.name] ++ (match f.dflt with | .none => [] | _ => [dfltName f.name])

/-- the globals both functions are executed in -/
def genGlobals (g : EIn) : List S :=
  [t "MissingVars", t "add", t "cls", t "fields_ordered", t "handle_err", t "MISSING"]
  ++ (if g.envFile then [t "_dotenv_values"] else [])
  ++ (if g.fields.isEmpty then [] else [t "ParseError"])      -- added by the builder's `except_`
  ++ g.fields.flatMap fieldGlobals

def genScope (p : Char → Bool) (g : EIn) : Scope :=
  { locals := params g ++ writesList (genBody p g)
    outer := genLocals g ++ genGlobals g }

/-- is the generated `__init__` well scoped?  (no builtin is needed) -/
def wellScoped (p : Char → Bool) (g : EIn) : Bool :=
  (checkList (genScope p g) (params g) (genBody p g)).isSome

def wellScopedPy (p : Char → Bool) (g : EIn) : Bool :=
  (checkListPy (genScope p g) (params g) (genBody p g)).isSome

/-- the defaults and annotations of the parameter list are evaluated where the closure names and the globals are visible -/
def defsBound (g : EIn) : Bool := (defReads g).all (fun n => (genLocals g ++ genGlobals g).contains n)

end DW.GenEnv
