/-
The load-side per-class key cache (C06): `JSON_FIELD_TO_DATACLASS_FIELD[cls]`.

The generated `cls_fromdict` first looks a JSON key up in the per-class table (`field = json_to_field[json_key]`, fast
path); on a miss it resolves the key (exact field name, else the key transform and the case-insensitive match) and
stores a *field* in the table so that later calls take the fast path. A key that belongs to no field is remembered as
well, but (since repairs 4bdd4a1 / 7fd7207 / its follow-up) never where a function generated for the same class under
`raise_on_unknown_json_key` could take it for an ignorable key: a strict function remembers nothing about unknown keys and
rejects them every time, a lenient function keeps them in a set of its own. The model keeps one table per class and lets
only lenient calls store `unknown` entries in it; a strict call that finds one rejects the key just as it does after
resolving it afresh — which is the observable behaviour of the separate set. `quirk` switches the behaviour before
4bdd4a1 (a strict function caching unknown keys) back on for the witness theorem.
-/
import DW.Model.Load

namespace DW.KeyCache
open DW

abbrev Cache := List (S × KeyRes)

def Cache.get? (c : Cache) (k : S) : Option KeyRes := (c.find? (fun e => e.1 == k)).map (·.2)

/-- one key through the cache: the outcome and the cache afterwards -/
def lookupKey (quirk : Bool) (eff : MetaCfg) (ci : ClassInfo) (c : Cache) (k : S) : Except LErr KeyRes × Cache :=
  match c.get? k with
  | some r => (.ok r, c)                        -- fast path
  | none =>
    match resolveKey eff ci k with              -- slow path
    | .error e => (.error e, c)
    | .ok .unknown =>
      if eff.raiseOnUnknown.getD false && !quirk then (.ok .unknown, c)      -- rejected every time: not cached
      else (.ok .unknown, (k, .unknown) :: c)
    | .ok r => (.ok r, (k, r) :: c)

/-- the `for json_key in o:` loop of the generated loader with the cache threaded through (the cache keeps what was
stored before a failure) -/
def loadKeysCached (quirk : Bool) (fieldLoader : S → JVal → LRes) (eff : MetaCfg) (ci : ClassInfo) :
    Cache → List (S × JVal) → Except LErr (List (S × PyVal) × List (PyVal × PyVal)) × Cache
  | c, [] => (.ok ([], []), c)
  | c, (k, v) :: r =>
    match lookupKey quirk eff ci c k with
    | (.error e, c1) => (.error e, c1)
    | (.ok (.field f), c1) =>
      match (fieldLoader f v).mapError (setAttribution ci.name f) with
      | .error e => (.error e, c1)
      | .ok y =>
        match loadKeysCached quirk fieldLoader eff ci c1 r with
        | (.error e, c2) => (.error e, c2)
        | (.ok (kw, ca), c2) => (.ok ((f, y) :: kw, ca), c2)
    | (.ok .ignored, c1) => loadKeysCached quirk fieldLoader eff ci c1 r
    | (.ok .unknown, c1) =>
      -- under the raise policy an unknown key is rejected whether it was resolved just now or found cached as
      -- `ExplicitNull` (since repair: a function generated for the class under another policy may have cached it)
      if eff.raiseOnUnknown.getD false then (.error (.unknownKeys ci.name [k]), c1)
      else
        match loadKeysCached quirk fieldLoader eff ci c1 r with
        | (.error e, c2) => (.error e, c2)
        | (.ok (kw, ca), c2) =>
          let isTag := eff.tag.isSome && k == eff.tagKey.getD Generated.tagKey.toList
          if isTag then (.ok (kw, ca), c2) else (.ok (kw, (.str k, v.toPy) :: ca), c2)

/-- a call of the generated function on a dict document, with the class's cache -/
def loadCall (quirk : Bool) (fieldLoader : S → JVal → LRes) (eff : MetaCfg) (ci : ClassInfo) (c : Cache)
    (kvs : List (S × JVal)) : LRes × Cache :=
  match loadKeysCached quirk fieldLoader eff ci c kvs with
  | (.ok (kw, ca), c') => (finishClass ci kw ca (.dict kvs), c')
  | (.error e, c') => (.error e, c')

/-- a history of calls on one class -/
def runCalls (quirk : Bool) (fieldLoader : S → JVal → LRes) (eff : MetaCfg) (ci : ClassInfo) :
    Cache → List (List (S × JVal)) → List LRes × Cache
  | c, [] => ([], c)
  | c, d :: r =>
    let (o, c1) := loadCall quirk fieldLoader eff ci c d
    let (os, c2) := runCalls quirk fieldLoader eff ci c1 r
    (o :: os, c2)

/-- a history of calls on one class through functions generated under different policies: each call carries the effective
Meta of the function it goes through (the class on its own, or nested under some main class); they all share the class's
cache -/
def runCallsP (fieldLoader : S → JVal → LRes) (ci : ClassInfo) :
    Cache → List (MetaCfg × List (S × JVal)) → List LRes × Cache
  | c, [] => ([], c)
  | c, (eff, d) :: r =>
    let (o, c1) := loadCall false fieldLoader eff ci c d
    let (os, c2) := runCallsP fieldLoader ci c1 r
    (o :: os, c2)

/-! ### several classes: each has its own cache -/

/-- what the library knows about one class when it generates its loader -/
structure ClsSpec where
  fieldLoader : S → JVal → LRes
  eff : MetaCfg
  ci : ClassInfo

/-- the caches of all classes, by class number -/
abbrev World := Nat → Cache

/-- a history of calls `(class, document)` over any number of classes -/
def runWorld (quirk : Bool) (specs : Nat → ClsSpec) : World → List (Nat × List (S × JVal)) → List LRes × World
  | w, [] => ([], w)
  | w, (n, d) :: r =>
    let sp := specs n
    let (o, c1) := loadCall quirk sp.fieldLoader sp.eff sp.ci (w n) d
    let w1 : World := fun m => if m = n then c1 else w m
    let (os, w2) := runWorld quirk specs w1 r
    (o :: os, w2)

end DW.KeyCache
