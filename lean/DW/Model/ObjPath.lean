/-
Model of `dataclass_wizard/utils/object_path.py`: `split_object_path` (a 1:1 transcription of
the character loop as a fold over a nine-field state) and `safe_get`.
-/
import DW.Model.Strings

namespace DW.ObjPath
open DW.Str

/-- ASCII whitespace as seen by `int()` / `float()` / `str.strip()`. -/
def isPySpace (c : Char) : Bool :=
  let n := c.toNat
  (9 ≤ n && n ≤ 13) || (28 ≤ n && n ≤ 32)

def stripSpace (s : S) : S :=
  ((s.dropWhile isPySpace).reverse.dropWhile isPySpace).reverse

/-- `digit (["_"] digit)*`, returning the digits (underscores removed). -/
def digitPartAux : Bool → S → Option S
  -- flag: previous char was a digit (so `_` or end allowed)
  | prevDigit, [] => if prevDigit then some [] else none
  | prevDigit, c :: r =>
    if isDig c then (digitPartAux true r).map (c :: ·)
    else if c = '_' && prevDigit then
      match r with
      | d :: _ => if isDig d then digitPartAux false r else none
      | [] => none
    else none

def digitPart (s : S) : Option S := if s.isEmpty then none else digitPartAux false s

def natOfDigits (ds : S) : Nat := ds.foldl (fun acc c => acc * 10 + (c.toNat - '0'.toNat)) 0

/-- Python `int(s)` for ASCII decimal strings (`none` = ValueError). -/
def pyIntOfStr (s : S) : Option Int :=
  let t := stripSpace s
  match t with
  | [] => none
  | c :: r =>
    if c = '-' then (digitPart r).map (fun ds => - (Int.ofNat (natOfDigits ds)))
    else if c = '+' then (digitPart r).map (fun ds => Int.ofNat (natOfDigits ds))
    else (digitPart t).map (fun ds => Int.ofNat (natOfDigits ds))

/-- split at the first char satisfying `p` -/
def splitAtFirst (p : Char → Bool) (s : S) : S × Option (Char × S) :=
  match s.span (fun c => !p c) with
  | (a, []) => (a, none)
  | (a, c :: r) => (a, some (c, r))

def isExpOk (s : S) : Bool :=
  match s with
  | [] => false
  | c :: r => if c = '+' || c = '-' then (digitPart r).isSome else (digitPart s).isSome

/-- mantissa: `digitpart [. [digitpart]]` or `. digitpart` -/
def isMantissaOk (s : S) : Bool :=
  match splitAtFirst (· = '.') s with
  | (a, none) => (digitPart a).isSome
  | (a, some (_, b)) =>
    if a.isEmpty then (digitPart b).isSome
    else (digitPart a).isSome && (b.isEmpty || (digitPart b).isSome)

/-- Does Python `float(s)` accept the ASCII string `s`? -/
def pyIsFloatSyntax (s : S) : Bool :=
  let t := stripSpace s
  let u := match t with
    | c :: r => if c = '+' || c = '-' then r else t
    | [] => t
  let lu := lowerS u
  if lu = "inf".toList || lu = "infinity".toList || lu = "nan".toList then true
  else
    match splitAtFirst (fun c => c = 'e' || c = 'E') u with
    | (m, none) => isMantissaOk m
    | (m, some (_, e)) => isMantissaOk m && isExpOk e

inductive Comp
  | str (s : S)
  | int (i : Int)
  | float (src : S)     -- the token `float()` accepted (value = Python `float(src)`)
  | bool (b : Bool)
  deriving Repr, DecidableEq

structure PState where
  res : List Comp := []          -- reversed
  s : S := []                    -- reversed
  startNew : Bool := true
  inLiteral : Bool := false
  parsedStringLiteral : Bool := false
  inBraces : Bool := false
  escapeNextQuote : Bool := false
  quoteChar : Option Char := none
  possibleNumber : Bool := false
  deriving Repr

def classifyNumber (tok : S) : Comp :=
  match pyIntOfStr tok with
  | some i => .int i
  | none => if pyIsFloatSyntax tok then .float tok else .str tok

def classifyPlain (tok : S) : Comp :=
  if tok = "True".toList || tok = "true".toList then .bool true
  else if tok = "False".toList || tok = "false".toList then .bool false
  else .str tok

/-- the `if s:` block that appends the pending token (state flags updated as in the loop) -/
def flush (st : PState) : PState :=
  if st.s.isEmpty then st
  else
    let tok := st.s.reverse
    if st.possibleNumber then
      { st with possibleNumber := false, res := classifyNumber tok :: st.res, s := [] }
    else if st.parsedStringLiteral then
      { st with parsedStringLiteral := false, res := .str tok :: st.res, s := [] }
    else
      { st with res := classifyPlain tok :: st.res, s := [] }

def step (st : PState) (c : Char) : PState :=
  if c = '.' || c = '[' then
    if st.inLiteral then
      -- a pending backslash was not an escape after all: written out before the separator (repair 28849f2)
      if st.escapeNextQuote then { st with s := c :: '\\' :: st.s, escapeNextQuote := false }
      else { st with s := c :: st.s }
    else if c = '.' && st.inBraces then { st with s := c :: st.s }
    else
      let st1 := { st with inBraces := (c = '['), startNew := true }
      flush st1
  else if c = '\\' && st.inLiteral then { st with escapeNextQuote := true }
  else if st.escapeNextQuote then
    let s1 := if some c != st.quoteChar then '\\' :: st.s else st.s
    { st with s := c :: s1, escapeNextQuote := false }
  else if some c = st.quoteChar then
    { st with inLiteral := false, quoteChar := none, parsedStringLiteral := true }
  else if (c = '"' || c = '\'') && st.startNew then
    { st with startNew := false, inLiteral := true, quoteChar := some c }
  else if (c = '+' || c = '-' || isDig c) && st.startNew then
    { st with startNew := false, possibleNumber := true, s := c :: st.s }
  else if st.startNew then
    { st with startNew := false, s := c :: st.s }
  else if c = ']' then
    if st.inLiteral then { st with s := c :: st.s } else { st with inBraces := false }
  else { st with s := c :: st.s }

def splitObjectPath (inp : S) : List Comp :=
  (flush (inp.foldl step {})).res.reverse

end DW.ObjPath
