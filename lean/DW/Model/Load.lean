/-
Model of the default load engine: `utils/type_conv.py` coercions, the `parsers.py` Parser classes,
and the generated `cls_fromdict` (key resolution, catch-all, unknown keys, MissingFields).
Recursion is structural on the type expression.
-/
import DW.Generated.Tables
import DW.Model.Std
import DW.Model.ObjPath
import DW.Model.Dump

namespace DW
open DW.Str

inductive LErr
  | parse (cls field : Option S)                       -- ParseError (class_name, field_name as set by the innermost handler)
  | missingData (cls field : Option S) (nested : S)    -- MissingData (a ParseError): `None` where a dataclass was expected
  | missingFields (cls : S) (missing : List S)
  | unknownKeys (cls : S) (keys : List S)
  | raw (exc : S)                                      -- a non-library exception (TypeError, ValueError, KeyError, …)
  | unsupported (what : S)                             -- outside the model; the harness skips the case
  deriving Repr, DecidableEq, Inhabited

abbrev LRes := Except LErr PyVal

def rawE {α} (s : String) : Except LErr α := .error (.raw s.toList)
def parseE {α} : Except LErr α := .error (.parse none none)

/-- Python value of a JSON value loaded under `Any` (identity) -/
def JVal.toPy : JVal → PyVal
  | .null => .none
  | .bool b => .bool b
  | .int i => .int i
  | .float f => .float f
  | .str s => .str s
  | .list xs => .seq .list (toPyList xs)
  | .dict kvs => .map .dict (toPyPairs kvs)
where
  toPyList : List JVal → List PyVal
    | [] => []
    | x :: xs => x.toPy :: toPyList xs
  toPyPairs : List (S × JVal) → List (PyVal × PyVal)
    | [] => []
    | (k, v) :: r => (.str k, v.toPy) :: toPyPairs r

/-! ### scalar coercions (`utils/type_conv.py`) -/

def boolStr (b : Bool) : S := if b then "True".toList else "False".toList

/-- `as_str(o)`: `''` for None, else `str(o)` -/
def asStr : JVal → LRes
  | .null => pure (.str [])
  | .str s => pure (.str s)
  | .int i => pure (.str (intRepr i))
  | .bool b => pure (.str (boolStr b))
  | .float f => pure (.str f.reprOf)
  | .list _ => .error (.unsupported "str(list)".toList)
  | .dict _ => .error (.unsupported "str(dict)".toList)

def isTruthyStr (s : S) : Bool := Generated.truthyValues.contains (String.ofList (lowerS s))

/-- `as_bool(o)` -/
def asBool : JVal → Bool
  | .bool b => b
  | .str s => isTruthyStr s
  | .int i => i == 1
  | .float f => f.eqOne
  | _ => false

/-- `as_int(o)` (default engine) -/
def asInt (std : Std) : JVal → LRes
  | .int i => pure (.int i)
  | .str s =>
    if s.isEmpty then pure (.int 0)
    else if s.contains '.' then
      match std.floatOfStr s with
      | none => rawE "ValueError"
      | some f => match f.round with
        | some i => pure (.int i)
        | none => rawE "OverflowError"
    else match ObjPath.pyIntOfStr s with
      | some i => pure (.int i)
      | none => rawE "ValueError"
  | .float f => match f.round with
    | some i => pure (.int i)
    | none => rawE "OverflowError"
  | .bool _ => rawE "TypeError"
  | .null => pure (.int 0)
  | .list xs => if xs.isEmpty then pure (.int 0) else rawE "TypeError"
  | .dict kvs => if kvs.isEmpty then pure (.int 0) else rawE "TypeError"

/-- `float(o)` -/
def asFloat (std : Std) : JVal → LRes
  | .float f => pure (.float f)
  | .int i => match std.floatOfInt i with
    | some f => pure (.float f)
    | none => rawE "OverflowError"
  | .bool b => match std.floatOfInt (if b then 1 else 0) with
    | some f => pure (.float f)
    | none => rawE "OverflowError"
  | .str s => match std.floatOfStr s with
    | some f => pure (.float f)
    | none => rawE "ValueError"
  | _ => rawE "TypeError"

def jNum? : JVal → Option NumV
  | .bool b => some (.i (if b then 1 else 0))
  | .int i => some (.i i)
  | .float f => some (.f f)
  | _ => none

/-- Python `o == l` for a JSON value and a literal -/
def jEqLit (o : JVal) (l : Lit) : Bool :=
  match jNum? o, l.num? with
  | some a, some b => a.cmp b == some .eq
  | _, _ =>
    match o, l with
    | .null, .none => true
    | .str a, .str b => a == b
    | _, _ => false

/-- `EnumCls(o)`: lookup by value -/
def asEnum (name : S) (members : List (S × Lit)) (o : JVal) : LRes :=
  match members.find? (fun m => jEqLit o m.2) with
  | some m => pure (.enum name m.1 m.2)
  | none => rawE "ValueError"

def jNumExact? : JVal → Option Num      -- `type(o) in NUMBERS` (bool excluded)
  | .int i => some (.int i)
  | .float f => some (.float f)
  | _ => none

def zToOffset (s : S) : S := replaceFirst ['Z'] "+00:00".toList s

/-- `as_datetime(o)` -/
def asDatetime (std : Std) : JVal → LRes
  | .str s => match std.datetimeFromIso (zToOffset s) with
    | some t => pure (.leaf .datetime false t)
    | none => rawE "ValueError"
  | o => match jNumExact? o with
    | some n => match std.datetimeFromTsUtc n with
      | some t => pure (.leaf .datetime false t)
      | none => rawE "OverflowError"
    | none => rawE "TypeError"

/-- `as_date(o)` -/
def asDate (std : Std) : JVal → LRes
  | .str s => match std.dateFromIso s with
    | some t => pure (.leaf .date false t)
    | none => rawE "ValueError"
  | o => match jNumExact? o with
    | some n => match std.dateFromTs n with
      | some t => pure (.leaf .date false t)
      | none => rawE "OverflowError"
    | none => rawE "TypeError"

/-- `as_time(o)` -/
def asTime (std : Std) : JVal → LRes
  | .str s => match std.timeFromIso (zToOffset s) with
    | some t => pure (.leaf .time false t)
    | none => rawE "ValueError"
  | _ => rawE "TypeError"

/-- `o.replace('.', '', 1).isdigit()` (ASCII) -/
def looksNumeric (s : S) : Bool :=
  let t := replaceFirst ['.'] [] s
  !t.isEmpty && t.all isDig

/-- `as_timedelta(o)` -/
def asTimedelta (std : Std) : JVal → LRes
  | .str s =>
    let secs : Option Num :=
      if looksNumeric s then (std.floatOfStr s).map Num.float else std.timeparse s
    match secs with
    | none => rawE "ValueError"
    | some n => match std.tdOfSeconds n with
      | some us => pure (.timedelta us)
      | none => rawE "OverflowError"
  | o => match jNumExact? o with
    | some n => match std.tdOfSeconds n with
      | some us => pure (.timedelta us)
      | none => rawE "OverflowError"
    | none => rawE "TypeError"

/-- text handed to `Decimal(str(o))` / `Path(str(o))` -/
def strOfJ : JVal → Option S
  | .null => some "None".toList
  | .bool b => some (boolStr b)
  | .int i => some (intRepr i)
  | .float f => some f.reprOf
  | .str s => some s
  | _ => none

def asDecimal (std : Std) (o : JVal) : LRes :=
  match o with
  | .null => rawE "InvalidOperation"
  | .bool _ => rawE "InvalidOperation"
  | .list _ => rawE "InvalidOperation"
  | .dict _ => rawE "InvalidOperation"
  | _ => match strOfJ o with
    | none => rawE "InvalidOperation"
    | some s => match std.decimalOfStr s with
      | some t => pure (.leaf .decimal false t)
      | none => rawE "InvalidOperation"

def asPath (std : Std) (o : JVal) : LRes :=
  match strOfJ o with
  | some s => pure (.leaf .path false (std.pathOfStr s))
  | none => .error (.unsupported "Path(str(container))".toList)

def asUuid (std : Std) : JVal → LRes
  | .str s => match std.uuidOfStr s with
    | some t => pure (.leaf .uuid false t)
    | none => rawE "ValueError"
  | _ => rawE "AttributeError"

/-- JSON type tag used by `type(o) is base_type` tests -/
inductive JKind | null | bool | int | float | str | list | dict
  deriving DecidableEq, Repr

def JVal.kind : JVal → JKind
  | .null => .null | .bool _ => .bool | .int _ => .int | .float _ => .float
  | .str _ => .str | .list _ => .list | .dict _ => .dict

def JVal.hashable : JVal → Bool
  | .list _ => false
  | .dict _ => false
  | _ => true

/-- `LiteralParser.__call__` -/
def asLiteral (vs : List Lit) (o : JVal) : LRes :=
  if !o.hashable then rawE "TypeError"
  else match vs.find? (fun l => jEqLit o l) with
    | none => parseE
    | some l =>
      -- value found: the types must agree as well
      let sameType := match o, l with
        | .null, .none => true
        | .bool _, .bool _ => true
        | .int _, .int _ => true
        | .float _, .float _ => true
        | .str _, .str _ => true
        | _, _ => false
      if sameType then pure l.toPy else parseE

/-- what iterating a JSON value yields (`for e in o`); `none` = TypeError (not iterable) -/
def jIter : JVal → Option (List JVal)
  | .list xs => some xs
  | .str s => some (s.map (fun c => JVal.str [c]))
  | .dict kvs => some (kvs.map (fun kv => JVal.str kv.1))
  | _ => none

/-- `len(o)`; `none` = TypeError -/
def jLen : JVal → Option Nat
  | .list xs => some xs.length
  | .str s => some s.length
  | .dict kvs => some kvs.length
  | _ => none

/-! ### hashing / equality of loaded values (set and dict construction) -/

def PyVal.hashable : PyVal → Bool
  | .seq .list _ => false
  | .seq .set _ => false
  | .seq .deque _ => false
  | .map _ _ => false
  | .bytes true _ => false
  | .inst _ _ => false            -- @dataclass(eq=True) sets __hash__ = None
  | .tuple xs => allHashable xs
  | .ntuple _ _ xs => allHashable xs
  | _ => true
where
  allHashable : List PyVal → Bool
    | [] => true
    | x :: xs => x.hashable && allHashable xs

/-- Python `a == b` on hashable scalars as used for set / dict-key deduplication -/
def pyKeyEq (a b : PyVal) : Bool :=
  match a.num?, b.num? with
  | some x, some y => x.cmp y == some .eq
  | _, _ =>
    match a, b with
    | .none, .none => true
    | .str x, .str y => x == y
    | .leaf k _ x, .leaf k2 _ y => k == k2 && x == y
    | .timedelta x, .timedelta y => x == y
    | .enum c m _, .enum c2 m2 _ => c == c2 && m == m2
    | .bytes _ x, .bytes _ y => x == y
    | _, _ => false

def dedupKeep (xs : List PyVal) : List PyVal :=
  xs.foldl (fun acc x => if acc.any (fun y => pyKeyEq y x) then acc else acc ++ [x]) []

/-- `dict(pairs)`: later values win, first position kept -/
def dictInsert (acc : List (PyVal × PyVal)) (k v : PyVal) : List (PyVal × PyVal) :=
  if acc.any (fun p => pyKeyEq p.1 k) then acc.map (fun p => if pyKeyEq p.1 k then (p.1, v) else p)
  else acc ++ [(k, v)]

def mkSeq (k : SeqKind) (xs : List PyVal) : LRes :=
  match k with
  | .list => pure (.seq .list xs)
  | .deque => pure (.seq .deque xs)
  | .set => if xs.all PyVal.hashable then pure (.seq .set (dedupKeep xs)) else rawE "TypeError"
  | .frozenset => if xs.all PyVal.hashable then pure (.seq .frozenset (dedupKeep xs)) else rawE "TypeError"

def mkMap (k : MapKind) (kvs : List (PyVal × PyVal)) : LRes :=
  if kvs.all (fun p => p.1.hashable) then
    pure (.map k (kvs.foldl (fun acc p => dictInsert acc p.1 p.2) []))
  else rawE "TypeError"

/-! ### Union membership (`o in parser`) -/

/-- `None in parser` / `o in parser` (`__contains__` of the Parser built for `t`);
`none` = the test itself raises TypeError (unhashable value against a `Literal`). -/
def parserContains (t : Ty) (o : JVal) : Option Bool :=
  match t with
  | .str => some (o.kind == .str)
  | .int => some (o.kind == .int)
  | .float => some (o.kind == .float)
  | .bool => some (o.kind == .bool)
  | .none => some false      -- `tuple[X, None]` keeps the value `None` (not NoneType) as argument: IdentityParser(base_type=None)
  | .seq .list _ => some (o.kind == .list)
  | .map .dict _ _ => some (o.kind == .dict)
  | .literal vs => if o.hashable then some (vs.any (fun l => jEqLit o l)) else none
  | .optional t' => if o.kind == .null then some true else
      -- OptionalParser.__contains__ falls back to `type(item) is base_type` with base_type the inner *annotation*
      match t' with
      | .str => some (o.kind == .str) | .int => some (o.kind == .int) | .float => some (o.kind == .float)
      | .bool => some (o.kind == .bool) | _ => some false
  | .union ts => some (ts.any (fun t' => match t', o.kind with
      | .str, .str => true | .int, .int => true | .float, .float => true | .bool, .bool => true
      | .none, .null => true | _, _ => false))
  | _ => some false

/-- does the Parser for `t` accept `None` (TupleParser.required_count) -/
def acceptsNone (t : Ty) : Bool :=
  match t with
  | .cls _ _ => false            -- a generated function, not an AbstractParser: counted as required
  | _ => (parserContains t .null).getD false

/-- tag a member dataclass answers to inside a Union -/
def memberTag (cfg : Option MetaCfg) (ci : ClassInfo) : Option S :=
  let own := ci.cmeta.getD {}
  match own.tag with
  | some t => if t.isEmpty then
      (if (cfg.bind (·.autoAssignTags)).getD false || own.autoAssignTags.getD false then some ci.name else none)
      else some t
  | none =>
    if (cfg.bind (·.autoAssignTags)).getD false || own.autoAssignTags.getD false then some ci.name else none

/-- does a Union member answer to tag `tg` -/
def tyHasTag (cfg : Option MetaCfg) (tg : S) : Ty → Bool
  | .cls ci _ => memberTag cfg ci == some tg
  | _ => false

def setAttribution (cls field : S) : LErr → LErr
  | .parse c f => .parse (c <|> some cls) (f <|> some field)
  | .missingData c f n => .missingData (c <|> some cls) (f <|> some field) n
  | e => e

/-- explicit JSON-key table of a class (`json_field` / `json_key` keys): key -> field -/
def aliasTable (ci : ClassInfo) : List (S × S) :=
  ci.fields.foldl (fun acc f => if f.init then acc ++ f.loadKeys.map (fun k => (k, f.name)) else acc) []

def initFieldNames (ci : ClassInfo) : List S :=
  (ci.fields.filter (·.init)).map (·.name)

inductive KeyRes | field (f : S) | ignored | unknown

/-- resolution of one JSON key by the generated loader (fresh cache) -/
def resolveKey (eff : MetaCfg) (ci : ClassInfo) (key : S) : Except LErr KeyRes :=
  let tagKey := eff.tagKey.getD Generated.tagKey.toList
  let names := initFieldNames ci
  match (aliasTable ci).reverse.find? (fun p => p.1 == key) with
  | some p => pure (.field p.2)
  | none =>
    if eff.tag.isSome && key == tagKey && !names.contains key then pure .ignored
    else
      let pyCase := ((eff.keyTransformLoad.getD .snake).toLC).apply
      if names.contains key then pure (.field key)
      else match pyCase key with
        | none => rawE "IndexError"
        | some k => match lastLowerMatch names k with
          | some f => pure (.field f)
          | none => pure .unknown

/-- the catch-all field receives the captured pairs (always when it has no default, else only when non-empty) -/
def withCatchAll (ci : ClassInfo) (kwargs : List (S × PyVal)) (catchAll : List (PyVal × PyVal)) : List (S × PyVal) :=
  match ci.fields.find? (·.isCatchAll) with
  | none => kwargs
  | some cf =>
    if cf.dflt.isNone || !catchAll.isEmpty then kwargs ++ [(cf.name, PyVal.map .dict catchAll)] else kwargs

/-- constructor fields without default that were not provided -/
def missingInit (ci : ClassInfo) (provided : List S) : List FieldInfo :=
  ci.fields.filter (fun f => f.init && f.dflt.isNone && !provided.contains f.name)

/-- `cls(**kwargs)`: per field the last supplied value, else the default, else the `__post_init__` value -/
def buildFields (kwargs : List (S × PyVal)) : List FieldInfo → Except LErr (List (S × PyVal))
  | [] => pure []
  | f :: r =>
    match (if f.init then kwargs.reverse.find? (fun p => p.1 == f.name) else none), f.dflt with
    | some p, _ => do let rest ← buildFields kwargs r; pure ((f.name, p.2) :: rest)
    | none, some d => do let rest ← buildFields kwargs r; pure ((f.name, d.toPy) :: rest)
    | none, none =>
      match f.postInit with
      | some l => do let rest ← buildFields kwargs r; pure ((f.name, l.toPy) :: rest)
      | none => .error (.unsupported "init=False field without default".toList)

/-- `cls(**init_kwargs)` and the MissingFields conversion (after fix 88cf12a: constructor fields only) -/
def finishClass (ci : ClassInfo) (kwargs : List (S × PyVal)) (catchAll : List (PyVal × PyVal)) (_o : JVal) : LRes :=
  let kw := withCatchAll ci kwargs catchAll
  match missingInit ci (kw.map (·.1)) with
  | [] => do
      let fs ← buildFields kw ci.fields
      pure (.inst ci fs)
  | m :: ms => .error (.missingFields ci.name ((m :: ms).map (·.name)))

/-- a list / string where a dataclass dict was expected: the loop iterates its elements as keys -/
def loadJunkKeys (eff : MetaCfg) (ci : ClassInfo) (o : JVal) : List JVal → LRes
  | [] => finishClass ci [] [] o
  | e :: r =>
    match e with
    | .str k =>
      match resolveKey eff ci k with
      | .error err => .error err
      | .ok (.field _) => .error (.parse none none)
      | .ok .ignored => loadJunkKeys eff ci o r
      | .ok .unknown =>
        if eff.raiseOnUnknown.getD false then .error (.unknownKeys ci.name [k])
        else if (ci.fields.any (·.isCatchAll)) && !(eff.tag.isSome && k == eff.tagKey.getD Generated.tagKey.toList) then
          .error (.parse none none)
        else loadJunkKeys eff ci o r
    | .list _ => .error (.parse none none)
    | .dict _ => .error (.parse none none)
    | _ => rawE "AttributeError"

/-- the `for json_key in o:` loop over a dict, given the per-field loader -/
def loadKeysWith (fieldLoader : S → JVal → LRes) (eff : MetaCfg) (ci : ClassInfo) :
    List (S × JVal) → Except LErr (List (S × PyVal) × List (PyVal × PyVal))
  | [] => pure ([], [])
  | (k, v) :: r => do
      let res ← resolveKey eff ci k
      match res with
      | .field f =>
          let y ← (fieldLoader f v).mapError (setAttribution ci.name f)
          let (kw, ca) ← loadKeysWith fieldLoader eff ci r
          pure ((f, y) :: kw, ca)
      | .ignored => loadKeysWith fieldLoader eff ci r
      | .unknown =>
          if eff.raiseOnUnknown.getD false then .error (.unknownKeys ci.name [k])
          else do
            let (kw, ca) ← loadKeysWith fieldLoader eff ci r
            let isTag := eff.tag.isSome && k == eff.tagKey.getD Generated.tagKey.toList
            if isTag then pure (kw, ca) else pure (kw, (.str k, v.toPy) :: ca)

/-- generated `cls_fromdict(o)` for a class with effective Meta `eff`, given the per-field loader -/
def loadClassWith (fieldLoader : S → JVal → LRes) (eff : MetaCfg) (ci : ClassInfo) : JVal → LRes
  | .null => .error (.missingData none none ci.name)
  | .dict kvs => do
      let (kwargs, catchAll) ← loadKeysWith fieldLoader eff ci kvs
      finishClass ci kwargs catchAll (.dict kvs)
  | .list xs =>
      -- `for json_key in o` iterates the elements; `o[json_key]` then fails with TypeError -> ParseError
      loadJunkKeys eff ci (.list xs) xs
  | .str s => loadJunkKeys eff ci (.str s) (s.map (fun c => JVal.str [c]))
  | _ => .error (.parse none none)    -- the class is only the error's *default* class: an enclosing handler's wins

/-- `load_to_typed_dict` on a non-dict: `o[k]` for a required key raises (-> ParseError); an optional key is
only looked at when `k in o` holds (list membership / substring test), and then `o[k]` raises as well. -/
def isInfix (p s : S) : Bool :=
  match s with
  | [] => p.isEmpty
  | c :: r => p.isPrefixOf (c :: r) || isInfix p r

def tdJunk (fields : List (S × Ty × Bool)) (o : JVal) : LRes :=
  if fields.any (fun f => f.2.2) then parseE
  else
    match o with
    | .list xs =>
      if fields.any (fun f => xs.any (fun x => match x with | .str s => s == f.1 | _ => false)) then parseE
      else pure (.map .dict [])
    | .str s => if fields.any (fun f => isInfix f.1 s) then parseE else pure (.map .dict [])
    | _ => if fields.isEmpty then pure (.map .dict []) else parseE

def mapME {α β} (f : α → Except LErr β) : List α → Except LErr (List β)
  | [] => pure []
  | x :: xs => do
      let y ← f x
      let ys ← mapME f xs
      pure (y :: ys)

/-- `base_type(**kwargs)` of a typed NamedTuple: fill defaults, demand the rest -/
def ntFill (vals : List (S × PyVal)) : List (S × Option Dflt) → Except LErr (List PyVal)
  | [] => pure []
  | (n, d) :: r =>
    match vals.reverse.find? (fun p => p.1 == n), d with
    | some p, _ => do let rest ← ntFill vals r; pure (p.2 :: rest)
    | none, some dv => do let rest ← ntFill vals r; pure (dv.toPy :: rest)
    | none, none => rawE "TypeError"

mutual
/-- the Parser the default engine builds for annotation `t`, applied to `o`;
`cfg` is the travelling root config (`extras['config']`). -/
def loadD (std : Std) (cfg : Option MetaCfg) : Ty → JVal → LRes
  | .any, o => pure o.toPy
  | .none, o => pure o.toPy
  | .str, o => asStr o
  | .int, o => asInt std o
  | .float, o => asFloat std o
  | .bool, o => pure (.bool (asBool o))
  | .bytes, _ => parseE
  | .bytearray, _ => parseE
  | .leaf .decimal, o => asDecimal std o
  | .leaf .path, o => asPath std o
  | .leaf .uuid, o => asUuid std o
  | .leaf .date, o => asDate std o
  | .leaf .time, o => asTime std o
  | .leaf .datetime, o => asDatetime std o
  | .timedelta, o => asTimedelta std o
  | .enum name members, o => asEnum name members o
  | .literal vs, o => asLiteral vs o
  | .optional t, o =>
      match o with
      | .null => pure .none
      | _ => loadD std cfg t o
  | .union ts, o =>
      -- `None` is returned as-is only when NoneType is one of the Union arguments
      if o.kind == .null && ts.any (fun t => match t with | .none => true | _ => false) then pure .none
      else
        match loadUnionTry std cfg ts o with
        | some r => r
        | none =>
          -- tag dispatch over the dataclass members
          let tagKey := (cfg.bind (·.tagKey)).getD Generated.tagKey.toList
          match o with
          | .dict kvs =>
            match kvs.find? (fun kv => kv.1 == tagKey) with
            | none => parseE
            | some (_, tagv) =>
              match tagv with
              | .str tg => loadTagged std cfg tg ts o
              | .list _ => rawE "TypeError"
              | .dict _ => rawE "TypeError"
              | _ => parseE
          | _ => parseE
  | .seq k t, o =>
      match jIter o with
      | none => rawE "TypeError"
      | some xs => do
          let ys ← mapME (fun x => loadD std cfg t x) xs
          mkSeq k ys
  | .vtuple t, o =>
      match jIter o with
      | none => rawE "TypeError"
      | some xs => do
          let ys ← mapME (fun x => loadD std cfg t x) xs
          pure (.tuple ys)
  | .tuple ts, o =>
      match jLen o, jIter o with
      | some n, some xs =>
          let required := (ts.filter (fun t => !acceptsNone t)).length
          if ts.isEmpty then pure (.tuple (xs.map JVal.toPy))
          else if required ≤ n && n ≤ ts.length then do
            let ys ← loadZip std cfg ts xs
            pure (.tuple ys)
          else parseE
      | _, _ => rawE "TypeError"
  | .map k kt vt, o =>
      match o with
      | .dict kvs => do
          let ps ← mapME (fun (kv : S × JVal) => do
              let k' ← loadD std cfg kt (.str kv.1)
              let v' ← loadD std cfg vt kv.2
              pure (k', v')) kvs
          mkMap k ps
      | _ => rawE "AttributeError"
  | .ntuple name fields, o =>
      let names := fields.map (·.1)
      match o with
      | .dict kvs => do
          -- `{k: field_to_parser[k](o[k]) for k in o}` then `base_type(**kwargs)`
          let vals ← mapME (fun (kv : S × JVal) => do
              let y ← loadNtField std cfg kv.1 kv.2 fields
              pure (kv.1, y)) kvs
          let xs ← ntFill vals (fields.map (fun f => (f.1, f.2.2)))
          pure (.ntuple name names xs)
      | _ =>
        match jIter o with
        | none => rawE "TypeError"
        | some xs => do
            let ys ← loadNtList std cfg fields xs
            let rest := fields.drop ys.length
            if rest.all (fun f => f.2.2.isSome) then
              pure (.ntuple name names (ys ++ rest.filterMap (fun f => f.2.2.map Dflt.toPy)))
            else rawE "TypeError"
  | .typeddict _ fields, o =>
      match o with
      | .dict kvs =>
          -- `TypedDictParser.__call__` turns *any* KeyError escaping the hook into a ParseError — also one raised by a
          -- nested loader (e.g. a NamedTuple member given a dict with an unknown field name)
          match loadTd std cfg fields kvs with
          | .ok ps => pure (.map .dict ps)
          | .error (.raw k) => if k == "KeyError".toList then parseE else .error (.raw k)
          | .error e => .error e
      | _ => tdJunk fields o
  | .cls ci ftys, o =>
      loadClassWith (fun f v => loadField std cfg f v ftys) (effMeta ci.cmeta cfg) ci o

/-- first phase of `UnionParser.__call__` for a non-None value: the AbstractParser members in
order (`o in parser`); `none` = no member claimed the value. -/
def loadUnionTry (std : Std) (cfg : Option MetaCfg) : List Ty → JVal → Option LRes
  | [], _ => none
  | t :: ts, o =>
      match t with
      | .cls _ _ => loadUnionTry std cfg ts o
      | .none => loadUnionTry std cfg ts o
      | _ =>
        match parserContains t o with
        | none => some (rawE "TypeError")
        | some true => some (loadD std cfg t o)
        | some false => loadUnionTry std cfg ts o

def loadTagged (std : Std) (cfg : Option MetaCfg) (tg : S) : List Ty → JVal → LRes
  | [], _ => parseE
  | t :: ts, o =>
      match t with
      | .cls ci ftys =>
        -- later members with the same tag overwrite earlier ones in `tag_to_parser`
        if memberTag cfg ci == some tg && !(ts.any (tyHasTag cfg tg)) then
          loadClassWith (fun f v => loadField std cfg f v ftys) (effMeta ci.cmeta cfg) ci o
        else loadTagged std cfg tg ts o
      | _ => loadTagged std cfg tg ts o

def loadZip (std : Std) (cfg : Option MetaCfg) : List Ty → List JVal → Except LErr (List PyVal)
  | [], _ => pure []
  | _ :: _, [] => pure []
  | t :: ts, x :: xs => do
      let y ← loadD std cfg t x
      let ys ← loadZip std cfg ts xs
      pure (y :: ys)

def loadNtField (std : Std) (cfg : Option MetaCfg) (k : S) (v : JVal) : List (S × Ty × Option Dflt) → LRes
  | [] => rawE "KeyError"
  | (n, t, _) :: r => if n == k then loadD std cfg t v else loadNtField std cfg k v r

def loadNtList (std : Std) (cfg : Option MetaCfg) : List (S × Ty × Option Dflt) → List JVal → Except LErr (List PyVal)
  | [], _ => pure []
  | _ :: _, [] => pure []
  | (_, t, _) :: fs, x :: xs => do
      let y ← loadD std cfg t x
      let ys ← loadNtList std cfg fs xs
      pure (y :: ys)

/-- `load_to_typed_dict`: required keys first, then optional keys present -/
def loadTd (std : Std) (cfg : Option MetaCfg) : List (S × Ty × Bool) → List (S × JVal) → Except LErr (List (PyVal × PyVal))
  | [], _ => pure []
  | (k, t, req) :: r, kvs =>
      match kvs.find? (fun kv => kv.1 == k) with
      | some (_, v) => do
          let y ← loadD std cfg t v
          let ys ← loadTd std cfg r kvs
          pure ((.str k, y) :: ys)
      | none => if req then parseE else loadTd std cfg r kvs

def loadField (std : Std) (cfg : Option MetaCfg) (f : S) (v : JVal) : List (S × Ty) → LRes
  | [] => .error (.unsupported "field without type".toList)
  | (n, t) :: r => if n == f then loadD std cfg t v else loadField std cfg f v r
end

/-- `fromdict(cls, o)` on a *main* class -/
def fromdict (std : Std) : Ty → JVal → LRes
  | .cls ci ftys, o =>
      let cfg := rootConfig ci.cmeta
      match loadClassWith (fun f v => loadField std cfg f v ftys) (effMeta ci.cmeta none) ci o with
      | .error (.parse none f) => .error (.parse (some ci.name) f)     -- no enclosing handler: the default class shows
      | r => r
  | _, _ => .error (.unsupported "not a dataclass".toList)

end DW
