/-
Interleaving model of the library's lock-free lazy initialisation (C20).

Every piece of per-class state is filled in lazily by whichever thread gets there first, with no lock.  The discipline the
code relies on (class_helper.py, loader_selection.py, dumpers.py, environ/lookups.py):

  * `setup`:    `if cls not in IS_…_SETUP:  for f in fields: table[f] = …;  IS_…_SETUP[cls] = True`
                — the per-field entries are written one store at a time, the *flag is published last*; concurrent fillers
                write the same values;
  * `generate`: `fn = CLASS_TO_…_FUNC.get(cls);  if fn is None: fn = build(table…); CLASS_TO_…_FUNC[cls] = fn`
                — a *single store* publishes the finished function; the same pattern is the key-spelling cache of a
                generated `from_dict` (`json_to_field[key] = field`) and `lookups.environ = os.environ.copy()`;
  * `scan`:     the subtype lookup in a hook table iterates over a *snapshot* of the table and then adds one entry.

A thread is a program counter over these steps, the shared state the flag, the entry table and the function slot; a
schedule is any list of thread numbers (unboundedly many threads, any length).  `flagFirst` and `placeholder` switch
the two broken disciplines on (publishing the flag before the fill; storing a provisional value before the final one)
so that their failing schedules are exhibited by the same executable model.
-/
namespace DW.Conc

inductive Pc
  | start
  | fill (i : Nat)
  | publish
  | lookup
  | gather (j : Nat) (acc : List (Option Nat))
  | store (acc : List (Option Nat))
  | store2 (acc : List (Option Nat))
  | done (r : Nat)
  deriving Repr, DecidableEq, Inhabited

structure Sh where
  flag : Bool := false
  ent : Nat → Option Nat := fun _ => none
  fn : Option Nat := none

structure Cfg where
  n : Nat                            -- number of per-field entries
  a : Nat → Nat                      -- the value setup writes for entry i
  g : List (Option Nat) → Nat        -- what `build` makes of the entries it read
  flagFirst : Bool := false          -- broken: flag published before the fill
  placeholder : Bool := false        -- broken: provisional store before the final store
  provisional : Nat := 0

/-- what a complete read of the entry table yields -/
def full (c : Cfg) : List (Option Nat) := (List.range c.n).map (fun i => some (c.a i))

def Sh.setEnt (s : Sh) (i v : Nat) : Sh := { s with ent := fun x => if x = i then some v else s.ent x }

/-- one atomic step of one thread -/
def stepT (c : Cfg) (s : Sh) : Pc → Sh × Pc
  | .start =>
    if s.flag then (s, .lookup)
    else if c.flagFirst then ({ s with flag := true }, if c.n = 0 then .lookup else .fill 0)
    else (s, if c.n = 0 then .publish else .fill 0)
  | .fill i =>
    (s.setEnt i (c.a i), if i + 1 < c.n then .fill (i + 1) else if c.flagFirst then .lookup else .publish)
  | .publish => ({ s with flag := true }, .lookup)
  | .lookup =>
    match s.fn with
    | some v => (s, .done v)
    | none => (s, if c.n = 0 then .store [] else .gather 0 [])
  | .gather j acc =>
    let acc' := acc ++ [s.ent j]
    (s, if j + 1 < c.n then .gather (j + 1) acc' else .store acc')
  | .store acc =>
    if c.placeholder then ({ s with fn := some c.provisional }, .store2 acc)
    else ({ s with fn := some (c.g acc) }, .done (c.g acc))
  | .store2 acc => ({ s with fn := some (c.g acc) }, .done (c.g acc))
  | .done r => (s, .done r)

structure G where
  sh : Sh := {}
  thr : Nat → Pc := fun _ => .start

def stepG (c : Cfg) (g : G) (t : Nat) : G :=
  let r := stepT c g.sh (g.thr t)
  { sh := r.1, thr := fun x => if x = t then r.2 else g.thr x }

def runG (c : Cfg) (g : G) (sched : List Nat) : G := sched.foldl (stepG c) g

def G.init : G := {}

/-- the result of thread `t`, if it has finished -/
def G.result (g : G) (t : Nat) : Option Nat :=
  match g.thr t with
  | .done r => some r
  | _ => none

/-! ### the subtype scan of a hook table -/

/-- a hook table: (type, hook) in insertion order -/
abbrev Hooks := List (Nat × Nat)

/-- the scan of `_asdict_inner` / `get_string_for_annotation`: the first entry whose type is a base of `v` -/
def scanFind (sub : Nat → Nat → Bool) (tbl : Hooks) (v : Nat) : Option Nat :=
  (tbl.find? (fun e => sub v e.1)).map (·.2)

/-- caching the hook found for the subtype `v` (no-op when nothing matches) -/
def cacheInsert (sub : Nat → Nat → Bool) (tbl : Hooks) (v : Nat) : Hooks :=
  match scanFind sub tbl v with
  | some h => tbl ++ [(v, h)]
  | none => tbl

/-- iteration over the live table, CPython semantics: the iterator remembers the size it started with and raises once
the size differs; `none` = RuntimeError -/
def liveScan (sub : Nat → Nat → Bool) (len0 : Nat) (v : Nat) : (pos : Nat) → (fuel : Nat) → (now : Nat → Hooks) → Option (Option Nat)
  | _, 0, _ => some none
  | pos, fuel + 1, now =>
    let tbl := now pos
    if tbl.length ≠ len0 then none
    else match tbl[pos]? with
      | none => some none
      | some e => if sub v e.1 then some (some e.2) else liveScan sub len0 v (pos + 1) fuel now

end DW.Conc
