import DW.Driver.Basic
import DW.Model.Strings
import DW.Model.ObjPath

namespace DW.Driver
open Lean DW.Str DW.ObjPath

def compJ : Comp → Json
  | .str s => Json.mkObj [("s", strJ s)]
  | .int i => Json.mkObj [("i", intJ i)]
  | .float t => Json.mkObj [("f", strJ t)]
  | .bool b => Json.mkObj [("b", Json.bool b)]

def letterCaseOf (n : S) : Except String LetterCase :=
  match String.ofList n with
  | "CAMEL" => pure .camel | "PASCAL" => pure .pascal | "LISP" => pure .lisp
  | "SNAKE" => pure .snake | "NONE" => pure .none
  | x => throw s!"bad letter case {x}"

def handleStr (j : Json) : Except String Json := do
  let fn ← getStr j "fn"
  let s ← getStr j "s"
  match String.ofList fn with
  | "snake" => pure (strJ (toSnake s))
  | "lisp" => pure (strJ (toLisp s))
  | "camel" => pure (optStrJ (toCamel s))
  | "pascal" => pure (optStrJ (toPascal s))
  | "normalize" => pure (strJ (normalize s))
  | "title" => pure (strJ (pyTitle s))
  | "collapse" => pure (strJ (collapse '_' s))
  | "possible_keys" =>
    match possibleJsonKeys s with
    | none => pure Json.null
    | some ks => pure (Json.arr (ks.map strJ).toArray)
  | "int" => match pyIntOfStr s with
    | none => pure Json.null
    | some i => pure (intJ i)
  | "isfloat" => pure (Json.bool (pyIsFloatSyntax s))
  | "path" => pure (Json.arr ((splitObjectPath s).map compJ).toArray)
  | "resolve" =>
    let fs ← getArr j "fields"
    let fields ← fs.toList.mapM (fun f => do let s ← f.getStr?; pure s.toList)
    let lc ← letterCaseOf (getStrD j "case" "SNAKE")
    pure (optStrJ (resolveKeyD lc.apply fields s))
  | x => throw s!"unknown str fn {x}"

end DW.Driver
