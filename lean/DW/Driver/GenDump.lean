import DW.Driver.Basic
import DW.Model.GenDump
import DW.Model.GenDumpSem

/- driver glue for the generator model (op "gendump") -/
namespace DW.Driver
open Lean DW.GenDump

private def gArr (j : Json) : Except String (List Json) := do pure (← j.getArr?).toList

private def gCond? (j : Json) : Except String (Option GCond) :=
  match j with
  | Json.null => pure none
  | _ => do
    let op ← getStr j "op"
    let op : COp ← match String.ofList op with
      | "==" => pure COp.eq | "!=" => pure COp.ne | "<" => pure COp.lt | "<=" => pure COp.le | ">" => pure COp.gt
      | ">=" => pure COp.ge | "is" => pure COp.is_ | "is not" => pure COp.isNot | "+" => pure COp.truthy | "!" => pure COp.falsy
      | x => throw s!"bad op {x}"
    let kind ← getStr j "kind"
    let val : CVal ← match String.ofList kind with
      | "none" => pure CVal.none | "true" => pure CVal.true_ | "false" => pure CVal.false_ | "ellipsis" => pure CVal.ellipsis
      | "int" => do pure (CVal.int (← getInt? (← j.getObjVal? "v")))
      | "str" => do pure (CVal.str (← getStr j "v"))
      | "other" => pure CVal.other
      | x => throw s!"bad kind {x}"
    pure (some { op := op, val := val })

private def gPart (j : Json) : Except String PathPart :=
  match j with
  | Json.str s => pure (.str s.toList)
  | Json.bool b => pure (.bool b)
  | Json.num _ => do pure (.int (← getInt? j))
  | _ => throw "bad path part"

private def gKey (j : Json) : Except String GKey :=
  match j with
  | Json.null => pure .null
  | Json.str s => pure (.key s.toList)
  | Json.arr a => do pure (.path (← a.toList.mapM gPart))
  | _ => throw "bad key"

private def gField (j : Json) : Except String GField := do
  pure { name := (← getStr j "name"), hasDefault := getBoolD j "hasDefault" false, key := (← gKey (← j.getObjVal? "key")),
         skipIf := (← gCond? ((j.getObjVal? "skipIf").toOption.getD Json.null)), isCatchAll := getBoolD j "isCatchAll" false }

def gInOf (j : Json) : Except String GIn := do
  let fields ← (← gArr (← j.getObjVal? "fields")).mapM gField
  let tag ← match (j.getObjVal? "tag").toOption.getD Json.null with
    | Json.str s => pure (some s.toList)
    | _ => pure none
  pure { fields := fields, skipDefaults := getBoolD j "skipDefaults" false,
         skipIf := (← gCond? ((j.getObjVal? "skipIf").toOption.getD Json.null)),
         skipDefaultsIf := (← gCond? ((j.getObjVal? "skipDefaultsIf").toOption.getD Json.null)),
         tag := tag, tagKey := getStrD j "tagKey" "__tag__", preDict := getBoolD j "preDict" false,
         extraPaths := getBoolD j "extraPaths" false }

private def strsJ (l : List S) : Json := Json.arr (l.map strJ).toArray

/-- {"op":"gendump","nonprintable":[codepoints],"gin":{…}} ->
    {"args":[..],"code":"…","locals":[..],"wellScoped":bool,"wellScopedOld":bool,"reads":[..],"writes":[..]} -/
def handleGenDump (j : Json) : Except String Json := do
  let np ← (← gArr ((j.getObjVal? "nonprintable").toOption.getD (Json.arr #[]))).mapM (fun v => do
    let i ← getInt? v
    pure i.toNat)
  let printable : Char → Bool := fun c => !np.contains c.toNat
  let g ← gInOf (← j.getObjVal? "gin")
  let body := genBody printable g
  pure (Json.mkObj [("args", strsJ (genArgs g)), ("code", strJ (genCode printable g)), ("locals", strsJ (genLocals printable g)),
    ("wellScoped", Json.bool (wellScoped printable g)), ("wellScopedOld", Json.bool (wellScopedQ printable false g)),
    ("reads", strsJ (body.flatMap L2.allReads).eraseDups), ("writes", strsJ (body.flatMap L2.writes).eraseDups)])

/-! ### running the generated body (op "gendumprun") -/

private def litOf (j : Json) : Except String Lit :=
  match j with
  | Json.null => pure .none
  | Json.bool b => pure (.bool b)
  | Json.str s => pure (.str s.toList)
  | Json.num _ => do pure (.int (← getInt? j))
  | _ => throw "bad literal"

private def pyValOf (j : Json) : Except String PyVal :=
  match j with
  | Json.null => pure .none
  | Json.bool b => pure (.bool b)
  | Json.str s => pure (.str s.toList)
  | Json.num _ => do pure (.int (← getInt? j))
  | Json.arr a => do        -- a mapping (catch-all value): [[key, value] ..] with scalar values
    let kvs ← a.toList.mapM (fun kv => do
      match (← gArr kv) with
      | [k, v] => do
        let k' ← k.getStr?
        let v' ← (match v with
          | Json.null => pure PyVal.none
          | Json.bool b => pure (PyVal.bool b)
          | Json.str s => pure (PyVal.str s.toList)
          | Json.num _ => do pure (PyVal.int (← getInt? v))
          | _ => throw "bad map value")
        pure (PyVal.str k'.toList, v')
      | _ => throw "bad map entry")
    pure (.map .dict kvs)
  | _ => throw "bad value"

private def cvOf (j : Json) : Except String CV := do
  let kind ← getStr j "kind"
  match String.ofList kind with
  | "lit" => do pure (.lit (← litOf (← j.getObjVal? "v")))
  | "dflt" => do pure (.dflt (.lit (← litOf (← j.getObjVal? "v"))))
  | "emptyDict" => pure (.dflt .emptyDict)
  | "emptyList" => pure (.dflt .emptyList)
  | x => throw s!"bad closure kind {x}"

private def litVJ : LitV → Json
  | .none => Json.null | .true_ => Json.bool true | .false_ => Json.bool false
  | .int i => intJ i | .str s => strJ s

private def emitJ : Emit → Json
  | .entry k f => Json.arr #[Json.str "entry", strJ k, strJ f]
  | .path idx f => Json.arr #[Json.str "path", Json.arr (idx.map litVJ).toArray, strJ f]
  | .catchAll f => Json.arr #[Json.str "catchAll", strJ f]
  | .tag k t => Json.arr #[Json.str "tag", strJ k, strJ t]

/-- {"op":"gendumprun","gin":{…},"fields":{name: value},"exclude":null|[..],"skipDefaults":bool,
     "closure":[{"name":..,"kind":..,"v":..}]} -> {"ok":[emits]} | {"err":"raised"|"stuck"} -/
def handleGenDumpRun (j : Json) : Except String Json := do
  let g ← gInOf (← j.getObjVal? "gin")
  let fieldsJ ← (← j.getObjVal? "fields").getObj?
  let fields ← fieldsJ.toList.mapM (fun (k, v) => do pure (k.toList, (← pyValOf v)))
  let exclude ← match (j.getObjVal? "exclude").toOption.getD Json.null with
    | Json.null => pure none
    | e => do pure (some ((← (← gArr e).mapM (fun x => x.getStr?)).map String.toList))
  let closure ← (← gArr ((j.getObjVal? "closure").toOption.getD (Json.arr #[]))).mapM (fun c => do
    pure ((← getStr c "name"), (← cvOf c)))
  let ρ : Env := { field := fun n => fields.lookup n, exclude := exclude, skipDefaults := getBoolD j "skipDefaults" false,
                   closure := fun n => closure.lookup n }
  match run ρ (genBody (fun _ => true) g) with
  | .ok out => pure (Json.mkObj [("ok", Json.arr (out.map emitJ).toArray)])
  | .error (.raised _) => pure (Json.mkObj [("err", Json.str "raised")])
  | .error .stuck => pure (Json.mkObj [("err", Json.str "stuck")])

end DW.Driver
