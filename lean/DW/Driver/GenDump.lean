import DW.Driver.Basic
import DW.Model.GenDump

/- driver glue for the generator model (op "gendump") -/
namespace DW.Driver
open Lean DW.GenDump

private def gArr (j : Json) : Except String (List Json) := do pure (← j.getArr?).toList

private def gCond? (j : Json) : Except String (Option GCond) :=
  match j with
  | Json.null => pure none
  | _ => do
    let op ← getStr j "op"
    let op : COp ← match String.ofList op with
      | "==" => pure COp.eq | "!=" => pure COp.ne | "<" => pure COp.lt | "<=" => pure COp.le | ">" => pure COp.gt
      | ">=" => pure COp.ge | "is" => pure COp.is_ | "is not" => pure COp.isNot | "+" => pure COp.truthy | "!" => pure COp.falsy
      | x => throw s!"bad op {x}"
    let kind ← getStr j "kind"
    let val : CVal ← match String.ofList kind with
      | "none" => pure CVal.none | "true" => pure CVal.true_ | "false" => pure CVal.false_ | "ellipsis" => pure CVal.ellipsis
      | "int" => do pure (CVal.int (← getInt? (← j.getObjVal? "v")))
      | "str" => do pure (CVal.str (← getStr j "v"))
      | "other" => pure CVal.other
      | x => throw s!"bad kind {x}"
    pure (some { op := op, val := val })

private def gPart (j : Json) : Except String PathPart :=
  match j with
  | Json.str s => pure (.str s.toList)
  | Json.bool b => pure (.bool b)
  | Json.num _ => do pure (.int (← getInt? j))
  | _ => throw "bad path part"

private def gKey (j : Json) : Except String GKey :=
  match j with
  | Json.null => pure .null
  | Json.str s => pure (.key s.toList)
  | Json.arr a => do pure (.path (← a.toList.mapM gPart))
  | _ => throw "bad key"

private def gField (j : Json) : Except String GField := do
  pure { name := (← getStr j "name"), hasDefault := getBoolD j "hasDefault" false, key := (← gKey (← j.getObjVal? "key")),
         skipIf := (← gCond? ((j.getObjVal? "skipIf").toOption.getD Json.null)), isCatchAll := getBoolD j "isCatchAll" false }

def gInOf (j : Json) : Except String GIn := do
  let fields ← (← gArr (← j.getObjVal? "fields")).mapM gField
  let tag ← match (j.getObjVal? "tag").toOption.getD Json.null with
    | Json.str s => pure (some s.toList)
    | _ => pure none
  pure { fields := fields, skipDefaults := getBoolD j "skipDefaults" false,
         skipIf := (← gCond? ((j.getObjVal? "skipIf").toOption.getD Json.null)),
         skipDefaultsIf := (← gCond? ((j.getObjVal? "skipDefaultsIf").toOption.getD Json.null)),
         tag := tag, tagKey := getStrD j "tagKey" "__tag__", preDict := getBoolD j "preDict" false,
         extraPaths := getBoolD j "extraPaths" false }

private def strsJ (l : List S) : Json := Json.arr (l.map strJ).toArray

/-- {"op":"gendump","nonprintable":[codepoints],"gin":{…}} ->
    {"args":[..],"code":"…","locals":[..],"wellScoped":bool,"wellScopedOld":bool,"reads":[..],"writes":[..]} -/
def handleGenDump (j : Json) : Except String Json := do
  let np ← (← gArr ((j.getObjVal? "nonprintable").toOption.getD (Json.arr #[]))).mapM (fun v => do
    let i ← getInt? v
    pure i.toNat)
  let printable : Char → Bool := fun c => !np.contains c.toNat
  let g ← gInOf (← j.getObjVal? "gin")
  let body := genBody printable g
  pure (Json.mkObj [("args", strsJ (genArgs g)), ("code", strJ (genCode printable g)), ("locals", strsJ (genLocals printable g)),
    ("wellScoped", Json.bool (wellScoped printable g)), ("wellScopedOld", Json.bool (wellScopedQ printable false g)),
    ("reads", strsJ (body.flatMap L2.allReads).eraseDups), ("writes", strsJ (body.flatMap L2.writes).eraseDups)])

end DW.Driver
