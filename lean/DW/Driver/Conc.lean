import DW.Driver.Caches
import DW.Model.Conc
import DW.Generated.Tables

namespace DW.Driver
open Lean DW DW.Conc

/-- is the discipline entry whose site starts with `pre` reported "ok" by the translator? -/
def disciplineOk (pre : String) : Bool :=
  (DW.Generated.concDiscipline.filter (fun e => pre.isPrefixOf e.1)).all (fun e => e.2 == "ok")

/-- {"op":"conc","site":"<discipline site prefix>"|null,"n":k,"threads":t,"sched":[thread numbers],
     "flagFirst":bool?,"placeholder":bool?}
   The model is run with the discipline flags the translator read off the source for `site` (or the explicit flags);
   result: per thread `null` (unfinished) | "seq" (the sequential result) | "other". -/
def handleConc (j : Json) : D Json := do
  let n ← natOf (← j.getObjVal? "n")
  let threads ← natOf (← j.getObjVal? "threads")
  let sched ← (← arrOf (← j.getObjVal? "sched")).mapM natOf
  let site := String.ofList (getStrD j "site" "")
  let bad := !site.isEmpty && !disciplineOk site
  let ff := getBoolD j "flagFirst" (bad && site.startsWith "class_helper")
  let ph := getBoolD j "placeholder" false
  let twoStep := getBoolD j "twoStep" (bad && site.startsWith "environ")
  let c : Cfg := { n := n, a := fun i => i + 10, g := fun acc => acc.foldl (fun h x => (31 * h + x.getD 7) % 1000003) 1,
                   flagFirst := ff || twoStep, placeholder := ph }
  let g := runG c G.init sched
  let seq := c.g (full c)
  let outs := (List.range threads).map (fun t =>
    match g.result t with
    | none => Json.null
    | some r => Json.str (if r = seq then "seq" else "other"))
  pure (Json.mkObj [("outs", Json.arr outs.toArray), ("flagFirst", Json.bool c.flagFirst), ("placeholder", Json.bool c.placeholder)])

end DW.Driver
