import DW.Driver.Caches
import DW.Model.Names

namespace DW.Driver
open Lean DW DW.Names

/-- {"op":"names","strs":[..],"nonprintable":[codepoints],"fields":[..],"types":[[name,i]..]}
    -> {"reprs":[..],"unq":[str|null ..],"fieldVars":[..],"typeLocals":[..]} -/
def handleNames (j : Json) : D Json := do
  let strs ← (← arrOf (← j.getObjVal? "strs")).mapM (fun v => v.getStr?)
  let np ← (← arrOf (← j.getObjVal? "nonprintable")).mapM natOf
  let printable : Char → Bool := fun c => !np.contains c.toNat
  let fields ← (← arrOf ((j.getObjVal? "fields").toOption.getD (Json.arr #[]))).mapM (fun v => v.getStr?)
  let types ← (← arrOf ((j.getObjVal? "types").toOption.getD (Json.arr #[]))).mapM (fun v => do
    match (← arrOf v) with
    | [n, i] => do pure ((← n.getStr?), (← natOf i))
    | _ => throw "bad type entry")
  let reprs := strs.map (fun s => String.ofList (pyRepr printable s.toList))
  let unq := strs.map (fun s => match pyUnquote (pyRepr printable s.toList) with
    | some t => Json.str (String.ofList t)
    | none => Json.null)
  let rd := strs.map (fun s => match pyUnquote s.toList with
    | some t => Json.str (String.ofList t)
    | none => Json.null)
  pure (Json.mkObj [("reprs", Json.arr (reprs.map Json.str).toArray), ("unq", Json.arr unq.toArray), ("read", Json.arr rd.toArray),
    ("fieldVars", Json.arr (fields.map (fun f => Json.str (String.ofList (fieldVar f.toList)))).toArray),
    ("typeLocals", Json.arr (types.map (fun (n, i) => Json.str (String.ofList (typeLocal n.toList i)))).toArray)])

end DW.Driver
