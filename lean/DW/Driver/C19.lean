/- driver glue for C19 (trusted, not verified): decode a request, run `gsInfer` / `gsModule`, encode the module AST.

request  {"op":"c19","doc":<jval>,"experimental":b,"force_strings":b,"dedup":b,
          "std":{"known":[s..],"date":[s..],"time":[s..],"datetime":[s..],"numeric":[s..],"float":[s..],
                 "lower":[[s,t]..],"singularize":[[w,r]..]}}
         {"op":"c19","keywords":true}  ->  the keyword list `identOK` uses (compared with `keyword.kwlist`)
         {"op":"c19","cli":kind,"trunc":b}  ->  {"exit":n,"out":state}   (the command-line state machine `cliRun`)
response {"ok":{"imports":[[module,[names]]..],"classes":[{"name":s,"root":b,"fields":[[name,tree,text]..]}..],
                "names_ok":b}}  |  {"err":"TypeError"}  |  {"stdmiss":true}
tree     ["name",n] | ["ref",n] | ["sub",tree,[tree..]] | ["or",[tree..]] | ["none"]
-/
import DW.Driver.Codec
import DW.Model.C19Spec

namespace DW.Driver
open Lean DW DW.Gs

def strListOf (j : Json) (k : String) : D (List S) :=
  match j.getObjVal? k with
  | .error _ => pure []
  | .ok v => do (← arrOf v).mapM strOf

def strPairsOf (j : Json) (k : String) : D (List (S × S)) :=
  match j.getObjVal? k with
  | .error _ => pure []
  | .ok v => do
    (← arrOf v).mapM (fun r => do
      match (← arrOf r) with
      | [a, b] => do pure ((← strOf a), (← strOf b))
      | _ => throw "bad pair")

/-- table-backed `GsStd`; `variant` selects what a table miss answers, so that a miss that matters shows up
as a difference between the two runs -/
def gsStdOf (variant : Bool) (j : Json) : D GsStd := do
  let known ← strListOf j "known"
  let date ← strListOf j "date"
  let time ← strListOf j "time"
  let dtime ← strListOf j "datetime"
  let numeric ← strListOf j "numeric"
  let flt ← strListOf j "float"
  let lower ← strPairsOf j "lower"
  let sing ← strPairsOf j "singularize"
  let pred (t : List S) (s : S) : Bool := if known.contains s then t.contains s else variant
  let fn (t : List (S × S)) (s : S) : S :=
    match t.find? (fun p => p.1 == s) with
    | some p => p.2
    | none => if variant then "<<STDMISS2>>".toList else "<<STDMISS>>".toList
  pure { isDate := pred date, isTime := pred time, isDatetime := pred dtime, isNumeric := pred numeric,
         isFloat := pred flt, lower := fn lower, singularize := fn sing }

partial def tyExprJ (exp : Bool) : TyExpr → Json
  | .nm n => Json.arr #[Json.str "name", strJ n]
  | .ref n => if exp then Json.arr #[Json.str "name", strJ n] else Json.arr #[Json.str "ref", strJ n]
  | .app h args => Json.arr #[Json.str "sub", Json.arr #[Json.str "name", strJ h], Json.arr (args.map (tyExprJ exp)).toArray]
  | .bor alts => Json.arr #[Json.str "or", Json.arr (alts.map (tyExprJ exp)).toArray]
  | .none => Json.arr #[Json.str "none"]

def classJ (exp : Bool) (c : ClassAst) : Json :=
  Json.mkObj [("name", strJ c.name), ("root", Json.bool c.isRoot),
    ("fields", Json.arr (c.fields.map (fun f =>
      Json.arr #[strJ f.1, tyExprJ exp f.2, strJ (TyExpr.text exp f.2)])).toArray)]

def moduleJ (exp : Bool) (m : ModuleAst) : Json :=
  Json.mkObj [
    ("imports", Json.arr (m.imports.map (fun i => Json.arr #[strJ i.1, Json.arr (i.2.map strJ).toArray])).toArray),
    ("classes", Json.arr (m.classes.map (classJ exp)).toArray),
    ("names_ok", Json.bool (NamesOK m))]

def runC19 (j : Json) (std : GsStd) : D Json := do
  let doc ← jvalOf (← j.getObjVal? "doc")
  let fl : Flags := { experimental := getBoolD j "experimental" false, forceStrings := getBoolD j "force_strings" false,
                      dedupByEq := getBoolD j "dedup" true }
  match gsModule std fl doc with
  | none => pure (Json.mkObj [("err", Json.str "TypeError")])
  | some m => pure (Json.mkObj [("ok", moduleJ fl.experimental m)])

/-- {"op":"c19","cli":"syntaxError"|"scalarRoot"|"unreadable"|"valid","trunc":b} -> {"exit":n,"out":"unchanged"|"emptied"|"code"}
(the pre-existing output file holds the text "old", a valid input generates the text "code") -/
def handleCli (kind : String) (trunc : Bool) : D Json := do
  let inp ← match kind with
    | "syntaxError" => pure CliInput.syntaxError
    | "scalarRoot" => pure CliInput.scalarRoot
    | "unreadable" => pure CliInput.unreadable
    | "valid" => pure (CliInput.valid "code".toList)
    | x => throw s!"bad cli input kind {x}"
  let r := cliRun trunc inp (some "old".toList)
  let out := match r.out with
    | some t => if t == "old".toList then "unchanged" else if t.isEmpty then "emptied" else if t == "code".toList then "code" else "other"
    | none => "absent"
  pure (Json.mkObj [("exit", intJ r.exit), ("out", Json.str out)])

def handleC19 (j : Json) : D Json := do
  if getBoolD j "keywords" false then
    return Json.arr (pyKeywords.map Json.str).toArray
  match j.getObjVal? "cli" with
  | .ok (Json.str k) => return (← handleCli k (getBoolD j "trunc" true))
  | _ => pure ()
  let sj := match j.getObjVal? "std" with | .ok v => v | .error _ => Json.mkObj []
  let s1 ← gsStdOf false sj
  let s2 ← gsStdOf true sj
  let r1 ← runC19 j s1
  let r2 ← runC19 j s2
  if r1.compress == r2.compress then pure r1 else pure (Json.mkObj [("stdmiss", Json.bool true)])

end DW.Driver
