/- Driver glue for C17 (trusted, not verified): JSON <-> the patterned date/time model.

Request
  {"op":"c17","engine":"default"|"v1",
   "quirks":{"dash":b,"guard":b,"name":b,"sticky":b},
   "pats":[{"patterns":[..],"tz":null|["fixed",us]|["zone",key],"aware":b},..],
   "fields":[{"ty":<pty>,"ann":null|pid},..],
   "loads":[[fieldIndex,<jval>],..],
   "std":{"strptime":[[pattern,text,<dt>|null],..],
          "date_iso":[[text,<date>|null],..],"time_iso":..,"datetime_iso":..,
          "iso_date":[[<date>,text],..],"iso_time":..,"iso_datetime":..,
          "date_ts":[[num,<date>|"ValueError"|null],..],"datetime_ts":[[num,<tz>,<dt>|"ValueError"|null],..]}}
  <pty>  = {"k":"str"} | {"k":"leaf","kind":K,"sub":b} | {"k":"pat","kind":K,"pid":n}
         | {"k":"optional"|"list","a":[t]} | {"k":"tuple","a":[t..]} | {"k":"dict","a":[kt,vt]}
  <date> = [y,m,d]   <time> = [h,mi,s,us,<tz>]   <dt> = [y,m,d,h,mi,s,us,<tz>]
Response
  {"outs":[ {"load":<res>,"dump":<jval>,"reload":<res>} | {"load":<res>} | {"stdmiss":true}, ..],
   "resolved":[[fieldIndex,[pid,K,sub,subscripted],[K,sub,[patterns],<tz>]],..]}       (v1 only)
  <res>  = {"ok":<pv>} | {"err":["nomatch",[patterns]]|["type"]|["attr"]|["other"]}
  <pv>   = ["none"] | ["str",s] | ["date",sub,<date>] | ["time",sub,<time>] | ["datetime",sub,<dt>]
         | ["list",[..]] | ["tuple",[..]] | ["dict",[[k,v],..]]
-/
import DW.Driver.Codec
import DW.Model.C17

namespace DW.Driver.C17
open Lean DW DW.Driver DW.C17

def natOf (j : Json) : D Nat := do
  let i ← intOf j
  pure i.toNat

def kindOf (s : String) : D Kind :=
  match s with
  | "date" => pure .date | "time" => pure .time | "datetime" => pure .datetime
  | x => throw s!"bad kind {x}"

def kindS : Kind → String
  | .date => "date" | .time => "time" | .datetime => "datetime"

def tzOf (j : Json) : D (Option TZ) := do
  match j with
  | Json.null => pure none
  | _ =>
    match (← arrOf j) with
    | [Json.str "fixed", us] => do pure (some (.fixed (← intOf us)))
    | [Json.str "zone", k] => do pure (some (.zone (← strOf k)))
    | _ => throw "bad tz"

def tzJ : Option TZ → Json
  | none => Json.null
  | some (.fixed us) => Json.arr #[Json.str "fixed", intJ us]
  | some (.zone k) => Json.arr #[Json.str "zone", strJ k]

def dateOf (j : Json) : D DateF := do
  match (← arrOf j) with
  | [y, m, d] => do pure { y := (← natOf y), m := (← natOf m), d := (← natOf d) }
  | _ => throw "bad date"

def timeOf (j : Json) : D TimeF := do
  match (← arrOf j) with
  | [h, mi, s, us, tz] => do
      pure { h := (← natOf h), mi := (← natOf mi), s := (← natOf s), us := (← natOf us), tz := (← tzOf tz) }
  | _ => throw "bad time"

def dtOf (j : Json) : D DT := do
  match (← arrOf j) with
  | [y, m, d, h, mi, s, us, tz] => do
      pure { date := { y := (← natOf y), m := (← natOf m), d := (← natOf d) },
             time := { h := (← natOf h), mi := (← natOf mi), s := (← natOf s), us := (← natOf us), tz := (← tzOf tz) } }
  | _ => throw "bad datetime"

def nJ (n : Nat) : Json := intJ (Int.ofNat n)

def dateJ (d : DateF) : Json := Json.arr #[nJ d.y, nJ d.m, nJ d.d]
def timeJ (t : TimeF) : Json := Json.arr #[nJ t.h, nJ t.mi, nJ t.s, nJ t.us, tzJ t.tz]
def dtJ (x : DT) : Json :=
  Json.arr #[nJ x.date.y, nJ x.date.m, nJ x.date.d, nJ x.time.h, nJ x.time.mi, nJ x.time.s, nJ x.time.us, tzJ x.time.tz]

def dvJ : DV → Json
  | .date sub d => Json.arr #[Json.str "date", Json.bool sub, dateJ d]
  | .time sub t => Json.arr #[Json.str "time", Json.bool sub, timeJ t]
  | .datetime sub x => Json.arr #[Json.str "datetime", Json.bool sub, dtJ x]

partial def pvJ : PV → Json
  | .none => Json.arr #[Json.str "none"]
  | .str s => Json.arr #[Json.str "str", strJ s]
  | .dv v => dvJ v
  | .list xs => Json.arr #[Json.str "list", Json.arr (xs.map pvJ).toArray]
  | .tuple xs => Json.arr #[Json.str "tuple", Json.arr (xs.map pvJ).toArray]
  | .dict kvs => Json.arr #[Json.str "dict", Json.arr (kvs.map (fun p => Json.arr #[pvJ p.1, pvJ p.2])).toArray]

def errJ : PErr → Json
  | .noMatch ps => Json.arr #[Json.str "nomatch", Json.arr (ps.map strJ).toArray]
  | .typeError => Json.arr #[Json.str "type"]
  | .attrError => Json.arr #[Json.str "attr"]
  | .valueError => Json.arr #[Json.str "other"]
  | .other => Json.arr #[Json.str "other"]

def resJ : PRes → Json
  | .ok v => Json.mkObj [("ok", pvJ v)]
  | .error e => Json.mkObj [("err", errJ e)]

partial def jvalJ : JVal → Json
  | .null => Json.null
  | .bool b => Json.bool b
  | .int i => intJ i
  | .float f => floatJ f
  | .str s => strJ s
  | .list xs => Json.arr (xs.map jvalJ).toArray
  | .dict kvs => Json.mkObj [("$d", Json.arr (kvs.map (fun p => Json.arr #[strJ p.1, jvalJ p.2])).toArray)]

partial def ptyOf (j : Json) : D PTy := do
  let k ← (← j.getObjVal? "k").getStr?
  let args : D (List Json) := match j.getObjVal? "a" with
    | .ok v => arrOf v
    | .error _ => pure []
  match k with
  | "str" => pure .str
  | "leaf" => do
      let kind ← kindOf (← (← j.getObjVal? "kind").getStr?)
      pure (.leaf kind (getBoolD j "sub" false))
  | "pat" => do
      let kind ← kindOf (← (← j.getObjVal? "kind").getStr?)
      pure (.pat kind (← natOf (← j.getObjVal? "pid")))
  | "optional" => do
      match (← args) with
      | [t] => pure (.optional (← ptyOf t))
      | _ => throw "optional arity"
  | "list" => do
      match (← args) with
      | [t] => pure (.list (← ptyOf t))
      | _ => throw "list arity"
  | "tuple" => do pure (.tuple (← (← args).mapM ptyOf))
  | "dict" => do
      match (← args) with
      | [a, b] => pure (.dict (← ptyOf a) (← ptyOf b))
      | _ => throw "dict arity"
  | x => throw s!"bad pty {x}"

def fieldOf (j : Json) : D Field := do
  let ty ← ptyOf (← j.getObjVal? "ty")
  let ann ← optField j "ann" natOf
  pure { ty := ty, ann := ann }

def patObjOf (j : Json) : D PatObj := do
  let ps ← (← arrOf (← j.getObjVal? "patterns")).mapM strOf
  let tz ← match j.getObjVal? "tz" with
    | .ok v => tzOf v
    | .error _ => pure none
  pure { patterns := ps, tz := tz, aware := getBoolD j "aware" false }

def quirksOf (j : Json) : PQuirks :=
  match j.getObjVal? "quirks" with
  | .ok q => { dTimeDashSilent := getBoolD q "dash" false, v1GuardByObject := getBoolD q "guard" false,
               v1NameByType := getBoolD q "name" false, v1PatternSticky := getBoolD q "sticky" false }
  | .error _ => {}

/-- a `fromtimestamp` outcome: the value, "ValueError", or null (any other exception) -/
def tsOf {α} (dec : Json → D α) (j : Json) : D (TsRes α) :=
  match j with
  | Json.null => pure .otherError
  | Json.str "ValueError" => pure .valueError
  | x => do pure (.ok (← dec x))

def rows (j : Json) (name : String) : D (List (List Json)) :=
  match j.getObjVal? name with
  | .error _ => pure []
  | .ok v => do (← arrOf v).mapM arrOf

/-- table-backed `PatStd`; a *miss* answers with a sentinel that depends on `variant`, so a primitive outside the
supplied tables that influences an outcome is detected by running both variants -/
def patStdOf (variant : Bool) (j : Json) : D PatStd := do
  let missText : S := if variant then "<<STDMISS2>>".toList else "<<STDMISS>>".toList
  let missDate : DateF := if variant then { y := 8888, m := 88, d := 88 } else { y := 7777, m := 77, d := 77 }
  let missTime : TimeF := if variant then { h := 88, mi := 88, s := 88, us := 88, tz := none } else { h := 77, mi := 77, s := 77, us := 77, tz := none }
  let missDT : DT := { date := missDate, time := missTime }
  let sp ← (← rows j "strptime").mapM (fun r => do
    match r with
    | [p, t, v] => do pure (((← strOf p), (← strOf t)), (← optDec dtOf v))
    | _ => throw "bad strptime row")
  let diso ← (← rows j "date_iso").mapM (fun r => do
    match r with | [t, v] => do pure ((← strOf t), (← optDec dateOf v)) | _ => throw "bad date_iso row")
  let tiso ← (← rows j "time_iso").mapM (fun r => do
    match r with | [t, v] => do pure ((← strOf t), (← optDec timeOf v)) | _ => throw "bad time_iso row")
  let dtiso ← (← rows j "datetime_iso").mapM (fun r => do
    match r with | [t, v] => do pure ((← strOf t), (← optDec dtOf v)) | _ => throw "bad datetime_iso row")
  let isod ← (← rows j "iso_date").mapM (fun r => do
    match r with | [v, t] => do pure ((← dateOf v), (← strOf t)) | _ => throw "bad iso_date row")
  let isot ← (← rows j "iso_time").mapM (fun r => do
    match r with | [v, t] => do pure ((← timeOf v), (← strOf t)) | _ => throw "bad iso_time row")
  let isodt ← (← rows j "iso_datetime").mapM (fun r => do
    match r with | [v, t] => do pure ((← dtOf v), (← strOf t)) | _ => throw "bad iso_datetime row")
  let dts ← (← rows j "date_ts").mapM (fun r => do
    match r with | [n, v] => do pure ((← numOf n), (← tsOf dateOf v)) | _ => throw "bad date_ts row")
  let dtts ← (← rows j "datetime_ts").mapM (fun r => do
    match r with | [n, tz, v] => do pure (((← numOf n), (← tzOf tz)), (← tsOf dtOf v)) | _ => throw "bad datetime_ts row")
  let look {α β} [BEq α] (t : List (α × β)) (miss : β) (k : α) : β :=
    match t.find? (fun p => p.1 == k) with
    | some p => p.2
    | none => miss
  pure {
    strptime := fun p t => look sp (some missDT) (p, t)
    dateFromIso := look diso (some missDate)
    timeFromIso := look tiso (some missTime)
    datetimeFromIso := look dtiso (some missDT)
    dateIso := look isod missText
    timeIso := look isot missText
    datetimeIso := look isodt missText
    dateFromTs := look dts (.ok missDate)
    datetimeFromTs := fun n tz => look dtts (.ok missDT) (n, tz)
  }

structure Req where
  engine : Engine
  q : PQuirks
  pats : List PatObj
  fields : List Field
  loads : List (Nat × JVal)

def reqOf (j : Json) : D Req := do
  let eng ← match String.ofList (getStrD j "engine" "default") with
    | "default" => pure Engine.dflt
    | "v1" => pure Engine.v1
    | x => throw s!"bad engine {x}"
  let pats ← (← arrOf (← j.getObjVal? "pats")).mapM patObjOf
  let fields ← (← arrOf (← j.getObjVal? "fields")).mapM fieldOf
  let loads ← (← arrOf (← j.getObjVal? "loads")).mapM (fun l => do
    match (← arrOf l) with
    | [i, v] => do pure ((← natOf i), (← jvalOf v))
    | _ => throw "bad load")
  pure { engine := eng, q := quirksOf j, pats := pats, fields := fields, loads := loads }

/-- one load: the loaded value, its dump, and the reload of the dump -/
def runOne (std : PatStd) (r : Req) (i : Nat) (o : JVal) : Json :=
  let res := pLoadField std r.engine r.q r.pats r.fields i o
  match res with
  | .error _ => Json.mkObj [("load", resJ res)]
  | .ok v =>
    let d := dumpPV std v
    Json.mkObj [("load", resJ res), ("dump", jvalJ d), ("reload", resJ (pLoadField std r.engine r.q r.pats r.fields i d))]

def posJ (p : Pos) : Json := Json.arr #[nJ p.pid, Json.str (kindS p.k), Json.bool p.sub, Json.bool p.subscripted]
def specJ (s : FnSpec) : Json := Json.arr #[Json.str (kindS s.k), Json.bool s.sub, Json.arr (s.patterns.map strJ).toArray, tzJ s.tz]

/-- which function each patterned position of each field ends up calling (v1) -/
def resolvedJ (r : Req) : Json :=
  match r.engine with
  | .dflt => Json.arr #[]
  | .v1 =>
    let st := genClass r.q r.pats r.fields
    let idx := List.range r.fields.length
    Json.arr (idx.foldl (fun acc i =>
      match r.fields[i]? with
      | none => acc
      | some f =>
        acc ++ (leavesTy (stickyAt r.q none r.fields i) f.ty).map (fun p =>
          Json.arr #[nJ i, posJ p, specJ (resolve r.q r.pats st p)])) []).toArray

def handle (j : Json) : Except String Json := do
  let r ← reqOf j
  let stdj := (j.getObjVal? "std").toOption.getD (Json.mkObj [])
  let s1 ← patStdOf false stdj
  let s2 ← patStdOf true stdj
  let outs := r.loads.map (fun (i, o) =>
    let a := runOne s1 r i o
    let b := runOne s2 r i o
    if a.compress == b.compress then a else Json.mkObj [("stdmiss", Json.bool true)])
  pure (Json.mkObj [("outs", Json.arr outs.toArray), ("resolved", resolvedJ r)])

end DW.Driver.C17

namespace DW.Driver
/-- {"op":"c17", …}: see the header of this file -/
def handleC17 (j : Lean.Json) : Except String Lean.Json := C17.handle j
end DW.Driver
