/- JSON <-> model values (driver glue; trusted, not verified). -/
import DW.Driver.Basic
import DW.Model.Load

namespace DW.Driver
open Lean DW

def missStr : S := "<<STDMISS>>".toList
def missInt : Int := 314159265358979323846264338327950288

abbrev D := Except String

def arrOf (j : Json) : D (List Json) := do
  let a ← j.getArr?
  pure a.toList

def strOf (j : Json) : D S := do
  let s ← j.getStr?
  pure s.toList

def intOf (j : Json) : D Int := getInt? j

def natOfStr (s : String) : D Nat :=
  match s.toNat? with
  | some n => pure n
  | none => throw s!"bad nat {s}"

def floatOf (j : Json) : D PyFloat := do
  match j with
  | Json.str "nan" => pure .nan
  | Json.str "inf" => pure .inf
  | Json.str "-inf" => pure .ninf
  | Json.arr a =>
    match a.toList with
    | [n, m, e, r] => do
      let neg ← n.getBool?
      let ms ← m.getStr?
      let mm ← natOfStr ms
      let ee ← intOf e
      let rr ← strOf r
      pure (.fin neg mm ee rr)
    | _ => throw "bad float array"
  | _ => throw "bad float"

def floatJ : PyFloat → Json
  | .nan => Json.mkObj [("$f", Json.str "nan")]
  | .inf => Json.mkObj [("$f", Json.str "inf")]
  | .ninf => Json.mkObj [("$f", Json.str "-inf")]
  | .fin n m e r => Json.mkObj [("$f", Json.arr #[Json.bool n, Json.str (toString m), intJ e, strJ r])]

def isFloatObj (j : Json) : Option Json :=
  match j.getObjVal? "$f" with
  | .ok v => some v
  | .error _ => none

def litOf (j : Json) : D Lit := do
  match j with
  | Json.null => pure .none
  | Json.bool b => pure (.bool b)
  | Json.str s => pure (.str s.toList)
  | Json.num _ => do let i ← intOf j; pure (.int i)
  | _ =>
    match isFloatObj j with
    | some v => do let f ← floatOf v; pure (.float f)
    | none => throw "bad literal"

def litJ : Lit → Json
  | .none => Json.null
  | .bool b => Json.bool b
  | .int i => intJ i
  | .float f => floatJ f
  | .str s => strJ s

partial def jvalOf (j : Json) : D JVal := do
  match j with
  | Json.null => pure .null
  | Json.bool b => pure (.bool b)
  | Json.str s => pure (.str s.toList)
  | Json.num _ => do let i ← intOf j; pure (.int i)
  | Json.arr a => do
      let xs ← a.toList.mapM jvalOf
      pure (.list xs)
  | _ =>
    match isFloatObj j with
    | some v => do let f ← floatOf v; pure (.float f)
    | none =>
      match j.getObjVal? "$d" with
      | .ok v => do
          let ps ← arrOf v
          let kvs ← ps.mapM (fun p => do
            let kv ← arrOf p
            match kv with
            | [k, x] => do
                let ks ← strOf k
                let xv ← jvalOf x
                pure (ks, xv)
            | _ => throw "bad dict pair")
          pure (.dict kvs)
      | .error _ => throw "bad jval object"

def numOf (j : Json) : D Num := do
  match isFloatObj j with
  | some v => do let f ← floatOf v; pure (.float f)
  | none => do let i ← intOf j; pure (.int i)

def numJ : Num → Json
  | .int i => intJ i
  | .float f => floatJ f

def leafKindOf (s : String) : D LeafKind :=
  match s with
  | "decimal" => pure .decimal | "path" => pure .path | "uuid" => pure .uuid
  | "date" => pure .date | "time" => pure .time | "datetime" => pure .datetime
  | x => throw s!"bad leaf kind {x}"

def leafKindS : LeafKind → String
  | .decimal => "decimal" | .path => "path" | .uuid => "uuid"
  | .date => "date" | .time => "time" | .datetime => "datetime"

def seqKindOf (s : String) : D SeqKind :=
  match s with
  | "list" => pure .list | "set" => pure .set | "frozenset" => pure .frozenset | "deque" => pure .deque
  | x => throw s!"bad seq kind {x}"

def seqKindS : SeqKind → String
  | .list => "list" | .set => "set" | .frozenset => "frozenset" | .deque => "deque"

def mapKindOf (s : String) : D MapKind :=
  match s with
  | "dict" => pure .dict | "defaultdict" => pure .defaultdict | "ordereddict" => pure .ordereddict
  | x => throw s!"bad map kind {x}"

def mapKindS : MapKind → String
  | .dict => "dict" | .defaultdict => "defaultdict" | .ordereddict => "ordereddict"

def lcOf (s : String) : D LetterCaseOpt :=
  match s with
  | "CAMEL" => pure .camel | "PASCAL" => pure .pascal | "LISP" => pure .lisp
  | "SNAKE" => pure .snake | "NONE" => pure .none
  | x => throw s!"bad letter case {x}"

def condOpOf (s : String) : D CondOp :=
  match s with
  | "==" => pure .eq | "!=" => pure .ne | "<" => pure .lt | "<=" => pure .le | ">" => pure .gt | ">=" => pure .ge
  | "is" => pure .is_ | "is not" => pure .isNot | "+" => pure .truthy | "!" => pure .falsy
  | x => throw s!"bad cond op {x}"

def condOf (j : Json) : D Cond := do
  let op ← (← j.getObjVal? "op").getStr?
  let o ← condOpOf op
  let v ← litOf ((j.getObjVal? "val").toOption.getD Json.null)
  pure { op := o, val := v }

def optField {α} (j : Json) (k : String) (f : Json → D α) : D (Option α) :=
  match j.getObjVal? k with
  | .ok Json.null => pure none
  | .ok v => do let x ← f v; pure (some x)
  | .error _ => pure none

def metaOf (j : Json) : D MetaCfg := do
  let ktl ← optField j "key_transform_with_load" (fun v => do lcOf (← v.getStr?))
  let ktd ← optField j "key_transform_with_dump" (fun v => do lcOf (← v.getStr?))
  let mts ← optField j "marshal_date_time_as" (fun v => do
    let s ← v.getStr?
    pure (s == "TIMESTAMP"))
  let sd ← optField j "skip_defaults" (fun v => v.getBool?)
  let si ← optField j "skip_if" condOf
  let sdi ← optField j "skip_defaults_if" condOf
  let rou ← optField j "raise_on_unknown_json_key" (fun v => v.getBool?)
  let tk ← optField j "tag_key" strOf
  let aat ← optField j "auto_assign_tags" (fun v => v.getBool?)
  let rc ← optField j "recursive_classes" (fun v => v.getBool?)
  let v1 ← optField j "v1" (fun v => v.getBool?)
  let v1kc ← optField j "v1_key_case" (fun v => do
    match (← v.getStr?) with
    | "CAMEL" | "C" => pure KeyCaseOpt.camel | "PASCAL" | "P" => pure KeyCaseOpt.pascal
    | "KEBAB" | "K" => pure KeyCaseOpt.kebab | "SNAKE" | "S" => pure KeyCaseOpt.snake
    | "AUTO" | "A" => pure KeyCaseOpt.auto
    | x => throw s!"bad key case {x}")
  let v1ou ← optField j "v1_on_unknown_key" (fun v => do
    match (← v.getStr?) with
    | "IGNORE" => pure KeyAct.ignore | "RAISE" => pure KeyAct.raise | "WARN" => pure KeyAct.warn
    | x => throw s!"bad key action {x}")
  let v1u ← optField j "v1_unsafe_parse_dataclass_in_union" (fun v => v.getBool?)
  let tag ← optField j "tag" strOf
  let recur ← optField j "recursive" (fun v => v.getBool?)
  pure { keyTransformLoad := ktl, keyTransformDump := ktd, marshalTimestamp := mts, skipDefaults := sd,
         skipIf := si, skipDefaultsIf := sdi, raiseOnUnknown := rou, tagKey := tk, autoAssignTags := aat,
         recursiveClasses := rc, tag := tag, recursive := recur,
         v1 := v1, v1KeyCase := v1kc, v1OnUnknown := v1ou, v1Unsafe := v1u }

def dfltOf (j : Json) : D Dflt := do
  let a ← arrOf j
  match a with
  | [Json.str "lit", l] => do let x ← litOf l; pure (.lit x)
  | [Json.str "list"] => pure .emptyList
  | [Json.str "dict"] => pure .emptyDict
  | [Json.str "set"] => pure .emptySet
  | [Json.str "tuple"] => pure .emptyTuple
  | _ => throw "bad default"

def fieldInfoOf (j : Json) : D FieldInfo := do
  let name ← strOf (← j.getObjVal? "name")
  let dflt ← optField j "dflt" dfltOf
  let lk ← match j.getObjVal? "load_keys" with
    | .ok v => do let a ← arrOf v; a.mapM strOf
    | .error _ => pure []
  let si ← optField j "skip_if" condOf
  let post ← optField j "post" litOf
  pure { name := name, postInit := post, dflt := dflt, isFactory := getBoolD j "factory" false, init := getBoolD j "init" true,
         loadKeys := lk, dumpAll := getBoolD j "dump_all" false, dumpSkip := getBoolD j "dump_skip" false,
         skipIf := si, isCatchAll := getBoolD j "catch_all" false }

def classInfoOf (j : Json) : D ClassInfo := do
  let name ← strOf (← j.getObjVal? "name")
  let fs ← arrOf (← j.getObjVal? "fields")
  let fields ← fs.mapM fieldInfoOf
  let m ← optField j "meta" metaOf
  pure { name := name, fields := fields, cmeta := m, isWizard := getBoolD j "wizard" true }

partial def tyOf (j : Json) : D Ty := do
  let k ← (← j.getObjVal? "k").getStr?
  let args : D (List Json) := match j.getObjVal? "a" with
    | .ok v => arrOf v
    | .error _ => pure []
  match k with
  | "any" => pure .any | "none" => pure .none | "bool" => pure .bool | "int" => pure .int
  | "float" => pure .float | "str" => pure .str | "bytes" => pure .bytes | "bytearray" => pure .bytearray
  | "timedelta" => pure .timedelta
  | "decimal" | "path" | "uuid" | "date" | "time" | "datetime" => do pure (.leaf (← leafKindOf k))
  | "enum" => do
      let name ← strOf (← j.getObjVal? "name")
      let ms ← arrOf (← j.getObjVal? "members")
      let members ← ms.mapM (fun m => do
        match (← arrOf m) with
        | [n, v] => do pure ((← strOf n), (← litOf v))
        | _ => throw "bad enum member")
      pure (.enum name members)
  | "literal" => do
      let vs ← arrOf (← j.getObjVal? "vs")
      pure (.literal (← vs.mapM litOf))
  | "optional" => do
      match (← args) with
      | [t] => pure (.optional (← tyOf t))
      | _ => throw "optional arity"
  | "union" => do pure (.union (← (← args).mapM tyOf))
  | "list" | "set" | "frozenset" | "deque" => do
      match (← args) with
      | [t] => pure (.seq (← seqKindOf k) (← tyOf t))
      | _ => throw "seq arity"
  | "tuple" => do pure (.tuple (← (← args).mapM tyOf))
  | "vtuple" => do
      match (← args) with
      | [t] => pure (.vtuple (← tyOf t))
      | _ => throw "vtuple arity"
  | "dict" | "defaultdict" | "ordereddict" => do
      match (← args) with
      | [a, b] => pure (.map (← mapKindOf k) (← tyOf a) (← tyOf b))
      | _ => throw "map arity"
  | "namedtuple" => do
      let name ← strOf (← j.getObjVal? "name")
      let fs ← arrOf (← j.getObjVal? "fields")
      let fields ← fs.mapM (fun f => do
        match (← arrOf f) with
        | [n, t, d] => do
            let dv ← match d with | Json.null => pure none | x => do pure (some (← dfltOf x))
            pure ((← strOf n), (← tyOf t), dv)
        | _ => throw "bad namedtuple field")
      pure (.ntuple name fields)
  | "typeddict" => do
      let name ← strOf (← j.getObjVal? "name")
      let fs ← arrOf (← j.getObjVal? "fields")
      let fields ← fs.mapM (fun f => do
        match (← arrOf f) with
        | [n, t, r] => do pure ((← strOf n), (← tyOf t), (← r.getBool?))
        | _ => throw "bad typeddict field")
      pure (.typeddict name fields)
  | "cls" => do
      let ci ← classInfoOf (← j.getObjVal? "info")
      let fs ← arrOf (← j.getObjVal? "ftys")
      let ftys ← fs.mapM (fun f => do
        match (← arrOf f) with
        | [n, t] => do pure ((← strOf n), (← tyOf t))
        | _ => throw "bad field type")
      pure (.cls ci ftys)
  | x => throw s!"bad type kind {x}"

partial def pyvalOf (j : Json) : D PyVal := do
  let a ← arrOf j
  match a with
  | [Json.str "none"] => pure .none
  | [Json.str "bool", b] => do pure (.bool (← b.getBool?))
  | [Json.str "int", i] => do pure (.int (← intOf i))
  | [Json.str "float", f] => do
      match isFloatObj f with
      | some v => pure (.float (← floatOf v))
      | none => throw "bad float pyval"
  | [Json.str "str", s] => do pure (.str (← strOf s))
  | [Json.str "bytes", m, bs] => do
      let xs ← arrOf bs
      let ns ← xs.mapM (fun x => do let i ← intOf x; pure i.toNat)
      pure (.bytes (← m.getBool?) ns)
  | [Json.str "leaf", k, t] => do pure (.leaf (← leafKindOf (← k.getStr?)) false (← strOf t))
  | [Json.str "subleaf", k, t] => do pure (.leaf (← leafKindOf (← k.getStr?)) true (← strOf t))
  | [Json.str "td", us] => do pure (.timedelta (← intOf us))
  | [Json.str "enum", c, m, v] => do pure (.enum (← strOf c) (← strOf m) (← litOf v))
  | [Json.str "seq", k, xs] => do
      let ys ← (← arrOf xs).mapM pyvalOf
      pure (.seq (← seqKindOf (← k.getStr?)) ys)
  | [Json.str "tuple", xs] => do pure (.tuple (← (← arrOf xs).mapM pyvalOf))
  | [Json.str "map", k, kvs] => do
      let ps ← (← arrOf kvs).mapM (fun p => do
        match (← arrOf p) with
        | [x, y] => do pure ((← pyvalOf x), (← pyvalOf y))
        | _ => throw "bad map pair")
      pure (.map (← mapKindOf (← k.getStr?)) ps)
  | [Json.str "nt", c, names, xs] => do
      pure (.ntuple (← strOf c) (← (← arrOf names).mapM strOf) (← (← arrOf xs).mapM pyvalOf))
  | [Json.str "inst", ci, fs] => do
      let info ← classInfoOf ci
      let fields ← (← arrOf fs).mapM (fun p => do
        match (← arrOf p) with
        | [n, v] => do pure ((← strOf n), (← pyvalOf v))
        | _ => throw "bad inst field")
      pure (.inst info fields)
  | _ => throw "bad pyval"

partial def pyvalJ : PyVal → Json
  | .none => Json.arr #[Json.str "none"]
  | .bool b => Json.arr #[Json.str "bool", Json.bool b]
  | .int i => Json.arr #[Json.str "int", intJ i]
  | .float f => Json.arr #[Json.str "float", floatJ f]
  | .str s => Json.arr #[Json.str "str", strJ s]
  | .bytes m b => Json.arr #[Json.str "bytes", Json.bool m, Json.arr (b.map (fun n => intJ (Int.ofNat n))).toArray]
  | .leaf k sub t => Json.arr #[Json.str (if sub then "subleaf" else "leaf"), Json.str (leafKindS k), strJ t]
  | .timedelta us => Json.arr #[Json.str "td", intJ us]
  | .enum c m v => Json.arr #[Json.str "enum", strJ c, strJ m, litJ v]
  | .seq k xs => Json.arr #[Json.str "seq", Json.str (seqKindS k), Json.arr (xs.map pyvalJ).toArray]
  | .tuple xs => Json.arr #[Json.str "tuple", Json.arr (xs.map pyvalJ).toArray]
  | .map k kvs => Json.arr #[Json.str "map", Json.str (mapKindS k),
      Json.arr (kvs.map (fun p => Json.arr #[pyvalJ p.1, pyvalJ p.2])).toArray]
  | .ntuple c names xs => Json.arr #[Json.str "nt", strJ c, Json.arr (names.map strJ).toArray, Json.arr (xs.map pyvalJ).toArray]
  | .inst ci fs => Json.arr #[Json.str "inst", strJ ci.name,
      Json.arr (fs.map (fun p => Json.arr #[strJ p.1, pyvalJ p.2])).toArray]

partial def dvalJ : DVal → Json
  | .null => Json.null
  | .bool b => Json.bool b
  | .int i => intJ i
  | .float f => floatJ f
  | .str s => strJ s
  | .list xs => Json.arr #[Json.str "list", Json.arr (xs.map dvalJ).toArray]
  | .tuple xs => Json.arr #[Json.str "tuple", Json.arr (xs.map dvalJ).toArray]
  | .ntuple c xs => Json.arr #[Json.str "nt", strJ c, Json.arr (xs.map dvalJ).toArray]
  | .dict o kvs => Json.arr #[Json.str "dict", Json.bool o,
      Json.arr (kvs.map (fun p => Json.arr #[dvalJ p.1, dvalJ p.2])).toArray]
  | .bad t => Json.arr #[Json.str "bad", strJ t]

def optS (o : Option S) : Json := match o with | none => Json.null | some s => strJ s

def lerrJ : LErr → Json
  | .parse c f => Json.arr #[Json.str "ParseError", optS c, optS f]
  | .missingData c f n => Json.arr #[Json.str "MissingData", optS c, optS f, strJ n]
  | .missingFields c m => Json.arr #[Json.str "MissingFields", strJ c, Json.arr (m.map strJ).toArray]
  | .unknownKeys c k => Json.arr #[Json.str "UnknownKeysError", strJ c, Json.arr (k.map strJ).toArray]
  | .raw e => Json.arr #[Json.str "raw", strJ e]
  | .unsupported w => Json.arr #[Json.str "unsupported", strJ w]

def derrJ : DErr → Json
  | .condTypeError => Json.arr #[Json.str "raw", Json.str "TypeError"]
  | .condGenError w => Json.arr #[Json.str "gen", strJ w]
  | .transformError => Json.arr #[Json.str "raw", Json.str "IndexError"]
  | .stdError w => Json.arr #[Json.str "std", strJ w]

/-! ### Std tables -/

def tableS {β} (j : Json) (name : String) (dec : Json → D β) : D (List (S × β)) :=
  match j.getObjVal? name with
  | .error _ => pure []
  | .ok v => do
    let rows ← arrOf v
    rows.mapM (fun r => do
      match (← arrOf r) with
      | [k, x] => do pure ((← strOf k), (← dec x))
      | _ => throw s!"bad row in {name}")

def tableN {β} (j : Json) (name : String) (dec : Json → D β) : D (List (Num × β)) :=
  match j.getObjVal? name with
  | .error _ => pure []
  | .ok v => do
    let rows ← arrOf v
    rows.mapM (fun r => do
      match (← arrOf r) with
      | [k, x] => do pure ((← numOf k), (← dec x))
      | _ => throw s!"bad row in {name}")

def optDec {β} (dec : Json → D β) (j : Json) : D (Option β) :=
  match j with
  | Json.null => pure none
  | x => do pure (some (← dec x))

def lookS {β} (t : List (S × β)) (miss : β) (k : S) : β :=
  match t.find? (fun p => p.1 == k) with
  | some p => p.2
  | none => miss

def lookN {β} (t : List (Num × β)) (miss : β) (k : Num) : β :=
  match t.find? (fun p => p.1 == k) with
  | some p => p.2
  | none => miss

def missFloat : PyFloat := .fin false 0 0 missStr

def stdOfV (variant : Bool) (j : Json) : D Std := do
  let missStr : S := if variant then "<<STDMISS2>>".toList else missStr
  let missInt : Int := if variant then 271828182845904523536028747135266249 else missInt
  let missFloat : PyFloat := if variant then .fin false 7 9 missStr else .fin true 3 (-1) missStr
  let fos ← tableS j "float_of_str" (optDec (fun x => match isFloatObj x with | some v => floatOf v | none => throw "float"))
  let foi ← tableN j "float_of_int" (optDec (fun x => match isFloatObj x with | some v => floatOf v | none => throw "float"))
  let dec ← tableS j "decimal" (optDec strOf)
  let path ← tableS j "path" strOf
  let uuid ← tableS j "uuid" (optDec strOf)
  let diso ← tableS j "date_iso" (optDec strOf)
  let tiso ← tableS j "time_iso" (optDec strOf)
  let dtiso ← tableS j "datetime_iso" (optDec strOf)
  let dts ← tableN j "date_ts" (optDec strOf)
  let dtu ← tableN j "datetime_ts_utc" (optDec strOf)
  let dtl ← tableN j "datetime_ts_local" (optDec strOf)
  let tp ← tableS j "timeparse" (optDec numOf)
  let td ← tableN j "td" (optDec intOf)
  let b64d ← tableS j "b64d" (optDec (fun x => do let a ← arrOf x; a.mapM (fun y => do pure (← intOf y).toNat)))
  let b64e ← match j.getObjVal? "b64e" with
    | .error _ => pure []
    | .ok v => do
      let rows ← arrOf v
      rows.mapM (fun r => do
        match (← arrOf r) with
        | [k, x] => do
            let ks ← (← arrOf k).mapM (fun y => do pure (← intOf y).toNat)
            pure (ks, (← strOf x))
        | _ => throw "bad b64e row")
  let dtt ← tableS j "dt_timestamp" (optDec intOf)
  let dat ← tableS j "date_timestamp" (optDec intOf)
  pure {
    floatOfStr := lookS fos (some missFloat)
    floatOfInt := fun i => lookN foi (some missFloat) (.int i)
    decimalOfStr := lookS dec (some missStr)
    pathOfStr := lookS path missStr
    uuidOfStr := lookS uuid (some missStr)
    dateFromIso := lookS diso (some missStr)
    timeFromIso := lookS tiso (some missStr)
    datetimeFromIso := lookS dtiso (some missStr)
    dateFromTs := lookN dts (some missStr)
    datetimeFromTsUtc := lookN dtu (some missStr)
    datetimeFromTsLocal := lookN dtl (some missStr)
    timeparse := lookS tp (some (.int missInt))
    tdOfSeconds := lookN td (some missInt)
    b64encode := fun b => match b64e.find? (fun p => p.1 == b) with | some p => p.2 | none => missStr
    b64decode := lookS b64d (some (if variant then [1] else []))
    datetimeTimestamp := lookS dtt (some missInt)
    dateTimestamp := lookS dat (some missInt)
  }

end DW.Driver

namespace DW.Driver
def stdOf (j : Lean.Json) : D Std := stdOfV false j
end DW.Driver
