/- Driver glue for op "c08": class model + document -> load outcome / dump document (DW/Model/Alias.lean). -/
import DW.Driver.Basic
import DW.Driver.Strings
import DW.Model.Alias

namespace DW.Driver
open Lean DW.Str DW.ObjPath DW.Alias

def keyOfJ (j : Json) : Except String Key :=
  match j.getObjVal? "s" with
  | .ok v => do let s ← v.getStr?; pure (.str s.toList)
  | .error _ =>
    match j.getObjVal? "i" with
    | .ok v => do let i ← getInt? v; pure (.int i)
    | .error _ =>
      match j.getObjVal? "b" with
      | .ok (Json.bool b) => pure (.bool b)
      | _ =>
        match j.getObjVal? "f" with
        | .ok v => do let s ← v.getStr?; pure (.float s.toList)
        | .error _ => throw "bad key"

def keyJ : Key → Json
  | .str s => Json.mkObj [("s", strJ s)]
  | .int i => Json.mkObj [("i", intJ i)]
  | .bool b => Json.mkObj [("b", Json.bool b)]
  | .float t => Json.mkObj [("f", strJ t)]

partial def docOfJ (j : Json) : Except String Doc :=
  match j.getObjVal? "v" with
  | .ok v => do let i ← getInt? v; pure (.val i)
  | .error _ =>
    match j.getObjVal? "o" with
    | .ok v => do
      let arr ← v.getArr?
      let kvs ← arr.toList.mapM (fun e => do
        let pr ← e.getArr?
        match pr.toList with
        | [k, d] => do
          let k' ← keyOfJ k
          let d' ← docOfJ d
          pure (k', d')
        | _ => throw "bad entry")
      pure (.obj kvs)
    | .error _ =>
      match j.getObjVal? "a" with
      | .ok v => do
        let arr ← v.getArr?
        let xs ← arr.toList.mapM docOfJ
        pure (.arr xs)
      | .error _ => pure .null

partial def docJ : Doc → Json
  | .val n => Json.mkObj [("v", intJ n)]
  | .null => Json.mkObj [("n", intJ 0)]
  | .obj kvs => Json.mkObj [("o", Json.arr (kvs.map (fun kv => Json.arr #[keyJ kv.1, docJ kv.2])).toArray)]
  | .arr xs => Json.mkObj [("a", Json.arr (xs.map docJ).toArray)]

def strList (j : Json) : Except String (List S) := do
  let arr ← j.getArr?
  arr.toList.mapM (fun e => do let s ← e.getStr?; pure s.toList)

/-- a path given as text (split by the model of `split_object_path`) or as a component list -/
def pathOfJ (j : Json) : Except String (List Key) :=
  match j.getObjVal? "text" with
  | .ok v => do
    let s ← v.getStr?
    pure ((splitObjectPath s.toList).map Key.ofComp)
  | .error _ => do
    let arr ← getArr j "comps"
    arr.toList.mapM keyOfJ

def formOf (s : S) : Except String Form :=
  match String.ofList s with
  | "plain" => pure .plain | "json_field" => pure .jsonField | "ann_key" => pure .annKey | "meta_key" => pure .metaKey
  | "path_field" => pure .pathField | "ann_path" => pure .annPath | "alias_all" => pure .aliasAll
  | "alias_ld" => pure .aliasLd | "alias_path" => pure .aliasPath
  | x => throw s!"bad form {x}"

def optOf (j : Json) (k : String) : Option Json :=
  match j.getObjVal? k with
  | .ok Json.null => none
  | .ok v => some v
  | .error _ => none

def fieldOfJ (j : Json) : Except String FieldSpec := do
  let name ← getStr j "name"
  let form ← formOf (← getStr j "form")
  let dflt ← match optOf j "dflt" with
    | some v => do let i ← getInt? v; pure (some i)
    | none => pure none
  let keys ← match optOf j "keys" with
    | some v => strList v
    | none => pure []
  let path ← match optOf j "path" with
    | some v => pathOfJ v
    | none => pure []
  let load ← match optOf j "load" with
    | some v => do let l ← strList v; pure (some l)
    | none => pure none
  let dumpa ← match optOf j "dumpa" with
    | some v => do let s ← v.getStr?; pure (some s.toList)
    | none => pure none
  let paths ← match optOf j "paths" with
    | some v => do
      let arr ← v.getArr?
      arr.toList.mapM pathOfJ
    | none => pure []
  let mode := match String.ofList (getStrD j "mode" "all") with
    | "load" => PathMode.load | "dump" => PathMode.dump | _ => PathMode.all
  pure { name, dflt, form, keys, path, load, dumpa, paths, mode,
         all := getBoolD j "all" false, dump := getBoolD j "dump" true, skip := getBoolD j "skip" false }

def keyCaseOf (n : S) : Except String (Option LetterCase × Bool) :=
  match String.ofList n with
  | "NONE" => pure (none, false) | "AUTO" => pure (none, true)
  | "CAMEL" => pure (some .camel, false) | "PASCAL" => pure (some .pascal, false)
  | "KEBAB" => pure (some .lisp, false) | "SNAKE" => pure (some .snake, false)
  | x => throw s!"bad key case {x}"

def classOfJ (j : Json) : Except String ClassSpec := do
  let engine ← getStr j "engine"
  let fs ← getArr j "fields"
  let fields ← fs.toList.mapM fieldOfJ
  let m ← j.getObjVal? "meta"
  let dumpCase ← letterCaseOf (getStrD m "dump_case" "CAMEL")
  if String.ofList engine = "v1" then
    let (kc, auto) ← keyCaseOf (getStrD m "key_case" "NONE")
    let ents ← getArr m "meta_aliases"
    let metaAliases ← ents.toList.mapM (fun e => do
      let pr ← e.getArr?
      match pr.toList with
      | [n, ks] => do
        let n' ← n.getStr?
        let ks' ← strList ks
        pure (n'.toList, ks')
      | _ => throw "bad meta alias")
    pure { v1 := true, fields, dumpCase, keyCase := kc, auto, metaAliases,
           metaLoad := getBoolD m "meta_load" false, metaDump := getBoolD m "meta_dump" false }
  else
    let loadCase ← letterCaseOf (getStrD m "load_case" "SNAKE")
    let ents ← getArr m "meta_keys"
    let metaKeys ← ents.toList.mapM (fun e => do
      let pr ← e.getArr?
      match pr.toList with
      | [a, n] => do
        let a' ← a.getStr?
        let n' ← n.getStr?
        pure (a'.toList, n'.toList)
      | _ => throw "bad meta key")
    pure { v1 := false, fields, loadCase, dumpCase, metaKeys, metaAll := getBoolD m "meta_all" false }

def handleC08 (j : Json) : Except String Json := do
  let action ← getStr j "action"
  let c ← classOfJ (← j.getObjVal? "cls")
  let dumpFirst := getBoolD j "dump_first" false
  match String.ofList action with
  | "load" =>
    let doc ← docOfJ (← j.getObjVal? "doc")
    match load c dumpFirst doc with
    | none => pure (Json.mkObj [("err", intJ 1)])
    | some kv => pure (Json.mkObj [("ok", Json.arr (kv.map (fun e => Json.arr #[strJ e.1, docJ (.val e.2)])).toArray)])
  | "dump" =>
    let vs ← getArr j "vals"
    let vals ← vs.toList.mapM (fun e => do
      let pr ← e.getArr?
      match pr.toList with
      | [n, v] => do
        let n' ← n.getStr?
        let v' ← getInt? v
        pure (n'.toList, v')
      | _ => throw "bad val")
    -- the dump function is generated at the first dump: before the first load iff `dump_first`
    match dumpDoc c dumpFirst vals with
    | none => pure (Json.mkObj [("err", intJ 1)])
    | some d => pure (Json.mkObj [("ok", docJ (.obj d))])
  | x => throw s!"unknown c08 action {x}"

end DW.Driver
