/- Driver glue for op "c18": decode a history, fold `DW.Env.step`, report per operation the outcome, the
reference expectation (`refResolve`), whether they meet, the library state and the process environment. -/
import DW.Driver.Basic
import DW.Model.C18

namespace DW.Driver
open Lean DW.Env

namespace C18

def strOf (j : Json) : Except String S := do
  let s ← j.getStr?
  pure s.toList

def strList (j : Json) : Except String (List S) := do
  let a ← j.getArr?
  a.toList.mapM strOf

def dictOf (j : Json) : Except String Dict := do
  let a ← j.getArr?
  a.toList.mapM (fun p => do
    let kv ← p.getArr?
    match kv.toList with
    | [k, v] => pure ((← strOf k), (← strOf v))
    | _ => throw "pair expected")

def dictsOf (j : Json) : Except String (List Dict) := do
  let a ← j.getArr?
  a.toList.mapM dictOf

def optField (j : Json) (k : String) : Option Json :=
  match j.getObjVal? k with
  | .ok Json.null => none
  | .ok v => some v
  | .error _ => none

def prioOf (s : S) : Except String Priority :=
  match String.ofList s with
  | "SCREAMING_SNAKE" => pure .screamingSnake
  | "SNAKE" => pure .snake
  | "CAMEL" => pure .camel
  | "PASCAL" => pure .pascal
  | x => throw s!"bad priority {x}"

def fieldOf (j : Json) : Except String FieldDef := do
  let name ← getStr j "name"
  let ex ← match optField j "explicit" with
    | some e => strList e
    | none => pure []
  pure { name := name, explicit := ex, hasDefault := getBoolD j "dflt" false }

def classOf (j : Json) : Except String ClassDef := do
  let fs ← getArr j "fields"
  let fields ← fs.toList.mapM fieldOf
  let prio ← prioOf (getStrD j "prio" "SCREAMING_SNAKE")
  let dot ← match optField j "dotenv" with
    | some d => dictsOf d
    | none => pure []
  let sec ← match optField j "secrets" with
    | some d => dictsOf d
    | none => pure []
  pure { fields := fields, pfx := getStrD j "prefix" "", prio := prio, metaDotenv := dot, metaSecrets := sec }

def quirksOf (j : Json) : Quirks :=
  match j.getObjVal? "quirks" with
  | .ok qj => { staleCleaned := getBoolD qj "stale" true, multiExplicitRaw := getBoolD qj "multi" true,
                explicitNoFallback := getBoolD qj "nofallback" true }
  | .error _ => Quirks.shipped

def rankOf (j : Json) : Except String (List S) :=
  match optField j "rank" with
  | some r => strList r
  | none => pure []

def opOf (classes : Array ClassDef) (j : Json) : Except String Op := do
  let t ← getStr j "t"
  match String.ofList t with
  | "set" => pure (.setOs (← getStr j "k") (← getStr j "v"))
  | "del" => pure (.delOs (← getStr j "k"))
  | "reload" => pure (.reload (← rankOf j))
  | "inst" =>
    let ci ← (← j.getObjVal? "cls").getNat?
    let c ← match classes[ci]? with
      | some c => pure c
      | none => throw "class index"
    let kw ← match optField j "kw" with
      | some d => dictOf d
      | none => pure []
    let pfx ← match j.getObjVal? "prefix" with
      | .ok (Json.str s) => pure (some s.toList)
      | _ => pure none
    let ef ← match optField j "envfile" with
      | some d => do pure (some (← dictsOf d))
      | none => pure none
    let sd ← match optField j "secretsdir" with
      | some d => do pure (some (← dictsOf d))
      | none => pure none
    pure (.inst c { kw := kw, reload := getBoolD j "reload" false, pfx := pfx, envFile := ef, secrets := sd,
                    rank := (← rankOf j) })
  | x => throw s!"bad op {x}"

def dictJ (d : Dict) : Json := Json.arr (d.map (fun p => Json.arr #[strJ p.1, strJ p.2])).toArray
def listJ (l : List S) : Json := Json.arr (l.map strJ).toArray
def optJ {α} (f : α → Json) : Option α → Json
  | none => Json.null
  | some a => f a

def resJ : FieldRes → Json
  | .val v => Json.arr #[Json.str "val", strJ v]
  | .dflt => Json.arr #[Json.str "dflt"]
  | .missing => Json.arr #[Json.str "missing"]
  | .keyError => Json.arr #[Json.str "keyerror"]

def outcomeJ : Outcome → Json
  | .ok rs => Json.mkObj [("ok", Json.arr (rs.map (fun p => Json.arr #[strJ p.1, resJ p.2])).toArray)]
  | .missing ns => Json.mkObj [("missing", listJ ns)]
  | .raised => Json.mkObj [("raised", Json.str "KeyError")]

def expectJ : Expect → Json
  | .oneOf vs => Json.arr #[Json.str "oneof", listJ vs]
  | .dflt => Json.arr #[Json.str "dflt"]
  | .missing => Json.arr #[Json.str "missing"]

def stateJ (st : EnvSt) : Json :=
  Json.mkObj [("environ", optJ dictJ st.environ), ("var_names", optJ listJ st.varNames),
              ("cleaned", optJ dictJ st.cleaned)]

def runOps (q : Quirks) : World → List Op → List Json → List Json
  | _, [], acc => acc.reverse
  | w, op :: r, acc =>
    let x := step q w op
    let o : Json := match op, x.2 with
      | .inst c a, some out =>
        let exp := refResolve w.os c a
        Json.mkObj [("out", outcomeJ out),
                    ("ref", Json.arr (exp.map (fun p => Json.arr #[strJ p.1, expectJ p.2])).toArray),
                    ("meets", Json.bool (out.meets exp)),
                    ("state", stateJ x.1.env), ("os", dictJ x.1.os)]
      | _, _ => Json.mkObj [("state", stateJ x.1.env), ("os", dictJ x.1.os)]
    runOps q x.1 r (o :: acc)

end C18

def handleC18 (j : Json) : Except String Json := do
  let q := C18.quirksOf j
  let os ← C18.dictOf (← j.getObjVal? "os")
  let cs ← getArr j "classes"
  let classes ← cs.toList.mapM C18.classOf
  let ops ← getArr j "ops"
  let ops ← ops.toList.mapM (C18.opOf classes.toArray)
  pure (Json.mkObj [("outs", Json.arr (C18.runOps q { os := os } ops []).toArray)])

end DW.Driver
