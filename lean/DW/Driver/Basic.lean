/- JSON helpers shared by the driver handlers (part of the trusted glue, not of the model). -/
import Lean.Data.Json
import DW.Model.Strings

namespace DW.Driver
open Lean

abbrev S := List Char

def strJ (s : S) : Json := Json.str (String.ofList s)
def optStrJ : Option S → Json
  | none => Json.null
  | some s => strJ s

def getStr (j : Json) (k : String) : Except String S := do
  let v ← j.getObjVal? k
  let s ← v.getStr?
  pure s.toList

def getStrD (j : Json) (k : String) (d : String) : S :=
  match j.getObjVal? k with
  | .ok v => match v.getStr? with | .ok s => s.toList | .error _ => d.toList
  | .error _ => d.toList

def getArr (j : Json) (k : String) : Except String (Array Json) := do
  let v ← j.getObjVal? k
  v.getArr?

def getBoolD (j : Json) (k : String) (d : Bool) : Bool :=
  match j.getObjVal? k with
  | .ok (Json.bool b) => b
  | _ => d

def intJ (i : Int) : Json := Json.num (JsonNumber.fromInt i)

def getInt? (j : Json) : Except String Int :=
  match j with
  | Json.num n => if n.exponent = 0 then pure n.mantissa else throw "not an int"
  | _ => throw "not a number"

end DW.Driver
