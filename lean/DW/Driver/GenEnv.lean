import DW.Driver.GenLoad
import DW.Model.GenEnv

/- driver glue for the EnvWizard `__init__` / `dict` generator model (op "genenv") -/
namespace DW.Driver
open Lean DW.GenEnv
open DW.GenLoad (DefaultKind)

private def eStrs (j : Json) : Except String (List DW.Names.S) := do
  (← lArr j).mapM (fun v => match v with | Json.str s => pure s.toList | _ => throw "bad name")

private def eVar (j : Json) : Except String EVar :=
  match j with
  | Json.null => pure .none
  | Json.str s => pure (.one s.toList)
  | _ => do
    let k ← getStr j "kind"
    let ns ← eStrs (← j.getObjVal? "names")
    match String.ofList k with
    | "tuple" => pure (.tuple ns)
    | "list" => pure (.list ns)
    | x => throw s!"bad var kind {x}"

private def eField (j : Json) : Except String EField := do
  let d ← getStr j "dflt"
  let dk : DefaultKind ← match String.ofList d with
    | "none" => pure DefaultKind.none | "value" => pure DefaultKind.value | "factory" => pure DefaultKind.factory
    | x => throw s!"bad dflt {x}"
  pure { name := (← getStr j "name"), var := (← eVar ((j.getObjVal? "var").toOption.getD Json.null)), dflt := dk }

def eInOf (j : Json) : Except String EIn := do
  let pre ← match (j.getObjVal? "envPrefix").toOption.getD Json.null with
    | Json.str s => pure (some s.toList)
    | _ => pure none
  pure { envFile := getBoolD j "envFile" false, secretsDir := getBoolD j "secretsDir" false, envPrefix := pre,
         fields := (← (← lArr ((j.getObjVal? "fields").toOption.getD (Json.arr #[]))).mapM eField) }

/-- {"op":"genenv","nonprintable":[..],"ein":{…}} ->
    {"code","args","dict","locals","globals","wellScoped","wellScopedPy","defsBound","params","stmts"} -/
def handleGenEnv (j : Json) : Except String Json := do
  let np ← (← lArr ((j.getObjVal? "nonprintable").toOption.getD (Json.arr #[]))).mapM (fun v => do
    let i ← getInt? v
    pure i.toNat)
  let printable : Char → Bool := fun c => !np.contains c.toNat
  let g ← eInOf (← j.getObjVal? "ein")
  pure (Json.mkObj [("code", strJ (genCode printable g)), ("args", strsJ' (genArgs printable g)), ("dict", strJ (dictCode printable g)),
    ("locals", strsJ' (genLocals g)), ("globals", strsJ' (genGlobals g)), ("params", strsJ' (params g)),
    ("wellScoped", Json.bool (wellScoped printable g)), ("wellScopedPy", Json.bool (wellScopedPy printable g)),
    ("defsBound", Json.bool (defsBound g)), ("stmts", Json.arr (stmtsJ (genBody printable g)).toArray)])

end DW.Driver
