/- Driver glue for the EnvWizard part of C04 (trusted, not verified).

   {"op":"c04","fn":"load","ty":<type>,"val":<jval>,"std":{.., "json_loads":[[<string>, null | [<jval>]], ..]}}
        -> {"ok": <pyval>} | {"err": <lerr>} | {"stdmiss": true}
   {"op":"c04","fn":"as_list"|"as_dict","val":<jval>,"std":{"json_loads":[..]}}
        -> {"ok": <pyval of the returned JSON value>} | {"err": <lerr>} | {"stdmiss": true}
   {"op":"c04","fn":"split","sep":<1 char>,"s":<string>}       -> [<piece>, ..]
   {"op":"c04","fn":"numeric","s":<string>}                     -> bool   (`s.replace('.', '', 1).isdigit()`)

   `json.loads` is table-backed like the other stdlib primitives; a table miss is detected with the same
   two-sentinel trick as `withStd`. -/
import DW.Driver.Core
import DW.Model.EnvLoad

namespace DW.Driver
open Lean DW

def jsonLoadsOfReqV (variant : Bool) (j : Json) : D (S → Option JVal) := do
  let miss : JVal := .str (if variant then "<<STDMISS2>>".toList else missStr)
  let tbl ← match j.getObjVal? "std" with
    | .ok v => tableS v "json_loads" (optDec (fun x => do
        match (← arrOf x) with
        | [y] => jvalOf y
        | _ => throw "bad json_loads row"))
    | .error _ => pure []
  pure (lookS tbl (some miss))

/-- like `withStd`, for handlers that also need the `json.loads` table -/
def withStdE (j : Json) (f : Std → (S → Option JVal) → D Json) : D Json := do
  let s1 ← stdOfReqV false j
  let s2 ← stdOfReqV true j
  let j1 ← jsonLoadsOfReqV false j
  let j2 ← jsonLoadsOfReqV true j
  let r1 ← f s1 j1
  let r2 ← f s2 j2
  if r1.compress == r2.compress then pure r1 else pure (Json.mkObj [("stdmiss", Json.bool true)])

def lresJ : LRes → Json
  | .ok v => Json.mkObj [("ok", pyvalJ v)]
  | .error e => Json.mkObj [("err", lerrJ e)]

def handleC04 (j : Json) : D Json := do
  let fn := getStrD j "fn" "load"
  match String.ofList fn with
  | "load" => withStdE j fun std js => do
      let ty ← tyOf (← j.getObjVal? "ty")
      let v ← jvalOf (← j.getObjVal? "val")
      pure (lresJ (loadE std js none ty v))
  | "as_list" => withStdE j fun _ js => do
      let v ← jvalOf (← j.getObjVal? "val")
      pure (lresJ ((envAsList js v).map JVal.toPy))
  | "as_dict" => withStdE j fun _ js => do
      let v ← jvalOf (← j.getObjVal? "val")
      pure (lresJ ((envAsDict js v).map JVal.toPy))
  | "split" => do
      let s ← getStr j "s"
      match (← getStr j "sep") with
      | [c] => pure (Json.arr ((splitOn c s).map strJ).toArray)
      | _ => throw "sep must be one character"
  | "numeric" => do
      let s ← getStr j "s"
      pure (Json.bool (looksNumeric s))
  | x => throw s!"unknown c04 fn {x}"

end DW.Driver
