import DW.Driver.Codec

namespace DW.Driver
open Lean DW

def stdOfReq (j : Json) : D Std :=
  match j.getObjVal? "std" with
  | .ok v => stdOf v
  | .error _ => stdOf (Json.mkObj [])

/-- {"op":"dump","inst":<pyval>,"exclude":null|[..],"skip_defaults":null|bool,"std":{..}} -/
def handleDump (j : Json) : D Json := do
  let std ← stdOfReq j
  let inst ← pyvalOf (← j.getObjVal? "inst")
  let excl ← optField j "exclude" (fun v => do (← arrOf v).mapM strOf)
  let sd ← optField j "skip_defaults" (fun v => v.getBool?)
  match asdict std { exclude := excl, skipDefaults := sd } inst with
  | .ok d => pure (Json.mkObj [("ok", dvalJ d)])
  | .error e => pure (Json.mkObj [("err", derrJ e)])

/-- {"op":"load","ty":<cls type>,"doc":<jval>,"std":{..}} -/
def handleLoad (j : Json) : D Json := do
  let std ← stdOfReq j
  let ty ← tyOf (← j.getObjVal? "ty")
  let doc ← jvalOf (← j.getObjVal? "doc")
  match fromdict std ty doc with
  | .ok v => pure (Json.mkObj [("ok", pyvalJ v)])
  | .error e => pure (Json.mkObj [("err", lerrJ e)])

/-- {"op":"roundtrip","ty":..,"inst":..,"std":..}: dump, jsonify, load -/
def dvalToJ : DVal → Option JVal
  | .null => some .null
  | .bool b => some (.bool b)
  | .int i => some (.int i)
  | .float f => some (.float f)
  | .str s => some (.str s)
  | _ => none

end DW.Driver
