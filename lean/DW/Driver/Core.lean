import DW.Driver.Codec
import DW.Model.LoadV1

namespace DW.Driver
open Lean DW

def stdOfReqV (variant : Bool) (j : Json) : D Std :=
  match j.getObjVal? "std" with
  | .ok v => stdOfV variant v
  | .error _ => stdOfV variant (Json.mkObj [])

/-- run a handler under two Std instances that differ only in what a table *miss* returns; if the
results differ, a primitive outside the supplied tables influenced the outcome and the case is void. -/
def withStd (j : Json) (f : Std → D Json) : D Json := do
  let s1 ← stdOfReqV false j
  let s2 ← stdOfReqV true j
  let r1 ← f s1
  let r2 ← f s2
  if r1.compress == r2.compress then pure r1 else pure (Json.mkObj [("stdmiss", Json.bool true)])

/-- {"op":"dump","inst":<pyval>,"exclude":null|[..],"skip_defaults":null|bool,"std":{..}} -/
def handleDump (j : Json) : D Json := withStd j fun std => do
  let inst ← pyvalOf (← j.getObjVal? "inst")
  let excl ← optField j "exclude" (fun v => do (← arrOf v).mapM strOf)
  let sd ← optField j "skip_defaults" (fun v => v.getBool?)
  match asdict std { exclude := excl, skipDefaults := sd } inst with
  | .ok d => pure (Json.mkObj [("ok", dvalJ d)])
  | .error e => pure (Json.mkObj [("err", derrJ e)])

/-- {"op":"load","ty":<cls type>,"doc":<jval>,"std":{..}} -/
def handleLoad (j : Json) : D Json := withStd j fun std => do
  let ty ← tyOf (← j.getObjVal? "ty")
  let doc ← jvalOf (← j.getObjVal? "doc")
  match fromdict std ty doc with
  | .ok v => pure (Json.mkObj [("ok", pyvalJ v)])
  | .error e => pure (Json.mkObj [("err", lerrJ e)])

/-- {"op":"loadv1","ty":<cls type>,"doc":<jval>,"std":{..}} -/
def handleLoadV1 (j : Json) : D Json := withStd j fun std => do
  let ty ← tyOf (← j.getObjVal? "ty")
  let doc ← jvalOf (← j.getObjVal? "doc")
  match fromdictV1 std ty doc with
  | .ok v => pure (Json.mkObj [("ok", pyvalJ v)])
  | .error e => pure (Json.mkObj [("err", lerrJ e)])

/-- {"op":"roundtrip","ty":..,"inst":..,"std":..}: dump, jsonify, load -/
def dvalToJ : DVal → Option JVal
  | .null => some .null
  | .bool b => some (.bool b)
  | .int i => some (.int i)
  | .float f => some (.float f)
  | .str s => some (.str s)
  | _ => none

end DW.Driver
