import DW.Driver.Codec
import DW.Model.Caches

namespace DW.Driver
open Lean DW DW.Caches

def metaLOf (j : Json) : D MetaL := do
  let kt ← optField j "kt" (fun v => do lcOf (← v.getStr?))
  let ts ← optField j "ts" (fun v => v.getBool?)
  let r ← optField j "recursive" (fun v => v.getBool?)
  pure { kt := kt, ts := ts, recursive := r }

def natOf (j : Json) : D Nat := do
  let i ← intOf j
  pure i.toNat

def lcS : LetterCaseOpt → String
  | .camel => "CAMEL" | .pascal => "PASCAL" | .lisp => "LISP" | .snake => "SNAKE" | .none => "NONE"

/-- {"op":"caches","defs":[{"id":n,"own":{..}|null,"nested":[ids]}],"ops":[["define",id]|["dump",id]]} -/
def handleCaches (j : Json) : D Json := do
  let ds ← (← arrOf (← j.getObjVal? "defs")).mapM (fun d => do
    let id ← natOf (← d.getObjVal? "id")
    let own ← optField d "own" metaLOf
    let nested ← (← arrOf (← d.getObjVal? "nested")).mapM natOf
    pure ({ id := id, own := own, nested := nested } : ClsDef))
  let ops ← (← arrOf (← j.getObjVal? "ops")).mapM (fun o => do
    match (← arrOf o) with
    | [Json.str "define", c] => do pure (Op.define (← natOf c))
    | [Json.str "dump", c] => do pure (Op.dump (← natOf c))
    | _ => throw "bad op")
  let (_, outs) := run ds St.init ops
  let occJ := fun (o : Occ) => Json.arr #[intJ (Int.ofNat o.1), Json.str (lcS o.2.1), Json.bool o.2.2]
  pure (Json.mkObj [("outs", Json.arr (outs.map (fun os => Json.arr (os.map occJ).toArray)).toArray)])

end DW.Driver
