/- Driver glue for op "c16": decode a class body, run the property_wizard model, encode what the harness observes.
   Trusted glue (not verified).

   request : {"op":"c16","quirks":{"underPlainKeepsFactory":bool},"members":[M..],"probe":[name..],
              "runs":[{"args":[[name,V]..],"assign":[[name,V]..]}..]}
             or {"op":"c16","fn":"zero","ty":T}   (the `T()` table, for the stdlib law check)
   M : {"k":"ann","n":..,"t":T} | {"k":"annAssign","n":..,"t":T,"r":R} | {"k":"assign","n":..,"r":R}
     | {"k":"prop","n":..,"settable":bool} | {"k":"method","n":..}
   R : {"lit":L} | {"field":F,"init":bool}          F : {"default":L?,"factory":FA?}     FA : {"atom":a} | {"lam":k}
   L : null | bool | int | string | {"sh":k}
   T : {"k":"atom","a":a} | {"k":"none"} | {"k":"any"} | {"k":"bare","a":a,"inst":b} | {"k":"generic","a":a,"inst":b}
     | {"k":"union","args":[T..]} | {"k":"literal","vs":[L..]} | {"k":"annotated","t":T,"extras":[{"field":F}|"other"..]}
     | {"k":"fwd","t":T|null} | {"k":"fwdArg"}
   V : L | "prop"
   response: {"anns":[name..],"cls":"ok"|"TypeError"|"ValueError","params":[[name,kind]..],"fields":[name..],
              "attrs":[[name,descr]..],"runs":[..]}                                                                  -/
import DW.Driver.Basic
import DW.Model.C16

namespace DW.Driver.C16
open Lean DW.Driver DW.C16

abbrev D := Except String

def atomOf (s : String) : D Atom :=
  match s with
  | "int" => pure .int | "str" => pure .str | "float" => pure .float | "bool" => pure .bool
  | "bytes" => pure .bytes | "tuple" => pure .tuple | "frozenset" => pure .frozenset
  | "list" => pure .list | "dict" => pure .dict | "set" => pure .set
  | "defaultdict" => pure .defaultdict | "ordereddict" => pure .ordereddict | "counter" => pure .counter
  | "userList" => pure .userList | "deque" => pure .deque | "bytearray" => pure .bytearray
  | "userObj" => pure .userObj | "datetime" => pure .datetime | "userReq" => pure .userReq
  | "abcSeq" => pure .abcSeq
  | x => throw s!"bad atom {x}"

def atomName : Atom → String
  | .int => "int" | .str => "str" | .float => "float" | .bool => "bool" | .bytes => "bytes" | .tuple => "tuple"
  | .frozenset => "frozenset" | .list => "list" | .dict => "dict" | .set => "set" | .defaultdict => "defaultdict"
  | .ordereddict => "ordereddict" | .counter => "counter" | .userList => "userList" | .deque => "deque"
  | .bytearray => "bytearray" | .userObj => "userObj" | .datetime => "datetime" | .userReq => "userReq"
  | .abcSeq => "abcSeq"

def getAtom (j : Json) (k : String) : D Atom := do
  let s ← getStr j k
  atomOf (String.ofList s)

def litOf (j : Json) : D Lit :=
  match j with
  | Json.null => pure .none
  | Json.bool b => pure (.bool b)
  | Json.str s => pure (.str s.toList)
  | Json.num _ => do let i ← getInt? j; pure (.int i)
  | _ => match j.getObjVal? "sh" with
    | .ok v => do let i ← getInt? v; pure (.shared i.toNat)
    | .error _ => throw "bad literal"

def valOf (j : Json) : D Val :=
  match j with
  | Json.str "prop" => pure .propObj
  | _ => do let l ← litOf j; pure (.lit l)

def factoryOf (j : Json) : D Factory :=
  match j.getObjVal? "atom" with
  | .ok (Json.str s) => do let a ← atomOf s; pure (.atom a)
  | _ => match j.getObjVal? "lam" with
    | .ok v => do let i ← getInt? v; pure (.lam i.toNat)
    | .error _ => throw "bad factory"

def fieldSpecOf (j : Json) : D FieldSpec := do
  let d ← match j.getObjVal? "default" with
    | .ok v => do let l ← litOf v; pure (some (Val.lit l))
    | .error _ => pure none
  let f ← match j.getObjVal? "factory" with
    | .ok v => do let f ← factoryOf v; pure (some f)
    | .error _ => pure none
  pure { dflt := d, factory := f }

def extraOf (j : Json) : D Extra :=
  match j.getObjVal? "field" with
  | .ok v => do let f ← fieldSpecOf v; pure (.field f)
  | .error _ => pure .other

partial def tyOf (j : Json) : D Ty := do
  let k ← getStr j "k"
  match String.ofList k with
  | "atom" => do let a ← getAtom j "a"; pure (.atom a)
  | "none" => pure .noneT
  | "any" => pure .any
  | "bare" => do let a ← getAtom j "a"; pure (.bareAlias a (getBoolD j "inst" true))
  | "generic" => do let a ← getAtom j "a"; pure (.generic a (getBoolD j "inst" true))
  | "union" => do
    let xs ← getArr j "args"
    let ts ← xs.toList.mapM tyOf
    pure (.union ts)
  | "literal" => do
    let xs ← getArr j "vs"
    let vs ← xs.toList.mapM litOf
    pure (.literal vs)
  | "annotated" => do
    let t ← j.getObjVal? "t"
    let t ← tyOf t
    let xs ← getArr j "extras"
    let es ← xs.toList.mapM extraOf
    pure (.annotated t es)
  | "fwd" => do
    match j.getObjVal? "t" with
    | .ok Json.null => pure (.fwd none)
    | .ok v => do let t ← tyOf v; pure (.fwd (some t))
    | .error _ => pure (.fwd none)
  | "fwdArg" => pure .fwdArg
  | x => throw s!"bad type kind {x}"

def rhsOf (j : Json) : D Rhs :=
  match j.getObjVal? "field" with
  | .ok v => do let f ← fieldSpecOf v; pure (.field f (getBoolD j "init" true))
  | .error _ => do
    let v ← j.getObjVal? "lit"
    let l ← litOf v
    pure (.lit l)

def memberOf (j : Json) : D Member := do
  let k ← getStr j "k"
  let n ← getStr j "n"
  match String.ofList k with
  | "ann" => do let t ← j.getObjVal? "t"; let t ← tyOf t; pure (.ann n t)
  | "annAssign" => do
    let t ← j.getObjVal? "t"; let t ← tyOf t
    let r ← j.getObjVal? "r"; let r ← rhsOf r
    pure (.annAssign n t r)
  | "assign" => do let r ← j.getObjVal? "r"; let r ← rhsOf r; pure (.assign n r)
  | "prop" => pure (.prop n (getBoolD j "settable" true))
  | "method" => pure (.method n)
  | x => throw s!"bad member kind {x}"

/-! encoding -/

def litJ : Lit → Json
  | .none => Json.null
  | .bool b => Json.mkObj [("b", Json.bool b)]
  | .int i => Json.mkObj [("i", intJ i)]
  | .str s => Json.mkObj [("s", strJ s)]
  | .shared k => Json.mkObj [("sh", intJ k)]

def zeroJ : Atom → Json
  | .int => Json.mkObj [("i", intJ 0)]
  | .str => Json.mkObj [("s", Json.str "")]
  | .bool => Json.mkObj [("b", Json.bool false)]
  | a => Json.mkObj [("z", Json.str (atomName a))]

/-- the value as the harness canonicalises an observed Python object (identity is reported separately) -/
def valJ : Val → Json
  | .lit l => litJ l
  | .zero a => zeroJ a
  | .product (.atom a) _ => zeroJ a
  | .product (.lam k) _ => Json.mkObj [("lam", intJ k)]
  | .propObj => Json.str "prop"
  | .other => Json.str "other"

def atomMutable : Atom → Bool
  | .list | .dict | .set | .defaultdict | .ordereddict | .counter | .userList | .deque | .bytearray | .userObj => true
  | _ => false

/-- does object identity carry information for this value (mutable objects only) -/
def identityBearing : Val → Bool
  | .lit (.shared _) => true
  | .zero a => atomMutable a
  | .product (.atom a) _ => atomMutable a
  | .product (.lam _) _ => true
  | _ => false

def sameJ (a b : Val) : Json :=
  if identityBearing a && identityBearing b then Json.bool (a = b) else Json.null

def pairsJ (l : List (DW.C16.Name × Val)) : Json :=
  Json.arr (l.map (fun e => Json.arr #[strJ e.1, valJ e.2])).toArray

def fieldSpecJ (f : FieldSpec) : Json :=
  Json.mkObj [("default", match f.dflt with | some v => valJ v | none => Json.str "MISSING"),
              ("factory", match f.factory with
                | some (.atom a) => Json.str (atomName a)
                | some (.lam k) => Json.mkObj [("lam", intJ k)]
                | none => Json.str "MISSING")]

def nsValJ : Option NsVal → Json
  | none => Json.str "absent"
  | some (.lit l) => Json.mkObj [("lit", litJ l)]
  | some (.field f i) => Json.mkObj [("field", fieldSpecJ f), ("init", Json.bool i)]
  | some (.prop o s w) => Json.mkObj [("prop", strJ o), ("settable", Json.bool s), ("wrapped", Json.bool w.isSome)]
  | some (.method n) => Json.mkObj [("method", strJ n)]

def kindJ (f : DField) : Json :=
  match f.dflt with
  | .required => Json.str "required"
  | .value .propObj => Json.str "property"
  | .value _ => Json.str "value"
  | .factory _ => Json.str "factory"

def cerrJ : CErr → Json
  | .typeError => Json.str "TypeError"
  | .attributeError => Json.str "AttributeError"

def instJ (i : Inst) : Json :=
  Json.mkObj [("log", pairsJ i.log), ("store", pairsJ i.store)]

def assignLoop (c0 : Cls) : List (DW.C16.Name × Val) → Inst → Nat → List Json → List Json
  | [], _, _, acc => acc.reverse
  | (n, v) :: r, i, c, acc =>
    match assign c0 i c n v with
    | .error e => assignLoop c0 r i c (cerrJ e :: acc)
    | .ok (i2, c2) =>
      assignLoop c0 r i2 c2 (Json.mkObj [("log", pairsJ (i2.log.drop i.log.length)),
                                         ("get", match get n i2.store with | some v => valJ v | none => Json.str "absent")] :: acc)

def zipSame : List (DW.C16.Name × Val) → List (DW.C16.Name × Val) → List Json
  | a :: r, b :: s => sameJ a.2 b.2 :: zipSame r s
  | _, _ => []

def runJ (c0 : Cls) (fs : List DField) (j : Json) : D Json := do
  let argsJ ← getArr j "args"
  let args ← argsJ.toList.mapM (fun p => do
    let a ← p.getArr?
    match a.toList with
    | [n, v] => do let n ← n.getStr?; let v ← valOf v; pure (n.toList, v)
    | _ => throw "bad arg pair")
  let asgJ := (getArr j "assign").toOption.getD #[]
  let asg ← asgJ.toList.mapM (fun p => do
    let a ← p.getArr?
    match a.toList with
    | [n, v] => do let n ← n.getStr?; let v ← valOf v; pure (n.toList, v)
    | _ => throw "bad assign pair")
  match construct c0 fs args 0 with
  | .error e => pure (Json.mkObj [("err", cerrJ e)])
  | .ok (i1, c1) =>
    match construct c0 fs args c1 with
    | .error e => pure (Json.mkObj [("err2", cerrJ e)])
    | .ok (i2, c2) =>
      pure (Json.mkObj [("first", instJ i1), ("second", instJ i2),
                        ("same", Json.arr (zipSame i1.log i2.log).toArray),
                        ("assign", Json.arr (assignLoop c0 asg i1 c2 []).toArray)])

def quirksOf (j : Json) : Quirks :=
  match j.getObjVal? "quirks" with
  | .ok qj => { underPlainKeepsFactory := getBoolD qj "underPlainKeepsFactory" false }
  | .error _ => {}

def handleC16 (j : Json) : Except String Json := do
  match j.getObjVal? "fn" with
  | .ok (Json.str "zero") =>
    let t ← j.getObjVal? "ty"
    let t ← tyOf t
    pure (match callZero t with
      | none => Json.str "TypeError"
      | some a => Json.mkObj [("zero", zeroJ a), ("lds", Json.bool a.isLDS)])
  | _ =>
    let q := quirksOf j
    let msJ ← getArr j "members"
    let ms ← msJ.toList.mapM memberOf
    let c0 := propertyWizard q ms
    let b := classDict ms
    let probeJ := (getArr j "probe").toOption.getD #[]
    let probe ← probeJ.toList.mapM (fun p => do let s ← p.getStr?; pure s.toList)
    let attrsJ := Json.arr (probe.map (fun n => Json.arr #[strJ n, nsValJ (get n c0.attrs)])).toArray
    let base : List (String × Json) :=
      [("anns", Json.arr ((keys c0.anns).map strJ).toArray), ("attrs", attrsJ),
       ("paired", Json.arr (((settableNames b.ns).filter (paired b.anns)).map strJ).toArray),
       ("independent", Json.bool (independent (settableNames b.ns)))]
    match dataclass c0 with
    | .error .typeError => pure (Json.mkObj (base ++ [("cls", Json.str "TypeError")]))
    | .error .valueError => pure (Json.mkObj (base ++ [("cls", Json.str "ValueError")]))
    | .ok fs =>
      let runsJ := (getArr j "runs").toOption.getD #[]
      let runs ← runsJ.toList.mapM (runJ c0 fs)
      pure (Json.mkObj (base ++
        [("cls", Json.str "ok"),
         ("fields", Json.arr (fs.map (fun f => strJ f.name)).toArray),
         ("params", Json.arr ((ctorParams fs).map (fun f => Json.arr #[strJ f.name, kindJ f])).toArray),
         ("runs", Json.arr runs.toArray)]))

end DW.Driver.C16

namespace DW.Driver
/-- entry point used by Main.lean -/
def handleC16 (j : Lean.Json) : Except String Lean.Json := DW.Driver.C16.handleC16 j
end DW.Driver
