import DW.Driver.GenLoad
import DW.Model.GenLoadV1

/- driver glue for the v1 load-function skeleton model (op "genloadv1") -/
namespace DW.Driver
open Lean DW.GenLoadV1
open DW.GenDump (PathPart)
open DW.GenLoad (Part)

private def vStrs (j : Json) : Except String (List DW.Names.S) := do
  (← lArr j).mapM (fun v => match v with | Json.str s => pure s.toList | _ => throw "bad name")

private def vKey (j : Json) : Except String Key :=
  match j with
  | Json.null => pure .field
  | Json.str s => pure (.lit s.toList)
  | _ => throw "bad key"

private def vPart (j : Json) : Except String PathPart :=
  match j with
  | Json.str s => pure (.str s.toList)
  | Json.bool b => pure (.bool b)
  | Json.num _ => do pure (.int (← getInt? j))
  | _ => throw "bad path part"

private def vPath (j : Json) : Except String (List PathPart) := do (← lArr j).mapM vPart

private def vLookup (j : Json) : Except String Lookup := do
  let k ← getStr j "kind"
  match String.ofList k with
  | "assign" => pure (.assign (← vKey ((j.getObjVal? "key").toOption.getD Json.null)))
  | "anyOf" => pure (.anyOf (← (← lArr (← j.getObjVal? "keys")).mapM vKey))
  | "pathAssign" => pure (.pathAssign (← vPath (← j.getObjVal? "path")))
  | "pathAnyOf" => pure (.pathAnyOf (← (← lArr (← j.getObjVal? "paths")).mapM vPath))
  | x => throw s!"bad lookup {x}"

private def vField (j : Json) : Except String VField := do
  pure { name := (← getStr j "name"), hasDefault := getBoolD j "hasDefault" false, lookup := (← vLookup (← j.getObjVal? "lookup")),
         expr := (← getStr j "expr"), exprReads := (← vStrs (← j.getObjVal? "exprReads")),
         exprWrites := (← vStrs (← j.getObjVal? "exprWrites")), exprBinds := (← vStrs (← j.getObjVal? "exprBinds")) }

def vInOf (j : Json) : Except String VIn := do
  let ca ← match (j.getObjVal? "catchAll").toOption.getD Json.null with
    | Json.arr a => match a.toList with
      | [Json.str n] => pure (CatchAll.dflt n.toList)
      | [Json.str n, i] => do pure (CatchAll.required n.toList (← getInt? i).toNat)
      | _ => throw "bad catchAll"
    | _ => pure CatchAll.none
  let unk ← match (j.getObjVal? "unknown").toOption.getD Json.null with
    | Json.str "raise" => pure Unknown.raise
    | Json.str "warn" => pure Unknown.warn
    | _ => pure Unknown.none
  let tk := match (j.getObjVal? "tagKey").toOption.getD Json.null with
    | Json.str s => some s.toList
    | _ => none
  pure { preFromDict := getBoolD j "preFromDict" false, otherDefaults := getBoolD j "otherDefaults" false, catchAll := ca,
         unknown := unk, tagKey := tk, fields := (← (← lArr ((j.getObjVal? "fields").toOption.getD (Json.arr #[]))).mapM vField) }

private def partJ (p : Part) : Json :=
  Json.mkObj [("text", strJ p.text), ("reads", strsJ' p.reads), ("writes", strsJ' p.writes)]

private def s0J : S0 → Json
  | .line parts => Json.mkObj [("kind", "line"), ("parts", Json.arr (parts.map partJ).toArray)]
  | .exit tx rs => Json.mkObj [("kind", "exit"), ("text", strJ tx), ("reads", strsJ' rs)]

private def s1J : S1 → List Json
  | .s0 s => [s0J s]
  | .ifc c cr cw _ body => Json.mkObj [("kind", "head"), ("text", strJ c), ("reads", strsJ' cr), ("writes", strsJ' cw)] :: body.map s0J

private def s2J : S2 → List Json
  | .s1 s => s1J s
  | .try_ body exc er asName handler =>
      body.flatMap s1J ++ (Json.mkObj [("kind", "head"), ("text", strJ exc), ("reads", strsJ' er),
        ("writes", strsJ' (match asName with | some n => [n] | none => []))] :: handler.map s0J)
  | .tryUnbound tx rs soft handler =>
      Json.mkObj [("kind", "exit"), ("text", strJ tx), ("reads", strsJ' (rs ++ soft))] ::
        Json.mkObj [("kind", "head"), ("text", strJ "UnboundLocalError".toList), ("reads", strsJ' ["UnboundLocalError".toList]), ("writes", strsJ' [])] ::
        handler.map s0J

/-- {"op":"genloadv1","nonprintable":[..],"vin":{…},"outer":[names]} ->
    {"code","binds","wellScoped","stmts":[…]} -/
def handleGenLoadV1 (j : Json) : Except String Json := do
  let np ← (← lArr ((j.getObjVal? "nonprintable").toOption.getD (Json.arr #[]))).mapM (fun v => do
    let i ← getInt? v
    pure i.toNat)
  let printable : Char → Bool := fun c => !np.contains c.toNat
  let g ← vInOf (← j.getObjVal? "vin")
  let outer ← vStrs ((j.getObjVal? "outer").toOption.getD (Json.arr #[]))
  pure (Json.mkObj [("code", strJ (genCode printable g)), ("binds", strsJ' (bindsAll printable g)),
    ("wellScoped", Json.bool (wellScoped printable g outer)), ("premises", Json.bool (premisesB g outer)), ("stmts", Json.arr ((genBody printable g).flatMap s2J).toArray)])

end DW.Driver
