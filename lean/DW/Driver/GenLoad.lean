import DW.Driver.Basic
import DW.Model.GenLoad

/- driver glue for the load-function generator model (op "genload") -/
namespace DW.Driver
open Lean DW.GenLoad
open DW.GenDump (PathPart)

def lArr (j : Json) : Except String (List Json) := do pure (← j.getArr?).toList

private def lPart (j : Json) : Except String PathPart :=
  match j with
  | Json.str s => pure (.str s.toList)
  | Json.bool b => pure (.bool b)
  | Json.num _ => do pure (.int (← getInt? j))
  | _ => throw "bad path part"

private def lPath (j : Json) : Except String PathLine := do
  let d ← getStr j "dflt"
  let dk : DefaultKind ← match String.ofList d with
    | "none" => pure DefaultKind.none | "value" => pure DefaultKind.value | "factory" => pure DefaultKind.factory
    | x => throw s!"bad dflt {x}"
  pure { field := (← getStr j "field"), path := (← (← lArr (← j.getObjVal? "path")).mapM lPart), dflt := dk }

def lInOf (j : Json) : Except String LIn := do
  let ca ← match (j.getObjVal? "catchAll").toOption.getD Json.null with
    | Json.arr a => match a.toList with
      | [Json.str n, Json.bool b] => pure (some (n.toList, b))
      | _ => throw "bad catchAll"
    | _ => pure none
  pure { preFromDict := getBoolD j "preFromDict" false, catchAll := ca, raiseOnUnknown := getBoolD j "raiseOnUnknown" false,
         paths := (← (← lArr ((j.getObjVal? "paths").toOption.getD (Json.arr #[]))).mapM lPath),
         loopOverO := getBoolD j "loopOverO" true, knownKeys := getBoolD j "knownKeys" false }

def strsJ' (l : List S) : Json := Json.arr (l.map strJ).toArray

mutual
partial def stmtJ : Stmt → List Json
  | .line parts => [Json.mkObj [("kind", "line"), ("parts", Json.arr (parts.map (fun p =>
      Json.mkObj [("text", strJ p.text), ("reads", strsJ' p.reads), ("writes", strsJ' p.writes)])).toArray)]]
  | .comment _ => []
  | .exit t rs => [Json.mkObj [("kind", "exit"), ("text", strJ t), ("reads", strsJ' rs)]]
  | .if_ c cr thn elifs els =>
      Json.mkObj [("kind", "head"), ("text", strJ ("if ".toList ++ c ++ [':'])), ("reads", strsJ' cr)] :: stmtsJ thn ++
      (elifs.flatMap (fun (c', cr', b) =>
        Json.mkObj [("kind", "head"), ("text", strJ ("elif ".toList ++ c' ++ [':'])), ("reads", strsJ' cr')] :: stmtsJ b)) ++
      (match els with | some e => stmtsJ e | none => [])
  | .for_ t it ir body =>
      Json.mkObj [("kind", "head"), ("text", strJ ("for ".toList ++ t ++ " in ".toList ++ it ++ [':'])), ("reads", strsJ' ir),
        ("writes", strsJ' [t])] :: stmtsJ body
  | .try_ body exc er asName handler =>
      stmtsJ body ++ (Json.mkObj [("kind", "head"), ("text", strJ ("except ".toList ++ exc ++
        (match asName with | some n => " as ".toList ++ n | none => []) ++ [':'])), ("reads", strsJ' er),
        ("writes", strsJ' (match asName with | some n => [n] | none => []))] :: stmtsJ handler)
partial def stmtsJ : List Stmt → List Json
  | [] => []
  | s :: r => stmtJ s ++ stmtsJ r
end

/-- {"op":"genload","nonprintable":[..],"lin":{…}} ->
    {"code","locals","globals","wellScoped","stmts":[{kind,text,reads,writes|parts}]} -/
def handleGenLoad (j : Json) : Except String Json := do
  let np ← (← lArr ((j.getObjVal? "nonprintable").toOption.getD (Json.arr #[]))).mapM (fun v => do
    let i ← getInt? v
    pure i.toNat)
  let printable : Char → Bool := fun c => !np.contains c.toNat
  let g ← lInOf (← j.getObjVal? "lin")
  pure (Json.mkObj [("code", strJ (genCode printable g)), ("locals", strsJ' (genLocals g)), ("globals", strsJ' (genGlobals g)),
    ("wellScoped", Json.bool (wellScoped printable g)), ("stmts", Json.arr (stmtsJ (genBody printable g)).toArray)])

end DW.Driver
