/- JSON-safety of dump results: definitions and the induction behind `C03_json_safe` (kept out of Props/C03.lean,
which states the property theorems only). -/
import DW.Lemmas.Dump

namespace DW.Props.C03
open DW

mutual
/-- JSON-safety of a dump result: no node the standard encoder would refuse. -/
def jsonSafe : DVal → Bool
  | .bad _ => false
  | .list xs => jsonSafeList xs
  | .tuple xs => jsonSafeList xs
  | .ntuple _ xs => jsonSafeList xs
  | .dict _ kvs => jsonSafePairs kvs
  | _ => true
def jsonSafeList : List DVal → Bool
  | [] => true
  | x :: xs => jsonSafe x && jsonSafeList xs
def jsonSafePairs : List (DVal × DVal) → Bool
  | [] => true
  | (k, v) :: r => jsonSafe k && jsonSafe v && jsonSafePairs r
end

/-- scalars of the value universe (no containers, no instances) -/
def _root_.DW.PyVal.isScalar : PyVal → Bool
  | .seq _ _ => false | .tuple _ => false | .map _ _ => false | .ntuple _ _ _ => false | .inst _ _ => false
  | _ => true

/-- Every scalar value of the universe (including instances of proper subclasses of the stdlib value
types) dumps to a JSON-safe scalar, in ISO and in TIMESTAMP mode, whenever the dump does not raise. -/
theorem scalar_json_safe (std : Std) (ts : Bool) (v : PyVal) (d : DVal) (hv : v.isScalar = true)
    (h : dumpScalar std ts v = .ok d) : jsonSafe d = true := by
  cases v with
  | none => simp [dumpScalar, pure, Except.pure] at h; subst h; rfl
  | bool b => simp [dumpScalar, pure, Except.pure] at h; subst h; rfl
  | int i => simp [dumpScalar, pure, Except.pure] at h; subst h; rfl
  | float f => simp [dumpScalar, pure, Except.pure] at h; subst h; rfl
  | str s => simp [dumpScalar, pure, Except.pure] at h; subst h; rfl
  | bytes m b => simp [dumpScalar, pure, Except.pure] at h; subst h; rfl
  | leaf k sub t =>
    cases k <;> cases ts <;> simp [dumpScalar, pure, Except.pure] at h <;>
      first
        | (subst h; rfl)
        | (split at h <;> first | (cases h; rfl) | (simp at h))
  | timedelta us => simp [dumpScalar, pure, Except.pure] at h; subst h; rfl
  | enum c m val => simp [dumpScalar, pure, Except.pure] at h; subst h; cases val <;> rfl
  | seq k xs => simp [PyVal.isScalar] at hv
  | tuple xs => simp [PyVal.isScalar] at hv
  | map k kvs => simp [PyVal.isScalar] at hv
  | ntuple c ns xs => simp [PyVal.isScalar] at hv
  | inst ci fs => simp [PyVal.isScalar] at hv


mutual
/-- catch-all dictionaries carry scalar keys (what `json.loads` produces); no other restriction -/
def wellKeyed : PyVal → Bool
  | .seq _ xs => wellKeyedList xs
  | .tuple xs => wellKeyedList xs
  | .ntuple _ _ xs => wellKeyedList xs
  | .map _ kvs => wellKeyedPairs kvs
  | .inst ci fs => wellKeyedFields ci fs
  | _ => true
def wellKeyedList : List PyVal → Bool
  | [] => true
  | x :: xs => wellKeyed x && wellKeyedList xs
def wellKeyedPairs : List (PyVal × PyVal) → Bool
  | [] => true
  | (k, v) :: r => wellKeyed k && wellKeyed v && wellKeyedPairs r
def wellKeyedFields : ClassInfo → List (S × PyVal) → Bool
  | _, [] => true
  | ci, (n, v) :: r =>
    (if ((ci.fields.find? (fun f => f.name == n)).getD { name := n }).isCatchAll then catchVal v else wellKeyed v)
      && wellKeyedFields ci r
def catchVal : PyVal → Bool
  | .map _ kvs => catchKeys kvs
  | _ => true
def catchKeys : List (PyVal × PyVal) → Bool
  | [] => true
  | (k, v) :: r =>
    (match k with | .str _ => true | .int _ => true | .bool _ => true | .none => true | _ => false)
      && wellKeyed v && catchKeys r
end

theorem jsonSafePairs_append (a b : List (DVal × DVal)) :
    jsonSafePairs (a ++ b) = (jsonSafePairs a && jsonSafePairs b) := by
  induction a with
  | nil => simp [jsonSafePairs]
  | cons x r ih => obtain ⟨k, v⟩ := x; simp [jsonSafePairs, ih, Bool.and_assoc]

theorem seq_hook (k : SeqKind) : hookFor (.seq k []) = .listOrTuple ∨ hookFor (.seq k []) = .iterable := by
  cases k <;> simp

theorem map_hook (k : MapKind) : hookFor (.map k []) = .dict ∨ hookFor (.map k []) = .defaultdict := by
  cases k <;> simp

theorem scalar_safe (std : Std) (ts : Bool) (v : PyVal) (d : DVal) (hv : v.isScalar = true)
    (h : dumpScalar std ts v = .ok d) : jsonSafe d = true := scalar_json_safe std ts v d hv h

theorem fields_step_map (std : Std) (ts : Bool) (cfg : Option MetaCfg) (eff : MetaCfg) (args : DumpArgs) (ci : ClassInfo)
    (nm : S) (k : MapKind) (kvs : List (PyVal × PyVal)) (rest : List (S × PyVal)) (ds : List (DVal × DVal))
    (ihR : ∀ more, dumpFields std ts cfg eff args ci rest = .ok more → jsonSafePairs more = true)
    (ihV' : wellKeyed (.map k kvs) = true → ∀ dv, dumpV std ts cfg (.map k kvs) = .ok dv → jsonSafe dv = true)
    (ihC' : catchKeys kvs = true → ∀ here, dumpCatchAll std ts cfg kvs = .ok here → jsonSafePairs here = true)
    (hw : (if ((ci.fields.find? (fun f => f.name == nm)).getD { name := nm }).isCatchAll = true then catchVal (.map k kvs)
            else wellKeyed (.map k kvs)) = true)
    (h : dumpFields std ts cfg eff args ci ((nm, .map k kvs) :: rest) = .ok ds) : jsonSafePairs ds = true := by
  rw [dumpFields] at h
  simp only [bind, Except.bind, pure, Except.pure] at h
  by_cases hc : ((ci.fields.find? (fun f => f.name == nm)).getD { name := nm }).isCatchAll = true
  · rw [if_pos hc] at h hw
    simp only [catchVal] at h hw
    repeat' split at h
    all_goals first
      | (simp at h; done)
      | (simp only [Except.ok.injEq] at h; subst h; simp_all [jsonSafePairs_append, jsonSafePairs])
  · rw [if_neg hc] at h hw
    repeat' split at h
    all_goals first
      | (simp at h; done)
      | (simp only [Except.ok.injEq] at h; subst h; simp_all [jsonSafePairs_append, jsonSafePairs, jsonSafe])

theorem fields_step_other (std : Std) (ts : Bool) (cfg : Option MetaCfg) (eff : MetaCfg) (args : DumpArgs) (ci : ClassInfo)
    (nm : S) (v : PyVal) (hnm : ∀ (k : MapKind) (kvs : List (PyVal × PyVal)), v = .map k kvs → False)
    (rest : List (S × PyVal)) (ds : List (DVal × DVal))
    (ihR : ∀ more, dumpFields std ts cfg eff args ci rest = .ok more → jsonSafePairs more = true)
    (ihV' : wellKeyed v = true → ∀ dv, dumpV std ts cfg v = .ok dv → jsonSafe dv = true)
    (hw : (if ((ci.fields.find? (fun f => f.name == nm)).getD { name := nm }).isCatchAll = true then catchVal v
            else wellKeyed v) = true)
    (h : dumpFields std ts cfg eff args ci ((nm, v) :: rest) = .ok ds) : jsonSafePairs ds = true := by
  rw [dumpFields] at h
  · simp only [bind, Except.bind, pure, Except.pure] at h
    by_cases hc : ((ci.fields.find? (fun f => f.name == nm)).getD { name := nm }).isCatchAll = true
    · rw [if_pos hc] at h
      repeat' split at h
      all_goals first
        | (simp at h; done)
        | (simp only [Except.ok.injEq] at h; subst h; simp_all [jsonSafePairs_append, jsonSafePairs])
    · rw [if_neg hc] at h hw
      repeat' split at h
      all_goals first
        | (simp at h; done)
        | (simp only [Except.ok.injEq] at h; subst h; simp_all [jsonSafePairs_append, jsonSafePairs, jsonSafe])
  · exact hnm

/-- all five statements at once, by induction on a bound for the size of the value -/
theorem safe_aux (std : Std) (cfg : Option MetaCfg) : ∀ (n : Nat),
    (∀ (ts : Bool) (v : PyVal) (d : DVal), sizeOf v < n → wellKeyed v = true → dumpV std ts cfg v = .ok d → jsonSafe d = true) ∧
    (∀ (ts : Bool) (xs : List PyVal) (ds : List DVal), sizeOf xs < n → wellKeyedList xs = true → dumpList std ts cfg xs = .ok ds → jsonSafeList ds = true) ∧
    (∀ (ts : Bool) (kvs : List (PyVal × PyVal)) (ds : List (DVal × DVal)), sizeOf kvs < n → wellKeyedPairs kvs = true →
      dumpPairs std ts cfg kvs = .ok ds → jsonSafePairs ds = true) ∧
    (∀ (ts : Bool) (kvs : List (PyVal × PyVal)) (ds : List (DVal × DVal)), sizeOf kvs < n → catchKeys kvs = true →
      dumpCatchAll std ts cfg kvs = .ok ds → jsonSafePairs ds = true) ∧
    (∀ (ts : Bool) (eff : MetaCfg) (args : DumpArgs) (ci : ClassInfo) (fs : List (S × PyVal)) (ds : List (DVal × DVal)), sizeOf fs < n →
      wellKeyedFields ci fs = true → dumpFields std ts cfg eff args ci fs = .ok ds → jsonSafePairs ds = true)
  | 0 => ⟨fun _ _ _ h => absurd h (Nat.not_lt_zero _), fun _ _ _ h => absurd h (Nat.not_lt_zero _), fun _ _ _ h => absurd h (Nat.not_lt_zero _),
          fun _ _ _ h => absurd h (Nat.not_lt_zero _), fun _ _ _ _ _ _ h => absurd h (Nat.not_lt_zero _)⟩
  | n + 1 => by
    obtain ⟨ihV, ihL, ihP, ihC, ihF⟩ := safe_aux std cfg n
    refine ⟨?_, ?_, ?_, ?_, ?_⟩
    · -- dumpV
      intro ts v d hs hw h
      cases v with
      | inst ci fields =>
        simp only [dumpV, bind, Except.bind] at h
        split at h
        · simp at h
        · next body hb =>
          simp only [pure, Except.pure, Except.ok.injEq] at h
          subst h
          have := ihF (((effMeta ci.cmeta cfg).marshalTimestamp).getD false) (effMeta ci.cmeta cfg) {} ci fields body
            (by simp at hs; omega) (by simpa [wellKeyed] using hw) hb
          unfold finishInst
          split <;> simp [jsonSafe, jsonSafePairs_append, jsonSafePairs, this]
      | ntuple c ns xs =>
        simp only [dumpV, bind, Except.bind] at h
        split at h
        · simp at h
        · next ys hy =>
          simp only [pure, Except.pure, Except.ok.injEq] at h
          subst h
          simpa [jsonSafe] using ihL ts xs ys (by simp at hs; omega) (by simpa [wellKeyed] using hw) hy
      | seq k xs =>
        simp only [dumpV, bind, Except.bind] at h
        split at h
        · simp at h
        · next ys hy =>
          have hsafe := ihL ts xs ys (by simp at hs; omega) (by simpa [wellKeyed] using hw) hy
          rcases seq_hook k with hk | hk <;> (rw [hk] at h; simp only [pure, Except.pure, Except.ok.injEq] at h; subst h; simpa [jsonSafe] using hsafe)
      | tuple xs =>
        simp only [dumpV, bind, Except.bind] at h
        split at h
        · simp at h
        · next ys hy =>
          have hsafe := ihL ts xs ys (by simp at hs; omega) (by simpa [wellKeyed] using hw) hy
          rw [hookFor_tuple] at h
          simp only [pure, Except.pure, Except.ok.injEq] at h
          subst h; simpa [jsonSafe] using hsafe
      | map k kvs =>
        simp only [dumpV, bind, Except.bind] at h
        split at h
        · simp at h
        · next ys hy =>
          have hsafe := ihP ts kvs ys (by simp at hs; omega) (by simpa [wellKeyed] using hw) hy
          rcases map_hook k with hk | hk <;> (rw [hk] at h; simp only [pure, Except.pure, Except.ok.injEq] at h; subst h; simpa [jsonSafe] using hsafe)
      | none => exact scalar_safe std ts _ d rfl (by simpa [dumpV] using h)
      | bool b => exact scalar_safe std ts _ d rfl (by simpa [dumpV] using h)
      | int i => exact scalar_safe std ts _ d rfl (by simpa [dumpV] using h)
      | float f => exact scalar_safe std ts _ d rfl (by simpa [dumpV] using h)
      | str s => exact scalar_safe std ts _ d rfl (by simpa [dumpV] using h)
      | bytes m b => exact scalar_safe std ts _ d rfl (by simpa [dumpV] using h)
      | leaf k sub t => exact scalar_safe std ts _ d rfl (by simpa [dumpV] using h)
      | timedelta us => exact scalar_safe std ts _ d rfl (by simpa [dumpV] using h)
      | enum c m val => exact scalar_safe std ts _ d rfl (by simpa [dumpV] using h)
    · -- dumpList
      intro ts xs ds hs hw h
      cases xs with
      | nil => simp only [dumpList, pure, Except.pure, Except.ok.injEq] at h; subst h; rfl
      | cons x xs =>
        simp only [wellKeyedList, Bool.and_eq_true] at hw
        simp only [dumpList, bind, Except.bind] at h
        split at h
        · simp at h
        · next y hy =>
          split at h
          · simp at h
          · next ys hys =>
            simp only [pure, Except.pure, Except.ok.injEq] at h; subst h
            simp [jsonSafeList, ihV ts x y (by simp at hs; omega) hw.1 hy, ihL ts xs ys (by simp at hs; omega) hw.2 hys]
    · -- dumpPairs
      intro ts kvs ds hs hw h
      cases kvs with
      | nil => simp only [dumpPairs, pure, Except.pure, Except.ok.injEq] at h; subst h; rfl
      | cons kv r =>
        obtain ⟨k, v⟩ := kv
        simp only [wellKeyedPairs, Bool.and_eq_true] at hw
        simp only [dumpPairs, bind, Except.bind] at h
        split at h
        · simp at h
        · next k' hk =>
          split at h
          · simp at h
          · next v' hv =>
            split at h
            · simp at h
            · next r' hr =>
              simp only [pure, Except.pure, Except.ok.injEq] at h; subst h
              simp [jsonSafePairs, ihV ts k k' (by simp at hs; omega) hw.1.1 hk, ihV ts v v' (by simp at hs; omega) hw.1.2 hv,
                ihP ts r r' (by simp at hs; omega) hw.2 hr]
    · -- dumpCatchAll
      intro ts kvs ds hs hw h
      cases kvs with
      | nil => simp only [dumpCatchAll, pure, Except.pure, Except.ok.injEq] at h; subst h; rfl
      | cons kv r =>
        obtain ⟨k, v⟩ := kv
        simp only [catchKeys, Bool.and_eq_true] at hw
        simp only [dumpCatchAll, bind, Except.bind] at h
        split at h
        · simp at h
        · next v' hv =>
          split at h
          · simp at h
          · next r' hr =>
            simp only [pure, Except.pure, Except.ok.injEq] at h; subst h
            have h1 := ihV ts v v' (by simp at hs; omega) hw.1.2 hv
            have h2 := ihC ts r r' (by simp at hs; omega) hw.2 hr
            have h0 := hw.1.1
            cases k <;> simp_all [jsonSafePairs, jsonSafe]
    · -- dumpFields
      intro ts eff args ci fs ds hs hw h
      cases fs with
      | nil => simp only [dumpFields, pure, Except.pure, Except.ok.injEq] at h; subst h; rfl
      | cons nv rest =>
        obtain ⟨nm, v⟩ := nv
        simp only [wellKeyedFields, Bool.and_eq_true] at hw
        have hs1 : sizeOf rest < n := by simp at hs; omega
        have hs2 : sizeOf v < n := by simp at hs; omega
        have ihR : ∀ more, dumpFields std ts cfg eff args ci rest = .ok more → jsonSafePairs more = true :=
          fun more hm => ihF ts eff args ci rest more hs1 hw.2 hm
        have ihV' : wellKeyed v = true → ∀ dv, dumpV std ts cfg v = .ok dv → jsonSafe dv = true :=
          fun hwv dv hdv => ihV ts v dv hs2 hwv hdv
        cases v with
        | map k kvs =>
          exact fields_step_map std ts cfg eff args ci nm k kvs rest ds ihR ihV'
            (fun hck here hh => ihC ts kvs here (by simp at hs2; omega) hck hh) hw.1 h
        | _ =>
          exact fields_step_other std ts cfg eff args ci nm _ (by intro k kvs hv; cases hv) rest ds ihR ihV' hw.1 h

theorem dumpV_safe (std : Std) (cfg : Option MetaCfg) (ts : Bool) (v : PyVal) (d : DVal)
    (hw : wellKeyed v = true) (h : dumpV std ts cfg v = .ok d) : jsonSafe d = true :=
  (safe_aux std cfg (sizeOf v + 1)).1 ts v d (Nat.lt_succ_self _) hw h

end DW.Props.C03
