/- Lemmas about DW.Names: hex digits, the string-literal reader, decimal digits. -/
import DW.Model.Names
namespace DW.Names

theorem hexVal_hexDigit : ∀ n : Fin 16, hexVal (hexDigit n) = some n.val := by decide

theorem ofHex_append (acc : Nat) (xs ys : S) :
    ofHex acc (xs ++ ys) = (ofHex acc xs).bind (fun a => ofHex a ys) := by
  induction xs generalizing acc with
  | nil => simp [ofHex]
  | cons c r ih =>
    simp only [List.cons_append, ofHex]
    cases hexVal c with
    | none => simp
    | some d => simp [ih]

theorem ofHex_toHex (k : Nat) : ∀ (n acc : Nat), n < 16 ^ k → ofHex acc (toHex k n) = some (acc * 16 ^ k + n) := by
  induction k with
  | zero => intro n acc h; simp at h; simp [toHex, ofHex, h]
  | succ k ih =>
    intro n acc h
    have h1 : n / 16 < 16 ^ k := by
      rw [Nat.pow_succ] at h
      exact Nat.div_lt_of_lt_mul (by omega)
    have h2 : n % 16 < 16 := Nat.mod_lt _ (by omega)
    have hd := hexVal_hexDigit ⟨n % 16, h2⟩
    simp only at hd
    rw [toHex, ofHex_append, ih _ _ h1]
    simp only [Option.bind_some, ofHex, hd]
    congr 1
    rw [Nat.pow_succ]
    have := Nat.div_add_mod n 16
    rw [Nat.add_mul, Nat.mul_assoc, Nat.add_assoc]
    congr 1
    omega

theorem unq_x (q a b : Char) (r : S) : unq q ('\\' :: 'x' :: a :: b :: r) = hexCons (ofHex 0 [a, b]) (unq q r) := by
  rw [unq]
theorem unq_u (q a b c d : Char) (r : S) : unq q ('\\' :: 'u' :: a :: b :: c :: d :: r) = hexCons (ofHex 0 [a, b, c, d]) (unq q r) := by
  rw [unq]
theorem unq_U (q a b c d e f g h : Char) (r : S) : unq q ('\\' :: 'U' :: a :: b :: c :: d :: e :: f :: g :: h :: r) =
    hexCons (ofHex 0 [a, b, c, d, e, f, g, h]) (unq q r) := by
  rw [unq]
theorem unq_bs (q x : Char) (r : S) (h1 : x ≠ 'x') (h2 : x ≠ 'u') (h3 : x ≠ 'U') :
    unq q ('\\' :: x :: r) = chCons (simpleEsc x) (unq q r) := by
  rw [unq]
  all_goals (intros; simp_all)
theorem unq_plain (q c : Char) (r : S) (h : c ≠ '\\') :
    unq q (c :: r) = if c = q then (if r = [] then some [] else none) else if c = '\n' then none else chCons (some c) (unq q r) := by
  rw [unq]
  all_goals (intros; simp_all)

theorem toHex2 (n : Nat) : toHex 2 n = [hexDigit (n / 16 % 16), hexDigit (n % 16)] := by
  simp [toHex]
theorem toHex4 (n : Nat) : toHex 4 n = [hexDigit (n / 16 / 16 / 16 % 16), hexDigit (n / 16 / 16 % 16), hexDigit (n / 16 % 16), hexDigit (n % 16)] := by
  simp [toHex]
theorem toHex8 (n : Nat) : toHex 8 n = [hexDigit (n / 16 / 16 / 16 / 16 / 16 / 16 / 16 % 16), hexDigit (n / 16 / 16 / 16 / 16 / 16 / 16 % 16),
    hexDigit (n / 16 / 16 / 16 / 16 / 16 % 16), hexDigit (n / 16 / 16 / 16 / 16 % 16),
    hexDigit (n / 16 / 16 / 16 % 16), hexDigit (n / 16 / 16 % 16), hexDigit (n / 16 % 16), hexDigit (n % 16)] := by
  simp [toHex]

theorem chCons_some (c : Char) (t : Option S) : chCons (some c) t = t.map (c :: ·) := by
  cases t <;> rfl

theorem hexCons_some (n : Nat) (t : Option S) : hexCons (some n) t = t.map (Char.ofNat n :: ·) := by
  cases t <;> rfl

theorem char_ofNat_toNat (c : Char) : Char.ofNat c.toNat = c := by
  simp

theorem toNat_ne_of (c d : Char) (h : c.toNat ≠ d.toNat) : c ≠ d := by
  intro e; exact h (by rw [e])

theorem char_lt (c : Char) : c.toNat < 16 ^ 8 := by
  have := c.valid
  have h : c.toNat < 1114112 := by
    rcases this with h | h
    · have : c.val.toNat < 55296 := h
      show c.val.toNat < 1114112
      omega
    · exact h.2
  omega

/-- reading back one escaped character -/
theorem unq_esc (p : Char → Bool) (q : Char) (hq : q = '\'' ∨ q = '"') (c : Char) (rest : S) :
    unq q (esc p q c ++ rest) = (unq q rest).map (c :: ·) := by
  have hx2 : ∀ n, n < 256 → ofHex 0 (toHex 2 n) = some n := fun n h => by
    have := ofHex_toHex 2 n 0 (by omega); simpa using this
  have hx4 : ∀ n, n < 65536 → ofHex 0 (toHex 4 n) = some n := fun n h => by
    have := ofHex_toHex 4 n 0 (by omega); simpa using this
  have hx8 : ∀ n, n < 16 ^ 8 → ofHex 0 (toHex 8 n) = some n := fun n h => by
    have := ofHex_toHex 8 n 0 h; simpa using this
  unfold esc
  by_cases h1 : c = q ∨ c = '\\'
  · rw [if_pos h1]
    have hs : simpleEsc c = some c := by
      rcases h1 with h | h
      · rcases hq with hq | hq <;> (subst h; subst hq; decide)
      · subst h; decide
    have hne : c ≠ 'x' ∧ c ≠ 'u' ∧ c ≠ 'U' := by
      rcases h1 with h | h
      · rcases hq with hq | hq <;> (subst h; subst hq; decide)
      · subst h; decide
    show unq q ('\\' :: c :: rest) = _
    rw [unq_bs q c rest hne.1 hne.2.1 hne.2.2, hs, chCons_some]
  · rw [if_neg h1]
    have hcq : c ≠ q := fun e => h1 (Or.inl e)
    have hcb : c ≠ '\\' := fun e => h1 (Or.inr e)
    by_cases h2 : c = '\t'
    · subst h2; rw [if_pos rfl]
      show unq q ('\\' :: 't' :: rest) = _
      rw [unq_bs q 't' rest (by decide) (by decide) (by decide), show simpleEsc 't' = some '\t' from by decide, chCons_some]
    rw [if_neg h2]
    by_cases h3 : c = '\n'
    · subst h3; rw [if_pos rfl]
      show unq q ('\\' :: 'n' :: rest) = _
      rw [unq_bs q 'n' rest (by decide) (by decide) (by decide), show simpleEsc 'n' = some '\n' from by decide, chCons_some]
    rw [if_neg h3]
    by_cases h4 : c = '\r'
    · subst h4; rw [if_pos rfl]
      show unq q ('\\' :: 'r' :: rest) = _
      rw [unq_bs q 'r' rest (by decide) (by decide) (by decide), show simpleEsc 'r' = some '\r' from by decide, chCons_some]
    rw [if_neg h4]
    have plain : unq q (c :: rest) = (unq q rest).map (c :: ·) := by
      rw [unq_plain q c rest hcb, if_neg hcq, if_neg h3, chCons_some]
    have hexx : c.toNat < 256 → unq q (('\\' :: 'x' :: toHex 2 c.toNat) ++ rest) = (unq q rest).map (c :: ·) := by
      intro hlt
      have := hx2 c.toNat hlt
      rw [toHex2] at this ⊢
      show unq q ('\\' :: 'x' :: _ :: _ :: rest) = _
      rw [unq_x, this, hexCons_some, char_ofNat_toNat]
    by_cases h5 : c.toNat < 32 ∨ c.toNat = 127
    · rw [if_pos h5]; exact hexx (by omega)
    rw [if_neg h5]
    by_cases h6 : c.toNat < 127
    · rw [if_pos h6]; exact plain
    rw [if_neg h6]
    by_cases h7 : p c = true
    · rw [if_pos h7]; exact plain
    rw [if_neg h7]
    by_cases h8 : c.toNat < 256
    · rw [if_pos h8]; exact hexx h8
    rw [if_neg h8]
    by_cases h9 : c.toNat < 65536
    · rw [if_pos h9]
      have := hx4 c.toNat h9
      rw [toHex4] at this ⊢
      show unq q ('\\' :: 'u' :: _ :: _ :: _ :: _ :: rest) = _
      rw [unq_u, this, hexCons_some, char_ofNat_toNat]
    · rw [if_neg h9]
      have := hx8 c.toNat (char_lt c)
      rw [toHex8] at this ⊢
      show unq q ('\\' :: 'U' :: _ :: _ :: _ :: _ :: _ :: _ :: _ :: _ :: rest) = _
      rw [unq_U, this, hexCons_some, char_ofNat_toNat]

theorem unq_escAll (p : Char → Bool) (q : Char) (hq : q = '\'' ∨ q = '"') (s : S) :
    unq q (escAll p q s ++ [q]) = some s := by
  induction s with
  | nil =>
    have : q ≠ '\\' := by rcases hq with h | h <;> (subst h; decide)
    simp [escAll, unq_plain q q [] this]
  | cons c r ih =>
    simp only [escAll, List.append_assoc]
    rw [unq_esc p q hq, ih]
    rfl

theorem repr_roundtrip (p : Char → Bool) (s : S) : pyUnquote (pyRepr p s) = some s := by
  unfold pyRepr pyUnquote
  have hq : quoteOf s = '\'' ∨ quoteOf s = '"' := by
    unfold quoteOf; split <;> simp
  simp only [hq, if_true]
  exact unq_escAll p _ hq s

end DW.Names
