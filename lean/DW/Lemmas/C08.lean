/- Helper lemmas for the C08 alias theorems (model: DW/Model/Alias.lean). -/
import DW.Model.Alias

namespace DW.C08
open DW.Str DW.ObjPath DW.Alias

/-! ### ordered alias lookup -/

theorem findAlias_nil (get : Key → Option Doc) : findAlias get [] = none := rfl

theorem findAlias_cons (get : Key → Option Doc) (a : S) (r : List S) :
    findAlias get (a :: r) = match get (.str a) with
      | some d => some d
      | none => findAlias get r := by
  cases h : get (.str a) <;> simp [findAlias, h]

theorem findAlias_none (get : Key → Option Doc) (as : List S) (h : ∀ b ∈ as, get (.str b) = none) :
    findAlias get as = none := by
  induction as with
  | nil => rfl
  | cons a r ih =>
    rw [findAlias_cons, h a (by simp)]
    exact ih (fun b hb => h b (by simp [hb]))

theorem findAlias_first (get : Key → Option Doc) (pre : List S) (a : S) (post : List S) (v : Doc)
    (hpre : ∀ b ∈ pre, get (.str b) = none) (ha : get (.str a) = some v) :
    findAlias get (pre ++ a :: post) = some v := by
  induction pre with
  | nil => simp [findAlias_cons, ha]
  | cons b r ih =>
    simp only [List.cons_append]
    rw [findAlias_cons, hpre b (by simp)]
    exact ih (fun c hc => hpre c (by simp [hc]))

/-! ### the lookup does not depend on the order of the document's keys -/

/-- no two entries of the document have (Python-)equal keys — always true of a real `dict` -/
def KeysDistinct (kvs : List (Key × Doc)) : Prop := kvs.Pairwise (fun a b => a.1.same b.1 = false)

theorem same_symm (a b : Key) : a.same b = b.same a := by
  simp only [Key.same]
  by_cases h : a.norm = b.norm
  · simp [h]
  · have : ¬ b.norm = a.norm := fun h' => h h'.symm
    simp [h, this]

theorem same_trans_false {a b k : Key} (ha : a.same k = true) (hb : b.same k = true) : a.same b = true := by
  simp only [Key.same, decide_eq_true_eq] at *
  rw [ha, hb]

theorem objGet_cons (x : Key × Doc) (r : List (Key × Doc)) (k : Key) :
    objGet (x :: r) k = if x.1.same k then some x.2 else objGet r k := by
  cases x; rfl

theorem keysDistinct_perm {l l' : List (Key × Doc)} (hp : l.Perm l') : KeysDistinct l ↔ KeysDistinct l' := by
  unfold KeysDistinct
  apply List.Perm.pairwise_iff _ hp
  intro x y h
  rw [same_symm]; exact h

theorem objGet_perm {kvs kvs' : List (Key × Doc)} (hp : kvs.Perm kvs') (hd : KeysDistinct kvs) (k : Key) :
    objGet kvs k = objGet kvs' k := by
  induction hp with
  | nil => rfl
  | cons x _ ih =>
    rw [objGet_cons, objGet_cons]
    have hd' := (List.pairwise_cons.mp hd).2
    rw [ih hd']
  | swap x y l =>
    rw [objGet_cons, objGet_cons, objGet_cons, objGet_cons]
    by_cases hx : x.1.same k = true
    · by_cases hy : y.1.same k = true
      · -- both keys equal `k`: impossible in a dict
        have hxy : y.1.same x.1 = true := same_trans_false hy hx
        have hd1 := (List.pairwise_cons.mp hd).1 x (by simp)
        rw [hd1] at hxy
        exact absurd hxy (by simp)
      · simp [hx, hy]
    · by_cases hy : y.1.same k = true
      · simp [hx, hy]
      · simp [hx, hy]
  | trans h1 _ ih1 ih2 =>
    rw [ih1 hd, ih2 ((keysDistinct_perm h1).mp hd)]

theorem pathGet_congr {kvs kvs' : List (Key × Doc)} (h : ∀ k, objGet kvs k = objGet kvs' k)
    (p : List Key) (hp : p ≠ []) : pathGet (.obj kvs) p = pathGet (.obj kvs') p := by
  cases p with
  | nil => exact absurd rfl hp
  | cons c r => simp [pathGet, stepGet, h]

theorem findPath_congr {kvs kvs' : List (Key × Doc)} (h : ∀ k, objGet kvs k = objGet kvs' k) (b : Bool)
    (ps : List (List Key)) (hps : ∀ p ∈ ps, p ≠ []) :
    findPath (.obj kvs) b ps = findPath (.obj kvs') b ps := by
  induction ps with
  | nil => rfl
  | cons p r ih =>
    have hp := pathGet_congr h p (hps p (by simp))
    have ih' := ih (fun q hq => hps q (by simp [hq]))
    cases r with
    | nil => simp [findPath, hp]
    | cons q r' => simp [findPath, hp, ih']

theorem mapM_option_congr {α β : Type} {f g : α → Option β} {l : List α} (h : ∀ a ∈ l, f a = g a) :
    l.mapM f = l.mapM g := by
  induction l with
  | nil => rfl
  | cons a r ih =>
    simp only [List.mapM_cons]
    rw [h a (by simp), ih (fun b hb => h b (by simp [hb]))]

end DW.C08
